------------------------------ MODULE CTypes ------------------------------
(* The C type universe of the three cproc targets and the DECLARATIVE typing   *)
(* rules of C11 (property C05).  Constant-level module: no variables.          *)
(*                                                                             *)
(* A type is a record with field k (kind) and q (its own top-level qualifiers, *)
(* a subset of {"const","volatile","restrict"}):                               *)
(*   basic     [k |-> "int", q]            k in BasicKinds \cup {"void"}       *)
(*   enum      [k |-> "enum", tag, q]      EnumBase(tag) = compatible int kind *)
(*   struct    [k |-> "struct"|"union", tag, q]                                *)
(*   pointer   [k |-> "ptr", to, q]                                            *)
(*   array     [k |-> "arr", of, n, q]     n = 0: unknown size; q always {}    *)
(*                                         (6.7.3p9: qualifiers belong to the   *)
(*                                         element type)                        *)
(*   function  [k |-> "fn", ret, ps, va, q] ps = sequence of declared param     *)
(*                                         types (prototype; C11's empty ()    *)
(*                                         declarators are outside the model)  *)
(* An operand/expression descriptor is [t, w, lv, npc]: type (with qualifiers  *)
(* if lvalue), bit-field width (0 = not a bit-field), lvalue?, null pointer     *)
(* constant?                                                                    *)
(*                                                                             *)
(* Clause numbers refer to ISO/IEC 9899:2011.  Where C11 leaves a choice to    *)
(* the implementation the choice of the platform ABI (= gcc/clang on           *)
(* x86_64/aarch64/riscv64-linux-gnu) is written down and marked IMPL-DEFINED.   *)
EXTENDS Naturals, Integers, Sequences, FiniteSets, TLC

(* ------------------------------------------------------------------------ *)
(* Targets (cproc -t names).  All three are LP64.                             *)
Targets == {"x86_64-sysv", "aarch64", "riscv64"}
CharIsSigned(targ) == targ = "x86_64-sysv"                  \* IMPL-DEFINED 6.2.5p15 (psABIs)
WCharKind(targ) == IF targ = "aarch64" THEN "uint" ELSE "int"   \* IMPL-DEFINED wchar_t (psABIs)
Char16Kind == "ushort"      \* char16_t = uint_least16_t (7.28)
Char32Kind == "uint"        \* char32_t = uint_least32_t
SizeTKind == "ulong"        \* size_t on all three targets
PtrDiffKind == "long"       \* ptrdiff_t on all three targets

(* ------------------------------------------------------------------------ *)
(* Basic kinds                                                                *)
SignedIntKinds == {"schar", "short", "int", "long", "llong"}
UnsignedIntKinds == {"bool", "uchar", "ushort", "uint", "ulong", "ullong"}
IntKinds == SignedIntKinds \cup UnsignedIntKinds \cup {"char"}
FloatKinds == {"float", "double", "ldouble"}
BasicKinds == IntKinds \cup FloatKinds

KindSize(k) ==
  CASE k \in {"bool", "char", "schar", "uchar"} -> 1
    [] k \in {"short", "ushort"} -> 2
    [] k \in {"int", "uint", "float"} -> 4
    [] k \in {"long", "ulong", "llong", "ullong", "double"} -> 8
    [] k = "ldouble" -> 16

KindSigned(k, targ) == k \in SignedIntKinds \/ (k = "char" /\ CharIsSigned(targ))

(* 6.3.1.1p1 integer conversion rank *)
KindRank(k) ==
  CASE k = "bool" -> 0
    [] k \in {"char", "schar", "uchar"} -> 1
    [] k \in {"short", "ushort"} -> 2
    [] k \in {"int", "uint"} -> 3
    [] k \in {"long", "ulong"} -> 4
    [] k \in {"llong", "ullong"} -> 5

(* 6.2.5p6 corresponding unsigned type of a signed integer type *)
ToUnsignedKind(k) ==
  CASE k = "schar" -> "uchar" [] k = "short" -> "ushort" [] k = "int" -> "uint"
    [] k = "long" -> "ulong" [] k = "llong" -> "ullong"

(* ------------------------------------------------------------------------ *)
(* Enumerated types of the universe.  IMPL-DEFINED 6.7.2.2p4: the compatible  *)
(* type is unsigned int when no enumerator is negative, else int (gcc/clang    *)
(* ABI convention).  "eul"/"el" have enumerators outside the range of int      *)
(* (GNU extension / C23): first of (unsigned) long, long long that fits.       *)
(* "efs"/"efuc" have a fixed underlying type (C23 6.7.2.2).                     *)
(* "ef_<kind>": an enumeration with fixed underlying type <kind> (used by the trace *)
(* validation, where enum types are logged as "enum:<kind>").                       *)
ProbeEnumTags == {"eu", "eu2", "es", "es2", "eul", "eul2", "el", "efs", "efuc"}
EnumTags == ProbeEnumTags \cup {"ef_" \o k : k \in {"bool", "char", "schar", "uchar", "short", "ushort", "int", "uint", "long", "ulong", "llong", "ullong"}}
EnumBase(tag) ==
  CASE Len(tag) > 3 /\ SubSeq(tag, 1, 3) = "ef_" -> SubSeq(tag, 4, Len(tag))
    [] tag \in {"eu", "eu2"} -> "uint"
    [] tag \in {"es", "es2"} -> "int"
    [] tag \in {"eul", "eul2"} -> "ulong"
    [] tag = "el" -> "long"
    [] tag = "efs" -> "short"
    [] tag = "efuc" -> "uchar"
EnumIsC11(tag) == tag \in {"eu", "eu2", "es", "es2"}      \* all enumerators representable as int (6.7.2.2p2)
EnumIsFixed(tag) == tag \in {"efs", "efuc"} \/ (Len(tag) > 3 /\ SubSeq(tag, 1, 3) = "ef_")

(* ------------------------------------------------------------------------ *)
(* Constructors                                                               *)
Quals == {"const", "volatile", "restrict"}
B(k) == [k |-> k, q |-> {}]
Void == B("void")
En(tag) == [k |-> "enum", tag |-> tag, q |-> {}]
St(tag) == [k |-> "struct", tag |-> tag, q |-> {}]
Un(tag) == [k |-> "union", tag |-> tag, q |-> {}]
Ptr(t) == [k |-> "ptr", to |-> t, q |-> {}]
Arr(t, n) == [k |-> "arr", of |-> t, n |-> n, q |-> {}]
Fn(r, ps, va) == [k |-> "fn", ret |-> r, ps |-> ps, va |-> va, q |-> {}]

RECURSIVE Qual(_, _)
Qual(t, qs) == IF t.k = "arr" THEN [t EXCEPT !.of = Qual(@, qs)] ELSE [t EXCEPT !.q = @ \cup qs]   \* 6.7.3p9
RECURSIVE QualsOf(_)
QualsOf(t) == IF t.k = "arr" THEN QualsOf(t.of) ELSE t.q
Unq(t) == IF t.k = "arr" THEN t ELSE [t EXCEPT !.q = {}]

IsEnum(t) == t.k = "enum"
IsInt(t) == t.k \in IntKinds \/ IsEnum(t)
IsFloat(t) == t.k \in FloatKinds
IsArith(t) == IsInt(t) \/ IsFloat(t)
IsPtr(t) == t.k = "ptr"
IsScalar(t) == IsArith(t) \/ IsPtr(t)
IsSU(t) == t.k \in {"struct", "union"}
IsVoid(t) == t.k = "void"

(* the integer kind that carries size/signedness/rank of an integer type (6.7.2.2p4, 6.3.1.1p1) *)
UKind(t) == IF IsEnum(t) THEN EnumBase(t.tag) ELSE t.k
Signed(t, targ) == KindSigned(UKind(t), targ)
Rank(t) == KindRank(UKind(t))

PtrSize == 8
(* size of a complete object type that contains no struct/union (those are C06's business) *)
RECURSIVE SizeOf(_)
SizeOf(t) ==
  CASE t.k \in BasicKinds -> KindSize(t.k)
    [] t.k = "enum" -> KindSize(EnumBase(t.tag))
    [] t.k = "ptr" -> PtrSize
    [] t.k = "arr" -> t.n * SizeOf(t.of)

(* complete object type (6.2.5p1): not a function, not void, not an array of unknown size *)
IsCompleteObj(t) == ~(t.k = "fn" \/ t.k = "void" \/ (t.k = "arr" /\ t.n = 0))
IsObjType(t) == t.k # "fn"

(* ------------------------------------------------------------------------ *)
(* 6.3.1.1p2 integer promotions, including bit-fields "as restricted by width" *)
(* ValueBits = number of value bits = ceil(log2(max+1)).                        *)
ValueBits(t, w, targ) ==
  LET s == IF Signed(t, targ) THEN 1 ELSE 0 IN
  IF w > 0 THEN w - s
  ELSE IF UKind(t) = "bool" THEN 1
  ELSE 8 * KindSize(UKind(t)) - s
IntValueBits == 31

(* Bit-fields whose declared type is not _Bool/int/unsigned are IMPL-DEFINED (6.7.2.1p5).  *)
(* Convention modelled (DR 315 as resolved by clang, and by gcc for widths <= 32): the   *)
(* bit-field has its declared type restricted to `w` bits; it is promoted by value range *)
(* when the range fits int / unsigned int and keeps the declared type otherwise.          *)
BitfieldIsImplDefined(t, w) == w > 0 /\ ~(t.k \in {"bool", "int", "uint"})

Promote(t, w, targ) ==
  IF ~IsInt(t) THEN Unq(t)
  ELSE IF Rank(t) <= KindRank("int") \/ (w > 0 /\ w <= 32)
       THEN IF t.k \in {"int", "uint"} /\ w = 0 THEN Unq(t)             \* "other than int or unsigned int"
            ELSE IF ValueBits(t, w, targ) <= IntValueBits THEN B("int") ELSE B("uint")
       ELSE Unq(t)

(* 6.5.2.2p6 default argument promotions *)
DefaultArgPromote(t, w, targ) == IF t.k = "float" THEN B("double") ELSE Promote(t, w, targ)

(* ------------------------------------------------------------------------ *)
(* 6.3.1.8 usual arithmetic conversions: common real type of two operands     *)
(* (type, bit-field width).  C23 6.3.1.8 adds "if any of the two types is an   *)
(* enumeration, it is converted to its underlying type" - it only matters for  *)
(* enumerations wider than int, which C11 does not have.                       *)
EnumToUnderlying(t) == IF IsEnum(t) THEN B(EnumBase(t.tag)) ELSE t

UAC(t1, w1, t2, w2, targ) ==
  IF t1.k = "ldouble" \/ t2.k = "ldouble" THEN B("ldouble")
  ELSE IF t1.k = "double" \/ t2.k = "double" THEN B("double")
  ELSE IF t1.k = "float" \/ t2.k = "float" THEN B("float")
  ELSE LET p1 == EnumToUnderlying(Promote(t1, w1, targ))
           p2 == EnumToUnderlying(Promote(t2, w2, targ))
           s1 == Signed(p1, targ)
           s2 == Signed(p2, targ)
       IN IF p1 = p2 THEN p1
          ELSE IF s1 = s2 THEN (IF Rank(p1) > Rank(p2) THEN p1 ELSE p2)
          ELSE LET u == IF s1 THEN p2 ELSE p1
                   s == IF s1 THEN p1 ELSE p2
               IN IF Rank(u) >= Rank(s) THEN u
                  ELSE IF ValueBits(s, 0, targ) >= ValueBits(u, 0, targ) THEN s
                  ELSE B(ToUnsignedKind(s.k))

(* a wide (rank > int) enumeration operand: C11 has none; C23 decides only the *)
(* two-operand conversions above.  Promotion of a single such operand (shift,  *)
(* unary + - ~) is read differently by the letter of C23 and by gcc/clang:     *)
(* excluded from generation.                                                    *)
IsWideEnum(t) == IsEnum(t) /\ KindRank(EnumBase(t.tag)) > KindRank("int")

(* ------------------------------------------------------------------------ *)
(* 6.4.4.1p5 type of an integer constant.  base in {"dec","oct","hex","bin"}; *)
(* suffix in {"", "u", "l", "ul", "ll", "ull"}; nbits = number of significant  *)
(* bits of the value (0 for the value 0).  "none" = no type in the list fits.  *)
LitList(base, suffix) ==
  LET dec == base = "dec" IN
  CASE suffix = ""    -> IF dec THEN <<"int", "long", "llong">> ELSE <<"int", "uint", "long", "ulong", "llong", "ullong">>
    [] suffix = "u"   -> <<"uint", "ulong", "ullong">>
    [] suffix = "l"   -> IF dec THEN <<"long", "llong">> ELSE <<"long", "ulong", "llong", "ullong">>
    [] suffix = "ul"  -> <<"ulong", "ullong">>
    [] suffix = "ll"  -> IF dec THEN <<"llong">> ELSE <<"llong", "ullong">>
    [] suffix = "ull" -> <<"ullong">>
KindHolds(k, nbits, targ) == nbits <= ValueBits(B(k), 0, targ)
TypeOfLit(base, suffix, nbits, targ) ==
  LET l == LitList(base, suffix)
      fit == {i \in 1..Len(l) : KindHolds(l[i], nbits, targ)}
  IN IF fit = {} THEN "none" ELSE l[CHOOSE i \in fit : \A j \in fit : i <= j]

(* 6.4.4.2p4 floating constants *)
TypeOfFloatLit(suffix) == CASE suffix = "" -> "double" [] suffix = "f" -> "float" [] suffix = "l" -> "ldouble"

(* 6.4.4.4p10,11 character constants; u8 prefix: C23 6.4.4.5 (unsigned char) *)
TypeOfCharConst(prefix, targ) ==
  CASE prefix = ""   -> "int"
    [] prefix = "L"  -> WCharKind(targ)
    [] prefix = "u"  -> Char16Kind
    [] prefix = "U"  -> Char32Kind
    [] prefix = "u8" -> "uchar"

(* ------------------------------------------------------------------------ *)
(* 6.2.7 compatible types (single translation unit: tagged types are           *)
(* compatible iff they are the same type), 6.7.2.2p4, 6.7.3p10, 6.7.6.1p2,     *)
(* 6.7.6.2p6, 6.7.6.3p15.                                                      *)
(* 6.7.6.3p7,8 adjustment of a declared parameter type *)
AdjustParam(t) ==
  IF t.k = "arr" THEN Ptr(t.of)
  ELSE IF t.k = "fn" THEN Ptr(t)
  ELSE t

RECURSIVE Compatible(_, _)
Compatible(t1, t2) ==
  /\ t1.q = t2.q
  /\ IF t1.k = "enum" /\ t2.k = "enum" THEN t1.tag = t2.tag
     ELSE IF t1.k = "enum" THEN t2.k = EnumBase(t1.tag)
     ELSE IF t2.k = "enum" THEN t1.k = EnumBase(t2.tag)
     ELSE IF t1.k # t2.k THEN FALSE
     ELSE IF t1.k \in {"struct", "union"} THEN t1.tag = t2.tag
     ELSE IF t1.k = "ptr" THEN Compatible(t1.to, t2.to)
     ELSE IF t1.k = "arr" THEN Compatible(t1.of, t2.of) /\ (t1.n = 0 \/ t2.n = 0 \/ t1.n = t2.n)
     ELSE IF t1.k = "fn" THEN
          /\ Compatible(t1.ret, t2.ret)
          /\ t1.va = t2.va
          /\ Len(t1.ps) = Len(t2.ps)
          /\ \A i \in 1..Len(t1.ps) : Compatible(Unq(AdjustParam(t1.ps[i])), Unq(AdjustParam(t2.ps[i])))
     ELSE TRUE

(* 6.2.7p3 composite type of two compatible types *)
RECURSIVE Composite(_, _)
Composite(t1, t2) ==
  IF t1.k = "arr" /\ t2.k = "arr" THEN [t1 EXCEPT !.n = IF t1.n # 0 THEN t1.n ELSE t2.n, !.of = Composite(t1.of, t2.of)]
  ELSE IF t1.k = "ptr" /\ t2.k = "ptr" THEN [t1 EXCEPT !.to = Composite(t1.to, t2.to)]
  ELSE IF t1.k = "fn" /\ t2.k = "fn" THEN
       [t1 EXCEPT !.ret = Composite(t1.ret, t2.ret),
                  !.ps = [i \in 1..Len(t1.ps) |-> Composite(Unq(AdjustParam(t1.ps[i])), Unq(AdjustParam(t2.ps[i])))]]
  ELSE t1
(* the composite of an enumerated type and its compatible integer type is not determined by 6.2.7 *)
RECURSIVE CompositeDetermined(_, _)
CompositeDetermined(t1, t2) ==
  IF t1.k # t2.k THEN FALSE
  ELSE IF t1.k = "arr" THEN CompositeDetermined(t1.of, t2.of)
  ELSE IF t1.k = "ptr" THEN CompositeDetermined(t1.to, t2.to)
  ELSE IF t1.k = "fn" THEN CompositeDetermined(t1.ret, t2.ret) /\
       \A i \in 1..Len(t1.ps) : CompositeDetermined(Unq(AdjustParam(t1.ps[i])), Unq(AdjustParam(t2.ps[i])))
  ELSE TRUE

(* 6.5.1.1 generic selection: index of the association compatible with the     *)
(* (lvalue-converted) controlling type, 0 = default.  -1: more than one        *)
(* association is compatible (constraint violation: not generated).             *)
GenericSel(t, assocs) ==
  LET m == {i \in 1..Len(assocs) : Compatible(Unq(t), assocs[i])}
  IN IF m = {} THEN 0 ELSE IF Cardinality(m) = 1 THEN CHOOSE i \in m : TRUE ELSE -1

(* ------------------------------------------------------------------------ *)
(* Expression descriptors and value conversions                               *)
X(t, w, lv, npc) == [t |-> t, w |-> w, lv |-> lv, npc |-> npc]
Obj(t) == X(t, 0, TRUE, FALSE)                 \* a declared object of type t
BF(t, w) == X(t, w, TRUE, FALSE)               \* a bit-field member of declared type t and width w
RV(t) == X(t, 0, FALSE, FALSE)                 \* an rvalue of type t
Err == [k |-> "error", q |-> {}]
IsErr(t) == t.k = "error"

(* 6.3.2.1p2-4: lvalue conversion (drops qualifiers), array and function decay *)
ValType(x) ==
  IF x.t.k = "arr" THEN Ptr(x.t.of)
  ELSE IF x.t.k = "fn" THEN Ptr(x.t)
  ELSE Unq(x.t)

(* pointer operands "to qualified or unqualified versions of compatible types" *)
PtrTargetsCompatible(p1, p2) == Compatible(Unq(p1.to), Unq(p2.to))
IsVoidPtr(p) == IsPtr(p) /\ IsVoid(p.to)

ArithOps == {"*", "/", "+", "-"}
IntOps == {"%", "&", "^", "|"}
ShiftOps == {"<<", ">>"}
RelOps == {"<", ">", "<=", ">="}
EqOps == {"==", "!="}
LogOps == {"&&", "||"}
BinOps == ArithOps \cup IntOps \cup ShiftOps \cup RelOps \cup EqOps \cup LogOps

(* 6.5.5 - 6.5.14: type of `x op y`; Err = constraint violation *)
TypeOfBinary(op, x, y, targ) ==
  LET a == ValType(x)
      b == ValType(y)
      uac == UAC(a, x.w, b, y.w, targ)
  IN
  IF op \in {"*", "/"} THEN (IF IsArith(a) /\ IsArith(b) THEN uac ELSE Err)
  ELSE IF op \in IntOps THEN (IF IsInt(a) /\ IsInt(b) THEN uac ELSE Err)
  ELSE IF op = "+" THEN
       IF IsArith(a) /\ IsArith(b) THEN uac
       ELSE IF IsPtr(a) /\ IsInt(b) /\ IsCompleteObj(a.to) THEN a
       ELSE IF IsInt(a) /\ IsPtr(b) /\ IsCompleteObj(b.to) THEN b
       ELSE Err
  ELSE IF op = "-" THEN
       IF IsArith(a) /\ IsArith(b) THEN uac
       ELSE IF IsPtr(a) /\ IsInt(b) /\ IsCompleteObj(a.to) THEN a
       ELSE IF IsPtr(a) /\ IsPtr(b) /\ IsCompleteObj(a.to) /\ IsCompleteObj(b.to) /\ PtrTargetsCompatible(a, b) THEN B(PtrDiffKind)
       ELSE Err
  ELSE IF op \in ShiftOps THEN (IF IsInt(a) /\ IsInt(b) THEN Promote(a, x.w, targ) ELSE Err)
  ELSE IF op \in RelOps THEN
       IF IsArith(a) /\ IsArith(b) THEN B("int")
       ELSE IF IsPtr(a) /\ IsPtr(b) /\ IsObjType(a.to) /\ IsObjType(b.to) /\ PtrTargetsCompatible(a, b) THEN B("int")
       ELSE Err
  ELSE IF op \in EqOps THEN
       IF IsArith(a) /\ IsArith(b) THEN B("int")
       ELSE IF IsPtr(a) /\ IsPtr(b) /\ PtrTargetsCompatible(a, b) THEN B("int")
       ELSE IF IsPtr(a) /\ IsPtr(b) /\ ((IsVoid(a.to) /\ IsObjType(b.to)) \/ (IsVoid(b.to) /\ IsObjType(a.to))) THEN B("int")
       ELSE IF (IsPtr(a) /\ y.npc) \/ (IsPtr(b) /\ x.npc) THEN B("int")
       ELSE Err
  ELSE IF op \in LogOps THEN (IF IsScalar(a) /\ IsScalar(b) THEN B("int") ELSE Err)
  ELSE Err

(* 6.5.15 conditional operator (the first operand only has to be scalar) *)
TypeOfCond(x, y, targ) ==
  LET a == ValType(x)
      b == ValType(y)
  IN
  IF IsArith(a) /\ IsArith(b) THEN UAC(a, x.w, b, y.w, targ)
  ELSE IF IsSU(a) /\ IsSU(b) /\ a.k = b.k /\ a.tag = b.tag THEN a
  ELSE IF IsVoid(a) /\ IsVoid(b) THEN Void
  ELSE IF IsPtr(a) /\ y.npc THEN a
  ELSE IF IsPtr(b) /\ x.npc THEN b
  ELSE IF IsPtr(a) /\ IsPtr(b) THEN
       LET qs == a.to.q \cup b.to.q IN     \* qualifiers of the pointed-to types (not arrays here)
       IF PtrTargetsCompatible(a, b) /\ a.to.k # "arr" THEN Ptr(Qual(Composite(Unq(a.to), Unq(b.to)), qs))
       ELSE IF PtrTargetsCompatible(a, b) THEN Ptr(Composite(a.to, b.to))       \* arrays: element qualifiers equal by compatibility
       ELSE IF IsVoid(a.to) /\ IsObjType(b.to) /\ b.to.k # "arr" THEN Ptr(Qual(Void, qs))
       ELSE IF IsVoid(b.to) /\ IsObjType(a.to) /\ a.to.k # "arr" THEN Ptr(Qual(Void, qs))
       ELSE Err
  ELSE Err

(* Controlling expressions of `?:` used by the generators.  The TYPE of a conditional expression never depends on  *)
(* its first operand (6.5.15p5,6), but an implementation that folds a constant condition at parse time (cproc)    *)
(* takes a different path for each of: a non-constant object ("x"), integer constants zero / non-zero, floating   *)
(* constants zero / non-zero, a 64-bit constant whose low 32 bits are zero, a sizeof expression.                   *)
CondControls == <<"x", "1", "0", "8", "1.5", "0.0", "0x100000000", "(sizeof(int))">>
CondSelectsFirst(cv) == cv \in {"1", "8", "1.5", "0x100000000", "(sizeof(int))"}      \* meaningful for constant controls only
CondIsConstant(cv) == cv # "x"

(* 6.5.3 unary operators and 6.5.2.4 / 6.5.4 / 6.5.16 / 6.5.17 forms whose type depends on one operand *)
UnaryOps == {"+", "-", "~", "!", "sizeof", "_Alignof", "&", "*", "++pre", "--pre", "post++", "post--"}
TypeOfUnary(op, x, targ) ==
  LET a == ValType(x) IN
  IF op \in {"+", "-"} THEN (IF IsArith(a) THEN Promote(a, x.w, targ) ELSE Err)
  ELSE IF op = "~" THEN (IF IsInt(a) THEN Promote(a, x.w, targ) ELSE Err)
  ELSE IF op = "!" THEN (IF IsScalar(a) THEN B("int") ELSE Err)
  ELSE IF op = "sizeof" THEN (IF x.w = 0 /\ IsCompleteObj(x.t) THEN B(SizeTKind) ELSE Err)       \* 6.5.3.4p1,5: operand not decayed
  ELSE IF op = "_Alignof" THEN (IF x.w = 0 /\ IsCompleteObj(x.t) THEN B(SizeTKind) ELSE Err)
  ELSE IF op = "&" THEN (IF (x.lv /\ x.w = 0) \/ x.t.k = "fn" THEN Ptr(x.t) ELSE Err)             \* 6.5.3.2p1,3
  ELSE IF op = "*" THEN (IF IsPtr(a) /\ ~IsVoid(a.to) THEN a.to ELSE Err)                          \* designates an lvalue of the pointee type
  ELSE IF op \in {"++pre", "--pre", "post++", "post--"} THEN
       (IF x.lv /\ ~("const" \in x.t.q) /\ (IsArith(a) \/ (IsPtr(a) /\ IsCompleteObj(a.to))) /\ x.t.k \notin {"arr", "fn"} THEN a ELSE Err)
  ELSE Err

(* 6.5.4 cast: the unqualified version of the named type (6.5.4p5 footnote 104) *)
TypeOfCast(t) == Unq(t)

(* 6.5.16p3: an assignment expression has the unqualified type of the left operand *)
TypeOfAssign(x) == Unq(x.t)

(* 6.5.2.3p3,4: member access.  m = [t, w] declared member; sq = qualifiers of the *)
(* structure expression (`.`) or of the pointed-to structure type (`->`).           *)
TypeOfMember(m, sq) == Qual(m.t, sq)

(* 6.5.16.1p1 simple assignment / initialisation of a pointer from a pointer       *)
(* (third and fourth bullet): accepted iff ...  "the type pointed to by the left    *)
(* has all the qualifiers of the type pointed to by the right": in C11 an array      *)
(* type is never itself qualified (6.7.3p9), so .q of an array pointee is {}.        *)
PtrAssignOK(l, r) ==
  /\ IsPtr(l) /\ IsPtr(r)
  /\ \/ PtrTargetsCompatible(l, r)
     \/ (IsVoid(l.to) /\ IsObjType(r.to))
     \/ (IsVoid(r.to) /\ IsObjType(l.to))
  /\ r.to.q \subseteq l.to.q
(* C23 6.7.3 makes an array and its elements identically qualified, which flips the   *)
(* judgement for void* <-> pointer to array of qualified elements: not decided here.   *)
(* void* <-> pointer to function is a constraint violation of 6.5.16.1 that has nothing to do  *)
(* with 6.2.7 compatibility (cproc, like gcc/clang without -pedantic, lets it pass: a C10     *)
(* matter); it is kept out of the pointer-assignment judgements generated for C05.            *)
PtrAssignDecided(l, r) ==
  /\ ~((IsVoid(l.to) /\ r.to.k = "arr" /\ QualsOf(r.to) # {}) \/ (IsVoid(r.to) /\ l.to.k = "arr" /\ QualsOf(l.to) # {}))
  /\ ~((IsVoid(l.to) /\ r.to.k = "fn") \/ (IsVoid(r.to) /\ l.to.k = "fn"))

(* Audit exception marker: gcc 12's comptypes replaces a complete enum by its underlying integer type and   *)
(* thereby drops the enum's qualifiers, so `const enum eu` and `const unsigned` (6.7.3p10: compatible) compare *)
(* unequal there.  True when an aligned position pairs a QUALIFIED enum with a non-enum type.                  *)
RECURSIVE QualEnumMeetsInt(_, _)
QualEnumMeetsInt(t1, t2) ==
  IF t1.k = "enum" /\ t2.k # "enum" THEN t1.q # {}
  ELSE IF t2.k = "enum" /\ t1.k # "enum" THEN t2.q # {}
  ELSE IF t1.k # t2.k THEN FALSE
  ELSE IF t1.k = "ptr" THEN QualEnumMeetsInt(t1.to, t2.to)
  ELSE IF t1.k = "arr" THEN QualEnumMeetsInt(t1.of, t2.of)
  ELSE IF t1.k = "fn" THEN QualEnumMeetsInt(t1.ret, t2.ret) \/
       (Len(t1.ps) = Len(t2.ps) /\ \E i \in 1..Len(t1.ps) : QualEnumMeetsInt(AdjustParam(t1.ps[i]), AdjustParam(t2.ps[i])))
  ELSE FALSE

(* ------------------------------------------------------------------------ *)
(* Association lists of the generic selections used as observation device      *)
(* (props/c05.py): G1 = every basic arithmetic type, G2 = one enum per          *)
(* compatible integer type; Twins = a second enum per compatible type, used     *)
(* to tell an enumerated type from its compatible integer type.                 *)
G1 == <<"bool", "char", "schar", "uchar", "short", "ushort", "int", "uint", "long", "ulong", "llong", "ullong",
        "float", "double", "ldouble">>
G2 == <<"eu", "es", "eul", "el", "efs", "efuc">>
Twins == <<"eu2", "es2", "eul2">>
G1Types == [i \in 1..Len(G1) |-> B(G1[i])]
G2Types == [i \in 1..Len(G2) |-> En(G2[i])]

(* ------------------------------------------------------------------------ *)
(* Canonical names (JSON side: see harness/props/c05.py for the C spelling)   *)
QName(q) == (IF "const" \in q THEN "const " ELSE "") \o (IF "volatile" \in q THEN "volatile " ELSE "")
            \o (IF "restrict" \in q THEN "restrict " ELSE "")
RECURSIVE Name(_), NameSeq(_, _)
NameSeq(ps, i) == IF i > Len(ps) THEN "" ELSE (IF i > 1 THEN "," ELSE "") \o Name(ps[i]) \o NameSeq(ps, i + 1)
Name(t) ==
  QName(t.q) \o
  (IF t.k \in {"enum", "struct", "union"} THEN t.k \o " " \o t.tag
   ELSE IF t.k = "ptr" THEN "ptr(" \o Name(t.to) \o ")"
   ELSE IF t.k = "arr" THEN "arr" \o ToString(t.n) \o "(" \o Name(t.of) \o ")"
   ELSE IF t.k = "fn" THEN "fn(" \o Name(t.ret) \o ";" \o NameSeq(t.ps, 1) \o (IF t.va THEN ";..." ELSE "") \o ")"
   ELSE t.k)
=============================================================================
