SPECIFICATION Spec
CONSTANTS
  Ids = {"x"}
  MaxLen = 3
  MaxDepth = 2
  MixKinds = FALSE
  AsmForms = FALSE
  AsmFirst = FALSE
  Kinds = {"obj", "func"}
  Family = "all"
  DevsOn = {"ThreadNoTentative", "ThreadMismatchNotDiagnosed", "InlineLateExternal", "NoUsedInternalUndefDiag"}
  OkPrefix = FALSE
  SampleMod = 1
  Emit = "none"
INVARIANTS Inv_Refines Inv_OneDef Inv_ExportedExt Inv_FiredExplains Inv_Emit
CHECK_DEADLOCK FALSE
