SPECIFICATION OSpec
CONSTANTS ValueSet = "full"
  NParts = 1
INVARIANT OEmit
CHECK_DEADLOCK FALSE
