----------------------------- MODULE Trace_Map -----------------------------
(* Flow B for map.c: a history of mapinit/mapput/mapget/mapfree calls recorded   *)
(* from the real code by harness/cmap.c (one ndjson event per call, after the     *)
(* call returned) is accepted iff every result is the one the declarative         *)
(* dictionary of MapDict.tla gives, len counts the keys, and the capacity         *)
(* follows the growth rule.  Keys are opaque ids; which bytes / hash values they  *)
(* stand for is the harness's business (keys engineered to collide in the low     *)
(* hash bits at every table size, long keys, ...): the verdict must not depend    *)
(* on it.  Property C16.                                                          *)
EXTENDS Naturals, Integers, Sequences, FiniteSets, TLC, Json, IOUtils, MapDict

CONSTANT StrictGrowth   \* TRUE: the capacity must follow map.c's growth rule exactly; FALSE: any power of two that never shrinks

Trace == ndJsonDeserialize(IOEnv.TRACE)

VARIABLES l,      \* next event
          dict, cap, len

vars == <<l, dict, cap, len>>

ev == Trace[l]
IsEvent(name) == l <= Len(Trace) /\ ev.e = name /\ l' = l + 1

Init == l = 1 /\ dict = EmptyDict /\ cap = 0 /\ len = 0

EvInit ==
  /\ IsEvent("init")
  /\ IsPow2(ev.cap)
  /\ cap' = ev.cap /\ len' = 0 /\ dict' = EmptyDict

EvPut ==
  /\ IsEvent("put")
  /\ ev.old = DOld(dict, ev.k)
  /\ dict' = DPut(dict, ev.k, ev.a)
  /\ cap' = ev.cap
  /\ IF StrictGrowth THEN ev.cap = CapAfterPut(cap, len) ELSE IsPow2(ev.cap) /\ ev.cap >= cap
  /\ len' = IF DHas(dict, ev.k) THEN len ELSE len + 1
  /\ ev.len = len'
  /\ ev.i \in 0..(cap' - 1)
  /\ len' < cap'                       \* a free slot remains: the next probe terminates

EvGet ==
  /\ IsEvent("get")
  /\ ev.r = DGet(dict, ev.k)
  /\ UNCHANGED <<dict, cap, len>>

Count(s, v) == Cardinality({i \in 1..Len(s) : s[i] = v})
EvFree ==   \* mapfree(h, del): del is called once per key, with its value
  /\ IsEvent("free")
  /\ Len(ev.vals) = len /\ len = DLen(dict)
  /\ \A v \in {ev.vals[i] : i \in 1..Len(ev.vals)} \cup {dict[k] : k \in DOMAIN dict} :
       Count(ev.vals, v) = Cardinality({k \in DOMAIN dict : dict[k] = v})
  /\ UNCHANGED <<dict, cap, len>>

EvEnd ==
  /\ IsEvent("end")
  /\ ev.cap = cap /\ ev.len = len /\ len = DLen(dict)
  /\ UNCHANGED <<dict, cap, len>>

Next == EvInit \/ EvPut \/ EvGet \/ EvFree \/ EvEnd
Spec == Init /\ [][Next]_vars

TraceAccepted == TLCGet("stats").diameter = Len(Trace) + 1
=============================================================================
