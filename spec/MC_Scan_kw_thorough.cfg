SPECIFICATION Spec
CONSTANTS
  Chunks <- PunctChunks
  MaxLen = 0
  MinLen = 0
  Variants = {"plain"}
  VarLen = 0
  Mode = "kw"
  PerturbChars = {"_", "a", "e", "i", "n", "s", "t", "z", "A", "Z", "0", "9"}
  Devs = {"NoDigraphs", "NoUCNIdent", "NoUCNEscape"}
  Emit = TRUE
INVARIANTS Inv_Fired Inv_Emit
CHECK_DEADLOCK FALSE
