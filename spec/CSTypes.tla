------------------------------ MODULE CSTypes ------------------------------
(* MiniC type universe and the fixed prelude of every MiniC base program        *)
(* (property C10, used by CStatic.tla).                                          *)
(*                                                                               *)
(* A MiniC base program is  PRELUDE ; function zbase(...) { ... SLOT ... }        *)
(* The prelude declares one entity per row of EntTab.  The C spelling of every   *)
(* entity (its declaration and the expression text that denotes it) is part of  *)
(* the specification and is exported to the harness (VMETA line): the renderer   *)
(* holds no second copy of what an entity is.                                     *)
EXTENDS Naturals, Sequences, FiniteSets, TLC

(* ---- types (abstract names; CType gives the C spelling of a type name) ---- *)
ArithTypes  == {"int", "bool", "double", "ldouble"}
IntTypes    == {"int", "bool"}
PtrTypes    == {"ptr_int", "ptr_cint", "ptr_char", "ptr_void", "ptr_inc", "ptr_S",
                "ptr_fn_ii", "ptr_fn_vv", "ptr_fn_vp", "ptr_fn_vs", "ptr_fn_var"}
FnTypes     == {"fn_ii", "fn_vv", "fn_vp", "fn_vs", "fn_var"}
StructTypes == {"struct_S", "struct_T", "union_U"}
AllTypes    == ArithTypes \cup PtrTypes \cup FnTypes \cup StructTypes \cup
               {"arr_int", "arr_cint", "arr_char", "void", "struct_I"}

(* C spelling of a type name as a declaration of the identifier @ (drop @ for the type name) *)
CType == [int |-> "int @", bool |-> "_Bool @", double |-> "double @", ldouble |-> "long double @",
          ptr_int |-> "int *@", ptr_cint |-> "const int *@", ptr_char |-> "char *@", ptr_void |-> "void *@",
          ptr_inc |-> "struct I *@", ptr_S |-> "struct S *@",
          ptr_fn_ii |-> "int (*@)(int)", ptr_fn_vv |-> "void (*@)(void)", ptr_fn_vp |-> "void (*@)(int *)", ptr_fn_vs |-> "void (*@)(struct S)", ptr_fn_var |-> "int (*@)(int, int, ...)",
          fn_ii |-> "int @(int)", fn_vv |-> "void @(void)", fn_vp |-> "void @(int *)", fn_vs |-> "void @(struct S)", fn_var |-> "int @(int, int, ...)",
          struct_S |-> "struct S @", struct_T |-> "struct T @", union_U |-> "union U @",
          arr_int |-> "int @[4]", arr_cint |-> "const int @[2]", arr_char |-> "char @[4]", arr_unk |-> "int @[]",
          void |-> "void @", struct_I |-> "struct I @"]

IsArith(t)  == t \in ArithTypes
IsInt(t)    == t \in IntTypes
IsPtr(t)    == t \in PtrTypes
IsScalar(t) == IsArith(t) \/ IsPtr(t)
IsFnPtr(t)  == t \in {"ptr_fn_ii", "ptr_fn_vv", "ptr_fn_vp", "ptr_fn_vs", "ptr_fn_var"}
IsVoidPtr(t) == t = "ptr_void"
IsStructT(t) == t \in StructTypes

(* unqualified pointee of a pointer type, and the pointee's qualifiers *)
Pointee(t) ==
  CASE t = "ptr_int" -> "int" [] t = "ptr_cint" -> "int" [] t = "ptr_char" -> "char"
    [] t = "ptr_void" -> "void" [] t = "ptr_inc" -> "struct_I" [] t = "ptr_S" -> "struct_S"
    [] t = "ptr_fn_ii" -> "fn_ii" [] t = "ptr_fn_vv" -> "fn_vv" [] t = "ptr_fn_vp" -> "fn_vp" [] t = "ptr_fn_vs" -> "fn_vs" [] t = "ptr_fn_var" -> "fn_var"
    [] OTHER -> "none"
PteeConst(t) == t = "ptr_cint"
(* pointer to a complete object type (6.5.6: pointer arithmetic, subscripting, ++) *)
IsObjPtr(t) == t \in {"ptr_int", "ptr_cint", "ptr_char", "ptr_S"}
PteeCompat(a, b) == Pointee(a) = Pointee(b)

Complete(t) == t \notin {"void", "struct_I", "arr_unk"} \cup FnTypes

Params(ft) == CASE ft = "fn_ii" -> <<"int">> [] ft = "fn_vv" -> <<>> [] ft = "fn_vp" -> <<"ptr_int">> [] ft = "fn_vs" -> <<"struct_S">> [] ft = "fn_var" -> <<"int", "int">> [] OTHER -> <<>>
(* prototype ends in an ellipsis: at least Len(Params) arguments (6.5.2.2p2), the rest undergo default promotions *)
Variadic(ft) == ft = "fn_var"
RetOf(ft)  == CASE ft \in {"fn_ii", "fn_var"} -> "int" [] OTHER -> "void"

Members(t) == CASE t = "struct_S" -> {"m", "bf"} [] t = "struct_T" -> {"q"} [] t = "union_U" -> {"ua", "ub"} [] OTHER -> {}

(* ---- entities of the prelude -------------------------------------------------- *)
(* ty   declared type            lv   is an lvalue (objects, string literal)        *)
(* cq   const-qualified          vq   volatile-qualified                            *)
(* reg  declared register        bf   designates a bit-field                         *)
(* loc  block-scope (declared at the top of zbase's body, not visible at file scope) *)
(* cst  usable in a constant expression as initializer of a static object            *)
(* decl C text of the declaration ("" = no declaration of its own)                    *)
(* txt  C text of the expression denoting the entity                                  *)
E0 == [ty |-> "int", lv |-> TRUE, cq |-> FALSE, vq |-> FALSE, reg |-> FALSE, bf |-> FALSE,
       loc |-> FALSE, cst |-> FALSE, decl |-> "", txt |-> ""]
Obj(t, d, x) == [E0 EXCEPT !.ty = t, !.decl = d, !.txt = x]
Val(t, x)    == [E0 EXCEPT !.ty = t, !.lv = FALSE, !.cst = TRUE, !.txt = x]

EntTab == [
  gi   |-> Obj("int", "int gi;", "gi"),
  gc   |-> [Obj("int", "const int gc = 1;", "gc") EXCEPT !.cq = TRUE],
  gvol |-> [Obj("int", "volatile int gvol;", "gvol") EXCEPT !.vq = TRUE],
  gb   |-> Obj("bool", "_Bool gb;", "gb"),
  gd   |-> Obj("double", "double gd;", "gd"),
  gld  |-> Obj("ldouble", "long double gld;", "gld"),
  gp   |-> Obj("ptr_int", "int *gp;", "gp"),
  gcp  |-> Obj("ptr_cint", "const int *gcp;", "gcp"),
  gq   |-> Obj("ptr_char", "char *gq;", "gq"),
  gv   |-> Obj("ptr_void", "void *gv;", "gv"),
  gip  |-> Obj("ptr_inc", "struct I *gip;", "gip"),
  gsp  |-> Obj("ptr_S", "struct S *gsp;", "gsp"),
  gfp  |-> Obj("ptr_fn_ii", "int (*gfp)(int);", "gfp"),
  gs   |-> Obj("struct_S", "struct S gs;", "gs"),
  gt   |-> Obj("struct_T", "struct T gt;", "gt"),
  gu   |-> Obj("union_U", "union U gu;", "gu"),
  ga   |-> [Obj("arr_int", "int ga[4];", "ga") EXCEPT !.cst = TRUE],
  gsm  |-> Obj("int", "", "gs.m"),
  gsbf |-> [Obj("int", "", "gs.bf") EXCEPT !.bf = TRUE],
  gf   |-> [Obj("fn_ii", "int gf(int);", "gf") EXCEPT !.lv = FALSE, !.cst = TRUE],
  gvf  |-> [Obj("fn_vv", "void gvf(void);", "gvf") EXCEPT !.lv = FALSE, !.cst = TRUE],
  gpf  |-> [Obj("fn_vp", "void gpf(int *);", "gpf") EXCEPT !.lv = FALSE, !.cst = TRUE],
  gsfn |-> [Obj("fn_vs", "void gsfn(struct S);", "gsfn") EXCEPT !.lv = FALSE, !.cst = TRUE],
  gvar |-> [Obj("fn_var", "int gvar(int, int, ...);", "gvar") EXCEPT !.lv = FALSE, !.cst = TRUE],
  gcbf |-> [Obj("int", "struct CB gcb;", "gcb.cb") EXCEPT !.bf = TRUE, !.cq = TRUE],
  (* lvalues whose qualifier is INHERITED: the array is a member of a qualified struct (reached by . or ->, directly, nested,
     2-D) or has a qualified typedef'd array type; 6.7.3p9: the qualifier applies to the elements.  gss*/gssp* are the unqualified twins *)
  gcsa1  |-> [Obj("int", "const struct SA gcs;", "gcs.a[1]") EXCEPT !.cq = TRUE],
  gcspa1 |-> [Obj("int", "const struct SA *gcsp;", "gcsp->a[1]") EXCEPT !.cq = TRUE],
  gcspin |-> [Obj("int", "", "gcsp->in.m[1]") EXCEPT !.cq = TRUE],
  gcspm2 |-> [Obj("int", "", "gcsp->m2[1][1]") EXCEPT !.cq = TRUE],
  gta1   |-> [Obj("int", "const A2 gta;", "gta[1]") EXCEPT !.cq = TRUE],
  gcap1  |-> [Obj("int", "const A2 *gcap;", "(*gcap)[1]") EXCEPT !.cq = TRUE],
  gvsa1  |-> [Obj("int", "volatile struct SA gvs;", "gvs.a[1]") EXCEPT !.vq = TRUE],
  gssa1  |-> Obj("int", "struct SA gss;", "gss.a[1]"),
  gsspa1 |-> Obj("int", "struct SA *gssp;", "gssp->a[1]"),
  gcspa  |-> Obj("arr_cint", "", "gcsp->a"),
  gcapd  |-> Obj("arr_cint", "", "*gcap"),
  gta    |-> [Obj("arr_cint", "", "gta") EXCEPT !.cst = TRUE],
  gsspa  |-> Obj("arr_int", "", "gssp->a"),
  (* constant zeros of pointer type: only the void one (and the integer k0) is a null pointer constant, 6.3.2.3p3 *)
  kpi  |-> Val("ptr_int", "(int *)0"),
  kpc  |-> Val("ptr_char", "(char *)0"),
  kv   |-> Val("ptr_void", "(void *)0"),
  knil |-> Val("ptr_int", "NIL"),
  ek   |-> Val("int", "EK"),
  k1   |-> Val("int", "1"),
  k0   |-> Val("int", "0"),
  kd   |-> Val("double", "1.5"),
  ks   |-> [Obj("arr_char", "", "\"str\"") EXCEPT !.cst = TRUE],
  li   |-> [Obj("int", "int li = 0;", "li") EXCEPT !.loc = TRUE],
  lr   |-> [Obj("int", "register int lr = 0;", "lr") EXCEPT !.loc = TRUE, !.reg = TRUE]
]
EntNames == DOMAIN EntTab
Ent(o) == EntTab[o]

(* tags, typedefs and other non-entity prelude declarations (C text, in order) *)
PreludeTypes == <<
  "typedef int td_t;",
  "struct S { int m; int bf : 3; };",
  "struct T { int q; };",
  "struct F { int n; int fl[]; };",
  "struct N { struct T t; int arr[2]; };",
  "struct I;",
  "union U { int ua; float ub; };",
  "enum E { EK = 7 };",
  "struct CB { const int cb : 3; int x; };",
  "struct SA { int a[2]; int m2[2][2]; struct { int m[2]; } in; int x; };",
  "typedef int A2[2];",
  "char gch; short gsh; unsigned gun; long glo; unsigned long gul;",
  "_Thread_local int gtl; _Thread_local struct T gtls; _Thread_local int gtla[2];",
  "extern _Thread_local int gtle; extern _Thread_local struct T gtles; extern _Thread_local int gtlea[2];",
  "#define NIL ((td_t *)0)",   \* td_t is int; no keyword in the body: pp.c:keyword() frees the spelling of a keyword token that the macro body still owns, so a second use of such a macro reads freed memory (reported, C12/C19)
  "#define MF(a, b) ((a) + (b))",
  "#define MG(a, b) ((a) b)",
  "static int gst;",
  "extern int gex;",
  "int gdef = 5;",
  "int gfd(int a) { return a; }">>

(* further declarations at the top of zbase's body (objects of automatic and of block-scope thread storage duration) *)
PreludeLocals == <<
  "struct T lst; int lar[2];",
  "static _Thread_local int ltl; static _Thread_local struct T ltls; static _Thread_local int ltla[2];">>

(* value type of an operand after lvalue conversion / array and function decay (6.3.2.1) *)
VT(o) == LET t == Ent(o).ty IN
  CASE t = "arr_int" -> "ptr_int" [] t = "arr_cint" -> "ptr_cint" [] t = "arr_char" -> "ptr_char"
    [] t = "fn_ii" -> "ptr_fn_ii" [] t = "fn_vv" -> "ptr_fn_vv" [] t = "fn_vp" -> "ptr_fn_vp" [] t = "fn_vs" -> "ptr_fn_vs" [] t = "fn_var" -> "ptr_fn_var"
    [] OTHER -> t
IsFnDesig(o)  == Ent(o).ty \in FnTypes
IsArrayObj(o) == Ent(o).ty \in {"arr_int", "arr_cint", "arr_char"}
IsNullConst(o) == o \in {"k0", "kv"}
(* modifiable lvalue (6.3.2.1p1): lvalue, not array, not const, complete *)
ModLvalue(o) == Ent(o).lv /\ ~IsArrayObj(o) /\ ~Ent(o).cq

(* "may be assigned" relation of 6.5.16.1p1 for a target of (unqualified) type lt and operand o.   *)
(* The pairs (void pointer, function pointer) are not generated (see Excluded in CStatic).           *)
AssignOK(lt, o) == LET rt == VT(o) IN
  CASE lt = "bool"    -> IsArith(rt) \/ IsPtr(rt)
    [] IsArith(lt)    -> IsArith(rt)
    [] IsPtr(lt)      -> \/ IsNullConst(o)
                         \/ /\ IsPtr(rt)
                            /\ PteeCompat(lt, rt) \/ IsVoidPtr(lt) \/ IsVoidPtr(rt)
                            /\ PteeConst(rt) => PteeConst(lt)
    [] IsStructT(lt)  -> rt = lt
    [] OTHER          -> FALSE
VoidFnMix(lt, o) == LET rt == VT(o) IN ~IsNullConst(o) /\ ((IsVoidPtr(lt) /\ IsFnPtr(rt)) \/ (IsFnPtr(lt) /\ IsVoidPtr(rt)))
=============================================================================
