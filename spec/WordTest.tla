------------------------------ MODULE WordTest ------------------------------
(* Self-test of Word.tla: the byte family against the integer family, exhaustively *)
(* at 8 bits (one byte), against 16-bit integers on a boundary grid (two bytes,    *)
(* exercises carries between bytes), and fixed 64/128-bit vectors.                 *)
EXTENDS Word, TLC

VARIABLES a
B1(x) == <<x>>
B2(x) == <<x % 256, x \div 256>>
V2(t) == t[1] + 256 * t[2]

\* two-level fan-out so that TLC's workers share the 256 values (successors of one state are
\* generated, and their invariants evaluated, by one worker)
Init == a = -1
Next == \/ a = -1 /\ a' \in {1000 + g : g \in 0..31}
        \/ a >= 1000 /\ a' \in {8 * (a - 1000) + j : j \in 0..7}
Spec == Init /\ [][Next]_a
Val == a \in 0..255

Inv8 == Val => \A b \in 0..255 :
  /\ Add(B1(a), B1(b)) = B1(IAdd(8, a, b))
  /\ Sub(B1(a), B1(b)) = B1(ISub(8, a, b))
  /\ Mul(B1(a), B1(b)) = B1(IMul(8, a, b))
  /\ And(B1(a), B1(b)) = B1(IAnd(8, a, b))
  /\ Or(B1(a), B1(b)) = B1(IOr(8, a, b))
  /\ Xor(B1(a), B1(b)) = B1(IXor(8, a, b))
  /\ Neg(B1(a)) = B1(INeg(8, a))
  /\ Not(B1(a)) = B1(INot(8, a))
  /\ ULt(B1(a), B1(b)) = IULt(a, b)
  /\ SLt(B1(a), B1(b)) = ISLt(8, a, b)
  /\ b # 0 => /\ UDivMod(B1(a), B1(b)) = <<B1(IUDiv(8, a, b)), B1(IUMod(8, a, b))>>
              /\ SDivMod(B1(a), B1(b)) = <<B1(ISDiv(8, a, b)), B1(ISMod(8, a, b))>>
  /\ b < 8 => /\ Shl(B1(a), b) = B1(IShl(8, a, b))
              /\ Shr(B1(a), b) = B1(IShr(8, a, b))
              /\ Sar(B1(a), b) = B1(ISar(8, a, b))
  /\ b \in 1..8 => /\ Wrap(B1(a), b, TRUE) = B1(IWrap(8, a, b, TRUE))
                   /\ Wrap(B1(a), b, FALSE) = B1(IWrap(8, a, b, FALSE))
  /\ OfInt(a, 1) = B1(a) /\ OfInt(a - 256, 2) = B2(65280 + a)
  /\ BitLen(B1(a)) = (CHOOSE k \in 0..8 : a < 2 ^ k /\ (k = 0 \/ a >= 2 ^ (k - 1)))

\* 16-bit grid: x = 256*a' + lo for a few lo/hi combinations derived from a and b (15-bit values so that
\* the integer family stays within TLC's 32-bit integers for multiplication: compare mod 2^15 there)
G == {0, 1, 2, 127, 128, 129, 254, 255}
Inv16 == Val => \A lo \in G, y \in {256 * h + l : h \in G, l \in {0, 1, 128, 255}} :
  LET x == 256 * a + lo IN
  /\ Add(B2(x), B2(y)) = B2((x + y) % 65536)
  /\ Sub(B2(x), B2(y)) = B2((x - y) % 65536)
  /\ V2(Mul(B2(x), B2(y))) % 128 = ((x % 128) * (y % 128)) % 128
  /\ Mul(B2(x), B2(y)) = Mul(B2(y), B2(x))
  /\ ULt(B2(x), B2(y)) = (x < y)
  /\ SLt(B2(x), B2(y)) = ((IF x >= 32768 THEN x - 65536 ELSE x) < (IF y >= 32768 THEN y - 65536 ELSE y))
  /\ y # 0 => LET qr == UDivMod(B2(x), B2(y)) IN qr = <<B2(x \div y), B2(x % y)>>
  /\ y # 0 => LET qr == SDivMod(B2(x), B2(y))
                  sx == IF x >= 32768 THEN x - 65536 ELSE x
                  sy == IF y >= 32768 THEN y - 65536 ELSE y
              IN qr = <<B2(TruncDiv(sx, sy) % 65536), B2(TruncRem(sx, sy) % 65536)>>
  /\ \A s \in 0..15 : /\ Shl(B2(x), s) = B2((x * (2 ^ s)) % 65536)
                      /\ Shr(B2(x), s) = B2(x \div (2 ^ s))
                      /\ Sar(B2(x), s) = B2(((IF x >= 32768 THEN x - 65536 ELSE x) \div (2 ^ s)) % 65536)
  /\ \A k \in 1..16 : LET lo2 == x % (2 ^ k) IN
                      /\ Wrap(B2(x), k, FALSE) = B2(lo2)
                      /\ Wrap(B2(x), k, TRUE) = B2(IF lo2 >= 2 ^ (k - 1) THEN lo2 + 65536 - 2 ^ k ELSE lo2)
  /\ SExt(B1(a), 2) = B2(IF a >= 128 THEN a + 65280 ELSE a)
  /\ ZExt(B1(a), 2) = B2(a)

\* fixed vectors at 64 bits
M1   == Ones(8)
MIN64 == <<0, 0, 0, 0, 0, 0, 0, 128>>
MAX64 == <<255, 255, 255, 255, 255, 255, 255, 127>>
Vec64 ==
  /\ Add(MAX64, OfInt(1, 8)) = MIN64
  /\ Mul(M1, M1) = OfInt(1, 8)
  /\ Mul(OfInt(65537, 8), OfInt(65537, 8)) = <<1, 0, 2, 0, 1, 0, 0, 0>>
  /\ Mul(MIN64, OfInt(2, 8)) = Zero(8)
  /\ UDivMod(M1, OfInt(10, 8)) = <<<<153, 153, 153, 153, 153, 153, 153, 25>>, OfInt(5, 8)>>   \* 1844674407370955161 r 5
  /\ SDivMod(MIN64, M1) = <<MIN64, Zero(8)>>
  /\ SDivMod(OfInt(-7, 8), OfInt(2, 8)) = <<OfInt(-3, 8), OfInt(-1, 8)>>
  /\ SDivMod(OfInt(7, 8), OfInt(-2, 8)) = <<OfInt(-3, 8), OfInt(1, 8)>>
  /\ UDivMod(M1, M1) = <<OfInt(1, 8), Zero(8)>>
  /\ UDivMod(MAX64, MIN64) = <<Zero(8), MAX64>>
  /\ UDivMod(M1, MIN64) = <<OfInt(1, 8), MAX64>>
  /\ Shl(OfInt(1, 8), 63) = MIN64 /\ Sar(MIN64, 63) = M1 /\ Shr(MIN64, 63) = OfInt(1, 8)
  /\ Wrap(M1, 32, FALSE) = <<255, 255, 255, 255, 0, 0, 0, 0>>
  /\ Wrap(<<0, 0, 0, 128, 0, 0, 0, 0>>, 32, TRUE) = <<0, 0, 0, 128, 255, 255, 255, 255>>
  /\ SLt(MIN64, MAX64) /\ ULt(MAX64, MIN64) /\ ~SLt(MAX64, MIN64)
  /\ BitLen(MIN64) = 64 /\ BitLen(Zero(8)) = 0 /\ Tz(MIN64) = 63 /\ Tz(OfInt(12, 8)) = 2
  /\ FitsS(OfInt(-128, 8), 8) /\ ~FitsS(OfInt(128, 8), 8) /\ FitsU(OfInt(255, 8), 8) /\ ~FitsU(OfInt(-1, 8), 8)
  /\ Mul(SExt(MIN64, 16), SExt(MIN64, 16)) = [i \in 1..16 |-> IF i = 16 THEN 64 ELSE 0]    \* 2^126
  /\ UDivMod([i \in 1..16 |-> IF i = 16 THEN 64 ELSE 0], ZExt(MIN64, 16))[1] = ZExt(MIN64, 16)
  /\ ToNat(OfInt(123456789, 8)) = 123456789
=============================================================================
