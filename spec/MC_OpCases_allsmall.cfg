SPECIFICATION OSpec
CONSTANTS ValueSet = "small"
  NParts = 1
INVARIANT OEmit
CHECK_DEADLOCK FALSE
