\* flow B of C05: deviations on = what the shipped type.c / expr.c do
SPECIFICATION TSpec
CONSTANTS
  Devs = {"CondSameTypeNoConversion", "CompositeIsFirst", "UacKeepsWideEnum", "SizeofSeesBitfield", "ConvertKeepsCompatible", "ArrayQualOnArrayType", "DerefDecayedArrayDropsQual"}
POSTCONDITION TraceAccepted
CHECK_DEADLOCK FALSE
