\* flow B of C05: deviations on = what the shipped type.c / expr.c do
\* Devs: deviations of the shipped code still open. Fixed in /repo and therefore removed (a regression is a VIOLATION):
\* CondSameTypeNoConversion (ba99903), ConvertKeepsCompatible + SizeofSeesBitfield (4c7c95a), DerefDecayedArrayDropsQual (13d3f3d),
\* UacKeepsWideEnum (60245bf)
SPECIFICATION TSpec
CONSTANTS
  Devs = {"CompositeIsFirst", "ArrayQualOnArrayType", "FoldedCondKeepsDecay", "FoldedNullVoidPtrIsNpc"}
POSTCONDITION TraceAccepted
CHECK_DEADLOCK FALSE
