SPECIFICATION Spec
CONSTANTS
  NP = 3
  Types <- TypesCore
  Rets <- RetsQuick
  Shapes <- ShapesAll
INVARIANT Emit
CHECK_DEADLOCK FALSE
