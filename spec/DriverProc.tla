----------------------------- MODULE DriverProc -----------------------------
(* Property C18: a failing stage makes the whole driver invocation fail cleanly.    *)
(*                                                                                  *)
(* Concurrent model of driver.c buildobj()/buildexe(): the driver process and one    *)
(* child process per pipeline stage, pipes with bounded buffers and explicit sets of *)
(* holders of each end, files as a set of paths.                                     *)
(*                                                                                  *)
(* The pipeline shape, the output mode and the program of every child are chosen by  *)
(* TLC in Init (constant afterwards):                                                *)
(*   cfg.nst[k]      number of stages of input k                                      *)
(*   cfg.mode        "link" (temporary objects + link step), "file" (-c/-S with one   *)
(*                   output per input), "stdout" (-E, -o -)                           *)
(*   cfg.fin         the input whose pipeline contains the failing stages (0: none)   *)
(*   cfg.ends[s]     how stage s of input cfg.fin ends (all other stages: "exit0")    *)
(*   cfg.big         a stage of input cfg.fin that writes more than a pipe holds (0: none) *)
(*   cfg.lend        how the link command ends                                        *)
(* A child that ends "exit0" or "exit1_after" has read its input to end-of-file       *)
(* (assumption of C18's liveness clause: a stage that exits 0 has drained its input). *)
(*                                                                                  *)
(* Driver actions are the critical sections of the C code (one system call each, or   *)
(* the straight-line code between two of them); the same actions are the events of    *)
(* Trace_DriverProc.tla (strace of the real driver).  Known defects are named          *)
(* deviations, present iff listed in Devs.                                            *)
EXTENDS Naturals, Integers, Sequences, FiniteSets, TLC, Json

CONSTANTS MaxInputs, MaxStages, Cap,   \* Cap: units a pipe buffers
          Modes, FailEnds, LinkEnds,   \* what TLC may choose
          MaxFail,                     \* at most this many stages of the failing input fail on their own
          Devs,                        \* subset of {"TempLeak", "LinkSpawnLeak"}; both repaired in /repo (cf8cbda, 683ccbd): {} in every cfg
          KeepReadEnds,                \* TRUE: the driver never closes the read ends it created (as the code)
          EmitCases                    \* print a VCASE line for every terminal state

VARIABLES cfg,
          pc, cur, si, npids, success, haspid, wret, output, exitc,   \* driver
          ch, lk, pipes, files,                                        \* children, link child, pipes, file system
          linkStarted, failed, early                                   \* history
vars == <<cfg, pc, cur, si, npids, success, haspid, wret, output, exitc, ch, lk, pipes, files, linkStarted, failed, early>>

Stages == 1..MaxStages
NONE == "none"
(* "signal": the stage dies of a signal at an arbitrary moment.  The model does not distinguish signals: whatever
   signal kills a stage — its own fault, the kernel, or someone outside the driver — the wait status is "signalled"
   and that is a failure of the stage.  The binding realises the end with EVERY signal of Signals, for each pipeline
   position and for the link command (a driver that forgives one of them, e.g. SIGTERM because it also sends it
   itself, must be caught). *)
Signals == <<"SIGSEGV", "SIGKILL", "SIGTERM", "SIGINT", "SIGHUP", "SIGPIPE", "SIGABRT">>
ASSUME PrintT("VSIGNALS " \o ToJson(Signals))
SelfEnds == {"exit1_before_read", "exit1_mid_write", "exit1_after", "signal"}   \* the stage fails on its own
(* "exit0_nodrain": exits 0 after writing its output without reading its input to the end — outside the
   assumption of C18's liveness clause; only used by MC_DriverProc_nodrain*.cfg to exhibit the schedule in which
   the driver, holding the read end itself, waits forever for an upstream stage blocked on a full pipe *)
AllEnds == SelfEnds \cup {"exit0", "spawn_fails", "exit0_nodrain"}

NoChild == [st |-> "none", status |-> "", eof |-> FALSE, wr |-> 0, term |-> FALSE]
NoPipe  == [buf |-> 0, r |-> {}, w |-> {}]

N == cfg.nst[cur]                               \* stages of the current input
EndOf(s) == IF cur = cfg.fin THEN cfg.ends[s] ELSE "exit0"
Big(s) == cur = cfg.fin /\ cfg.big = s
Target(s) ==                                    \* units stage s writes before it ends on its own
  LET w == IF Big(s) THEN Cap + 1 ELSE 1 IN
  CASE EndOf(s) = "exit1_before_read" -> 0
    [] EndOf(s) = "exit1_mid_write"   -> (w + 1) \div 2
    [] OTHER -> w
TmpOf(k) == "tmp" \o ToString(k)
OutOf(k) == "out" \o ToString(k)
Temps == {TmpOf(k) : k \in 1..MaxInputs}

EndsFor(n) ==      \* at least one and at most MaxFail of the n stages fail
  {e \in [Stages -> FailEnds \cup {"exit0"}] :
     /\ \A s \in Stages : s > n => e[s] = "exit0"
     /\ Cardinality({s \in Stages : e[s] # "exit0"}) \in 1..MaxFail}
AllOk == [s \in Stages |-> "exit0"]
(* stage counts: free for the input that fails (for every input when none fails); the other inputs are
   single-stage pipelines (an n-stage pipeline that succeeds is explored by the configurations without failure) *)
NstFor(ni, fin) == {f \in [1..MaxInputs -> Stages] : \A k \in 1..MaxInputs : (k > ni \/ (fin # 0 /\ k # fin)) => f[k] = 1}
Configs ==
  UNION {
    UNION {{[ni |-> ni, nst |-> nst, mode |-> m, fin |-> 0, ends |-> AllOk, big |-> 0, lend |-> le] :
              le \in (IF m = "link" THEN LinkEnds ELSE {"exit0"})} : nst \in NstFor(ni, 0)}
    \cup
    UNION {UNION {{[ni |-> ni, nst |-> nst, mode |-> m, fin |-> f, ends |-> e, big |-> b, lend |-> "exit0"] :
                     e \in EndsFor(nst[f]), b \in 0..(nst[f] - 1)} : nst \in NstFor(ni, f)} : f \in 1..ni}
    : ni \in 1..MaxInputs, m \in Modes}

Init ==
  /\ cfg \in Configs
  /\ pc = "start" /\ cur = 1 /\ si = 1 /\ npids = 0 /\ success = TRUE
  /\ haspid = [s \in Stages |-> FALSE] /\ wret = 0 /\ output = NONE /\ exitc = NONE
  /\ ch = [s \in Stages |-> NoChild] /\ lk = NoChild
  /\ pipes = [j \in Stages |-> NoPipe]
  /\ files = {} /\ linkStarted = FALSE /\ failed = FALSE /\ early = {}

(* ------------------------------------------------------------------------------ *)
(* Children.                                                                        *)
Die(s, status, how) ==      \* stage s becomes a zombie; its descriptors are closed
  /\ ch' = [ch EXCEPT ![s].st = "zombie", ![s].status = status]
  /\ pipes' = [j \in Stages |-> [pipes[j] EXCEPT !.r = @ \ {s}, !.w = @ \ {s}]]
  \* history: stages of the failing input that had exited 0 before any stage failed on its own
  /\ early' = IF how = "exit0" /\ ~failed /\ cur = cfg.fin THEN early \cup {s} ELSE early

CRead(s) ==
  /\ ch[s].st = "run" /\ ~ch[s].eof /\ EndOf(s) # "exit1_before_read"
  /\ IF s = 1 THEN ch' = [ch EXCEPT ![s].eof = TRUE] /\ UNCHANGED pipes          \* reads a file
     ELSE IF pipes[s - 1].buf > 0 THEN pipes' = [pipes EXCEPT ![s - 1].buf = @ - 1] /\ UNCHANGED ch
     ELSE /\ pipes[s - 1].w = {}                                                  \* end of file; else blocked
          /\ ch' = [ch EXCEPT ![s].eof = TRUE] /\ UNCHANGED pipes
  /\ UNCHANGED <<cfg, pc, cur, si, npids, success, haspid, wret, output, exitc, lk, files, linkStarted, failed, early>>

CWrite(s) ==
  /\ ch[s].st = "run" /\ ch[s].wr < Target(s)
  /\ IF s = N
     THEN /\ files' = IF output = NONE THEN files ELSE files \cup {output}        \* creates / extends the output file
          /\ ch' = [ch EXCEPT ![s].wr = @ + 1]
          /\ UNCHANGED <<pipes, failed, early>>
     ELSE IF pipes[s].r = {}
          THEN /\ Die(s, "sig", "SIGPIPE") /\ failed' = TRUE /\ UNCHANGED files
          ELSE /\ pipes[s].buf < Cap                                               \* else blocked
               /\ pipes' = [pipes EXCEPT ![s].buf = @ + 1]
               /\ ch' = [ch EXCEPT ![s].wr = @ + 1]
               /\ UNCHANGED <<files, failed, early>>
  /\ UNCHANGED <<cfg, pc, cur, si, npids, success, haspid, wret, output, exitc, lk, linkStarted>>

CExit(s) ==
  /\ ch[s].st = "run"
  /\ LET e == EndOf(s) IN
     \/ e = "exit0" /\ ch[s].eof /\ ch[s].wr = Target(s) /\ Die(s, "ok", "exit0") /\ UNCHANGED failed
     \/ e = "exit0_nodrain" /\ ch[s].wr = Target(s) /\ Die(s, "ok", "exit0") /\ UNCHANGED failed
     \/ e = "exit1_after" /\ ch[s].eof /\ ch[s].wr = Target(s) /\ Die(s, "exit1", e) /\ failed' = TRUE
     \/ e = "exit1_mid_write" /\ ch[s].wr = Target(s) /\ Die(s, "exit1", e) /\ failed' = TRUE
     \/ e = "exit1_before_read" /\ Die(s, "exit1", e) /\ failed' = TRUE
  /\ UNCHANGED <<cfg, pc, cur, si, npids, success, haspid, wret, output, exitc, lk, files, linkStarted>>

CCrash(s) ==
  /\ ch[s].st = "run" /\ EndOf(s) = "signal"
  /\ Die(s, "sig", "signal") /\ failed' = TRUE
  /\ UNCHANGED <<cfg, pc, cur, si, npids, success, haspid, wret, output, exitc, lk, files, linkStarted>>

CTermDelivered(s) ==
  /\ ch[s].st = "run" /\ ch[s].term
  /\ Die(s, "sig", "TERM")
  /\ UNCHANGED <<cfg, pc, cur, si, npids, success, haspid, wret, output, exitc, lk, files, linkStarted, failed>>

ChildStep(s) == CRead(s) \/ CWrite(s) \/ CExit(s) \/ CCrash(s) \/ CTermDelivered(s)

(* the link command: reads the objects, writes the executable *)
LWrite == /\ lk.st = "run" /\ lk.wr = 0 /\ files' = files \cup {"exe"} /\ lk' = [lk EXCEPT !.wr = 1]
          /\ UNCHANGED <<cfg, pc, cur, si, npids, success, haspid, wret, output, exitc, ch, pipes, linkStarted, failed, early>>
LEnd == /\ lk.st = "run"
        /\ \/ cfg.lend = "exit0" /\ lk.wr = 1 /\ lk' = [lk EXCEPT !.st = "zombie", !.status = "ok"]
           \/ cfg.lend = "exit1_after" /\ lk.wr = 1 /\ lk' = [lk EXCEPT !.st = "zombie", !.status = "exit1"]
           \/ cfg.lend = "signal" /\ lk' = [lk EXCEPT !.st = "zombie", !.status = "sig"]
        /\ UNCHANGED <<cfg, pc, cur, si, npids, success, haspid, wret, output, exitc, ch, pipes, files, linkStarted, failed, early>>

(* ------------------------------------------------------------------------------ *)
(* Driver: buildobj().                                                              *)
DUnch == <<cfg, ch, lk, pipes, files, linkStarted, failed, early>>

(* output name; mkstemp creates the temporary object *)
Mkstemp ==
  /\ pc = "start" /\ cfg.mode = "link"
  /\ files' = files \cup {TmpOf(cur)} /\ output' = TmpOf(cur)
  /\ pc' = "spawn" /\ si' = 1 /\ npids' = 0
  /\ UNCHANGED <<cfg, cur, success, haspid, wret, exitc, ch, lk, pipes, linkStarted, failed, early>>
NameOutput ==
  /\ pc = "start" /\ cfg.mode # "link"
  /\ output' = IF cfg.mode = "file" THEN OutOf(cur) ELSE NONE
  /\ pc' = "spawn" /\ si' = 1 /\ npids' = 0
  /\ UNCHANGED <<cfg, cur, success, haspid, wret, exitc, ch, lk, pipes, files, linkStarted, failed, early>>

(* spawnphase(): pipe(), posix_spawn() succeeded; the child holds the previous read end as its stdin and the
   new write end as its stdout; the driver holds both ends of the new pipe *)
SpawnOk ==
  /\ pc = "spawn" /\ si <= N /\ EndOf(si) # "spawn_fails"
  /\ ch' = [ch EXCEPT ![si] = [NoChild EXCEPT !.st = "run"]]
  /\ pipes' = [j \in Stages |->
                 IF j = si /\ si < N THEN [buf |-> 0, r |-> {0}, w |-> {0, si}]          \* 0 is the driver
                 ELSE IF j = si - 1 THEN [pipes[j] EXCEPT !.r = (IF KeepReadEnds THEN @ ELSE @ \ {0}) \cup {si}]
                 ELSE pipes[j]]
  /\ haspid' = [haspid EXCEPT ![si] = TRUE]
  /\ npids' = npids + 1
  /\ pc' = IF si < N THEN "closew" ELSE "wait"
  /\ UNCHANGED <<cfg, cur, si, success, wret, output, exitc, lk, files, linkStarted, failed, early>>
(* close(pipefd[1]) *)
CloseWriteEnd ==
  /\ pc = "closew"
  /\ pipes' = [pipes EXCEPT ![si].w = @ \ {0}]
  /\ si' = si + 1 /\ pc' = "spawn"
  /\ UNCHANGED <<cfg, cur, npids, success, haspid, wret, output, exitc, ch, lk, files, linkStarted, failed, early>>
(* posix_spawn() failed: both ends of the new pipe are closed again; goto kill *)
SpawnErr ==
  /\ pc = "spawn" /\ si <= N /\ EndOf(si) = "spawn_fails"
  /\ failed' = TRUE
  /\ pc' = "kill"
  /\ UNCHANGED <<cfg, cur, si, npids, success, haspid, wret, output, exitc, ch, lk, pipes, files, linkStarted, early>>

(* wait(): returns ANY terminated child *)
Wait(s) ==
  /\ pc = "wait" /\ npids > 0
  /\ ch[s].st = "zombie"
  /\ ch' = [ch EXCEPT ![s].st = "reaped"]
  /\ wret' = s /\ pc' = "match"
  /\ UNCHANGED <<cfg, cur, si, npids, success, haspid, output, exitc, lk, pipes, files, linkStarted, failed, early>>
(* the for loop over stages[] and succeeded() *)
MatchPid ==
  /\ pc = "match"
  /\ haspid[wret]                                  \* always true here: only stages are children
  /\ npids' = npids - 1 /\ haspid' = [haspid EXCEPT ![wret] = FALSE]
  /\ pc' = IF ch[wret].status = "ok" THEN "wait" ELSE "kill"
  /\ UNCHANGED <<cfg, cur, si, success, wret, output, exitc>> /\ UNCHANGED DUnch
(* kill: — SIGTERM to every stage that still has a pid, on the first failure only *)
KillRemaining ==
  /\ pc = "kill"
  /\ ch' = IF success /\ npids > 0 THEN [s \in Stages |-> IF haspid[s] THEN [ch[s] EXCEPT !.term = TRUE] ELSE ch[s]] ELSE ch
  /\ success' = FALSE /\ pc' = "wait"
  /\ UNCHANGED <<cfg, cur, si, npids, haspid, wret, output, exitc, lk, pipes, files, linkStarted, failed, early>>
(* while (npids > 0) left *)
WaitDone ==
  /\ pc = "wait" /\ npids = 0
  /\ pc' = IF success THEN "next" ELSE "unlink"
  /\ UNCHANGED <<cfg, cur, si, npids, success, haspid, wret, output, exitc>> /\ UNCHANGED DUnch
(* if (output) unlink(output); — the repaired driver also removes the temporaries of earlier inputs *)
UnlinkOutput ==
  /\ pc = "unlink"
  /\ files' = (files \ {output}) \ (IF "TempLeak" \in Devs THEN {} ELSE Temps)
  /\ pc' = "exit1"
  /\ UNCHANGED <<cfg, cur, si, npids, success, haspid, wret, output, exitc, ch, lk, pipes, linkStarted, failed, early>>
Exit1 ==
  /\ pc = "exit1" /\ exitc' = 1 /\ pc' = "exited"
  /\ UNCHANGED <<cfg, cur, si, npids, success, haspid, wret, output>> /\ UNCHANGED DUnch
(* next iteration of main()'s loop over the inputs; children and pipes of this input are gone *)
NextInput ==
  /\ pc = "next"
  /\ IF cur < cfg.ni
     THEN /\ cur' = cur + 1 /\ pc' = "start" /\ UNCHANGED exitc
          /\ ch' = [s \in Stages |-> NoChild]
          /\ pipes' = [j \in Stages |-> NoPipe]        \* (the read ends the driver still holds belong to dead pipes)
     ELSE /\ UNCHANGED <<cur, ch, pipes>>
          /\ IF cfg.mode = "link" THEN pc' = "link" /\ UNCHANGED exitc
             ELSE pc' = "exited" /\ exitc' = 0                                   \* return 0 from main()
  /\ UNCHANGED <<cfg, si, npids, success, haspid, wret, output, lk, files, linkStarted, failed, early>>

(* buildexe() *)
SpawnLinkOk ==
  /\ pc = "link" /\ cfg.lend # "spawn_fails"
  /\ lk' = [NoChild EXCEPT !.st = "run"] /\ linkStarted' = TRUE /\ pc' = "linkwait"
  /\ UNCHANGED <<cfg, cur, si, npids, success, haspid, wret, output, exitc, ch, pipes, files, failed, early>>
(* fatal("spawn …"): exit(1) without removing the temporaries *)
SpawnLinkErr ==
  /\ pc = "link" /\ cfg.lend = "spawn_fails"
  /\ files' = IF "LinkSpawnLeak" \in Devs THEN files ELSE files \ Temps
  /\ exitc' = 1 /\ pc' = "exited"
  /\ UNCHANGED <<cfg, cur, si, npids, success, haspid, wret, output, ch, lk, pipes, linkStarted, failed, early>>
(* waitpid(pid) *)
WaitLink ==
  /\ pc = "linkwait" /\ lk.st = "zombie"
  /\ lk' = [lk EXCEPT !.st = "reaped"] /\ pc' = "unlinktemps"
  /\ UNCHANGED <<cfg, cur, si, npids, success, haspid, wret, output, exitc, ch, pipes, files, linkStarted, failed, early>>
UnlinkTemps ==
  /\ pc = "unlinktemps"
  /\ files' = files \ Temps /\ pc' = "exitlink"
  /\ UNCHANGED <<cfg, cur, si, npids, success, haspid, wret, output, exitc, ch, lk, pipes, linkStarted, failed, early>>
ExitLink ==
  /\ pc = "exitlink" /\ exitc' = (IF lk.status = "ok" THEN 0 ELSE 1) /\ pc' = "exited"
  /\ UNCHANGED <<cfg, cur, si, npids, success, haspid, wret, output>> /\ UNCHANGED DUnch

DriverStep == \/ Mkstemp \/ NameOutput \/ SpawnOk \/ CloseWriteEnd \/ SpawnErr \/ (\E s \in Stages : Wait(s)) \/ MatchPid
              \/ KillRemaining \/ WaitDone \/ UnlinkOutput \/ Exit1 \/ NextInput
              \/ SpawnLinkOk \/ SpawnLinkErr \/ WaitLink \/ UnlinkTemps \/ ExitLink

Next == DriverStep \/ (\E s \in Stages : ChildStep(s)) \/ LWrite \/ LEnd
Spec == Init /\ [][Next]_vars
FairSpec == Spec /\ WF_vars(DriverStep) /\ (\A s \in Stages : WF_vars(ChildStep(s))) /\ WF_vars(LWrite) /\ WF_vars(LEnd)

(* ------------------------------------------------------------------------------ *)
(* Properties.                                                                      *)
Exited == pc = "exited"
LinkFailed == cfg.mode = "link" /\ cfg.fin = 0 /\ cfg.lend # "exit0"
FailOutput == IF cfg.mode = "link" THEN TmpOf(cur) ELSE IF cfg.mode = "file" THEN OutOf(cur) ELSE NONE

(* a failing stage: exit non-zero, no link, the output of that pipeline removed *)
Inv_FailClean == (Exited /\ failed) => exitc = 1 /\ ~linkStarted /\ FailOutput \notin files
(* temporaries: none survives the driver — except what the listed deviations leave behind *)
AllowedLeak == (IF "TempLeak" \in Devs /\ failed THEN {TmpOf(k) : k \in 1..(cur - 1)} ELSE {})
               \cup (IF "LinkSpawnLeak" \in Devs /\ cfg.lend = "spawn_fails" THEN Temps ELSE {})
Inv_NoTemps == Exited => (files \cap Temps) \subseteq AllowedLeak
(* required behaviour, used by the harness as the reference: no temporaries at all *)
(* success: output in place *)
Inv_Success == (Exited /\ exitc = 0) =>
                 /\ ~failed /\ ~LinkFailed
                 /\ IF cfg.mode = "link" THEN "exe" \in files
                    ELSE IF cfg.mode = "file" THEN \A k \in 1..cfg.ni : OutOf(k) \in files ELSE TRUE
Inv_ExitCode == (Exited /\ ~failed /\ ~LinkFailed) => exitc = 0
Inv_LinkFail == (Exited /\ LinkFailed) => exitc = 1
(* nothing left running or un-reaped *)
Inv_Reaped == Exited => (\A s \in Stages : ch[s].st \in {"none", "reaped"}) /\ lk.st \in {"none", "reaped"}
(* the driver only ever signals its own live or un-reaped children *)
Inv_Npids == npids = Cardinality({s \in Stages : haspid[s]}) \/ pc = "match"
TypeOK == /\ pc \in {"start", "spawn", "closew", "wait", "match", "kill", "unlink", "exit1", "next", "link", "linkwait",
                     "unlinktemps", "exitlink", "exited"}
          /\ \A j \in Stages : pipes[j].buf \in 0..Cap

Live_Exits == <>Exited

(* ------------------------------------------------------------------------------ *)
(* Behaviour classes for flow A: one line per terminal state.                       *)
EmitCase ==
  PrintT("VCASE " \o ToJson([cfg |-> cfg, early |-> early, exit |-> exitc, files |-> files, link |-> linkStarted,
                             required_files |-> files \ Temps]))
Inv_Emit == (EmitCases /\ Exited) => EmitCase
=============================================================================
