----------------------------- MODULE MacroDisc -----------------------------
(* The hide discipline of pp.c's context stack, as a relation on the sequence  *)
(* of macros whose replacement-list frames are live (bottom first):            *)
(*   frames are dropped from the top only; a macro is pushed only while it is   *)
(*   not live (= not hidden), hence un-hidden exactly once per push; macrodepth *)
(*   is the length of the sequence.                                             *)
(* Macro.tla checks that PPModel obeys it (Prop_Disc); Trace_PP.tla checks the  *)
(* H7 events of real executions against it.  Property C12.                      *)
EXTENDS Naturals, Sequences

RangeOf(s) == {s[i] : i \in 1..Len(s)}
IsPrefix(p, s) == Len(p) <= Len(s) /\ \A i \in 1..Len(p) : p[i] = s[i]

(* one step of the implementation: any number of drops, then at most one push *)
DiscStep(s, s2, allowHidden) ==
  \/ IsPrefix(s2, s)
  \/ /\ s2 # <<>> /\ IsPrefix(SubSeq(s2, 1, Len(s2) - 1), s)
     /\ (allowHidden \/ s2[Len(s2)] \notin RangeOf(SubSeq(s2, 1, Len(s2) - 1)))
=============================================================================
