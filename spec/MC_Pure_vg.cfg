SPECIFICATION Spec
CONSTANTS
  Which = "vg"
INVARIANTS TypeOK Inv_Bookkeeping Inv_Progress Inv_Covering Inv_NoDupRows Inv_Emit
PROPERTIES Terminates
CHECK_DEADLOCK FALSE
