------------------------------ MODULE CSFrags ------------------------------
(* Bases, positions and the universe of fragments that can fill a slot of a      *)
(* MiniC program (property C10, used by CStatic.tla).                             *)
(*                                                                               *)
(* A fragment is a record of *semantic attributes* (operands, operator, types,   *)
(* member lists, keyword lists ...), never a piece of C text and never a verdict: *)
(* the rules of CStatic.tla decide from the attributes which constraints a        *)
(* fragment violates at a given position of a given base; the harness renders the *)
(* attributes to C.                                                               *)
EXTENDS CSTypes, Integers

(* ---- positions ------------------------------------------------------------- *)
(* file   : at file scope, before the definition of zbase.  Expression fragments  *)
(*          are placed there as the unevaluated operand of sizeof in the          *)
(*          initializer of a file-scope object.                                   *)
(* block  : directly in the compound statement that is the slot of the base       *)
(*          (for b with ctx = <<>> this is the outermost block of the function).   *)
(* nested : expressions: operand of a comma operator inside a larger expression;   *)
(*          statements/declarations: inside an extra `if (gi) { ... }` block.      *)
(* macro  : the fragment's tokens are the replacement list of an object-like       *)
(*          macro defined at file scope; the macro is invoked at the block slot.   *)
Positions == {"file", "block", "nested", "macro"}
Evaluated(p) == p # "file"

(* ---- bases -------------------------------------------------------------------- *)
(* ret: return type of zbase; ctx: statements enclosing the slot, outermost first;  *)
(* a switch in ctx has `case 1:` before the slot and `default:` iff dflt;           *)
(* var: zbase is variadic and has a started va_list `ap`.                            *)
(* zbase always has a parameter `int pa`, the locals li, lr and a label L1.          *)
(* fn: the kind of function definition zbase is (the FUNCTION CONTEXT of the slot):                       *)
(*   plain `T zbase(..)`, static, inline (an inline definition, 6.7.4p7), static_inline, extern_inline,   *)
(*   decl_inline (`T zbase(..);` then `inline T zbase(..) {`: an external definition), noreturn.           *)
B(r, c, d, v) == [ret |-> r, ctx |-> c, dflt |-> d, var |-> v, fn |-> "plain"]
BF(r, c, fn) == [ret |-> r, ctx |-> c, dflt |-> FALSE, var |-> FALSE, fn |-> fn]
BaseTab == [
  b01 |-> B("void", <<>>, FALSE, FALSE),
  b02 |-> B("int", <<>>, FALSE, FALSE),
  b03 |-> B("void", <<"while">>, FALSE, FALSE),
  b04 |-> B("int", <<"for">>, FALSE, FALSE),
  b05 |-> B("void", <<"do">>, FALSE, FALSE),
  b06 |-> B("int", <<"switch">>, FALSE, FALSE),
  b07 |-> B("void", <<"switch">>, TRUE, FALSE),
  b08 |-> B("int", <<"while", "switch">>, FALSE, FALSE),
  b09 |-> B("void", <<"switch", "for">>, FALSE, FALSE),
  b10 |-> B("void", <<"if">>, FALSE, FALSE),
  b11 |-> B("int", <<"else">>, FALSE, FALSE),
  b12 |-> B("void", <<"block", "block">>, FALSE, FALSE),
  b13 |-> B("ptr_int", <<>>, FALSE, FALSE),
  b14 |-> B("struct_S", <<>>, FALSE, FALSE),
  b15 |-> B("int", <<>>, FALSE, TRUE),
  b16 |-> B("void", <<"switch", "if">>, TRUE, FALSE),
  b17 |-> B("int", <<"for", "block">>, FALSE, FALSE),
  b18 |-> B("void", <<"do", "switch">>, FALSE, FALSE),
  b19 |-> B("double", <<>>, FALSE, FALSE),
  b20 |-> B("void", <<"while", "while">>, FALSE, TRUE),
  b21 |-> BF("void", <<>>, "static"),         b22 |-> BF("int", <<"while", "switch">>, "static"),
  b23 |-> BF("void", <<>>, "inline"),         b24 |-> BF("int", <<"while", "switch">>, "inline"),
  b25 |-> BF("void", <<>>, "static_inline"),  b26 |-> BF("int", <<"while", "switch">>, "static_inline"),
  b27 |-> BF("void", <<>>, "extern_inline"),  b28 |-> BF("int", <<"while", "switch">>, "extern_inline"),
  b29 |-> BF("void", <<>>, "decl_inline"),    b30 |-> BF("int", <<"while", "switch">>, "decl_inline"),
  b31 |-> BF("void", <<>>, "noreturn"),       b32 |-> BF("void", <<"while", "switch">>, "noreturn")
]
FnOf(b) == BaseTab[b].fn
(* 6.7.4p3: an inline definition of a function with external linkage defines no object of static or thread storage duration *)
BaseLocals(b) == IF FnOf(b) = "inline" THEN <<PreludeLocals[1]>> ELSE PreludeLocals
AllBases == DOMAIN BaseTab
InLoop(b)   == \E i \in DOMAIN BaseTab[b].ctx : BaseTab[b].ctx[i] \in {"while", "do", "for"}
InSwitch(b) == \E i \in DOMAIN BaseTab[b].ctx : BaseTab[b].ctx[i] = "switch"
(* the slot shares the scope of li/lr/pa only when nothing encloses it *)
SlotIsBody(b) == BaseTab[b].ctx = <<>>
CasesBefore(b) == IF InSwitch(b) THEN {"1"} ELSE {}
HasDefault(b)  == InSwitch(b) /\ BaseTab[b].dflt
LabelsDefined  == {"L1"}

(* ---- expression fragments --------------------------------------------------------- *)
BinOps == {"*", "/", "%", "+", "-", "<<", ">>", "<", ">", "<=", ">=", "==", "!=", "&", "^", "|", "&&", "||"}
AsgOps == {"=", "*=", "%=", "+=", "-=", "<<=", "&="}
UnOps  == {"neg", "pos", "bnot", "lnot", "deref", "addr", "preinc", "postinc", "predec", "sizeof"}
OpBin  == {"gi", "gd", "gp", "gq", "gv", "gs", "gfp", "k0", "gip", "gcp", "gld", "kpi", "kpc", "kv", "knil"}
OpUn   == {"gi", "gc", "gvol", "gd", "gld", "gp", "gv", "gfp", "gs", "ga", "gf", "gsbf", "gsm", "k1", "ks", "lr", "li", "gb", "gsp", "gq", "gcbf",
           "gcsa1", "gcspa1", "gcspin", "gcspm2", "gta1", "gcap1", "gvsa1", "gssa1", "gsspa1"}
OpLhs  == {"gi", "gc", "gvol", "gd", "gld", "gp", "gq", "gv", "gcp", "gs", "ga", "gf", "k1", "gsbf", "gb", "li", "gfp", "gcbf",
           "gcsa1", "gcspa1", "gcspin", "gcspm2", "gta1", "gcap1", "gvsa1", "gssa1", "gsspa1", "gta"}
OpRhs  == {"gi", "gd", "gp", "gq", "gv", "gcp", "gs", "gt", "k0", "k1", "gf", "gld", "kv", "kpi", "gcspa", "gcapd", "gta", "gsspa", "gcspin", "gcspm2", "gvsa1"}
OpArg  == {"gi", "gd", "gp", "gq", "gs", "gt", "k0"}
SInitTypes == {"int", "double", "bool", "ptr_int", "ptr_char", "ptr_void", "ptr_cint", "struct_S"}
CastTypes  == {"int", "double", "ptr_int", "void", "struct_S", "bool"}

FUse(n)       == [form |-> "use", n |-> n]
FBin(o, l, r) == [form |-> "bin", op |-> o, l |-> l, r |-> r]
FUn(o, a)     == [form |-> "un", op |-> o, a |-> a]
FAsg(o, l, r) == [form |-> "asg", op |-> o, l |-> l, r |-> r]
FCall(c, as)  == [form |-> "call", fn |-> c, args |-> as]
FMem(o, a, m) == [form |-> "mem", op |-> o, a |-> a, m |-> m]
FIdx(a, i)    == [form |-> "idx", a |-> a, i |-> i]
FCast(t, a)   == [form |-> "cast", to |-> t, a |-> a]
FCond(c, a, x) == [form |-> "cond", c |-> c, a |-> a, b |-> x]
FSizeofT(o, t) == [form |-> "sizeoft", op |-> o, ty |-> t]
FSInit(t, o)  == [form |-> "sinit", ty |-> t, o |-> o]
FLit(k)       == [form |-> "lit", kind |-> k]
FVaArg(a, t)  == [form |-> "vaarg", a |-> a, ty |-> t]
(* _Generic: controlling operand, association type names in order ("default" allowed) *)
FGeneric(c, as) == [form |-> "generic", c |-> c, assoc |-> as]

UseFrags  == {FUse(n) : n \in {"gi", "li", "nope", "ek"}}
BinFrags  == {FBin(o, l, r) : o \in BinOps, l \in OpBin, r \in OpBin}
UnFrags   == {FUn(o, a) : o \in UnOps, a \in OpUn}
AsgFrags  == {FAsg(o, l, r) : o \in AsgOps, l \in OpLhs, r \in OpRhs}
CallFrags == {FCall(c, as) : c \in {"gf", "gvf", "gpf", "gsfn", "gvar", "gfp", "gi", "gp", "gs"},
                             as \in {<<>>} \cup {<<a>> : a \in OpArg} \cup {<<a, x>> : a \in {"gi", "gp"}, x \in {"gi", "gd"}}
                                   \cup {<<"gi", "gi", x>> : x \in {"gd", "gp", "gs"}}}
MemFrags  == {FMem(o, a, m) : o \in {".", "->"}, a \in {"gs", "gt", "gu", "gsp", "gi", "gp", "gd"}, m \in {"m", "q", "zz"}}
IdxFrags  == {FIdx(a, i) : a \in {"gp", "ga", "gq", "gi", "gv", "gip", "gs", "gd", "gfp"}, i \in {"gi", "k1", "gd", "gp", "gs", "ga"}}
CastFrags == {FCast(t, a) : t \in CastTypes, a \in {"gi", "gd", "gp", "gs", "gv", "gf", "k0", "gld"}}
CondFrags == {FCond(c, a, x) : c \in {"gi", "gp", "gs", "gd"}, a \in {"gi", "gd", "gp", "gq", "gv", "gs", "gt", "k0", "kpi", "kpc", "kv", "knil", "gfp"},
                               x \in {"gi", "gd", "gp", "gq", "gv", "gs", "gt", "k0", "kpi", "kpc", "kv", "knil", "gfp"}}
SizeofTFrags == {FSizeofT(o, t) : o \in {"sizeof", "_Alignof"}, t \in {"int", "struct_S", "void", "struct_I", "fn_ii", "arr_unk", "ptr_inc", "arr_int", "named_abstract"}}
SInitFrags == {FSInit(t, o) : t \in SInitTypes, o \in OpRhs \cup {"kd", "ks", "ga"}}
LitKinds == {"ok_int", "ok_hex", "ok_ull", "ok_float", "ok_char", "ok_esc", "ok_str", "ok_strcat", "ok_wide",
             "empty_char", "multi_char", "bad_escape", "bad_escape_str", "bad_hex", "unterm_str", "unterm_char",
             "eof_comment", "bad_int_suffix", "bad_octal", "bad_float_suffix", "hex_nodigits", "exp_nodigits",
             "mixed_prefix", "stray_char", "too_big_int", "bin_nodigits", "invalid_utf8", "eof_char", "eof_str"}
LitFrags  == {FLit(k) : k \in LitKinds}
VaArgFrags == {FVaArg(a, t) : a \in {"ap", "gi"}, t \in {"int", "double", "ptr_int", "struct_S", "union_U"}}
GenericFrags == {FGeneric(c, as) : c \in {"gi", "gd", "gp"},
                 as \in {<<"int", "default">>, <<"int">>, <<"double", "ptr_int">>, <<"default", "default">>, <<"int", "int">>,
                         <<"int", "double", "ptr_int">>, <<"struct_I", "default">>, <<"fn_ii", "default">>, <<"arr_unk", "default">>,
                         <<"default">>, <<"ptr_char", "bool">>, <<"bad", "default">>, <<"vla", "default">>}}
(* expressions that are not derivable from the grammar (6.5.x syntax) *)
FSynx(k) == [form |-> "synx", kind |-> k]
SynxFrags == {FSynx(k) : k \in {"member_nonident", "alignof_noparen", "missing_operand", "cond_missing_colon", "typedef_as_value", "paren_ok"}}
(* the built-in functions documented in doc/extensions.md; ap: mentions the va_list of a variadic base *)
FBuiltin(k, ap) == [form |-> "builtin", kind |-> k, ap |-> ap]
BuiltinFrags ==
  {FBuiltin(k, FALSE) : k \in {"offsetof_ok", "offsetof_nested_ok", "offsetof_idx_ok", "offsetof_nonstruct", "offsetof_nomember",
      "offsetof_idx_nonarray", "offsetof_mem_nonstruct", "offsetof_nested_nomember", "va_copy_dst", "va_end_bad", "va_start_bad",
      "nanf_ok", "nanf_arg", "tcp_ok", "constant_p_ok", "expect_ok", "alloca_ok", "unreachable_ok", "inff_ok"}} \cup
  {FBuiltin(k, TRUE) : k \in {"va_copy_src", "va_copy_ok", "va_end_ok"}}
ExprFrags == SynxFrags \cup BuiltinFrags \cup UseFrags \cup BinFrags \cup UnFrags \cup AsgFrags \cup CallFrags \cup MemFrags \cup IdxFrags \cup CastFrags
             \cup CondFrags \cup SizeofTFrags \cup LitFrags \cup VaArgFrags \cup GenericFrags
ExprForms == {"use", "bin", "un", "asg", "call", "mem", "idx", "cast", "cond", "sizeoft", "lit", "vaarg", "generic", "synx", "builtin"}

(* ---- statement fragments ------------------------------------------------------------ *)
FStmt(k, v) == [form |-> "stmt", kind |-> k, v |-> v]
FCtl(k, c)  == [form |-> "ctl", kw |-> k, c |-> c]
StmtFrags ==
  {FStmt("case", v) : v \in {"1", "2", "gi", "1.5"}} \cup {FStmt("default", "")} \cup
  {FStmt("label", v) : v \in {"L1", "L2"}} \cup {FStmt("goto", v) : v \in {"L1", "nolabel"}} \cup
  {FStmt("break", ""), FStmt("continue", ""), FStmt("asm", ""), FStmt("empty", "")} \cup
  {FStmt("return", v) : v \in {"none", "gi", "gd", "gp", "gq", "gs", "gt", "k0", "gld", "gcp"}}
CtlFrags == {FCtl(k, c) : k \in {"if", "while", "do", "for", "switch"}, c \in {"gi", "gd", "gp", "gs", "gb", "gld", "ga"}}
(* A whole switch statement with two case labels: `switch (ctl) { case A: ; case B: ; }`.                              *)
(* ct: type of the controlling expression (CtlVar gives the object used).  A case constant is the VALUE k + m * 2^32  *)
(* (k small, m one of the tags below; p32 stands for m = 2^32, i.e. k + 2^64) WRITTEN as a constant of type ty        *)
(* (int, unsigned int, long long, unsigned long long), as one literal (wr = lit) or as `M + k` (wr = sum).            *)
(* 2^32 multiples never enter TLC's 32-bit integers: equality after conversion is decided on (k, m-tag).              *)
CtlVar == [bool |-> "gb", char |-> "gch", short |-> "gsh", int |-> "gi", unsigned |-> "gun", long |-> "glo", ulong |-> "gul"]
CtlTypes == DOMAIN CtlVar
MTags == {"0", "1", "-1", "2", "max31", "min31", "p32"}     \* m = 0, 1, -1, 2, 0x7fffffff, -0x80000000, 2^32
KC(k, m, ty, wr) == [k |-> k, m |-> m, ty |-> ty, wr |-> wr]
WellWritten(c) ==
  /\ CASE c.ty = "int" -> c.m = "0"
        [] c.ty = "uint" -> (c.m = "0" /\ c.k >= 0) \/ (c.m = "1" /\ c.k < 0)
        [] c.ty = "ll" -> c.m # "p32" /\ ~(c.m = "min31" /\ c.k < 0)
        [] c.ty = "ull" -> c.m \in {"1", "2", "max31"} \/ (c.m = "0" /\ c.k >= 0) \/ (c.m = "p32" /\ c.k < 0)
        [] OTHER -> FALSE
  /\ c.wr = "sum" => (c.ty = "ll" /\ c.m \notin {"0"})
CaseConsts(ks) == {c \in {KC(k, m, ty, wr) : k \in ks, m \in MTags, ty \in {"int", "uint", "ll", "ull"}, wr \in {"lit", "sum"}} : WellWritten(c)}
FSwCase(ct, a, b) == [form |-> "swcase", ct |-> ct, a |-> a, b |-> b]
SwCaseFrags == UNION {{FSwCase(ct, KC(k, "0", "int", "lit"), c) : c \in CaseConsts({k, k + 1})} : ct \in CtlTypes, k \in {-1, 1, 7}}
StmtForms == {"stmt", "ctl", "swcase"}

(* ---- declaration fragments ---------------------------------------------------------- *)
FSpec(kw)      == [form |-> "spec", kw |-> kw]
FSc(sc, w)     == [form |-> "sc", sc |-> sc, what |-> w]
FObj(t)        == [form |-> "obj", ty |-> t]
FBf(t, w, n, pk, al) == [form |-> "bf", ty |-> t, w |-> w, named |-> n, packed |-> pk, al |-> al]
FAlignas(n, on) == [form |-> "alignas", n |-> n, on |-> on]
FArr(n, el)    == [form |-> "arr", n |-> n, el |-> el]
FSa(v, w, m)   == [form |-> "sa", v |-> v, where |-> w, msg |-> m]
FInit(t, n, d, v) == [form |-> "init", tgt |-> t, n |-> n, des |-> d, val |-> v]
FStrInit(t, l) == [form |-> "strinit", tgt |-> t, lit |-> l]
FStruct(ms)    == [form |-> "struct", mem |-> ms]
FParam(ps, d)  == [form |-> "param", ps |-> ps, def |-> d]
FFdecl(r)      == [form |-> "fdecl", ret |-> r]
FRedecl(n, k, t, sc, i) == [form |-> "redecl", name |-> n, kind |-> k, ty |-> t, sc |-> sc, init |-> i, asm |-> FALSE]
FTag(kw, tag, body, use) == [form |-> "tag", kw |-> kw, tag |-> tag, body |-> body, use |-> use]
FEnum(items)   == [form |-> "enum", items |-> items, ub |-> ""]
FMisc(k)       == [form |-> "misc", kind |-> k]

SpecFrags == {FSpec(kw) : kw \in {
   <<"int">>, <<"long", "long">>, <<"unsigned", "long", "long", "int">>, <<"signed", "char">>, <<"short", "int">>,
   <<"long", "unsigned">>, <<"unsigned">>, <<"long", "double">>, <<"struct_S">>, <<"td_t">>, <<"_Bool">>, <<"const", "int">>,
   <<"int", "int">>, <<"void", "int">>, <<"short", "short">>, <<"long", "long", "long">>, <<"signed", "unsigned">>,
   <<"signed", "signed">>, <<"unsigned", "unsigned", "int">>, <<"unsigned", "double">>, <<"short", "char">>, <<"long", "char">>,
   <<"float", "int">>, <<"int", "struct_S">>, <<"signed", "float">>, <<"long", "float">>, <<"short", "double">>,
   <<"td_t", "int">>, <<"_Bool", "int">>, <<"signed", "_Bool">>, <<"long", "void">>, <<"const">>, <<"const", "volatile">>,
   <<"_Atomic", "int">>, <<"double", "_Complex">>, <<"float", "_Complex">>, <<"int", "_Complex">>,
   <<"_BitInt">>, <<"_Decimal32">>, <<"_Decimal64">>, <<"_Decimal128">>, <<"constexpr", "int">>}}
ScFrags == {FSc(sc, w) : w \in {"obj"}, sc \in {
   <<>>, <<"static">>, <<"extern">>, <<"typedef">>, <<"auto">>, <<"register">>, <<"_Thread_local">>,
   <<"_Thread_local", "static">>, <<"extern", "_Thread_local">>, <<"static", "extern">>, <<"typedef", "static">>,
   <<"auto", "register">>, <<"static", "static">>, <<"extern", "auto">>, <<"typedef", "_Thread_local">>,
   <<"static", "_Thread_local", "extern">>}}
  \cup {FSc(sc, "fn") : sc \in {<<>>, <<"extern">>, <<"static">>, <<"auto">>, <<"register">>, <<"typedef">>, <<"static", "extern">>}}
ObjFrags == {FObj(t) : t \in {"int", "void", "struct_I", "arr_unk", "struct_S", "ptr_inc"}}
BfFrags == {FBf(t, w, n, pk, al) : t \in {"int", "bool", "double", "ptr_int", "struct_S"}, w \in {-1, 0, 1, 3, 32, 33},
                                   n \in BOOLEAN, pk \in BOOLEAN, al \in {0, 8}}
AlignasFrags == {FAlignas(n, on) : n \in {0, 1, 2, 3, 8, 16, 24}, on \in {"int", "double", "typedef", "fn", "param", "member"}}
ArrFrags == {FArr(n, el) : n \in {"-1", "0", "3", "1.5", "k_neg_expr", "huge"}, el \in {"int", "void", "struct_I", "fn"}}
SaFrags == {FSa(v, w, m) : v \in {"0", "1", "gi", "1.5"}, w \in {"decl", "struct"}, m \in BOOLEAN}
InitFrags == {FInit(t, n, d, v) : t \in {"int", "arr2", "arr_unk", "struct_T", "struct_S", "struct_I"}, n \in 0..3,
                                  d \in {"none", "idx0", "idx1", "idx2", "idxneg", "mem_q", "mem_m", "mem_zz"}, v \in {"k1", "gi"}}
StrInitFrags == {FStrInit(t, l) : t \in {"char4", "int4", "charunk", "charp"}, l \in {"narrow", "wide"}}
M(n, t) == [n |-> n, ty |-> t, inner |-> <<>>, pre |-> ""]
StructFrags == {FStruct(ms) : ms \in {
   <<M("a", "int"), M("b", "int")>>, <<M("a", "int")>>,
   <<M("a", "int"), M("a", "int")>>, <<M("a", "int"), M("b", "int"), M("a", "int")>>,
   <<M("a", "int"), [M("", "anon") EXCEPT !.inner = <<"b", "c">>]>>,
   <<M("a", "int"), [M("", "anon") EXCEPT !.inner = <<"a">>]>>,
   <<[M("", "anon") EXCEPT !.inner = <<"x", "y">>], [M("", "anon") EXCEPT !.inner = <<"z", "x">>]>>,
   <<>>, <<M("x", "struct_I")>>, <<M("a", "int"), M("x", "self")>>, <<M("x", "fn")>>,
   <<M("n", "int"), M("fl", "flex")>>, <<M("n", "int"), M("fl", "flex"), M("z", "int")>>,
   <<M("", "int")>>, <<M("a", "int"), M("", "int")>>,
   <<[M("a", "int") EXCEPT !.pre = "static"]>>, <<[M("a", "int") EXCEPT !.pre = "inline"]>>,
   <<[M("a", "int") EXCEPT !.pre = "const"], M("p", "selfptr")>>,
   <<M("", "sa")>>, <<M("a", "int"), M("", "sa")>>, <<M("n", "int"), M("x", "flexstruct")>>, <<M("a", "vla")>>}}
Pm(n, sc, t) == [n |-> n, sc |-> sc, ty |-> t]
ParamFrags == {FParam(ps, d) : d \in BOOLEAN, ps \in {
   <<Pm("a", "", "int"), Pm("b", "", "int")>>, <<Pm("a", "", "int")>>, <<Pm("a", "register", "int")>>,
   <<Pm("a", "", "int"), Pm("a", "", "int")>>, <<Pm("a", "", "int"), Pm("b", "", "int"), Pm("a", "", "int")>>,
   <<Pm("a", "static", "int")>>, <<Pm("a", "extern", "int"), Pm("b", "", "int")>>, <<Pm("a", "", "")>>,
   <<Pm("", "", "int"), Pm("", "", "int")>>}}
FdeclFrags == {FFdecl(r) : r \in {"int", "ptr_int", "fn", "arr"}}
RedeclNames == {"gi", "gst", "gdef", "gf", "gfd", "td_t", "ek", "li", "pa"}
RedeclFrags ==
  {FRedecl(n, "obj", t, sc, i) : n \in RedeclNames, t \in {"int", "double"}, sc \in {"none", "extern", "static", "tls"}, i \in BOOLEAN} \cup
  {FRedecl(n, "fn", t, "none", i) : n \in RedeclNames, t \in {"fn_ii", "fn_id"}, i \in BOOLEAN} \cup
  {FRedecl(n, "typedef", t, "none", FALSE) : n \in RedeclNames, t \in {"int", "double"}} \cup
  {[FRedecl("gi", "obj", "int", "extern", FALSE) EXCEPT !.asm = TRUE], [FRedecl("gf", "fn", "fn_ii", "none", FALSE) EXCEPT !.asm = TRUE]}
TagFrags == {FTag(kw, tag, body, use) : kw \in {"struct", "union", "enum"}, tag \in {"S", "I", "E", "U", "Znew"},
                                        body \in BOOLEAN, use \in {"decl", "ptr"}}
En(n, v) == [n |-> n, v |-> v]
EnumFrags == {FEnum(it) : it \in {
   <<En("ZA", ""), En("ZB", "3")>>, <<En("ZA", "")>>, <<En("ZA", ""), En("ZA", "")>>, <<En("ZA", "3"), En("ZB", ""), En("ZA", "9")>>,
   <<En("ZA", "gi")>>, <<En("ZA", "1.5")>>, <<En("ZA", "3"), En("ZB", "gi")>>,
   <<En("ZA", "max_u64"), En("ZB", "")>>, <<En("ZA", "max_i64"), En("ZB", "")>>, <<En("ZA", "-1"), En("ZB", "max_u64")>>}}
  \cup {[FEnum(<<En("ZA", "")>>) EXCEPT !.ub = "nope"], [FEnum(<<En("ZA", "256")>>) EXCEPT !.ub = "unsigned char"]}
(* an expression over constant operands as the initializer of an int object: `int zv = (E);` *)
ConstOps == {"k0", "k1", "kpi", "kpc", "kv", "knil"}
FCInit(e) == [form |-> "cinit", of |-> e]
CInitFrags == {FCInit(FBin(o, l, r)) : o \in {"==", "!="}, l \in ConstOps, r \in ConstOps} \cup
              {FCInit(FCond(c, a, x)) : c \in {"k1"}, a \in ConstOps, x \in ConstOps}
(* enum with a fixed underlying type (C23 N3030, implemented by cproc: doc/c23.md) and one explicit enumerator.         *)
(* The enumerator's value is  0 (k = -1)  or  +/-(2^k + d);  ty is the type of the constant expression that denotes it   *)
(* (its spelling is a hexadecimal literal with the suffix of ty, negated if neg); wrap: the specifier is the operand of  *)
(* sizeof.  Only well-formed spellings are generated: the magnitude fits ty, negative values have a signed ty.           *)
FixBases == {"signed char", "short", "int", "long", "long long", "unsigned char", "unsigned"}
MagLe(k, d, m, e) == k < m \/ (k = m /\ d <= e)          \* 2^k + d <= 2^m + e for the small |d|, |e| and k, m used here
TyMaxBit(ty) == CASE ty = "int" -> 31 [] ty = "unsigned" -> 32 [] ty = "long" -> 63 [] OTHER -> 64
FEnumFix(ub, neg, k, d, ty, w) == [form |-> "enumfix", ub |-> ub, neg |-> neg, k |-> k, d |-> d, ty |-> ty, wrap |-> w]
EnumFixFrags == {x \in {FEnumFix(ub, neg, k, d, ty, w) : ub \in FixBases, neg \in BOOLEAN, k \in {-1, 0, 7, 8, 15, 16, 31, 32, 63, 64},
                                                        d \in {-3, -1, 0, 1}, ty \in {"int", "unsigned", "long", "ulong"}, w \in BOOLEAN} :
                   /\ x.k = -1 => (x.d = 0 /\ ~x.neg)
                   /\ x.k = 0 => x.d \in {0, 1}
                   /\ x.k = 64 => x.d < 0
                   /\ x.k >= 0 => MagLe(x.k, x.d, TyMaxBit(x.ty), -1)
                   /\ x.neg => x.ty \in {"int", "long"}
                   /\ x.wrap => x.k \in {-1, 31, 63, 64}}
(* `static T *zv = <address of an object>;`  dur: storage duration of the object whose address is taken; shape: &obj, &obj.q,  *)
(* &arr[1], arr (decayed).  Objects (CSTypes: prelude / PreludeLocals): auto li, lst, lar; thread at file scope gtl, gtls, gtla;   *)
(* thread at block scope (static _Thread_local) ltl, ltls, ltla; extern thread gtle, gtles, gtlea; static gi, gt, ga.            *)
Durations == {"auto", "tls_file", "tls_block", "tls_extern", "static"}
FSInitAddr(d, sh) == [form |-> "sinitaddr", dur |-> d, shape |-> sh]
SInitAddrFrags == {FSInitAddr(d, sh) : d \in Durations, sh \in {"scalar", "member", "elem", "decay"}}
(* a declarator spelled like the visible typedef name td_t after a complete type specifier: it declares an object, a parameter or  *)
(* a member named td_t (6.7.8p3, 6.2.3: after a type specifier the identifier is a declarator, not a typedef name) - always valid     *)
FTdShadow(sp, w) == [form |-> "tdshadow", spec |-> sp, where |-> w]
TdShadowFrags == {FTdShadow(sp, w) : sp \in {"td_t", "struct_S", "union_U", "enum_E", "void_ptr", "_Bool", "int", "ptr_td"}, w \in {"obj", "param", "member"}}
(* `T zv = { { 1, ..., n } };`: n initializers inside an INNER brace list for the first subobject of T, whose enclosing  *)
(* aggregate still has room: int[2][2], struct {int x[2]; int y;}, struct {struct {int a;} i; int b;}, struct {union {int a; int b;} u; int c;} *)
FNInit(t, n) == [form |-> "ninit", tgt |-> t, n |-> n]
NInitFrags == {FNInit(t, n) : t \in {"arr22", "sarr", "sstr", "sun"}, n \in 1..4}
MiscFrags == {FMisc(k) : k \in {"toplevel_semi", "nested_fn", "missing_semi", "unbalanced_paren", "kw_as_ident", "asm_label", "attr_ok",
   "typedef_asm", "attr_after_paren", "attr_aligned_bad", "attr_aligned_unsup", "vla_static", "vla_init", "vla2_init", "vla_ok",
   "scalar_double_brace", "init_missing_comma", "nullptr_assign", "const_fold_overflow_s", "const_fold_overflow_u",
   "static_init_addr_local", "static_init_addr_compound", "static_init_addr_index", "static_init_addr_ok", "eof_comment_decl"}}
DeclFrags == SpecFrags \cup ScFrags \cup ObjFrags \cup BfFrags \cup AlignasFrags \cup ArrFrags \cup SaFrags \cup InitFrags
             \cup StrInitFrags \cup StructFrags \cup ParamFrags \cup FdeclFrags \cup RedeclFrags \cup TagFrags \cup EnumFrags
             \cup MiscFrags \cup SInitFrags \cup CInitFrags \cup EnumFixFrags \cup SInitAddrFrags \cup TdShadowFrags \cup NInitFrags
DeclForms == {"spec", "sc", "obj", "bf", "alignas", "arr", "sa", "init", "strinit", "struct", "param", "fdecl", "redecl",
              "tag", "enum", "misc", "sinit", "cinit", "enumfix", "sinitaddr", "tdshadow", "ninit"}

(* ---- directive fragments -------------------------------------------------------------- *)
(* d: directive name; for define: redef (relation to the existing macro MF / a macro       *)
(* defined one line earlier), fl (function-like), hashop, vaargs, paste, named;             *)
(* extra: extra tokens after the directive's operands                                        *)
FDir(d, redef, fl, hashop, va, paste, named, extra) ==
  [form |-> "dir", d |-> d, redef |-> redef, fl |-> fl, hashop |-> hashop, va |-> va, paste |-> paste, named |-> named, extra |-> extra]
D0(d) == FDir(d, "none", FALSE, "none", "none", FALSE, TRUE, FALSE)
DirFrags ==
  {D0(d) : d \in {"define", "undef", "if", "ifdef", "ifndef", "elif", "else", "endif", "include", "error", "pragma", "line", "null", "foo", "linemarker"}} \cup
  {[D0("define") EXCEPT !.redef = r] : r \in {"same", "diff", "diff_kind", "diff_params"}} \cup
  {[D0("define") EXCEPT !.fl = TRUE, !.hashop = h] : h \in {"none", "param", "nonparam", "nonident"}} \cup
  {[D0("define") EXCEPT !.fl = f, !.va = v] : f \in BOOLEAN, v \in {"variadic_used", "nonvariadic_used", "nonvariadic_later"}} \cup
  {[D0("define") EXCEPT !.fl = f, !.paste = TRUE] : f \in BOOLEAN} \cup
  {[D0(d) EXCEPT !.named = FALSE] : d \in {"define", "undef"}} \cup
  {[D0(d) EXCEPT !.extra = TRUE] : d \in {"undef"}}
(* invocation of the two-parameter prelude macros MF(a, b) = ((a) + (b)) and MG(a, b) = ((a) b) *)
FMinvM(n, closed, m) == [form |-> "minv", nargs |-> n, closed |-> closed, m |-> m]
FMinv(n, closed) == FMinvM(n, closed, "MF")
MinvFrags == {FMinvM(n, c, m) : n \in 0..3, c \in BOOLEAN, m \in {"MF", "MG"}}
DirForms == {"dir"}

None == [form |-> "none"]
AllFrags == ExprFrags \cup StmtFrags \cup CtlFrags \cup SwCaseFrags \cup DeclFrags \cup DirFrags \cup MinvFrags

(* "drop": the fragment `of` with the last occurrence of token tok removed from its C spelling.  Closers(f) lists the  *)
(* tokens of f's spelling whose removal can never leave a program derivable from the grammar: closing brackets (the     *)
(* translation unit becomes unbalanced), the colon of a label / conditional / bit-field / association, and the           *)
(* semicolon that ends a jump statement or a declaration (the next token of every base is `}`, a keyword or a call).      *)
FDrop(f, t) == [form |-> "drop", of |-> f, tok |-> t, with |-> ""]
(* the same with the token replaced by a closing bracket of another kind (still unbalanced) *)
FSwap(f, t, w) == [form |-> "drop", of |-> f, tok |-> t, with |-> w]
SwapWith(t) == CASE t = ")" -> {"]", "}"} [] t = "]" -> {")"} [] t = "}" -> {")"} [] OTHER -> {}
Closers(f) ==
  CASE f.form \in {"bin", "asg", "un", "call", "cast", "sizeoft", "builtin", "ctl", "alignas", "sa", "param", "fdecl"} -> {")"}
    [] f.form \in {"cond", "generic"} -> {")", ":"}
    [] f.form \in {"idx", "arr"} -> {"]"}
    [] f.form = "stmt" -> (CASE f.kind \in {"case", "default"} -> {":"}   \* not ";": a label before `}` is valid C23 (N2508), which cproc implements
                            [] f.kind \in {"goto", "break", "continue", "return"} -> {";"}
                            [] OTHER -> {})
    [] f.form = "bf" -> {"}", ":"}
    [] f.form \in {"init", "enum"} -> {"}"}
    [] f.form = "struct" -> (IF Len(f.mem) > 0 THEN {"}"} ELSE {})
    [] f.form = "tag" -> (IF f.body THEN {"}"} ELSE {})
    [] f.form = "obj" -> {";"}
    [] OTHER -> {}

(* feasible positions of a form *)
RECURSIVE FeasiblePos(_)
FeasiblePos(f) ==
  CASE f.form = "drop" -> FeasiblePos(f.of)
    [] f.form \in ExprForms -> Positions
    [] f.form = "minv"      -> {"file", "block", "nested"}
    [] f.form \in StmtForms -> {"block", "nested", "macro"}
    [] f.form \in DeclForms -> Positions
    [] f.form \in DirForms  -> {"file", "block"}
    [] OTHER -> {}
=============================================================================
