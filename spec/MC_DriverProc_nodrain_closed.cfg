SPECIFICATION FairSpec
CONSTANTS
  MaxInputs = 1
  MaxStages = 2
  Cap = 1
  Modes = {"stdout"}
  FailEnds = {"exit0_nodrain"}
  LinkEnds = {"exit0"}
  MaxFail = 1
  Devs = {}
  KeepReadEnds = FALSE
  EmitCases = FALSE
PROPERTIES Live_Exits
CHECK_DEADLOCK FALSE
