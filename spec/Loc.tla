-------------------------------- MODULE Loc --------------------------------
(* Property C11: the location (file, line) carried by every token, hence printed  *)
(* by every diagnostic, is the presumed location of the token's first character.   *)
(*                                                                               *)
(* A "layout program" is a fixed prologue (#define ID(x) x, #define DROP(x), #define S(x) #x) and   *)
(* a sequence of items, each a few physical lines written as pieces (token starts, *)
(* token continuations after a splice, filler = white space / comment text /        *)
(* backslashes).  Two descriptions of "the location of every token":               *)
(*                                                                               *)
(*  Decl(prog)   declarative, C11 5.1.1.2 + 6.10.4, on the ITEM structure: a token  *)
(*               sits on the physical line that holds its first character, at       *)
(*               column 1 + the number of characters before it on that line;        *)
(*               physical lines are numbered consecutively, except that the line     *)
(*               after `#line n ["f"]` / `# n "f" flags` is line n (decimal) of f.   *)
(*  Machine(t)   the code, on the CHARACTERS of the rendered text: scan.c's          *)
(*               nextchar (line, col) bookkeeping and scankind's capture/restore      *)
(*               (ScanOps), pp.c's nextinto (static `newline`), directive() with the   *)
(*               `line:` path and scansetloc applied after the directive's new-line    *)
(*               and one character of look-ahead were consumed, define(), pragma,      *)
(*               peekparen/expandfunc for the two prologue macros.                     *)
(*                                                                               *)
(* Line numbers are pairs (b, d) = b + d so that b = 2147483647 does not overflow    *)
(* TLC's integers: b is the value set by the last line directive (1 initially).      *)
EXTENDS ScanOps

CONSTANTS ItemKinds,    \* names of the items a program is built from
          ViolKinds,    \* names of the violation items (one may end a program)
          MaxItems,     \* bound on the number of items
          MinItems,     \* programs shorter than this are not evaluated (simulation)
          MaxCmt,       \* bound on the characters of the generated block comment after its opener (0: no generated comment)
          Emit

LocDevs == {"NewlineLocNextLine", "SetlocAfterLookahead", "DotDotRestore"}

VARIABLES prog,   \* sequence of item names
          viol,   \* "" or the name of the violation item that ends the program
          cmt     \* characters of the generated block comment after its opener, terminator included (<<>>: none)
vars == <<prog, viol, cmt>>

(* ====================================================================== *)
(* Pieces, lines, items                                                      *)
cINT == <<"i","n","t">>      cV == <<"v">>     cE == <<"e">>    cU == <<"u">>
cS == <<"S">>   cF == <<"f">>   cVOID == <<"v","o","i","d">>   cGOTO == <<"g","o","t","o">>
cID == <<"I","D">>           cDROP == <<"D","R","O","P">>       cX == <<"x">>
cDEFINE == <<"d","e","f","i","n","e">>   cLINE == <<"l","i","n","e">>   cPRAGMA == <<"p","r","a","g","m","a">>
cONCE == <<"o","n","c","e">>  cBOGUS == <<"b","o","g","u","s">>
cFC == <<DQ,"f",".","c",DQ>>  cGH == <<DQ,"g",".","h",DQ>>
SP == <<" ">>
BSL == <<BS>>

F(c)        == [c |-> c, k |-> "",  s |-> <<>>, d |-> FALSE, e |-> FALSE]     \* filler
T(c)        == [c |-> c, k |-> "T", s |-> c,    d |-> TRUE,  e |-> FALSE]     \* token, delivered by next()
Tn(c)       == [c |-> c, k |-> "T", s |-> c,    d |-> FALSE, e |-> FALSE]     \* token consumed by a directive / macro machinery
Te(c)       == [c |-> c, k |-> "T", s |-> c,    d |-> TRUE,  e |-> TRUE]      \* the token the diagnostic must name
Tne(c)      == [c |-> c, k |-> "T", s |-> c,    d |-> FALSE, e |-> TRUE]
Ts(c, full) == [c |-> c, k |-> "T", s |-> full, d |-> TRUE,  e |-> FALSE]     \* first part of a token continued after a splice
C(c)        == [c |-> c, k |-> "+", s |-> <<>>, d |-> FALSE, e |-> FALSE]     \* continuation of the previous token
(* a physical line: pieces; nl = "tok" (its new-line is a new-line token, delivered), "dir" (new-line token consumed  *)
(* by a directive or the macro machinery), "err" (new-line token that the diagnostic must name), "none" (spliced or    *)
(* inside a comment)                                                                                                   *)
L(ps, nl) == [ps |-> ps, nl |-> nl]
Plain(ls) == [lines |-> ls, set |-> [on |-> FALSE, n |-> <<>>, hasfile |-> FALSE, file |-> <<>>]]
SetLine(ls, n, file) == [lines |-> ls, set |-> [on |-> TRUE, n |-> n, hasfile |-> TRUE, file |-> file]]
SetLineOnly(ls, n) == [lines |-> ls, set |-> [on |-> TRUE, n |-> n, hasfile |-> FALSE, file |-> <<>>]]

DeclLine == <<T(cINT), F(SP), T(cV), T(<<";">>)>>

(* ---- generated block comments (C11 5.1.1.2 phases 2-3, 6.4.9p1) ----                                              *)
(* The text after the opener is ANY sequence over CmtAlphabet (a star, a slash, an ordinary character, a new-line,   *)
(* a backslash) in which, once every backslash-new-line pair is deleted (phase 2), the first star-slash pair is the  *)
(* last two characters: the contents of a comment are examined only to find its terminator, so every other           *)
(* character - runs of stars before a new-line, slashes, backslashes, splices between the star and the slash of the  *)
(* terminator - is filler, and every new-line character in it, spliced or not, ends a physical line.                 *)
CmtAlphabet == {"*", "/", "a", NL, BS}
CmtKinds == {"gcmt_lead", "gcmt_mid"}
RECURSIVE Unsplice(_), Segs(_)
Unsplice(c) == IF c = <<>> THEN <<>>
               ELSE IF Len(c) >= 2 /\ c[1] = BS /\ c[2] = NL THEN Unsplice(SubSeq(c, 3, Len(c)))
               ELSE <<c[1]>> \o Unsplice(Tail(c))
Closed(c) == LET r == Unsplice(c) IN Len(r) >= 2 /\ r[Len(r) - 1] = "*" /\ r[Len(r)] = "/"
Segs(c) == LET q == {i \in 1..Len(c) : c[i] = NL} IN          \* the physical lines of c
           IF q = {} THEN <<c>> ELSE LET i == SetMin(q) IN <<SubSeq(c, 1, i - 1)>> \o Segs(SubSeq(c, i + 1, Len(c)))
(* pre: pieces before the opener on its line; post: pieces after the terminator on its line *)
GCmt(pre, post) ==
  LET segs == Segs(<<"/", "*">> \o cmt)
      k == Len(segs) IN
  Plain([j \in 1..k |-> L((IF j = 1 THEN pre ELSE <<>>) \o <<F(segs[j])>> \o (IF j = k THEN post ELSE <<>>),
                           IF j = k THEN "tok" ELSE "none")])
n1 == <<"1">>   n7 == <<"7">>   nBig == <<"2","1","4","7","4","8","3","6","4","7">>   n010 == <<"0","1","0">>
LineDir(n)      == SetLineOnly(<<L(<<Tn(<<"#">>), Tn(cLINE), F(SP), Tn(n)>>, "dir")>>, n)
LineDirF(n)     == SetLine(<<L(<<Tn(<<"#">>), Tn(cLINE), F(SP), Tn(n), F(SP), Tn(cFC)>>, "dir")>>, n, <<"f",".","c">>)
(* file names that are proper prefixes / extensions of one another and of the input name "<stdin>", and the empty name *)
Quote(name) == <<DQ>> \o name \o <<DQ>>
LineDirName(n, name) == SetLine(<<L(<<Tn(<<"#">>), Tn(cLINE), F(SP), Tn(n), F(SP), Tn(Quote(name))>>, "dir")>>, n, name)
MarkerName(n, name)  == SetLine(<<L(<<Tn(<<"#">>), F(SP), Tn(n), F(SP), Tn(Quote(name)), F(SP), Tn(<<"1">>)>>, "dir")>>, n, name)
Marker(n)       == SetLine(<<L(<<Tn(<<"#">>), F(SP), Tn(n), F(SP), Tn(cGH), F(SP), Tn(<<"1">>), F(SP), Tn(<<"3">>)>>, "dir")>>, n, <<"g",".","h">>)
MarkerNoFlag(n) == SetLine(<<L(<<Tn(<<"#">>), F(SP), Tn(n), F(SP), Tn(cGH)>>, "dir")>>, n, <<"g",".","h">>)

Item(name) ==
  CASE name = "decl"     -> Plain(<<L(DeclLine, "tok")>>)
    [] name = "sp_between" -> Plain(<<L(<<T(cINT), F(SP), F(BSL)>>, "none"), L(<<T(cV), T(<<";">>)>>, "tok")>>)
    [] name = "sp_inside"  -> Plain(<<L(<<Ts(<<"i","n">>, cINT), F(BSL)>>, "none"), L(<<C(<<"t">>), F(SP), T(cV), T(<<";">>)>>, "tok")>>)
    [] name = "sp_double"  -> Plain(<<L(<<T(cINT), F(SP), T(cV), F(BSL)>>, "none"), L(<<F(BSL)>>, "none"), L(<<T(<<";">>)>>, "tok")>>)
    [] name = "cmt2"     -> Plain(<<L(<<T(cINT), F(SP), F(<<"/","*"," ","a">>)>>, "none"),
                                    L(<<F(<<"b"," ","*","/"," ">>), T(cV), T(<<";">>)>>, "tok")>>)
    [] name = "cmt3"     -> Plain(<<L(<<F(<<"/","*"," ","a">>)>>, "none"), L(<<F(<<"b">>)>>, "none"),
                                    L(<<F(<<"*","/"," ">>), T(cINT), F(SP), T(cV), T(<<";">>)>>, "tok")>>)
    [] name = "gcmt_lead" -> GCmt(<<>>, <<F(SP), T(cINT), F(SP), T(cV), T(<<";">>)>>)       \* /*...*/ int v;
    [] name = "gcmt_mid"  -> GCmt(<<T(cINT)>>, <<T(cV), T(<<";">>)>>)                       \* int/*...*/v;
    [] name = "lcmt"     -> Plain(<<L(DeclLine \o <<F(<<" ","/","/"," ","c">>)>>, "tok")>>)
    [] name = "lcmt_sp"  -> Plain(<<L(<<F(<<"/","/"," ","c"," ",BS>>)>>, "none"), L(<<F(<<"d"," ","*","/">>)>>, "tok")>>)
    [] name = "blank"    -> Plain(<<L(<<>>, "tok")>>)
    [] name = "blank2"   -> Plain(<<L(<<>>, "tok"), L(<<F(<<" ">>)>>, "tok")>>)
    [] name = "sp_first" -> Plain(<<L(<<F(BSL)>>, "none"), L(DeclLine, "tok")>>)      \* a line that starts with a splice
    [] name = "pragma"   -> Plain(<<L(<<Tn(<<"#">>), Tn(cPRAGMA), F(SP), Tn(cONCE)>>, "dir")>>)
    [] name = "nulldir"  -> Plain(<<L(<<Tn(<<"#">>)>>, "dir")>>)
    [] name = "macro3"   -> Plain(<<L(<<Tn(cID), Tn(<<"(">>)>>, "dir"), L(<<T(cINT)>>, "dir"),
                                    L(<<Tn(<<")">>), F(SP), T(cV), T(<<";">>)>>, "tok")>>)
    [] name = "macro_nl" -> Plain(<<L(<<Tn(cID)>>, "dir"),
                                    L(<<Tn(<<"(">>), T(cINT), Tn(<<")">>), F(SP), T(cV), T(<<";">>)>>, "tok")>>)
    [] name = "dotdot_sp" -> Plain(<<L(<<Tn(cDROP), Tn(<<"(">>), Tn(<<".">>), Tn(<<".">>), F(BSL)>>, "none"),
                                     L(<<Tn(<<")">>)>>, "tok")>>)
    [] name = "line1"    -> LineDir(n1)
    [] name = "line7"    -> LineDir(n7)
    [] name = "lineBig"  -> LineDir(nBig)
    [] name = "line010"  -> LineDir(n010)
    [] name = "line7f"   -> LineDirF(n7)
    [] name = "line7fp"  -> LineDirName(n7, <<"f">>)                          \* prefix of f.c
    [] name = "line7fx"  -> LineDirName(n7, <<"f",".","c",".","h">>)          \* extension of f.c
    [] name = "line7e"   -> LineDirName(n7, <<>>)                             \* empty name: prefix of everything
    [] name = "line7sp"  -> LineDirName(n7, <<"<","s","t","d">>)              \* prefix of the input name <stdin>
    [] name = "marker7"  -> Marker(n7)
    [] name = "markerBig" -> Marker(nBig)
    [] name = "marker1nf" -> MarkerNoFlag(n1)
    (* violation items *)
    [] name = "v_stray"  -> Plain(<<L(<<Te(<<"@">>)>>, "tok")>>)
    [] name = "v_undecl" -> Plain(<<L(<<T(cINT), F(SP), T(cE), F(SP), T(<<"=">>), F(SP), Te(cU), T(<<";">>)>>, "tok")>>)
    [] name = "v_cmt"    -> Plain(<<L(<<T(cINT), F(SP), T(cE), F(SP), T(<<"=">>), F(SP), F(<<"/","*"," ","a">>)>>, "none"),
                                    L(<<F(<<"b"," ","*","/"," ">>), Te(cU), T(<<";">>)>>, "tok")>>)
    [] name = "v_splice" -> Plain(<<L(<<T(cINT), F(SP), T(cE), F(SP), T(<<"=">>), F(SP), F(BSL)>>, "none"),
                                    L(<<Te(cU), T(<<";">>)>>, "tok")>>)
    [] name = "v_macro"  -> Plain(<<L(<<T(cINT), F(SP), T(cE), F(SP), T(<<"=">>), F(SP), Tn(cID), Tn(<<"(">>)>>, "dir"),
                                    L(<<Te(cU)>>, "dir"), L(<<Tn(<<")">>), T(<<";">>)>>, "tok")>>)
    (* the diagnostic names the string literal made by # : it must be located at a token of the invocation (one line here); *)
    (* pp.c gives it the location of the token that ended the argument                                                     *)
    [] name = "v_str"    -> Plain(<<L(<<T(cINT), F(SP), T(cF), T(<<"(">>), T(cVOID), T(<<")">>), F(SP), T(<<"{">>), F(SP), T(cGOTO), F(SP),
                                        Tn(cS), Tn(<<"(">>), Tn(cU), Tne(<<")">>), T(<<";">>), F(SP), T(<<"}">>)>>, "tok")>>)
    [] name = "v_bogus"  -> Plain(<<L(<<Tn(<<"#">>), Tne(cBOGUS)>>, "dir")>>)
    [] name = "v_define" -> Plain(<<L(<<Tn(<<"#">>), Tn(cDEFINE)>>, "err")>>)
    [] name = "v_line"   -> Plain(<<L(<<Tn(<<"#">>), Tn(cLINE)>>, "err")>>)

Prologue == <<Plain(<<L(<<Tn(<<"#">>), Tn(cDEFINE), F(SP), Tn(cID), Tn(<<"(">>), Tn(cX), Tn(<<")">>), F(SP), Tn(cX)>>, "dir")>>),
              Plain(<<L(<<Tn(<<"#">>), Tn(cDEFINE), F(SP), Tn(cDROP), Tn(<<"(">>), Tn(cX), Tn(<<")">>)>>, "dir")>>),
              Plain(<<L(<<Tn(<<"#">>), Tn(cDEFINE), F(SP), Tn(cS), Tn(<<"(">>), Tn(cX), Tn(<<")">>), F(SP), Tn(<<"#">>), Tn(cX)>>, "dir")>>)>>

ItemsOf(p, v) == Prologue \o [i \in 1..Len(p) |-> Item(p[i])] \o (IF v = "" THEN <<>> ELSE <<Item(v)>>)

(* ---- rendering ---- *)
RECURSIVE Cat(_)
Cat(ss) == IF ss = <<>> THEN <<>> ELSE ss[1] \o Cat(Tail(ss))
LineText(l) == Cat([i \in 1..Len(l.ps) |-> l.ps[i].c]) \o <<NL>>
ItemText(it) == Cat([j \in 1..Len(it.lines) |-> LineText(it.lines[j])])
Render(items) == Cat([i \in 1..Len(items) |-> ItemText(items[i])])

(* ====================================================================== *)
(* Declarative location of every token                                       *)
(* decimal value of a digit sequence (6.10.4p3: "interpreted as a decimal integer") *)
DigitVal(c) == Code(c) - 48
RECURSIVE ValueInBase(_, _)
ValueInBase(ds, base) == IF ds = <<>> THEN 0 ELSE ValueInBase(SubSeq(ds, 1, Len(ds) - 1), base) * base + DigitVal(ds[Len(ds)])

StdinName == <<"<","s","t","d","i","n",">">>
KindOfPiece(p) == IF p.s = <<"@">> THEN "TOTHER" ELSE KindOf(p.s)
SpellOfPiece(p) == IF p.s = <<"@">> THEN p.s ELSE SpellingOf(p.s)
ColOf(l, i) == 1 + Len(Cat([j \in 1..(i - 1) |-> l.ps[j].c]))

(* tokens of physical line l whose presumed position is (file, b, d) *)
LineToks(l, file, b, d) ==
  LET idx == SelectSeq([i \in 1..Len(l.ps) |-> i], LAMBDA i : l.ps[i].k = "T")
      toks == [j \in 1..Len(idx) |->
                 [k |-> KindOfPiece(l.ps[idx[j]]), s |-> SpellOfPiece(l.ps[idx[j]]), file |-> file, b |-> b, d |-> d,
                  col |-> ColOf(l, idx[j]), deliv |-> l.ps[idx[j]].d, err |-> l.ps[idx[j]].e]]
  IN IF l.nl = "none" THEN toks
     ELSE Append(toks, [k |-> "TNEWLINE", s |-> <<>>, file |-> file, b |-> b, d |-> d, col |-> ColOf(l, Len(l.ps) + 1),
                        deliv |-> l.nl = "tok", err |-> l.nl = "err"])

RECURSIVE DeclFrom(_, _, _, _, _)
DeclFrom(items, i, file, b, d) ==
  IF i > Len(items) THEN <<>>
  ELSE LET it == items[i]
           n == Len(it.lines)
           here == Cat([j \in 1..n |-> LineToks(it.lines[j], file, b, d + j - 1)])
       IN IF it.set.on
          THEN here \o DeclFrom(items, i + 1, IF it.set.hasfile THEN it.set.file ELSE file, ValueInBase(it.set.n, 10), 0)
          ELSE here \o DeclFrom(items, i + 1, file, b, d + n)
Decl(items) == DeclFrom(items, 1, StdinName, 1, 0)

(* ====================================================================== *)
(* The machine: pp.c on top of ScanOps                                        *)
(* line of the scanner = lbase + sc.line - 1 ... kept as b = lbase, d = sc.line: initially b = 0 + 1 *)
PP0 == [sc |-> Scanner0, b |-> 1, file |-> StdinName, newline |-> TRUE, raw |-> <<>>, macros |-> {}, err |-> 0, acts |-> {}]
(* sc.line counts from 1 in Scanner0; presumed line = b + (sc.line - 1) *)

Act(st, a) == [st EXCEPT !.acts = @ \cup {a}]

(* scan(): one raw token appended to the log with the location captured by scankind *)
Scan1(t, st, deliv) ==
  LET cur == IF st.sc.chr = "NONE" THEN ScanStart(t) ELSE st.sc
      r == ScanToken(t, cur)
      dl == Delivered(r)
      tk == [k |-> dl[1], s |-> dl[2], file |-> st.file, b |-> st.b, d |-> r.line - 1, col |-> r.col, deliv |-> deliv, err |-> FALSE]
  IN [st |-> [st EXCEPT !.sc = r.s, !.raw = IF r.kind = "TEOF" THEN @ ELSE Append(@, tk)], kind |-> r.kind, lit |-> r.lit]
SetDeliv(st, v) == [st EXCEPT !.raw[Len(st.raw)].deliv = v]
ErrorAtLast(st) == [st EXCEPT !.err = Len(st.raw)]        \* error(&tok.loc, ...) for the token just scanned

(* strtoull(lit, NULL, 10) on a digit sequence (fix 13b585a; it was base 0) *)
LineValue(lit) == ValueInBase(lit, 10)
FileOfLit(lit) ==      \* strchr(lit, '"') + 1 up to the next '"'
  LET q == {i \in 1..Len(lit) : lit[i] = DQ}
      a == SetMin(q)
      z == SetMin(q \ {a}) IN SubSeq(lit, a + 1, z - 1)

RECURSIVE SkipNumbers(_, _), ToNewline(_, _)
SkipNumbers(t, x) == IF x.kind = "TNUMBER" THEN SkipNumbers(t, Scan1(t, x.st, FALSE)) ELSE x      \* while (tok.kind == TNUMBER) scan(&tok)
ToNewline(t, x) == IF x.kind \in {"TNEWLINE", "TEOF", "ERROR"} THEN x ELSE ToNewline(t, Scan1(t, x.st, FALSE))

(* the `line:` path of directive(); x = result of scanning the number token *)
LinePath(t, x) ==
  LET n == LineValue(x.lit)
      y == Scan1(t, x.st, FALSE)
      z == IF y.kind = "TSTRINGLIT" THEN Scan1(t, y.st, FALSE) ELSE y
      file == IF y.kind = "TSTRINGLIT" THEN FileOfLit(y.lit) ELSE x.st.file
      w == SkipNumbers(t, z)                 \* w.kind should now be TNEWLINE
      st == w.st
      nl == st.raw[Len(st.raw)]              \* the token the scanner stopped at (the directive's new-line)
      (* scansetloc(newloc): the scanner has consumed the new-line and read one character ahead (through any splices, *)
      (* or a second new-line).  Code: loc = {file, n, 1}.  Without the deviation: what was counted since the start of *)
      (* the next line is kept.                                                                                        *)
      nextstart == IF Dev("NewlineLocNextLine") THEN nl.d + 1 ELSE nl.d + 2       \* sc.line value at the start of the following physical line
      lost == st.sc.line # nextstart \/ st.sc.col # 1
      sc2 == IF Dev("SetlocAfterLookahead")
             THEN [(IF lost THEN Fire(st.sc, "SetlocAfterLookahead") ELSE st.sc) EXCEPT !.line = 1, !.col = 1]
             ELSE [st.sc EXCEPT !.line = 1 + (st.sc.line - nextstart)]
  IN IF w.kind # "TNEWLINE" THEN [w EXCEPT !.st = ErrorAtLast(w.st)]
     ELSE [w EXCEPT !.st = [st EXCEPT !.sc = sc2, !.b = n, !.file = file]]

(* directive(): entered after '#' was scanned at the start of a line; returns the state after the directive *)
Directive(t, st0) ==
  LET x == Scan1(t, st0, FALSE) IN
  IF x.kind = "TNEWLINE" THEN Act(x.st, "DirNull")
  ELSE IF x.kind = "TNUMBER" THEN Act(LinePath(t, x).st, "DirMarker")
  ELSE IF x.kind # "TIDENT" THEN ErrorAtLast(x.st)
  ELSE IF x.lit = cDEFINE THEN
    LET y == Scan1(t, x.st, FALSE) IN
    IF y.kind # "TIDENT" THEN Act(ErrorAtLast(y.st), "DirDefineErr")          \* tokencheck(&tok, TIDENT, "after #define")
    ELSE LET z == ToNewline(t, y) IN Act([z.st EXCEPT !.macros = @ \cup {y.lit}], "DirDefine")
  ELSE IF x.lit = cLINE THEN
    LET y == Scan1(t, x.st, FALSE) IN
    IF y.kind # "TNUMBER" THEN Act(ErrorAtLast(y.st), "DirLineErr")
    ELSE Act(LinePath(t, y).st, "DirLine")
  ELSE IF x.lit = cPRAGMA THEN Act(ToNewline(t, Scan1(t, x.st, FALSE)).st, "DirPragma")
  ELSE Act(ErrorAtLast(x.st), "DirInvalid")

(* nextinto(): scan; a '#' at the start of a line starts a directive.  inPeek: called from peekparen with t != &tok, *)
(* where `newline = tok.kind == TNEWLINE` looks at the macro-name token and so clears the flag.                      *)
RECURSIVE NextInto(_, _, _, _)
NextInto(t, st, deliv, inPeek) ==
  LET x == Scan1(t, st, deliv) IN
  IF x.st.err # 0 THEN x
  ELSE IF st.newline /\ x.kind = "THASH" THEN
    LET after == Directive(t, SetDeliv(x.st, FALSE)) IN
    IF after.err # 0 THEN [x EXCEPT !.st = after, !.kind = "ERROR"] ELSE NextInto(t, after, deliv, inPeek)
  ELSE [x EXCEPT !.st = [x.st EXCEPT !.newline = (~inPeek /\ x.kind = "TNEWLINE")]]

(* expandfunc() for the one-parameter prologue macros: tokens up to the matching ')' ; ID delivers them, DROP does not *)
RECURSIVE Args(_, _, _, _)
Args(t, st, depth, deliv) ==
  LET x == NextInto(t, st, deliv, FALSE) IN
  IF x.kind \in {"TEOF", "ERROR"} THEN x.st
  ELSE IF x.kind = "TRPAREN" /\ depth = 0 THEN SetDeliv(x.st, FALSE)
  ELSE IF x.kind = "TNEWLINE" THEN Args(t, SetDeliv(x.st, FALSE), depth, deliv)
  ELSE Args(t, x.st, IF x.kind = "TLPAREN" THEN depth + 1 ELSE IF x.kind = "TRPAREN" THEN depth - 1 ELSE depth, deliv)
RECURSIVE PeekParen(_, _)
PeekParen(t, st) ==       \* do nextinto(pending) while TNEWLINE
  LET x == NextInto(t, st, FALSE, TRUE) IN
  IF x.kind = "TNEWLINE" THEN PeekParen(t, x.st) ELSE x

(* the -E / parser loop: next() until EOF or error *)
RECURSIVE Run(_, _)
Run(t, st) ==
  LET x == NextInto(t, st, TRUE, FALSE) IN
  IF x.kind \in {"TEOF", "ERROR"} \/ x.st.err # 0 THEN x.st
  ELSE IF x.kind = "TIDENT" /\ x.lit \in x.st.macros THEN
    LET p == PeekParen(t, SetDeliv(x.st, FALSE)) IN
    IF p.kind # "TLPAREN" THEN p.st           \* not generated
    ELSE Run(t, Act(Args(t, p.st, 0, x.lit = cID), IF x.lit = cID THEN "MacroID" ELSE "MacroDROP"))
  ELSE Run(t, Act(x.st, IF x.kind = "TNEWLINE" THEN "Newline" ELSE "Token"))
Machine(t) == Run(t, PP0)

(* ====================================================================== *)
(* the comment is written first, character by character, until it is closed; items follow, the first of them being   *)
(* the one that carries the comment.  A program is evaluated when it has no generated comment, or has one and uses it. *)
HasCmt == \E i \in 1..Len(prog) : prog[i] \in CmtKinds
Evaluated == Len(prog) >= MinItems /\ (cmt = <<>> \/ HasCmt)
Init == prog = <<>> /\ viol = "" /\ cmt = <<>>
AddAtom(a) == /\ prog = <<>> /\ viol = "" /\ ~Closed(cmt) /\ Len(cmt) < MaxCmt /\ cmt' = Append(cmt, a) /\ UNCHANGED <<prog, viol>>
AddItem(k) == /\ viol = "" /\ Len(prog) < MaxItems
              /\ IF k \in CmtKinds THEN Closed(cmt) /\ prog = <<>> ELSE cmt = <<>> \/ HasCmt
              /\ prog' = Append(prog, k) /\ UNCHANGED <<viol, cmt>>
AddViol(v) == /\ viol = "" /\ Evaluated /\ viol' = v /\ UNCHANGED <<prog, cmt>>
Next == (\E k \in ItemKinds : AddItem(k)) \/ (\E v \in ViolKinds : AddViol(v)) \/ (\E a \in CmtAlphabet : AddAtom(a))
Spec == Init /\ [][Next]_vars

(* ====================================================================== *)
Items == ItemsOf(prog, viol)
Text == Render(Items)
Proj(tk) == <<tk.k, tk.s, tk.file, tk.b, tk.d, tk.col, tk.deliv>>
ErrIndex(dec) == LET e == {i \in 1..Len(dec) : dec[i].err} IN IF e = {} THEN 0 ELSE SetMin(e)

(* The machine stops at the first error: compare up to there.  With no deviation switched on it must give every     *)
(* token the declarative location, deliver the same tokens, and stop with an error exactly at the marked token.     *)
Refines ==
  LET dec == Decl(Items)
      m == Machine(Text)
      ei == ErrIndex(dec)
      n == IF m.err # 0 THEN m.err ELSE Len(m.raw) IN
  /\ m.sc.err = ""
  /\ n <= Len(dec)
  /\ \A i \in 1..n : Proj(m.raw[i]) = Proj(dec[i])
  /\ (m.err = 0 => n = Len(dec))
  /\ (m.err # 0 => m.err = ei)
Inv_Refines == Evaluated => Refines

(* ---- emission for flow A ---- *)
LocRec(tk) == <<tk.k, Str(tk.s), Str(tk.file), tk.b, tk.d, tk.col>>
DelivOf(raw) == SelectSeq(raw, LAMBDA tk : tk.deliv /\ tk.k # "TNEWLINE")
EmitCase ==
  LET dec == Decl(Items)
      m == Machine(Text)
      ei == ErrIndex(dec)
      dd == DelivOf(dec)
      md == DelivOf(m.raw)
      ex == [j \in 1..Len(dd) |-> LocRec(dd[j])]
      mo == [j \in 1..Len(md) |-> LocRec(md[j])]
  IN PrintT("VCASE " \o ToJson(
       [p |-> prog, v |-> viol, c |-> [i \in 1..Len(cmt) |-> Code(cmt[i])], t |-> [i \in 1..Len(Text) |-> Code(Text[i])],
        e |-> ex,                                               \* expected (kind, spelling, file, b, d, col) of every delivered token
        m |-> IF mo = ex THEN <<>> ELSE mo,                      \* what the model of the code predicts, when different
        ee |-> IF ei = 0 THEN <<>> ELSE LocRec(dec[ei]),         \* token the diagnostic must name
        me |-> IF ei = 0 \/ ei > Len(m.raw) THEN <<>> ELSE LocRec(m.raw[ei]),
        f |-> SetToSeq(m.sc.fired \cup (IF ei # 0 /\ dec[ei].k = "TNEWLINE" /\ Dev("NewlineLocNextLine") THEN {"NewlineLocNextLine"} ELSE {})),
        x |-> SetToSeq(m.acts)]))
Inv_Emit == (Emit /\ Evaluated) => EmitCase
=============================================================================
