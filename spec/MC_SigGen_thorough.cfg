SPECIFICATION Spec
CONSTANTS
  NP = 2
  Types <- TypesAll
  Rets <- RetsAll
  Shapes <- ShapesAll
INVARIANT Emit
CHECK_DEADLOCK FALSE
