\* design-level check: PPModel with every deviation off refines the declarative Expand on space "qh"
SPECIFICATION Spec
CONSTANTS
  Devs <- NoDevs
  Space = "qh"
  Modes = {"E"}
  EmitCases = FALSE
  PeekBudget = 0
INVARIANTS Inv_Ctx Inv_End Inv_Conform Inv_Text
PROPERTIES Prop_Disc
CHECK_DEADLOCK FALSE
