\* C05 thorough tier: thorough: all pairs of derived types of depth <= 3 over 5 leaves
\* Devs: deviations of the shipped code still open. Fixed in /repo and therefore removed (a regression is a VIOLATION):
\* CondSameTypeNoConversion (ba99903), ConvertKeepsCompatible + SizeofSeesBitfield (4c7c95a), DerefDecayedArrayDropsQual (13d3f3d),
\* UacKeepsWideEnum (60245bf)
SPECIFICATION Spec
CONSTANTS
  LeafNames = {"int", "uint", "eu", "S1", "void"}
  QualSets = {{}, {"const"}}
  ArrLens = {0, 2, 3}
  Depth = 3
  P1Names = {"int", "uint", "eu", "cint", "pint", "pcint", "a2int", "a2cint", "fvi"}
  P2Names = {"int", "pint"}
  FnRetNames = {"int", "uint", "void", "S1"}
  Devs = {"CompositeIsFirst", "ArrayQualOnArrayType", "FoldedCondKeepsDecay", "FoldedNullVoidPtrIsNpc"}
  Emit = TRUE
  EmitLeafNames = {"int", "eu"}
INVARIANTS Inv_Refines Inv_Reflexive Inv_Emit
CHECK_DEADLOCK FALSE
