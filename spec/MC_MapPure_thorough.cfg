SPECIFICATION Spec
CONSTANTS
  Keys = {1, 2, 3, 4}
  Vals = {1, 2}
  Cap0 = 4
  HashRange = 8
  MaxOps = 4
INVARIANTS TypeOK Inv_Lookup Inv_Len Inv_NeverFull Inv_NoDupKey Inv_HashFits Inv_Emit
VIEW View
CHECK_DEADLOCK FALSE
