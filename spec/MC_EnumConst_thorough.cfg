\* C05 thorough tier, enumeration family: pairs (any item x anchor in any type, and the reverse), triples over the natural-type anchor items, fixed underlying types incl. long long
SPECIFICATION Spec
CONSTANTS
  MaxOff = 1
  PairMode = "core"
  Triples = TRUE
  FixedTypes = {"schar", "uchar", "short", "ushort", "int", "uint", "long", "ulong", "llong", "ullong"}
  Emit = TRUE
INVARIANTS Inv_Represents Inv_C11 Inv_During Inv_Fixed Inv_Anchor Inv_Spell Inv_Emit
CHECK_DEADLOCK FALSE
