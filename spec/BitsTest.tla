------------------------------ MODULE BitsTest ------------------------------
(* Audit of Bits.tla: evaluates cases supplied by the harness (which compares *)
(* against Python's arbitrary-precision integers).                            *)
EXTENDS Bits, TLC, Json, IOUtils
Cases == ndJsonDeserialize(IOEnv.BITS_CASES)
VARIABLE i
Init == i = 1
Do(c) ==
  CASE c.op = "add" -> Add(c.a, c.b) [] c.op = "sub" -> Sub(c.a, c.b) [] c.op = "mul" -> Mul(c.a, c.b)
    [] c.op = "neg" -> Neg(c.a) [] c.op = "not" -> WNot(c.a)
    [] c.op = "and" -> WAnd(c.a, c.b) [] c.op = "or" -> WOr(c.a, c.b) [] c.op = "xor" -> WXor(c.a, c.b)
    [] c.op = "shl" -> Shl(c.a, c.k) [] c.op = "shr" -> Shr(c.a, c.k) [] c.op = "sar" -> Sar(c.a, c.k)
    [] c.op = "udiv" -> UDiv(c.a, c.b) [] c.op = "urem" -> URem(c.a, c.b)
    [] c.op = "sdiv" -> SDiv(c.a, c.b) [] c.op = "srem" -> SRem(c.a, c.b)
    [] c.op = "ult" -> IF ULt(c.a, c.b) THEN One ELSE Zero
    [] c.op = "slt" -> IF SLt(c.a, c.b) THEN One ELSE Zero
    [] c.op = "trunc" -> TruncBits(c.a, c.k) [] c.op = "sext" -> SExtBits(c.a, c.k)
Next == i <= Len(Cases) /\ PrintT("VCASE " \o ToJson([i |-> i, r |-> Do(Cases[i])])) /\ i' = i + 1
Spec == Init /\ [][Next]_i
=============================================================================
