SPECIFICATION Spec
CONSTANTS
  Inputs = {"i1", "i2"}
  Opts = {"x86_64-sysv", "x86_64-sysv -E"}
  Results = {"r1", "r2", "r3"}
  Envs = {"e1", "e2", "e3"}
  None = "none"
INVARIANTS TypeOK Inv_Guard Inv_UninitForbidden
PROPERTIES Stable OneKey
CHECK_DEADLOCK FALSE
