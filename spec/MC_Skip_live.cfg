SPECIFICATION Spec
CONSTANTS
  MaxLen = 2
  Loops = {"attr", "gnuattr"}
  Dev_AttrSkipNoEOF = TRUE
PROPERTIES Terminates
CHECK_DEADLOCK FALSE
