SPECIFICATION Spec
CONSTANTS
  Mode = "huge"
  MaxLen = 2
  MaxPool = 0
  MaxSize = 0
  Raise = FALSE
  Devs = {}
  Widths = {}
  Emit = TRUE
  CharSigned = TRUE
  EUSuffixed = {}
  GenClasses = {"scalar", "array", "bitfield", "nested", "anon", "alignas", "flex"}
  GenPacked = TRUE
  McSel = "full"
  CheckSim = FALSE
CHECK_DEADLOCK FALSE
