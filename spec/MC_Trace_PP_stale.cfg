SPECIFICATION TSpec
CONSTANTS
  AllowHidden = TRUE
POSTCONDITION TraceAccepted
CHECK_DEADLOCK FALSE
