\* design-level: peek()'s one-token push-back is transparent (consumer may push back one token anywhere (thorough: MC_Macro_peek2.cfg, two))
SPECIFICATION Spec
CONSTANTS
  Devs <- NoDevs
  Space = "t0"
  Modes = {"C"}
  EmitCases = FALSE
  PeekBudget = 2
INVARIANTS Inv_Ctx Inv_End Inv_Conform
PROPERTIES Prop_Disc
CHECK_DEADLOCK FALSE
