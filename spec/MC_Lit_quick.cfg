SPECIFICATION Spec
CONSTANTS
  Devs = {"Octal8", "EscapeRange", "PlainCharRaw", "WideCharRaw", "CharConstCpRange", "Utf8Overlong", "Utf8SurrogateHigh"}
  Mode = "exh"
  Tier = "quick"
INVARIANTS Inv_Refines Inv_NoAbort Inv_Wf Inv_Emit
CHECK_DEADLOCK FALSE
