\* -simulate: units of 6 literals, up to 3 elements
SPECIFICATION Spec
CONSTANTS
  Widths = {1, 2, 4}
  Elems = {0, 97, 98, 353}
  MaxEls = 3
  MaxUses = 6
INVARIANTS Inv_FixedServes Inv_FixedSharesEqualOnly Inv_ShippedFailuresAreContent Inv_Emit
CHECK_DEADLOCK FALSE
