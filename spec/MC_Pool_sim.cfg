\* -simulate: units of 6 literals, up to 3 elements
SPECIFICATION Spec
CONSTANTS
  Widths = {1, 2, 4}
  Elems = {0, 97, 98, 353}
  MaxEls = 3
  Dev_PoolKeyInElements = FALSE
  Dev_PoolKeyIgnoresWidth = FALSE
  MaxUses = 6
INVARIANTS Inv_ModelServes Inv_FixedServes Inv_FixedSharesEqualOnly Inv_ShippedFailuresAreContent Inv_Emit
CHECK_DEADLOCK FALSE
