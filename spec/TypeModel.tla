------------------------------ MODULE TypeModel ------------------------------
(* Implementation-shaped model of cproc's typing code: a transcription of     *)
(* /repo/type.c (typerank, typepromote, typecommonreal, typecompatible,        *)
(* typecomposite, typeadjust, typehasint) and /repo/expr.c (mkbinaryexpr,      *)
(* condexpr, unaryexpr, inttype, character constants, decay, member access).   *)
(* Same branch order as the C code.  Every operator takes the set D of active  *)
(* deviations: a deviation is a place where the current code is known to       *)
(* differ from CTypes (DESIGN.md section 8); M_x(.., {}) is the code with the   *)
(* defect repaired and must refine the declarative operator (checked by        *)
(* CTypesMC), M_x(.., Devs) is the code as shipped and must match the binary.   *)
(*                                                                             *)
(* cproc keeps the qualifiers of a type outside `struct type` (in the decl,    *)
(* the expr, or the `qual` field of the derived type that points at it).  Here  *)
(* types are CTypes records; operators that receive a `struct type *` ignore    *)
(* the top-level q of their argument and read `.to.q` / `.of.q` / `.ret.q`      *)
(* where the C code reads t->qual.                                             *)
EXTENDS CTypes

(* Status: CondSameTypeNoConversion fixed by /repo ba99903, ConvertKeepsCompatible and SizeofSeesBitfield by 4c7c95a,   *)
(* DerefDecayedArrayDropsQual by 13d3f3d, UacKeepsWideEnum by 60245bf: they are no longer listed in Devs of the cfgs,   *)
(* the disjuncts are kept as documentation of the regression each one would be.  Open: CompositeIsFirst,              *)
(* ArrayQualOnArrayType.                                                                                               *)
AllDevs == {"CondSameTypeNoConversion",   \* condexpr: `if (lt == rt) t = lt;` before the arithmetic case
            "CompositeIsFirst",           \* typecomposite: `return t1;`
            "UacKeepsWideEnum",           \* typecommonreal returns an enum type with rank > int unconverted
            "ConvertKeepsCompatible",     \* exprconvert(e, t) returns e (e->type unchanged) whenever typecompatible(e->type, t):
                                          \* an `enum eu` operand promoted/converted to its compatible type unsigned int
                                          \* keeps the type `enum eu` (shift, unary + -, ?: with a constant condition)
            "ArrayQualOnArrayType",       \* qualifiers that reach an array type through a member access (`cs.arr` with
                                          \* `const struct S cs`) or a typedef (`const A x`) are kept next to the array
                                          \* type (expr->qual / decl->qual) instead of on its element type (6.7.3p9), so
                                          \* `&cs.arr` is "const pointer-target, array of plain char" and is not compatible
                                          \* with `const char (*)[3]`
            "DerefDecayedArrayDropsQual", \* mkunaryexpr(TMUL) undoes a decay by returning the array expression itself with
                                          \* type = element type; the element qualifiers (kept in the array type) are lost:
                                          \* `*ca` with `const char ca[3]` has type char
            "FoldedCondKeepsDecay",       \* condexpr with a constant condition returns exprconvert(selected, t); when t is the
                                          \* selected operand's own type (null pointer constant rows) the decayed array /
                                          \* function node itself comes back: sizeof(1 ? arr : 0) is sizeof(arr) (modelled in
                                          \* CTypesExprGen.G_Cond)
            "FoldedNullVoidPtrIsNpc",     \* expr.c nullpointer(): any EXPRCONST of type pointer-to-void with value 0 counts as a null
                                          \* pointer constant, e.g. the folded `0.0 ? vp : 0` (6.3.2.3p3: only an integer constant
                                          \* expression 0 or such an expression CAST to void *); modelled in CTypesExprGen.G_Cond
            "SizeofSeesBitfield"}         \* exprconvert returns the EXPRBITFIELD node itself when no conversion is
                                          \* needed, so sizeof(+s.bf) / sizeof(1 ? s.bf : x) are refused as "bitfield expression"

(* ---- struct type fields ---------------------------------------------------- *)
M_kind(t) ==
  CASE t.k = "bool" -> "TYPEBOOL"
    [] t.k \in {"char", "schar", "uchar"} -> "TYPECHAR"
    [] t.k \in {"short", "ushort"} -> "TYPESHORT"
    [] t.k \in {"int", "uint"} -> "TYPEINT"
    [] t.k \in {"long", "ulong"} -> "TYPELONG"
    [] t.k \in {"llong", "ullong"} -> "TYPELLONG"
    [] t.k = "float" -> "TYPEFLOAT"
    [] t.k = "double" -> "TYPEDOUBLE"
    [] t.k = "ldouble" -> "TYPELDOUBLE"
    [] t.k = "void" -> "TYPEVOID"
    [] t.k = "enum" -> "TYPEENUM"
    [] t.k = "ptr" -> "TYPEPOINTER"
    [] t.k = "arr" -> "TYPEARRAY"
    [] t.k = "fn" -> "TYPEFUNC"
    [] t.k = "struct" -> "TYPESTRUCT"
    [] t.k = "union" -> "TYPEUNION"
M_PROPINT(t) == t.k \in IntKinds \/ t.k = "enum"
M_PROPFLOAT(t) == t.k \in FloatKinds
M_PROPARITH(t) == M_PROPINT(t) \/ M_PROPFLOAT(t)
M_PROPREAL(t) == M_PROPARITH(t)
M_PROPSCALAR(t) == M_PROPARITH(t) \/ t.k = "ptr"
M_enumbase(t) == B(EnumBase(t.tag))                              \* t->base of an enum type
M_size(t) == IF t.k = "enum" THEN KindSize(EnumBase(t.tag)) ELSE IF t.k = "ptr" THEN 8 ELSE KindSize(t.k)
(* u.basic.issigned: INTTYPE initialisers; typechar patched by targinit; enums copy their base *)
M_issigned(t, targ) ==
  LET k == IF t.k = "enum" THEN EnumBase(t.tag) ELSE t.k IN
  IF k = "char" THEN targ = "x86_64-sysv" ELSE k \in {"schar", "short", "int", "long", "llong"}
M_incomplete(t) == t.k = "void" \/ (t.k = "arr" /\ t.n = 0)
(* `t1 == t2` on struct type pointers: basic types are singletons, tagged types are one  *)
(* object per tag; derived types are allocated per declarator (never pointer-equal here) *)
M_same(t1, t2) ==
  IF t1.k \in BasicKinds \cup {"void"} THEN t1.k = t2.k
  ELSE IF t1.k \in {"enum", "struct", "union"} THEN t2.k = t1.k /\ t2.tag = t1.tag
  ELSE FALSE
M_strip(t) == [t EXCEPT !.q = {}]

(* ---- type.c ------------------------------------------------------------------- *)
M_typerank(t) ==
  LET u == IF t.k = "enum" THEN M_enumbase(t) ELSE t
      kd == M_kind(u)
  IN CASE kd = "TYPEBOOL" -> 1 [] kd = "TYPECHAR" -> 2 [] kd = "TYPESHORT" -> 3
       [] kd = "TYPEINT" -> 4 [] kd = "TYPELONG" -> 5 [] kd = "TYPELLONG" -> 6

(* typepromote(t, width); w = 0 stands for width == -1 (not a bit-field) *)
M_typepromote(t, w, targ) ==
  IF t.k = "float" THEN B("double")
  ELSE IF M_PROPINT(t) /\ (M_typerank(t) <= M_typerank(B("int")) \/ (w # 0 /\ w <= 4 * 8))
       THEN LET width == IF w = 0 THEN M_size(t) * 8 ELSE w
            IN IF width - (IF M_issigned(t, targ) THEN 1 ELSE 0) < 4 * 8 THEN B("int") ELSE B("uint")
       ELSE M_strip(t)

(* typecommonreal(t1, w1, t2, w2): returns [t, br] with br naming the return statement taken *)
M_typecommonreal(t1, w1, t2, w2, targ, D) ==
  IF t1.k = "ldouble" \/ t2.k = "ldouble" THEN [t |-> B("ldouble"), br |-> "ldouble"]
  ELSE IF t1.k = "double" \/ t2.k = "double" THEN [t |-> B("double"), br |-> "double"]
  ELSE IF t1.k = "float" \/ t2.k = "float" THEN [t |-> B("float"), br |-> "float"]
  ELSE LET q1 == M_typepromote(t1, w1, targ)
           q2 == M_typepromote(t2, w2, targ)
           \* repaired code converts an enumeration operand to its underlying type first
           p1 == IF "UacKeepsWideEnum" \in D THEN q1 ELSE EnumToUnderlying(q1)
           p2 == IF "UacKeepsWideEnum" \in D THEN q2 ELSE EnumToUnderlying(q2)
       IN IF M_same(p1, p2) THEN [t |-> p1, br |-> "same"]
          ELSE IF M_issigned(p1, targ) = M_issigned(p2, targ)
               THEN [t |-> IF M_typerank(p1) > M_typerank(p2) THEN p1 ELSE p2, br |-> "samesign"]
          ELSE LET u == IF M_issigned(p1, targ) THEN p2 ELSE p1       \* after the swap t1 is the unsigned one
                   s == IF M_issigned(p1, targ) THEN p1 ELSE p2
               IN IF M_typerank(u) >= M_typerank(s) THEN [t |-> u, br |-> "urank"]
                  ELSE IF M_size(u) < M_size(s) THEN [t |-> s, br |-> "ssize"]
                  ELSE IF M_same(s, B("long")) THEN [t |-> B("ulong"), br |-> "ulong"]
                  ELSE IF M_same(s, B("llong")) THEN [t |-> B("ullong"), br |-> "ullong"]
                  ELSE [t |-> Err, br |-> "fatal"]

(* typeadjust(t, &tq) for a parameter type (array ptrqual not modelled) *)
M_typeadjust(t) ==
  IF t.k = "arr" THEN Ptr(t.of)          \* mkpointertype(t->base, tq | t->qual)
  ELSE IF t.k = "fn" THEN Ptr(t)
  ELSE t

(* typecompatible(t1, t2).  Base(t)/BaseQual(t): t->base and t->qual of a derived type. *)
M_base(t) == IF t.k = "ptr" THEN t.to ELSE IF t.k = "arr" THEN t.of ELSE t.ret
RECURSIVE M_typecompatible(_, _)
M_typecompatible(t1, t2) ==
  IF M_same(t1, t2) THEN TRUE
  ELSE IF M_kind(t1) # M_kind(t2)
       THEN (t1.k = "enum" /\ M_same(t2, M_enumbase(t1))) \/ (t2.k = "enum" /\ M_same(t1, M_enumbase(t2)))
  ELSE LET derived == M_base(t1).q = M_base(t2).q /\ M_typecompatible(M_base(t1), M_base(t2)) IN
       IF t1.k = "ptr" THEN derived
       ELSE IF t1.k = "arr" THEN
            IF t1.n = 0 \/ t2.n = 0 THEN derived
            ELSE IF t1.n # t2.n THEN FALSE
            ELSE derived
       ELSE IF t1.k = "fn" THEN
            IF t1.va # t2.va THEN FALSE
            ELSE LET n == IF Len(t1.ps) < Len(t2.ps) THEN Len(t1.ps) ELSE Len(t2.ps) IN
                 IF \E i \in 1..n : ~M_typecompatible(M_typeadjust(t1.ps[i]), M_typeadjust(t2.ps[i])) THEN FALSE
                 ELSE IF Len(t1.ps) # Len(t2.ps) THEN FALSE
                 ELSE derived
       ELSE FALSE
(* callers that also compare the separately kept top-level qualifiers: declcommon (`tq != prior->qual`), *)
(* generic (`qual == QUALNONE`), derived types (above)                                                  *)
M_qualtypecompatible(t1, t2) == QualsOf(t1) = QualsOf(t2) /\ M_typecompatible(t1, t2)

(* exprconvert(e, t)->type *)
M_exprconvert(et, t, D) ==
  IF "ConvertKeepsCompatible" \in D /\ ~IsErr(t) /\ M_typecompatible(et, t) THEN et ELSE t
(* exprpromote(e)->type *)
M_exprpromote(t, w, targ, D) == M_exprconvert(M_strip(t), M_typepromote(t, w, targ), D)

(* typecomposite(t1, t2) *)
M_typecomposite(t1, t2, D) == IF "CompositeIsFirst" \in D THEN t1 ELSE Composite(t1, t2)

(* typehasint(t, i, false) on the number of significant bits of i:            *)
(* i <= 0xffffffffffffffff >> (8 - size << 3) + issigned                       *)
M_typehasint(k, nbits, targ) == nbits <= 64 - (((8 - KindSize(k)) * 8) + (IF M_issigned(B(k), targ) THEN 1 ELSE 0))

(* ---- expr.c ------------------------------------------------------------------- *)
(* inttype(val, decimal, end) *)
M_limits == <<"int", "uint", "long", "ulong", "llong", "ullong">>
M_suffixindex(suffix) ==
  CASE suffix = "" -> 1 [] suffix = "u" -> 2 [] suffix = "l" -> 3 [] suffix = "ul" -> 4 [] suffix = "ll" -> 5 [] suffix = "ull" -> 6
M_inttype(nbits, decimal, suffix, targ) ==
  LET i0 == M_suffixindex(suffix)
      step == IF (i0 - 1) % 2 = 1 \/ decimal THEN 2 ELSE 1
      cand == {i \in i0..6 : (i - i0) % step = 0 /\ M_typehasint(M_limits[i], nbits, targ)}
  IN IF cand = {} THEN "none" ELSE M_limits[CHOOSE i \in cand : \A j \in cand : i <= j]

(* primaryexpr TCHARCONST *)
M_charconsttype(prefix, targ) ==
  CASE prefix = "L" -> (IF targ = "aarch64" THEN "uint" ELSE "int")       \* targ->typewchar
    [] prefix = "u" -> "ushort"
    [] prefix = "u8" -> "uchar"
    [] prefix = "U" -> "uint"
    [] prefix = "" -> "int"

(* the type stored in struct expr for an operand: identifiers are decayed by primaryexpr,  *)
(* qualifiers live in e->qual                                                              *)
M_exprtype(x) ==
  IF x.t.k = "arr" THEN Ptr(Qual(x.t.of, x.t.q))        \* decay: mkpointertype(t->base, t->qual | tq)
  ELSE IF x.t.k = "fn" THEN Ptr(x.t)
  ELSE M_strip(x.t)

M_BinGroups == <<"logical", "equality", "relational", "bitwise", "add", "sub", "mod", "muldiv", "shift">>
M_GroupOps(g) ==
  CASE g = "logical" -> <<"||", "&&">>
    [] g = "equality" -> <<"==", "!=">>
    [] g = "relational" -> <<"<", ">", "<=", ">=">>
    [] g = "bitwise" -> <<"|", "^", "&">>
    [] g = "add" -> <<"+">>
    [] g = "sub" -> <<"-">>
    [] g = "mod" -> <<"%">>
    [] g = "muldiv" -> <<"*", "/">>
    [] g = "shift" -> <<"<<", ">>">>

(* mkbinaryexpr(loc, op, l, r): result [t, br]; t = Err where the code calls error() *)
M_mkbinaryexpr(g, x, y, targ, D) ==
  LET lt == M_exprtype(x)
      rt == M_exprtype(y)
      cr == M_typecommonreal(lt, x.w, rt, y.w, targ, D)
      int == [t |-> B("int"), br |-> "int"]
      err == [t |-> Err, br |-> "error"]
  IN
  IF g = "logical" THEN
       IF ~M_PROPSCALAR(lt) \/ ~M_PROPSCALAR(rt) THEN err ELSE int
  ELSE IF g = "equality" THEN
       IF M_PROPARITH(lt) /\ M_PROPARITH(rt) THEN [t |-> B("int"), br |-> cr.br]
       ELSE LET sw == lt.k # "ptr"                      \* if (l->type->kind != TYPEPOINTER) swap
                l == IF sw THEN y ELSE x
                r == IF sw THEN x ELSE y
                l1 == M_exprtype(l)
                r1 == M_exprtype(r)
            IN IF l1.k # "ptr" THEN err
               ELSE IF r.npc THEN int
               ELSE IF l.npc THEN int
               ELSE IF r1.k # "ptr" THEN err
               ELSE LET sw2 == l1.to.k = "void"
                        l2 == IF sw2 THEN r1 ELSE l1
                        r2 == IF sw2 THEN l1 ELSE r1
                    IN IF r2.to.k = "void" /\ l2.to.k # "fn" THEN int
                       ELSE IF ~M_typecompatible(l2.to, r2.to) THEN err
                       ELSE int
  ELSE IF g = "relational" THEN
       IF M_PROPREAL(lt) /\ M_PROPREAL(rt) THEN [t |-> B("int"), br |-> cr.br]
       ELSE IF lt.k = "ptr" /\ rt.k = "ptr" THEN
            IF ~M_typecompatible(lt.to, rt.to) \/ lt.to.k = "fn" THEN err ELSE int
       ELSE err
  ELSE IF g = "bitwise" THEN
       \* the code calls commonreal() unchecked; a non-real operand trips the assert in typecommonreal
       \* and a floating operand is accepted: both are diagnostics business (C10/C19), not modelled here
       IF M_PROPINT(lt) /\ M_PROPINT(rt) THEN cr ELSE err
  ELSE IF g = "add" THEN
       IF M_PROPARITH(lt) /\ M_PROPARITH(rt) THEN cr
       ELSE LET sw == rt.k = "ptr"
                l1 == IF sw THEN rt ELSE lt
                r1 == IF sw THEN lt ELSE rt
            IN IF l1.k # "ptr" \/ ~M_PROPINT(r1) THEN err
               ELSE IF M_incomplete(l1.to) \/ l1.to.k = "fn" THEN err
               ELSE [t |-> l1, br |-> "ptr"]
  ELSE IF g = "sub" THEN
       IF M_PROPARITH(lt) /\ M_PROPARITH(rt) THEN cr
       ELSE IF lt.k # "ptr" \/ (~M_PROPINT(rt) /\ rt.k # "ptr") THEN err
       ELSE IF M_incomplete(lt.to) \/ lt.to.k = "fn" THEN err
       ELSE IF M_PROPINT(rt) THEN [t |-> lt, br |-> "ptr"]
       ELSE IF ~M_typecompatible(lt.to, rt.to) THEN err
       ELSE [t |-> B("long"), br |-> "ptrdiff"]
  ELSE IF g = "mod" THEN
       IF ~M_PROPINT(lt) \/ ~M_PROPINT(rt) THEN err ELSE cr
  ELSE IF g = "muldiv" THEN
       IF ~M_PROPARITH(lt) \/ ~M_PROPARITH(rt) THEN err ELSE cr
  ELSE IF g = "shift" THEN
       IF ~M_PROPINT(lt) \/ ~M_PROPINT(rt) THEN err
       ELSE [t |-> M_exprpromote(lt, x.w, targ, D), br |-> "promote"]
  ELSE err

(* condexpr: second and third operand; M_condexpr_folded: the controlling expression is an integer *)
(* constant and the node returned is exprconvert(sel ? l : r, t)                                   *)
M_condexpr(x, y, targ, D) ==
  LET lt == M_exprtype(x)
      rt == M_exprtype(y)
      err == [t |-> Err, br |-> "error"]
  IN
  IF "CondSameTypeNoConversion" \in D /\ M_same(lt, rt) THEN [t |-> lt, br |-> "same"]
  ELSE IF M_PROPARITH(lt) /\ M_PROPARITH(rt) THEN M_typecommonreal(lt, x.w, rt, y.w, targ, D)
  ELSE IF M_same(lt, rt) THEN [t |-> lt, br |-> "same"]            \* struct/union/void after the repair
  ELSE IF x.npc /\ rt.k = "ptr" THEN [t |-> rt, br |-> "npc"]
  ELSE IF y.npc /\ lt.k = "ptr" THEN [t |-> lt, br |-> "npc"]
  ELSE IF lt.k = "ptr" /\ rt.k = "ptr" THEN
       LET tq == lt.to.q \cup rt.to.q IN
       IF lt.to.k = "void" \/ rt.to.k = "void" THEN [t |-> Ptr(Qual(Void, tq)), br |-> "voidptr"]
       ELSE IF M_typecompatible(lt.to, rt.to)
            THEN [t |-> Ptr([M_typecomposite(lt.to, rt.to, D) EXCEPT !.q = tq]), br |-> "composite"]
            ELSE err
  ELSE err

M_condexpr_folded(x, y, first, targ, D) ==
  LET cr == M_condexpr(x, y, targ, D)
      ch == IF first THEN x ELSE y
  IN [t |-> M_exprconvert(M_exprtype(ch), cr.t, D), br |-> cr.br]

(* unaryexpr *)
M_unaryexpr(op, x, targ, D) ==
  LET t == M_exprtype(x)
      err == Err
  IN
  IF op = "+" \/ op = "-" THEN
       IF ~M_PROPARITH(t) THEN err ELSE IF M_PROPINT(t) THEN M_exprpromote(t, x.w, targ, D) ELSE t
  ELSE IF op = "~" THEN
       IF ~M_PROPINT(t) THEN err
       ELSE LET p == M_typepromote(t, x.w, targ) IN M_typecommonreal(p, 0, p, 0, targ, D).t     \* mkbinaryexpr(TXOR, e, -1)
  ELSE IF op = "!" THEN
       IF ~M_PROPSCALAR(t) THEN err ELSE B("int")                                               \* mkbinaryexpr(TEQL, e, 0)
  ELSE IF op \in {"sizeof", "_Alignof"} THEN
       IF x.w # 0 THEN err                                  \* operator applied to bitfield expression
       ELSE IF M_incomplete(x.t) \/ x.t.k = "fn" THEN err   \* e->decayed: e = e->base
       ELSE B("ulong")
  ELSE IF op = "&" THEN
       IF ~x.lv /\ x.t.k \notin {"fn", "struct", "union"} THEN err        \* after undoing the decay
       ELSE IF x.w # 0 THEN err
       ELSE Ptr(x.t)                                        \* mkpointertype(base->type, base->qual)
  ELSE IF op = "*" THEN
       IF t.k # "ptr" THEN err
       ELSE IF x.t.k = "arr" THEN                           \* base is a decay node: expr = base->base; expr->type = element type,
            (IF "DerefDecayedArrayDropsQual" \in D          \* expr->qual stays that of the array expression
             THEN [x.t.of EXCEPT !.q = x.t.q] ELSE Qual(x.t.of, x.t.q))
       ELSE t.to                                            \* expr->qual = base->type->qual; then decay()
  ELSE IF op \in {"++pre", "--pre", "post++", "post--"} THEN
       IF ~x.lv THEN err ELSE IF "const" \in x.t.q THEN err ELSE t     \* mkincdecexpr: no type check at all
  ELSE err

(* exprconvert(e, t) returns e itself (no EXPRCAST node) iff typecompatible(e->type, t); a later   *)
(* `sizeof` that finds e->kind == EXPRBITFIELD calls error().  x = the operand that is returned.  *)
M_exprconvert_same(x, t) == ~IsErr(t) /\ M_typecompatible(M_exprtype(x), t)
M_sizeof_refuses(x, t, D) == "SizeofSeesBitfield" \in D /\ x.w # 0 /\ M_exprconvert_same(x, t)

(* postfixexpr TPERIOD/TARROW: mkpointertype(m->type, tq | m->qual) then `*` *)
M_member(m, sq, D) ==
  IF m.t.k = "arr" /\ "ArrayQualOnArrayType" \in D THEN [m.t EXCEPT !.q = sq] ELSE Qual(m.t, sq)
(* generic(): first association with typecompatible(t, want) && qual == QUALNONE (more than one: error) *)
M_genericsel(want, assocs) ==
  LET ms == {i \in 1..Len(assocs) : assocs[i].q = {} /\ M_typecompatible(assocs[i], want)}
  IN IF ms = {} THEN 0 ELSE IF Cardinality(ms) = 1 THEN CHOOSE i \in ms : TRUE ELSE -1

(* exprassign(e, t) for t->kind == TYPEPOINTER, e not a null pointer constant: accepted? *)
M_ptrassign(l, r) ==
  IF r.k # "ptr" THEN FALSE
  ELSE IF l.to.k # "void" /\ r.to.k # "void" /\ ~M_typecompatible(l.to, r.to) THEN FALSE
  ELSE IF (r.to.q \cap l.to.q) # r.to.q THEN FALSE
  ELSE TRUE
=============================================================================
