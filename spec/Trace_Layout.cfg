SPECIFICATION TSpec
CONSTANTS
  Mode = "trace"
  MaxLen = 0
  MaxPool = 0
  MaxSize = 0
  Raise = FALSE
  Devs = {}
  Widths = {}
  Emit = FALSE
  CharSigned = TRUE
  EUSuffixed = {}
  GenClasses = {"scalar", "array", "bitfield", "nested", "anon", "alignas", "flex"}
  GenPacked = TRUE
  McSel = "full"
  CheckSim = FALSE
POSTCONDITION TraceAccepted
CHECK_DEADLOCK FALSE
