------------------------------ MODULE FloatInt ------------------------------
(* Floating values restricted to what the models treat exactly: INTEGERS representable in the format.            *)
(* A value is [neg, mag] with mag a 64-bit magnitude (Bits.tla word) whose significant bits fit the precision.    *)
(* Shared by CSem.tla (C abstract machine) and QbeMachine.tla (IL machine, which holds the IEEE-754 image of a   *)
(* value in its temporaries and memory, as QBE does).  Every operation whose exact result is not such a value is  *)
(* reported as not ok: rounding is outside both models (DESIGN.md section 6).                                     *)
EXTENDS Bits

RECURSIVE TzFrom(_, _), TopFrom(_, _)
TzFrom(m, k) == IF k >= 64 THEN 64 ELSE IF BitAt(m, k) = 1 THEN k ELSE TzFrom(m, k + 1)     \* index of lowest set bit
TopFrom(m, k) == IF k < 0 THEN -1 ELSE IF BitAt(m, k) = 1 THEN k ELSE TopFrom(m, k - 1)     \* index of highest set bit
RepresentableP(mag, prec) == IsZero(mag) \/ (TopFrom(mag, 63) - TzFrom(mag, 0) + 1 <= prec)
FV(neg, mag) == [neg |-> neg /\ ~IsZero(mag), mag |-> mag]
FZero == FV(FALSE, Zero)
FAdd(a, b) ==       \* exact sum of two integral values, or overflow of the 64-bit magnitude
  IF a.neg = b.neg THEN (LET m == Add(a.mag, b.mag) IN IF ULt(m, a.mag) THEN [ok |-> FALSE] ELSE [ok |-> TRUE, f |-> FV(a.neg, m)])
  ELSE IF ULt(a.mag, b.mag) THEN [ok |-> TRUE, f |-> FV(b.neg, Sub(b.mag, a.mag))]
  ELSE [ok |-> TRUE, f |-> FV(a.neg, Sub(a.mag, b.mag))]
FNeg(a) == FV(~a.neg, a.mag)
FMul(a, b) ==
  IF IsZero(a.mag) \/ IsZero(b.mag) THEN [ok |-> TRUE, f |-> FZero]
  ELSE LET p == Mul(a.mag, b.mag) IN IF UDiv(p, b.mag) # a.mag THEN [ok |-> FALSE] ELSE [ok |-> TRUE, f |-> FV(a.neg # b.neg, p)]
FDiv(a, b) ==       \* only exact quotients
  IF IsZero(b.mag) THEN [ok |-> FALSE] ELSE IF ~IsZero(URem(a.mag, b.mag)) THEN [ok |-> FALSE]
  ELSE [ok |-> TRUE, f |-> FV(a.neg # b.neg, UDiv(a.mag, b.mag))]
FLt(a, b) == IF a.neg # b.neg THEN a.neg ELSE IF a.neg THEN ULt(b.mag, a.mag) ELSE ULt(a.mag, b.mag)

(* ---- IEEE-754 images (binary64: 11/52/1023, binary32: 8/23/127) of integral values ---- *)
EncGen(f, ebits, mbits, bias) ==      \* requires RepresentableP(f.mag, mbits + 1)
  IF IsZero(f.mag) THEN Zero
  ELSE LET top == TopFrom(f.mag, 63)
           frac == Sub(f.mag, Shl(One, top))
           mant == IF top <= mbits THEN Shl(frac, mbits - top) ELSE Shr(frac, top - mbits)
       IN WOr(IF f.neg THEN Shl(One, ebits + mbits) ELSE Zero, WOr(Shl(W(bias + top), mbits), mant))
DecGen(w, ebits, mbits, bias) ==      \* [ok, f]; not ok for -0, denormals, infinities, NaNs, non-integers and magnitudes >= 2^64
  LET sign == BitAt(w, ebits + mbits) = 1
      e == Lo31(TruncBits(Shr(w, mbits), ebits))
      m == TruncBits(w, mbits)
  IN IF e = 0 THEN (IF IsZero(m) /\ ~sign THEN [ok |-> TRUE, f |-> FZero] ELSE [ok |-> FALSE])
     ELSE IF e = 2 ^ ebits - 1 THEN [ok |-> FALSE]
     ELSE LET E == e - bias  full == WOr(m, Shl(One, mbits)) IN
          IF E < 0 \/ E > 63 THEN [ok |-> FALSE]
          ELSE IF E >= mbits THEN [ok |-> TRUE, f |-> FV(sign, Shl(full, E - mbits))]
          ELSE IF ~IsZero(TruncBits(full, mbits - E)) THEN [ok |-> FALSE]
          ELSE [ok |-> TRUE, f |-> FV(sign, Shr(full, mbits - E))]
EncD(f) == EncGen(f, 11, 52, 1023)
EncS(f) == EncGen(f, 8, 23, 127)
DecD(w) == DecGen(w, 11, 52, 1023)
DecS(w) == DecGen(w, 8, 23, 127)
=============================================================================
