------------------------------ MODULE PureEnv ------------------------------
(* Property C20: enumeration of the environment lattice of PureLattice.tla.     *)
(*                                                                             *)
(* Mode "pairwise": a greedy construction (one value per step, one row per      *)
(* ND steps) of a set of rows such that every pair of values of two different   *)
(* dimensions occurs together in some row.  TLC checks at every state that the  *)
(* bookkeeping `uncov` is exactly the set of pairs not covered by the finished  *)
(* rows, that every finished row covers a new pair (so the construction ends),  *)
(* that it does end (<>Done), and at the end that the rows are a strength-2     *)
(* covering array (Inv_Covering, evaluated from `rows` alone).  The final state  *)
(* prints the rows as one VCASE line.                                          *)
(* Mode "full": one initial state per element of the product; every state       *)
(* prints its row (thorough tier).                                             *)
(* `Rot` rotates the tie-break so that different runs yield different arrays.   *)
EXTENDS PureLattice, Json

CONSTANTS Which      \* "main" (DimSpec) or "vg" (VgSpec)

S == IF Which = "vg" THEN VgSpec ELSE DimSpec
Rot == IF "C20_ROT" \in DOMAIN IOEnv THEN atoi(IOEnv.C20_ROT) ELSE 0

VARIABLES rows,    \* finished rows
          cur,     \* prefix of the row under construction
          uncov    \* pairs not covered by `rows`

vars == <<rows, cur, uncov>>

N == ND(S)
Pairs == AllPairs(S)

(* value of choosing index v for dimension j given the prefix `cur`:            *)
(* pairs newly covered with the already chosen dimensions count first, then     *)
(* the number of uncovered pairs v can still contribute to with later ones.     *)
Score(j, v) ==
  LET now == Cardinality({i \in 1..(j - 1) : <<i, cur[i], j, v>> \in uncov})
      fut == Cardinality({p \in uncov : p[1] = j /\ p[2] = v})
  IN now * 4096 + fut
Key(j, v) == Score(j, v) * 64 + ((v + Len(rows) + Rot) % NV(S, j))
Choice(j) == CHOOSE v \in 1..NV(S, j) : \A w \in 1..NV(S, j) : Key(j, v) >= Key(j, w)

Done == uncov = {} /\ cur = << >>

Init == rows = << >> /\ cur = << >> /\ uncov = Pairs

Extend ==
  /\ ~Done
  /\ Len(cur) < N
  /\ cur' = Append(cur, Choice(Len(cur) + 1))
  /\ UNCHANGED <<rows, uncov>>

Finish ==
  /\ Len(cur) = N
  /\ rows' = Append(rows, cur)
  /\ uncov' = uncov \ PairsOfRow(S, cur)
  /\ cur' = << >>

Next == Extend \/ Finish
Spec == Init /\ [][Next]_vars /\ WF_vars(Next)

(* ---- what TLC checks ---------------------------------------------------- *)
CoveredBy(rs) == {p \in Pairs : \E k \in 1..Len(rs) : Covers(rs[k], p)}

TypeOK ==
  /\ \A k \in 1..Len(rows) : Len(rows[k]) = N /\ \A d \in 1..N : rows[k][d] \in 1..NV(S, d)
  /\ Len(cur) <= N /\ \A d \in 1..Len(cur) : cur[d] \in 1..NV(S, d)
Inv_Bookkeeping == uncov = Pairs \ CoveredBy(rows)
Inv_Progress == Len(rows) <= Cardinality(Pairs) - Cardinality(uncov)    \* each row covered >= 1 new pair
Inv_Covering == Done => \A p \in Pairs : \E k \in 1..Len(rows) : Covers(rows[k], p)
Inv_NoDupRows == \A a, b \in 1..Len(rows) : a # b => rows[a] # rows[b]
Terminates == <>Done

Inv_Emit ==
  Done => PrintT("VCASE " \o ToJson([mode |-> "pairwise", which |-> Which, rot |-> Rot, npairs |-> Cardinality(Pairs),
                                      rows |-> [k \in 1..Len(rows) |-> [row |-> rows[k], env |-> EnvRec(S, rows[k])]]]))

(* ---- full product ------------------------------------------------------- *)
FullInit == rows = << >> /\ uncov = {} /\ cur \in AllRows(S)
FullNext == UNCHANGED vars
Inv_EmitFull == PrintT("VCASE " \o ToJson([row |-> cur, env |-> EnvRec(S, cur)]))
=============================================================================
