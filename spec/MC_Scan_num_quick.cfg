SPECIFICATION Spec
CONSTANTS
  Chunks <- NumChunks
  MaxLen = 4
  MinLen = 0
  Variants = {"plain"}
  VarLen = 0
  Mode = "alpha"
  PerturbChars = {}
  Devs = {"NoDigraphs", "NoUCNIdent", "NoUCNEscape"}
  Emit = TRUE
INVARIANTS Inv_Fired Inv_Emit
CHECK_DEADLOCK FALSE
