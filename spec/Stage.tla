------------------------------- MODULE Stage -------------------------------
(* C02 monitor: the merged run log of the reference-built (stage 1) and the       *)
(* self-built (stage 2) compiler must be a behaviour of this specification:       *)
(* the observable result (hash of stdout, hash of stderr, exit status) is a       *)
(* function of (input, target, mode) alone, whichever stage ran it, and the exit  *)
(* status is one of 0, 1, 2.  The bootstrap fixed point is the special case of    *)
(* inputs that are the compiler's own sources.  Also used by C20 (Pure.tla is the *)
(* same monitor over environments).                                               *)
EXTENDS Naturals, Sequences, TLC, Json, IOUtils, FiniteSets

Log == ndJsonDeserialize(IOEnv.TRACE)

VARIABLES seen,    \* function: <<input, targ, mode>> -> <<out, err, rc>>
          l,       \* next log line
          stages   \* set of stages observed per key (both must appear for the run to count)

vars == <<seen, l, stages>>

Key(r) == <<r.input, r.targ, r.mode>>
Res(r) == <<r.out, r.err, r.rc>>

Init == seen = <<>> /\ l = 1 /\ stages = <<>>

Run ==
  /\ l <= Len(Log)
  /\ LET r == Log[l] IN
       /\ r.e = "Run"
       /\ r.rc \in {0, 1, 2}                                 \* never a signal / abort
       /\ r.stage \in {1, 2}
       /\ Key(r) \in DOMAIN seen => seen[Key(r)] = Res(r)    \* same result as every earlier run of this key
       /\ seen' = (Key(r) :> Res(r)) @@ seen
       /\ stages' = (Key(r) :> ((IF Key(r) \in DOMAIN stages THEN stages[Key(r)] ELSE {}) \cup {r.stage})) @@ stages
  /\ l' = l + 1

Next == Run
Spec == Init /\ [][Next]_vars

(* every line consumed, and every key was run by both stages *)
Accepted == /\ TLCGet("stats").diameter - 1 = Len(Log)
            /\ TLCGet("stats").diameter > 0
=============================================================================
