------------------------------- MODULE Stage -------------------------------
(* C02 monitor: the merged run log of the reference-built (stage 1) and the       *)
(* self-built (stage 2) compiler must be a behaviour of this specification:       *)
(* the observable result (hash of stdout, hash of stderr, exit status) is a       *)
(* function of (input, target, mode) alone, whichever stage ran it, and the exit  *)
(* status is one of 0, 1, 2.  The bootstrap fixed point is the special case of    *)
(* inputs that are the compiler's own sources.  Also used by C20 (Pure.tla is the *)
(* same monitor over environments).                                               *)
EXTENDS Naturals, Sequences, TLC, Json, IOUtils, FiniteSets

Log == ndJsonDeserialize(IOEnv.TRACE)

VARIABLES seen,    \* function: <<input, targ, mode>> -> <<out, err, rc>> for the keys not yet run by both stages
          l,       \* next log line
          stages   \* set of stages observed per pending key

vars == <<seen, l, stages>>

Key(r) == <<r.input, r.targ, r.mode>>
Res(r) == <<r.out, r.err, r.rc>>
Without(f, k) == [x \in DOMAIN f \ {k} |-> f[x]]

Init == seen = <<>> /\ l = 1 /\ stages = <<>>

Run ==
  /\ l <= Len(Log)
  /\ LET r == Log[l]  k == Key(r) IN
       /\ r.e = "Run"
       /\ r.rc \in {0, 1, 2}                                 \* never a signal / abort
       /\ r.stage \in {1, 2}
       /\ k \in DOMAIN seen => seen[k] = Res(r)              \* same result as the earlier runs of this key
       /\ LET st == (IF k \in DOMAIN stages THEN stages[k] ELSE {}) \cup {r.stage} IN
            IF st = {1, 2}
            THEN seen' = Without(seen, k) /\ stages' = Without(stages, k)      \* settled: both stages agree (keeps the state small)
            ELSE seen' = (k :> Res(r)) @@ seen /\ stages' = (k :> st) @@ stages
  /\ l' = l + 1

Finish ==       \* the whole log is consumed and no key is left that only one stage ran
  /\ l = Len(Log) + 1 /\ DOMAIN seen = {}
  /\ l' = l + 1 /\ UNCHANGED <<seen, stages>>

Next == Run \/ Finish
Spec == Init /\ [][Next]_vars

(* every line consumed (one state per line, the initial state, and the Finish step), hence every key run by both stages *)
Accepted == /\ TLCGet("stats").diameter - 2 = Len(Log)
            /\ Len(Log) > 0
=============================================================================
