\* generator (-simulate): random scoping programs, 3 names, nesting <= 5, <= 45 items
SPECIFICATION CSpec
CONSTANTS
  Names = {1, 2, 3}
  MaxScopes = 60
  MaxDepth = 5
  MaxIds = 0
  MaxLen = 45
  Deep = FALSE
  Feat = {"macro", "label", "proto", "for", "fwd", "func"}
INVARIANTS Inv_Lexical Inv_Stack Inv_Emit
CHECK_DEADLOCK FALSE
