SPECIFICATION Spec
CONSTANTS
  MaxD = 7
  MaxSteps = 70
  NLabels = 3
  NPlain = 6
INVARIANT Emit
CHECK_DEADLOCK FALSE
