SPECIFICATION Spec
CONSTANTS
  MaxOpts = 2
  MaxInputs = 2
  Alphabet = "core"
  EmitOpts = 1
  EmitNames = {"a.c", "f.S"}
  EmitInputs = 2
  Devs = {"EmitQbeFile"}
INVARIANTS Inv_Refines Inv_Explained Inv_Emit
CHECK_DEADLOCK FALSE
