------------------------------- MODULE MapPure -------------------------------
(* Property C20, structural support (a): the result of every mapput / mapget     *)
(* sequence on /repo/map.c is independent of the hash function.                 *)
(*                                                                             *)
(* Implementation-shaped model of map.c (open addressing, linear probing,       *)
(* doubling when cap/2 < len, re-insertion in slot order) with an ARBITRARY      *)
(* hash H : Keys -> 0..HashRange-1, chosen lazily: the hash of a key is picked    *)
(* nondeterministically the first time the key is used (collisions, constant     *)
(* hash and injective hash are all among the choices).  `dict` is the   *)
(* declarative dictionary driven by the same operations; it never sees H.        *)
(* Inv_Lookup: for every H and every reachable table, mapget(k) = dict lookup    *)
(* for every key -- so the value any client (scope.c, pp.c macros, qbe.c gotos,  *)
(* decl.c string pool) obtains is the same whatever the layout of the table.     *)
(* Inv_LayoutDependsOnH documents the other half: the slot ORDER is a function   *)
(* of H, which is why output must never be produced by iterating a table (the    *)
(* harness checks on the sources that mapfree is the only iteration and that no  *)
(* file but map.c touches keys[]/vals[]).                                       *)
(* keyequal compares (hash, len, bytes); since H is a function of the key,       *)
(* equality of keys is modelled as k1 = k2.                                     *)
(* Flow A: -simulate emits (H, operation history, expected lookups) as VCASE;    *)
(* harness/c20_map.c replays them into the real map.c with struct mapkey.hash    *)
(* filled from H (the field is public).                                        *)
EXTENDS Naturals, Sequences, FiniteSets, TLC, Json, SequencesExt

CONSTANTS Keys,        \* set of keys (small naturals)
          Vals,        \* values stored (positive naturals; 0 is NULL)
          Cap0,        \* initial capacity (power of two, >= 4)
          HashRange,   \* hashes are 0..HashRange-1 (>= the largest capacity reached, so all residues occur)
          MaxOps

VARIABLES H, cap, len, slotk, slotv,   \* the table: slotk[i] = key or Empty, slotv[i] = value
          dict,                        \* declarative dictionary
          hist                         \* operation history

vars == <<H, cap, len, slotk, slotv, dict, hist>>

Empty == 0 - 1
NULL == 0

(* keyindex(): first slot from H[k] & (cap-1) that is empty or holds k *)
KeyIndex(sk, c, k, h) ==
  LET pos(j) == (h + j) % c
      stop(j) == sk[pos(j)] = Empty \/ sk[pos(j)] = k
      j0 == CHOOSE j \in 0..(c - 1) : stop(j) /\ \A i \in 0..(j - 1) : ~stop(i)
  IN pos(j0)

(* the rehash loop of mapput: re-insert old slots 0..oldcap-1 in order *)
RECURSIVE Rehash(_, _, _, _, _, _)
Rehash(i, oldc, osk, osv, nsk, nsv) ==
  IF i = oldc THEN <<nsk, nsv>>
  ELSE IF osk[i] = Empty THEN Rehash(i + 1, oldc, osk, osv, nsk, nsv)
  ELSE LET j == KeyIndex(nsk, 2 * oldc, osk[i], H[osk[i]])
       IN Rehash(i + 1, oldc, osk, osv, [nsk EXCEPT ![j] = osk[i]], [nsv EXCEPT ![j] = osv[i]])

HashVals(k) == IF k \in DOMAIN H THEN {H[k]} ELSE 0..(HashRange - 1)
Lookup(k, h) == LET i == KeyIndex(slotk, cap, k, h) IN IF slotk[i] = Empty THEN NULL ELSE slotv[i]

Init ==
  /\ H = << >>
  /\ cap = Cap0 /\ len = 0
  /\ slotk = [i \in 0..(Cap0 - 1) |-> Empty]
  /\ slotv = [i \in 0..(Cap0 - 1) |-> NULL]
  /\ dict = << >>
  /\ hist = << >>

(* mapput(k) followed by *entry = v *)
Put(k, v, h) ==
  /\ Len(hist) < MaxOps
  /\ H' = IF k \in DOMAIN H THEN H ELSE H @@ (k :> h)
  /\ LET grow == cap \div 2 < len
         c1 == IF grow THEN 2 * cap ELSE cap
         t1 == IF grow THEN Rehash(0, cap, slotk, slotv,
                                   [i \in 0..(2 * cap - 1) |-> Empty], [i \in 0..(2 * cap - 1) |-> NULL])
               ELSE <<slotk, slotv>>
         i == KeyIndex(t1[1], c1, k, h)
         fresh == t1[1][i] = Empty
     IN /\ cap' = c1
        /\ len' = IF fresh THEN len + 1 ELSE len
        /\ slotk' = [t1[1] EXCEPT ![i] = k]
        /\ slotv' = [t1[2] EXCEPT ![i] = v]
  /\ dict' = IF k \in DOMAIN dict THEN [dict EXCEPT ![k] = v] ELSE dict @@ (k :> v)
  /\ hist' = Append(hist, <<k, v>>)

Next == \E k \in Keys, v \in Vals : \E h \in HashVals(k) : Put(k, v, h)
Spec == Init /\ [][Next]_vars

DGet(k) == IF k \in DOMAIN dict THEN dict[k] ELSE NULL

TypeOK == /\ DOMAIN slotk = 0..(cap - 1) /\ DOMAIN slotv = 0..(cap - 1)
          /\ \A i \in 0..(cap - 1) : slotk[i] \in Keys \cup {Empty}
Inv_Lookup == \A k \in Keys : \A h \in HashVals(k) : Lookup(k, h) = DGet(k)     \* H does not occur on the right
Inv_Len == len = Cardinality(DOMAIN dict) /\ len = Cardinality({i \in 0..(cap - 1) : slotk[i] # Empty})
Inv_NeverFull == len < cap                                        \* probing terminates
Inv_NoDupKey == \A i, j \in 0..(cap - 1) : (i # j /\ slotk[i] # Empty) => slotk[i] # slotk[j]
Inv_HashFits == HashRange >= cap

(* flow A: one VCASE per finished history *)
KeySeq == SetToSortSeq(Keys, LAMBDA a, b : a < b)
Inv_Emit ==
  Len(hist) = MaxOps =>
    PrintT("VCASE " \o ToJson([h |-> [i \in 1..Len(KeySeq) |-> IF KeySeq[i] \in DOMAIN H THEN H[KeySeq[i]] ELSE 0],
                               keys |-> KeySeq, ops |-> hist,
                               expect |-> [i \in 1..Len(KeySeq) |-> DGet(KeySeq[i])], len |-> len, cap |-> cap]))
View == <<H, cap, len, slotk, slotv, dict>>
=============================================================================
