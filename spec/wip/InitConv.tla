----------------------------- MODULE InitConv -----------------------------
(* Property C07, conversion dimension (C11 6.7.9p11: "the initial value of the object is that of the        *)
(* expression (after conversion); the same type constraints and conversions as for simple assignment        *)
(* apply").  Init.tla initialises every scalar leaf from a constant of the leaf's own type; this module     *)
(* enumerates                                                                                                *)
(*      scalar member type  x  initialiser constant of every OTHER arithmetic type at its boundary values    *)
(* and states the member's bytes: 6.3.1.2 (_Bool), 6.3.1.3 (integers: value preserved / modulo 2^N),          *)
(* 6.3.1.4 (floating <-> integer: truncation toward zero, exact when representable), 6.3.1.5 (float <->      *)
(* double), bit-fields (the low `w` bits of the converted value).  Values are exact: a value is               *)
(* (-1)^neg * mag * 2^-sh with a 64-bit magnitude; a (source, target) pair whose result would need rounding   *)
(* or is undefined (6.3.1.4p1 out of range) is not generated.  The object is a scalar, a struct member        *)
(* between two chars, an array element reached by a designator, or a bit-field between two others; the spec   *)
(* emits the declaration text and the whole expected image; the harness declares it with static AND with      *)
(* automatic storage duration (both must hold the same member bits).  Target x86_64-sysv (plain char signed). *)
EXTENDS FloatInt, TLC, Json

CONSTANTS Rotate     \* TRUE: one container per (source, target) pair, chosen by position; FALSE: all of ContSeq

VARIABLES cs
vars == <<cs>>

P2(k) == Shl(One, k)                       \* 2^k, k <= 63
PM(k) == IF k >= 64 THEN Ones ELSE Sub(P2(k), One)    \* 2^k - 1

(* ---------------- arithmetic types ---------------- *)
\* k: "bool" | "int" | "flt";  bits: width;  sg: signed;  cast: TRUE when constants of the type are written with a cast
AT == [
  bool   |-> [c |-> "_Bool",              k |-> "bool", bits |-> 8,  sg |-> FALSE, suf |-> ""],
  char   |-> [c |-> "char",               k |-> "int",  bits |-> 8,  sg |-> TRUE,  suf |-> ""],
  schar  |-> [c |-> "signed char",        k |-> "int",  bits |-> 8,  sg |-> TRUE,  suf |-> ""],
  uchar  |-> [c |-> "unsigned char",      k |-> "int",  bits |-> 8,  sg |-> FALSE, suf |-> ""],
  short  |-> [c |-> "short",              k |-> "int",  bits |-> 16, sg |-> TRUE,  suf |-> ""],
  ushort |-> [c |-> "unsigned short",     k |-> "int",  bits |-> 16, sg |-> FALSE, suf |-> ""],
  int    |-> [c |-> "int",                k |-> "int",  bits |-> 32, sg |-> TRUE,  suf |-> ""],
  uint   |-> [c |-> "unsigned",           k |-> "int",  bits |-> 32, sg |-> FALSE, suf |-> "u"],
  long   |-> [c |-> "long",               k |-> "int",  bits |-> 64, sg |-> TRUE,  suf |-> "l"],
  ulong  |-> [c |-> "unsigned long",      k |-> "int",  bits |-> 64, sg |-> FALSE, suf |-> "ul"],
  llong  |-> [c |-> "long long",          k |-> "int",  bits |-> 64, sg |-> TRUE,  suf |-> "ll"],
  ullong |-> [c |-> "unsigned long long", k |-> "int",  bits |-> 64, sg |-> FALSE, suf |-> "ull"],
  enum   |-> [c |-> "enum EE",            k |-> "int",  bits |-> 32, sg |-> TRUE,  suf |-> ""],
  float  |-> [c |-> "float",              k |-> "flt",  bits |-> 32, sg |-> TRUE,  suf |-> "f"],
  double |-> [c |-> "double",             k |-> "flt",  bits |-> 64, sg |-> TRUE,  suf |-> ""]
]
Prec(t) == IF t = "float" THEN 24 ELSE 53
MaxOf(t) == IF AT[t].k = "bool" THEN One ELSE IF AT[t].sg THEN PM(AT[t].bits - 1) ELSE PM(AT[t].bits)
MinMag(t) == IF AT[t].k = "int" /\ AT[t].sg THEN P2(AT[t].bits - 1) ELSE Zero       \* magnitude of the most negative value

(* ---------------- boundary magnitudes ---------------- *)
\* 0, 1, 2, around every type's MAX / sign bit, the largest values exactly representable in float (24 bits) and
\* double (53 bits) below 2^31, 2^32, 2^63, 2^64, and the first integers that are not representable
NMags == 35
NFrac == 12
\* only the magnitude asked for is computed (TLC re-evaluates definitions at every use)
MagAt(i) == CASE i = 1 -> Zero
              [] i = 2 -> One
              [] i = 3 -> W(2)
              [] i = 4 -> W(65)
              [] i = 5 -> PM(7)
              [] i = 6 -> P2(7)
              [] i = 7 -> PM(8)
              [] i = 8 -> P2(8)
              [] i = 9 -> PM(15)
              [] i = 10 -> P2(15)
              [] i = 11 -> PM(16)
              [] i = 12 -> P2(16)
              [] i = 13 -> PM(24)
              [] i = 14 -> P2(24)
              [] i = 15 -> Add(P2(24), One)
              [] i = 16 -> Sub(P2(31), P2(7))
              [] i = 17 -> PM(31)
              [] i = 18 -> P2(31)
              [] i = 19 -> Add(P2(31), One)
              [] i = 20 -> Sub(P2(32), P2(8))
              [] i = 21 -> PM(32)
              [] i = 22 -> P2(32)
              [] i = 23 -> PM(53)
              [] i = 24 -> P2(53)
              [] i = 25 -> Add(P2(53), One)
              [] i = 26 -> Sub(P2(63), P2(39))
              [] i = 27 -> Sub(P2(63), P2(10))
              [] i = 28 -> PM(63)
              [] i = 29 -> P2(63)
              [] i = 30 -> Add(P2(63), One)
              [] i = 31 -> Add(P2(63), P2(11))
              [] i = 32 -> Add(P2(63), P2(62))
              [] i = 33 -> Sub(Zero, P2(40))
              [] i = 34 -> Sub(Zero, P2(11))
              [] i = 35 -> Ones
\* fractional values mag * 2^-sh (floating constants only)
FracMag(i) == CASE i = 1 -> One
                [] i = 2 -> W(3)
                [] i = 3 -> One
                [] i = 4 -> PM(9)
                [] i = 5 -> PM(16)
                [] i = 6 -> PM(17)
                [] i = 7 -> PM(24)
                [] i = 8 -> Add(P2(32), One)
                [] i = 9 -> PM(33)
                [] i = 10 -> PM(32)
                [] i = 11 -> Add(P2(33), One)
                [] i = 12 -> PM(53)
FracSh(i) == CASE i = 1 -> 1 [] i = 2 -> 1 [] i = 3 -> 3 [] i = 4 -> 1 [] i = 5 -> 1 [] i = 6 -> 1 [] i = 7 -> 1 [] i = 8 -> 1 [] i = 9 -> 1 [] i = 10 -> 1 [] i = 11 -> 1 [] i = 12 -> 21

(* ---------------- C text ---------------- *)
HD == <<"0", "1", "2", "3", "4", "5", "6", "7", "8", "9", "a", "b", "c", "d", "e", "f">>
Nib(w, i) == BitAt(w, 4 * i) + 2 * BitAt(w, 4 * i + 1) + 4 * BitAt(w, 4 * i + 2) + 8 * BitAt(w, 4 * i + 3)
RECURSIVE HexFrom(_, _, _)
HexFrom(w, i, started) ==      \* nibbles i..0, leading zeros dropped
  IF i < 0 THEN (IF started THEN "" ELSE "0")
  ELSE IF Nib(w, i) = 0 /\ ~started THEN HexFrom(w, i - 1, FALSE)
  ELSE HD[Nib(w, i) + 1] \o HexFrom(w, i - 1, TRUE)
Hex(w) == "0x" \o HexFrom(w, 15, FALSE)
RECURSIVE Dec(_)
Dec(w) == IF ULt(w, W(10)) THEN HD[Lo31(w) + 1] ELSE Dec(UDiv(w, W(10))) \o HD[Lo31(URem(w, W(10))) + 1]

\* integer constant expression of value (-1)^neg * mag whose type is the suffix type t (hexadecimal literal with t's
\* suffix: 6.4.4.1p5 gives it type t because mag <= MAX_t; a negative value is -(mag-1) - 1 so that the literal fits)
LitS(neg, mag, t) == IF neg THEN "(-" \o Hex(Sub(mag, One)) \o AT[t].suf \o " - 1)" ELSE Hex(mag) \o AT[t].suf
\* type of an unsuffixed hexadecimal literal / a decimal literal with suffix u / an unsuffixed decimal literal (6.4.4.1p5)
HexAutoTy(mag) == IF ULe(mag, PM(31)) THEN "int" ELSE IF ULe(mag, PM(32)) THEN "uint" ELSE IF ULe(mag, PM(63)) THEN "long" ELSE "ulong"
DecUTy(mag) == IF ULe(mag, PM(32)) THEN "uint" ELSE "ulong"
DecTy(mag) == IF ULe(mag, PM(31)) THEN "int" ELSE "long"

(* ---------------- sources ---------------- *)
\* [c: C text, ty: type of the expression, neg, mag, sh]: value (-1)^neg * mag * 2^-sh
\* a source is (generator, value index): the generator says how the constant is written and which type it has
FltC(neg, mag, sh, t) == (IF neg THEN "-" ELSE "") \o Hex(mag) \o "p-" \o ToString(sh) \o AT[t].suf
SufTypes == <<"int", "uint", "long", "ulong", "llong", "ullong">>
CastSeq == <<"bool", "char", "schar", "uchar", "short", "ushort">>
G(g, ty, lt, pre, neg) == [g |-> g, ty |-> ty, lt |-> lt, pre |-> pre, neg |-> neg]
Gens == [i \in 1..6 |-> G("lit", SufTypes[i], SufTypes[i], "", FALSE)] \o [i \in 1..6 |-> G("lit", SufTypes[i], SufTypes[i], "", TRUE)] \o
        [i \in 1..6 |-> G("lit", CastSeq[i], "int", "(" \o AT[CastSeq[i]].c \o ")", FALSE)] \o
        [i \in 1..6 |-> G("lit", CastSeq[i], "int", "(" \o AT[CastSeq[i]].c \o ")", TRUE)] \o
        <<G("hex", "", "", "", FALSE), G("decu", "", "", "", FALSE), G("dec", "", "", "", FALSE), G("name", "int", "", "", FALSE),
          G("flt", "double", "", "", FALSE), G("flt", "double", "", "", TRUE), G("flt", "float", "", "", FALSE), G("flt", "float", "", "", TRUE)>>
\* enumeration constants (type int, 6.7.2.2p3) and character constants (type int, 6.4.4.4p10)
Names == <<[n |-> "EN", neg |-> TRUE, mag |-> P2(31)], [n |-> "EM", neg |-> TRUE, mag |-> One], [n |-> "EP", neg |-> FALSE, mag |-> PM(31)],
           [n |-> "'A'", neg |-> FALSE, mag |-> W(65)], [n |-> "'~'", neg |-> FALSE, mag |-> W(126)]>>
\* [keep, c, ty, neg, mag, sh] of generator g at value index m (m > NMags: fractional value m - NMags)
SrcOf(g, m) ==
  LET fr  == m > NMags
      mag == IF g.g = "name" THEN (IF m <= Len(Names) THEN Names[m].mag ELSE Zero) ELSE IF fr THEN FracMag(m - NMags) ELSE MagAt(m)
      sh  == IF fr THEN FracSh(m - NMags) ELSE 0
      ty  == CASE g.g = "hex" -> HexAutoTy(mag) [] g.g = "decu" -> DecUTy(mag) [] g.g = "dec" -> DecTy(mag) [] OTHER -> g.ty
      neg == IF g.g = "name" THEN (m <= Len(Names) /\ Names[m].neg) ELSE g.neg
      keep == CASE g.g = "lit"  -> ~fr /\ (IF g.neg THEN mag # Zero /\ ULe(mag, MinMag(g.ty)) ELSE ULe(mag, MaxOf(g.ty)))
                [] g.g = "hex"  -> ~fr
                [] g.g = "decu" -> ~fr
                [] g.g = "dec"  -> ~fr /\ ULe(mag, PM(63))
                [] g.g = "name" -> m <= Len(Names)
                [] g.g = "flt"  -> RepresentableP(mag, Prec(g.ty)) /\ (g.neg => mag # Zero)
  IN [keep |-> keep, ty |-> ty, neg |-> neg /\ mag # Zero, mag |-> mag, sh |-> sh,
      c |-> IF ~keep THEN "" ELSE
            CASE g.g = "lit"  -> g.pre \o LitS(g.neg, mag, g.lt)
              [] g.g = "hex"  -> Hex(mag)
              [] g.g = "decu" -> Dec(mag) \o "u"
              [] g.g = "dec"  -> Dec(mag)
              [] g.g = "name" -> Names[m].n
              [] g.g = "flt"  -> FltC(g.neg, mag, sh, g.ty)]

(* ---------------- targets ---------------- *)
\* scalar member types, and bit-fields [bf: width, base type]
ScalarTargets == <<"bool", "char", "schar", "uchar", "short", "ushort", "int", "uint", "long", "ulong", "llong", "ullong",
                   "enum", "float", "double">>
BFTargets == <<[base |-> "uint", w |-> 5], [base |-> "int", w |-> 11], [base |-> "uint", w |-> 27], [base |-> "bool", w |-> 1],
               [base |-> "ulong", w |-> 40]>>

(* ---------------- the conversions ---------------- *)
IsInt(t) == AT[t].k = "int"
IsFlt(t) == AT[t].k = "flt"
\* IEEE-754 image of (-1)^neg * mag * 2^-sh (mag # 0 has at most mbits + 1 significant bits; normal range)
Enc(neg, mag, sh, ebits, mbits, bias) ==
  IF IsZero(mag) THEN Zero
  ELSE LET top  == TopFrom(mag, 63)
           frac == Sub(mag, Shl(One, top))
           mant == IF top <= mbits THEN Shl(frac, mbits - top) ELSE Shr(frac, top - mbits)
       IN WOr(IF neg THEN Shl(One, ebits + mbits) ELSE Zero, WOr(Shl(W(bias + top - sh), mbits), mant))
EncT(t, neg, mag, sh) == IF t = "float" THEN Enc(neg, mag, sh, 8, 23, 127) ELSE Enc(neg, mag, sh, 11, 52, 1023)

\* [ok, w]: the object representation (low AT[t].bits bits of w) of source s converted to type t; ok = FALSE when the
\* result is undefined or not exact
Conv(s, t) ==
  LET st == s.ty
      tr == Shr(s.mag, s.sh)                                 \* integral part of the magnitude (truncation toward zero)
      sw == IF s.neg THEN Neg(tr) ELSE tr                    \* ... as a two's complement word
  IN CASE AT[t].k = "bool" -> [ok |-> TRUE, w |-> IF IsZero(s.mag) THEN Zero ELSE One]                      \* 6.3.1.2
       [] IsInt(t) /\ ~IsFlt(st) -> [ok |-> TRUE, w |-> TruncBits(sw, AT[t].bits)]                         \* 6.3.1.3
       [] IsInt(t) /\ IsFlt(st) ->                                                                          \* 6.3.1.4p1
            [ok |-> IF s.neg /\ ~IsZero(tr) THEN ULe(tr, MinMag(t)) ELSE ULe(tr, MaxOf(t)), w |-> TruncBits(sw, AT[t].bits)]
       [] IsFlt(t) -> [ok |-> RepresentableP(s.mag, Prec(t)), w |-> EncT(t, s.neg, s.mag, s.sh)]           \* 6.3.1.4p2, 6.3.1.5
\* the value a word of type t stands for, as [neg, mag] (integers only)
ValOf(w, t) == IF AT[t].sg /\ BitAt(w, AT[t].bits - 1) = 1 THEN [neg |-> TRUE, mag |-> Neg(SExtBits(w, AT[t].bits))]
               ELSE [neg |-> FALSE, mag |-> TruncBits(w, AT[t].bits)]

(* ---------------- containers ---------------- *)
Bytes(w, n) == [k \in 1..n |-> w[k]]
Zs(n) == [k \in 1..n |-> 0]
Fs(n) == [k \in 1..n |-> 255]
\* [decl: declaration with @ for the object's name, img: expected bytes, am: bits compared for an automatic object]
Container(cn, t, sc, w) ==
  LET n == AT[t].bits \div 8
      tc == AT[t].c
  IN CASE cn = "scalar" -> [decl |-> tc \o " @ = " \o sc \o ";", img |-> Bytes(w, n), am |-> Fs(n)]
       [] cn = "member" -> [decl |-> "struct { char tag; " \o tc \o " m; char end; } @ = { 0x11, " \o sc \o ", 0x22 };",
                            img |-> <<17>> \o Zs(n - 1) \o Bytes(w, n) \o <<34>> \o Zs(n - 1),
                            am  |-> <<255>> \o Zs(n - 1) \o Fs(n) \o <<255>> \o Zs(n - 1)]
       [] cn = "elem"   -> [decl |-> tc \o " @[3] = { [1] = " \o sc \o " };", img |-> Zs(n) \o Bytes(w, n) \o Zs(n), am |-> Fs(3 * n)]
BFContainer(b, sc, w) ==      \* struct { unsigned a:3; T m:w; unsigned z:2; } = { 5, C, 3 }: bits 0-2, 3..3+w-1, 3+w..4+w of one unit
  LET n == IF AT[b.base].bits > 32 THEN 8 ELSE 4
      v == WOr(W(5), WOr(Shl(TruncBits(w, b.w), 3), Shl(W(3), 3 + b.w)))
  IN [decl |-> "struct { unsigned a:3; " \o AT[b.base].c \o " m:" \o ToString(b.w) \o "; unsigned z:2; } @ = { 5, " \o sc \o ", 3 };",
      img |-> Bytes(v, n), am |-> Bytes(PM(5 + b.w), n)]

Prelude == "enum EE { EEA = -1, EEB = 1 }; enum { EN = " \o LitS(TRUE, P2(31), "int") \o ", EM = " \o LitS(TRUE, One, "int")
           \o ", EP = " \o LitS(FALSE, PM(31), "int") \o " };"

(* ---------------- enumeration ---------------- *)
Init == cs \in [g : 1..Len(Gens), m : 1..(NMags + NFrac), t : 1..(Len(ScalarTargets) + Len(BFTargets))]
ContSeq == <<"scalar", "member", "elem">>        \* containers of a scalar target (bit-fields have their own)
Next == UNCHANGED cs
Spec == Init /\ [][Next]_vars

IsBF == cs.t > Len(ScalarTargets)
BFOf == BFTargets[cs.t - Len(ScalarTargets)]
TgtTy == IF IsBF THEN BFOf.base ELSE ScalarTargets[cs.t]
S == SrcOf(Gens[cs.g], cs.m)
R == Conv(S, TgtTy)
\* a conversion between identical types is Init.tla's business; between compatible representations it is still generated
Wanted == S.keep /\ R.ok /\ S.ty # TgtTy

(* design-level laws of the conversion function (checked on every generated pair) *)
Laws ==
  (S.keep /\ R.ok) =>
    /\ (IsInt(TgtTy) /\ ~IsFlt(S.ty) /\ (IF S.neg THEN ULe(S.mag, MinMag(TgtTy)) ELSE ULe(S.mag, MaxOf(TgtTy)))
          => ValOf(R.w, TgtTy) = [neg |-> S.neg, mag |-> S.mag])                                 \* 6.3.1.3p1 value preserved
    /\ (IsInt(TgtTy) /\ IsFlt(S.ty) => LET v == ValOf(R.w, TgtTy)                                \* |result| <= |x| < |result| + 1
                                       IN /\ ULe(Shl(v.mag, S.sh), S.mag) /\ Shr(Shl(v.mag, S.sh), S.sh) = v.mag
                                          /\ (v.neg => S.neg) /\ Shr(S.mag, S.sh) = v.mag)
    /\ (IsFlt(TgtTy) /\ S.sh = 0 => LET d == IF TgtTy = "float" THEN DecS(R.w) ELSE DecD(R.w)    \* FloatInt's decoder inverts Enc
                                    IN d.ok /\ d.f = FV(S.neg, S.mag))
    /\ (AT[TgtTy].k = "bool" => R.w \in {Zero, One})

Emit ==
  Wanted =>
    LET sc == S.c
        cn == IF Rotate THEN ContSeq[((cs.g + cs.m + cs.t) % Len(ContSeq)) + 1] ELSE ""
        cl == IF IsBF THEN <<"bf">> ELSE IF Rotate THEN <<cn>> ELSE ContSeq
    IN \A i \in 1..Len(cl) :
         LET c == IF IsBF THEN BFContainer(BFOf, sc, R.w) ELSE Container(cl[i], TgtTy, sc, R.w)
         IN PrintT("VCASE " \o ToJson([src |-> sc, sty |-> S.ty, tty |-> TgtTy, bf |-> IF IsBF THEN BFOf.w ELSE 0, cont |-> cl[i],
                                       decl |-> c.decl, img |-> c.img, am |-> c.am]))
EmitPrelude == (cs.g = 1 /\ cs.m = 1 /\ cs.t = 1) => PrintT("VPRELUDE " \o ToJson([pre |-> Prelude]))
=============================================================================
