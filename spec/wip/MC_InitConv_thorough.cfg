SPECIFICATION Spec
CONSTANTS
  Rotate = FALSE
INVARIANTS Laws Emit EmitPrelude
CHECK_DEADLOCK FALSE
