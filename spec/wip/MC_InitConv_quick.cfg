SPECIFICATION Spec
CONSTANTS
  Rotate = TRUE
INVARIANTS Laws Emit EmitPrelude
CHECK_DEADLOCK FALSE
