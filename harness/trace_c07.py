def run(ctx, tab, cases):
    pass
