"""C07 flow B: H5 events (initbegin / initadd / initdone) of the hooks build validated by spec/Trace_Init.tla.

Executions: every /repo/test/*.c, cproc's own preprocessed sources, and the generated initializers of flow A
(as static and as automatic objects).  One `Reset` event separates executions; an execution whose offsets do
not fit TLC's 32-bit integers (or whose logged list was truncated by the hook) is left out and counted.
"""
import glob, json, os, subprocess
import vlib

KEEP = ("initbegin", "initadd", "initdone", "initclear")
LIMIT = 1 << 27
CPPFLAGS = ["-U__GNUC__", "-U__GNUC_MINOR__", "-D__STDC_NO_ATOMICS__", "-D__STDC_NO_COMPLEX__", "-U__SIZEOF_INT128__",
            "-U__PIC__", "-D__extension__=", "-P"]


def big(ev):
    if ev["e"] == "initadd":
        if ev["trunc"] or ev["end"] >= LIMIT:
            return True
        return any(x[1] >= LIMIT for x in ev["list"])
    if ev["e"] == "initdone":
        return ev["tsize"] >= LIMIT
    return False


def events_of(path):
    out = []
    if not os.path.exists(path):
        return out
    with open(path, errors="replace") as f:
        for ln in f:
            if ln.startswith('{"e":"init'):
                try:
                    ev = json.loads(ln)
                except ValueError:
                    continue          # a line cut short by a crash of the compiler
                if ev.get("e") in KEEP:
                    out.append(ev)
    return out


def run(ctx, tab, cases):
    import props.c07 as c07
    hooks = c07.private_build(ctx, "hooks")
    jobs = []           # (label, source text or None, path or None)
    for pth in sorted(glob.glob(os.path.join(vlib.REPO, "test", "*.c"))):
        jobs.append(("test/" + os.path.basename(pth), None, pth))
    # cproc's own sources, preprocessed by the host cpp
    own = 0
    for pth in sorted(glob.glob(os.path.join(vlib.REPO, "*.c"))):
        p = subprocess.run(["cpp"] + CPPFLAGS + ["-I", vlib.REPO, pth], stdout=subprocess.PIPE, stderr=subprocess.DEVNULL, text=True)
        if p.returncode == 0:
            jobs.append(("own/" + os.path.basename(pth), p.stdout, None))
            own += 1
    # generated initializers: static and automatic, batches of valid ones, risky ones alone
    pre = c07.prelude(tab) + "struct P pv = {20818, 1398031702};\n"
    safe = [c for c in cases if c["mst"] == "ok" and not c["sfired"] and not c["afired"] and not c["agg"]]
    risky = [c for c in cases if not (c["mst"] == "ok" and not c["sfired"] and not c["afired"]) and not c["agg"]]
    B = 200
    for k in range(0, len(safe), B):
        part = safe[k:k + B]
        src = pre + "".join(c07.render_decl(tab, c, "x%d" % i) + "\n" for i, c in enumerate(part))
        src += "".join("void f%d(void) { %s }\n" % (i, c07.render_decl(tab, c, "x")) for i, c in enumerate(part))
        jobs.append(("gen/batch%d" % k, src, None))
    for i, c in enumerate(risky):
        jobs.append(("gen/risky%d-static" % i, pre + c07.render_decl(tab, c, "x") + "\n", None))
        jobs.append(("gen/risky%d-auto" % i, pre + "void f(void) { %s }\n" % c07.render_decl(tab, c, "x"), None))

    def one(job):
        label, src, pth = job
        tr = ctx.path("tr-" + label.replace("/", "_"))
        rc, out, err = vlib.cproc(hooks, src, path=pth, trace=tr, timeout=120)
        evs = events_of(tr)
        try:
            os.unlink(tr)
        except OSError:
            pass
        return label, rc, evs
    res = vlib.pmap(one, jobs, workers=12)
    trace = ctx.path("init-trace.ndjson")
    n_exec = n_ev = skipped = 0
    index = []          # line number -> label
    with open(trace, "w") as f:
        for label, rc, evs in res:
            if not evs:
                continue
            if any(big(e) for e in evs):
                skipped += 1
                continue
            f.write('{"e":"Reset"}\n')
            index.append(label)
            for e in evs:
                f.write(json.dumps(e) + "\n")
                index.append(label)
            n_exec += 1
            n_ev += len(evs)
    ctx.cov["h5_trace"] = {"executions": n_exec, "events": n_ev, "own_sources": own, "left_out_too_large": skipped}
    if n_ev == 0:
        raise vlib.MachineryError("no H5 events recorded (hooks build without CPROC_VERIF?)")
    r = ctx.tlc("Trace_Init", c07.cfg_for(ctx, "Trace_Init.cfg"), workers=1, env={"TRACE": trace}, timeout=1500, heap="3g")
    if r.rc == 0:
        ctx.validated(n_exec)
        ctx.count("h5-trace", nontrivial=True, n=n_ev)
        return
    rej = [v for v in r.out.splitlines() if "REJECT " in v]
    where, ev = "?", None
    if rej:
        txt = rej[0]
        txt = json.loads(txt) if txt.startswith('"') else txt
        info = json.loads(txt[txt.index("REJECT ") + 7:])
        ev = info["event"]
        where = index[info["line"] - 1] if info["line"] - 1 < len(index) else "?"
    else:
        raise vlib.MachineryError("Trace_Init rejected the trace without a REJECT line:\n" + r.out[-3000:])
    ctx.violation("trace:initadd:%s" % ev.get("e"), "H5 event of %s is not a step of Init!InitAdd: %s" % (where, json.dumps(ev)[:400]),
                  {"execution": where, "event": ev})
