"""Renderer for property C10: MiniC program (base, position, fragment) of spec/CStatic.tla -> C source text.

Pure presentation: every verdict (valid / invalid-by-rule / unsupported) comes from TLC.  The C spelling of
entities, types and the prelude is exported by the spec itself (the `meta` VCASE), so this file only knows how
each fragment *form* is written down in C and where the four positions are in the text of a base.
"""


class Renderer:
    def __init__(self, meta):
        self.ents = meta["ents"]
        self.ctype = meta["ctype"]
        self.prelude = meta["prelude"]
        self.bases = meta["bases"]
        self.ctlvar = meta["ctlvar"]
        self.locals = meta["locals"]
        self.baselocals = meta.get("baselocals", {})

    # ---- small helpers ------------------------------------------------------------------
    def txt(self, n):
        if n in self.ents:
            return self.ents[n]["txt"]
        return n  # "nope", "ap"

    def decl(self, ty, ident):
        return self.ctype[ty].replace("@", ident)

    def tyname(self, ty):
        return self.ctype[ty].replace(" @", "").replace("@", "")

    LIT = {
        "ok_int": "42", "ok_hex": "0x1F", "ok_ull": "1ull", "ok_float": "1.5f", "ok_char": "'a'", "ok_esc": "'\\n'",
        "ok_str": '"s"', "ok_strcat": '"a" "b"', "ok_wide": 'L"w"',
        "empty_char": "''", "multi_char": "'ab'", "bad_escape": "'\\q'", "bad_escape_str": '"\\q"', "bad_hex": "'\\x'",
        "unterm_str": '"abc', "unterm_char": "'a", "eof_comment": "1 /* never closed", "bad_int_suffix": "1uu",
        "bad_octal": "08", "bad_float_suffix": "1.0q", "hex_nodigits": "0x", "exp_nodigits": "1e+",
        "mixed_prefix": 'L"a" u8"b"', "stray_char": "`", "too_big_int": "18446744073709551616", "bin_nodigits": "0b",
        "invalid_utf8": '"a\udcffb"', "eof_char": "'a\0CUT", "eof_str": '"abc\0CUT',
    }
    SYNX = {"member_nonident": "gs.(m)", "alignof_noparen": "_Alignof gi", "missing_operand": "(gi + )", "cond_missing_colon": "(gi ? 1)",
            "typedef_as_value": "(gi = td_t)", "paren_ok": "((gi))"}
    BUILTIN = {
        "offsetof_ok": "__builtin_offsetof(struct S, m)", "offsetof_nested_ok": "__builtin_offsetof(struct N, t.q)",
        "offsetof_idx_ok": "__builtin_offsetof(struct N, arr[1])", "offsetof_nonstruct": "__builtin_offsetof(int, m)",
        "offsetof_nomember": "__builtin_offsetof(struct S, zz)", "offsetof_idx_nonarray": "__builtin_offsetof(struct S, m[0])",
        "offsetof_mem_nonstruct": "__builtin_offsetof(struct S, m.q)", "offsetof_nested_nomember": "__builtin_offsetof(struct N, t.zz)",
        "va_copy_dst": "__builtin_va_copy(gi, gi)", "va_copy_src": "__builtin_va_copy(ap, gi)", "va_copy_ok": "__builtin_va_copy(ap, ap)",
        "va_end_bad": "__builtin_va_end(gi)", "va_end_ok": "__builtin_va_end(ap)", "va_start_bad": "__builtin_va_start(gi, pa)",
        "nanf_ok": '__builtin_nanf("")', "nanf_arg": '__builtin_nanf("1")', "tcp_ok": "__builtin_types_compatible_p(int, int)",
        "constant_p_ok": "__builtin_constant_p(1)", "expect_ok": "__builtin_expect(gi, 1)", "alloca_ok": "__builtin_alloca(8)",
        "unreachable_ok": "__builtin_unreachable()", "inff_ok": "__builtin_inff()",
    }
    UN = {"neg": "-(%s)", "pos": "+(%s)", "bnot": "~(%s)", "lnot": "!(%s)", "deref": "*(%s)", "addr": "&(%s)",
          "preinc": "++(%s)", "postinc": "(%s)++", "predec": "--(%s)", "sizeof": "sizeof(%s)"}

    # ---- expression forms -> expression text -----------------------------------------------
    def expr(self, f):
        fm = f["form"]
        t = self.txt
        if fm == "use":
            return t(f["n"])
        if fm == "bin":
            return "(%s %s %s)" % (t(f["l"]), f["op"], t(f["r"]))
        if fm == "un":
            return self.UN[f["op"]] % t(f["a"])
        if fm == "asg":
            return "(%s %s %s)" % (t(f["l"]), f["op"], t(f["r"]))
        if fm == "call":
            return "%s(%s)" % (t(f["fn"]), ", ".join(t(a) for a in f["args"]))
        if fm == "mem":
            return "%s%s%s" % (t(f["a"]), f["op"], f["m"])
        if fm == "idx":
            return "%s[%s]" % (t(f["a"]), t(f["i"]))
        if fm == "cast":
            return "(%s)%s" % (self.tyname(f["to"]), t(f["a"]))
        if fm == "cond":
            return "(%s ? %s : %s)" % (t(f["c"]), t(f["a"]), t(f["b"]))
        if fm == "sizeoft":
            return "%s(%s)" % (f["op"], "int zq" if f["ty"] == "named_abstract" else self.tyname(f["ty"]))
        if fm == "synx":
            return self.SYNX[f["kind"]]
        if fm == "builtin":
            return self.BUILTIN[f["kind"]]
        if fm == "lit":
            return self.LIT[f["kind"]]
        if fm == "vaarg":
            return "__builtin_va_arg(%s, %s)" % (t(f["a"]), self.tyname(f["ty"]))
        if fm == "generic":
            parts = []
            for i, a in enumerate(f["assoc"]):
                ty = {"default": "default", "bad": "5", "vla": "int[li]"}.get(a) or self.tyname(a)
                parts.append("%s: %d" % (ty, i + 1))
            return "_Generic(%s, %s)" % (t(f["c"]), ", ".join(parts))
        if fm == "minv":
            if f["m"] == "MF":
                args = ", ".join(str(i + 1) for i in range(f["nargs"]))
            else:
                args = ", ".join(["1", "+2", "+3"][:f["nargs"]])
            return "%s(%s%s" % (f["m"], args, ")" if f["closed"] else "")
        raise KeyError(fm)

    EXPR_FORMS = {"use", "bin", "un", "asg", "call", "mem", "idx", "cast", "cond", "sizeoft", "lit", "vaarg", "generic", "minv", "synx", "builtin"}

    # ---- statement / declaration / directive forms -> text of one or more lines ---------------
    def item(self, f):
        fm = f["form"]
        t = self.txt
        if fm == "stmt":
            k, v = f["kind"], f["v"]
            if k == "case":
                return "case %s: ;" % t(v)
            if k == "default":
                return "default: ;"
            if k == "label":
                return "%s: ;" % v
            if k == "goto":
                return "goto %s;" % v
            if k in ("break", "continue"):
                return k + ";"
            if k == "return":
                return "return;" if v == "none" else "return %s;" % t(v)
            if k == "asm":
                return '__asm__("nop");'
            if k == "empty":
                return ";"
        if fm == "ninit":
            d = {"arr22": "int zv[2][2]", "sarr": "struct { int x[2]; int y; } zv", "sstr": "struct { struct { int a; } i; int b; } zv",
                 "sun": "struct { union { int a; int b; } u; int c; } zv"}[f["tgt"]]
            return "%s = { { %s } };" % (d, ", ".join(str(i + 1) for i in range(f["n"])))
        if fm == "sinitaddr":
            scalar, struct, array = {"auto": ("li", "lst", "lar"), "tls_file": ("gtl", "gtls", "gtla"), "tls_block": ("ltl", "ltls", "ltla"),
                                     "tls_extern": ("gtle", "gtles", "gtlea"), "static": ("gi", "gt", "ga")}[f["dur"]]
            e = {"scalar": "&" + scalar, "member": "&%s.q" % struct, "elem": "&%s[1]" % array, "decay": array}[f["shape"]]
            return "static int *zv = %s;" % e
        if fm == "tdshadow":
            sp = {"td_t": "td_t ", "struct_S": "struct S ", "union_U": "union U ", "enum_E": "enum E ", "void_ptr": "void *", "_Bool": "_Bool ",
                  "int": "int ", "ptr_td": "td_t *"}[f["spec"]]
            d = sp + "td_t"
            return {"obj": d + ";", "param": "int zfn(%s);" % d, "member": "struct zs { %s; int z; };" % d}[f["where"]]
        if fm == "swcase":
            return "switch (%s) { case %s: ; case %s: ; }" % (self.ctlvar[f["ct"]], self.caseconst(f["a"]), self.caseconst(f["b"]))
        if fm == "ctl":
            c = t(f["c"])
            return {"if": "if (%s) ;", "while": "while (%s) ;", "do": "do ; while (%s);", "for": "for (; %s; ) ;",
                    "switch": "switch (%s) { default: ; }"}[f["kw"]] % c
        if fm == "enumfix":
            mag = 0 if f["k"] < 0 else (1 << f["k"]) + f["d"]
            lit = ("-" if f["neg"] else "") + hex(mag) + {"int": "", "unsigned": "u", "long": "L", "ulong": "UL"}[f["ty"]]
            spec = "enum zf : %s { ZA = %s }" % (f["ub"], lit)
            return "unsigned long zsz = sizeof(%s);" % spec if f["wrap"] else spec + ";"
        if fm == "cinit":
            return "int zv = (%s == 0);" % self.expr(f["of"])
        if fm == "sinit":
            return "%s = %s;" % (self.decl(f["ty"], "zv"), t(f["o"]))
        if fm == "spec":
            kws = [{"struct_S": "struct S", "_BitInt": "_BitInt(8)"}.get(k, k) for k in f["kw"]]
            return " ".join(kws + ["zv;"])
        if fm == "sc":
            return " ".join(list(f["sc"]) + ["int zv;" if f["what"] == "obj" else "int zfn(void);"])
        if fm == "obj":
            return self.decl(f["ty"], "zv") + ";"
        if fm == "bf":
            pk = "__attribute__((packed)) " if f["packed"] else ""
            al = "_Alignas(%d) " % f["al"] if f["al"] else ""
            return "struct %szs { int zm; %s%s : %d; };" % (pk, al, self.decl(f["ty"], "zb" if f["named"] else "").rstrip(), f["w"])
        if fm == "alignas":
            a = "_Alignas(%d)" % f["n"]
            return {"int": a + " int zv;", "double": a + " double zv;", "typedef": "typedef " + a + " int zt;",
                    "fn": a + " int zfn(void);", "param": "void zfn(" + a + " int a);",
                    "member": "struct zs { " + a + " int zm; };"}[f["on"]]
        if fm == "arr":
            n = {"k_neg_expr": "1 - 2", "huge": "0x7fffffffffffffff"}.get(f["n"], f["n"])
            return {"int": "int zv[%s];", "void": "void zv[%s];", "struct_I": "struct I zv[%s];", "fn": "int zv[%s](void);"}[f["el"]] % n
        if fm == "sa":
            s = '_Static_assert(%s%s);' % (t(f["v"]), ', "m"' if f["msg"] else "")
            return s if f["where"] == "decl" else "struct zs { int zm; %s };" % s
        if fm == "init":
            d = {"int": "int zv", "arr2": "int zv[2]", "arr_unk": "int zv[]", "struct_T": "struct T zv", "struct_S": "struct S zv",
                 "struct_I": "struct I zv"}[f["tgt"]]
            if f["n"] == 0:
                return "%s = { };" % d
            des = {"none": "", "idx0": "[0] = ", "idx1": "[1] = ", "idx2": "[2] = ", "idxneg": "[-1] = ",
                   "mem_q": ".q = ", "mem_m": ".m = ", "mem_zz": ".zz = "}[f["des"]]
            v = t(f["val"])
            return "%s = { %s };" % (d, ", ".join([des + v] + [v] * (f["n"] - 1)))
        if fm == "strinit":
            d = {"char4": "char zv[4]", "int4": "int zv[4]", "charunk": "char zv[]", "charp": "char *zv"}[f["tgt"]]
            return "%s = %s;" % (d, '"ab"' if f["lit"] == "narrow" else 'L"ab"')
        if fm == "struct":
            ms = []
            for m in f["mem"]:
                pre = m["pre"] + " " if m["pre"] else ""
                ty, n = m["ty"], m["n"]
                if ty == "int":
                    ms.append(pre + ("int %s;" % n if n else "int;"))
                elif ty == "struct_I":
                    ms.append("struct I %s;" % n)
                elif ty == "self":
                    ms.append("struct zs %s;" % n)
                elif ty == "selfptr":
                    ms.append("struct zs *%s;" % n)
                elif ty == "fn":
                    ms.append("int %s(void);" % n)
                elif ty == "flex":
                    ms.append("int %s[];" % n)
                elif ty == "sa":
                    ms.append('_Static_assert(1, "m");')
                elif ty == "flexstruct":
                    ms.append("struct F %s;" % n)
                elif ty == "vla":
                    ms.append("int %s[li];" % n)
                elif ty == "anon":
                    ms.append("struct { %s };" % " ".join("int %s;" % x for x in m["inner"]))
            return "struct zs { %s };" % " ".join(ms)
        if fm == "param":
            ps = ", ".join(" ".join(x for x in (p["sc"], p["ty"], p["n"]) if x) for p in f["ps"])
            return "void zfn(%s)%s" % (ps, " { }" if f["def"] else ";")
        if fm == "fdecl":
            return {"int": "int zfn(void);", "ptr_int": "int *zfn(void);", "fn": "int zfn(void)(void);", "arr": "int zfn(void)[3];"}[f["ret"]]
        if fm == "redecl":
            name = t(f["name"]) if f["name"] in self.ents else f["name"]
            if f["kind"] == "obj":
                sc = {"none": "", "extern": "extern ", "static": "static ", "tls": "_Thread_local "}[f["sc"]]
                return "%s%s %s%s%s;" % (sc, f["ty"], name, ' __asm__("zother")' if f["asm"] else "", " = 1" if f["init"] else "")
            if f["kind"] == "fn":
                return "int %s(%s a)%s%s" % (name, "int" if f["ty"] == "fn_ii" else "double", ' __asm__("zother")' if f["asm"] else "",
                                             " { return 0; }" if f["init"] else ";")
            return "typedef %s %s;" % (f["ty"], name)
        if fm == "tag":
            body = ""
            if f["body"]:
                body = " { ZK9 }" if f["kw"] == "enum" else " { int z; }"
            return "%s %s%s%s;" % (f["kw"], f["tag"], body, " *zp" if f["use"] == "ptr" else "")
        if fm == "enum":
            val = {"max_u64": "0xffffffffffffffff", "max_i64": "9223372036854775807"}
            return "enum ze%s { %s };" % (" : " + f["ub"] if f["ub"] else "",
                                          ", ".join(i["n"] + (" = " + val.get(i["v"], t(i["v"])) if i["v"] else "") for i in f["items"]))
        if fm == "misc":
            return {"toplevel_semi": ";", "nested_fn": "void zg(void) { }", "missing_semi": "int zv int zw;",
                    "unbalanced_paren": "int zv = (1 + 2;", "kw_as_ident": "int while;",
                    "asm_label": 'extern int zv __asm__("zsym");', "attr_ok": "__attribute__((unused)) static int zv;",
                    "typedef_asm": 'typedef int zt __asm__("zx");', "attr_after_paren": "extern int (zv) __attribute__((unused));",
                    "attr_aligned_bad": "__attribute__((aligned(3))) extern int zv;", "attr_aligned_unsup": "__attribute__((aligned(8))) extern int zv;",
                    "vla_static": None, "vla_init": "int zv[li] = { 1 };", "vla2_init": "int zv[2][li] = { 0 };", "vla_ok": "int zv[li];",
                    "scalar_double_brace": "int zv = { { 1 } };", "init_missing_comma": "int zv[2] = { 1 2 };",
                    "nullptr_assign": "typeof(nullptr) zn = 1;", "const_fold_overflow_s": "static int zv = (int)1e30;",
                    "const_fold_overflow_u": "static unsigned zv = (unsigned)1e30;",
                    "static_init_addr_local": "static int *zv = &li;", "static_init_addr_compound": "static int *zv = &(int){ 1 };",
                    "static_init_addr_index": "static int *zv = &ga[gi];", "static_init_addr_ok": "static int *zv = &ga[1];",
                    "eof_comment_decl": "extern int zc; /* never closed"}[f["kind"]]
        if fm == "dir":
            return self.directive(f)
        raise KeyError(fm)

    M32 = {"0": 0, "1": 1, "-1": -1, "2": 2, "max31": 0x7fffffff, "min31": -0x80000000, "p32": 1 << 32}

    @staticmethod
    def _lit(v, ty):
        if ty == "int":
            return str(v)
        if ty == "uint":
            return "0x%xU" % v
        if ty == "ull":
            return "0x%xULL" % v
        if v == -(1 << 63):
            return "(-0x7fffffffffffffffLL - 1)"
        return "%dLL" % v

    def caseconst(self, c):
        """the value k + m * 2^32 written as a constant of type ty"""
        hi = self.M32[c["m"]] << 32
        if c["wr"] == "sum":
            return "%s + %d" % (self._lit(hi, "ll"), c["k"]) if c["k"] >= 0 else "%s - %d" % (self._lit(hi, "ll"), -c["k"])
        return self._lit(hi + c["k"], c["ty"])

    def directive(self, f):
        d = f["d"]
        if d == "define":
            if not f["named"]:
                return "#define"
            if f["redef"] != "none":
                second = {"same": "#define ZD 1", "diff": "#define ZD 2", "diff_kind": "#define ZD(x) 1", "diff_params": "#define ZD(y) y"}[f["redef"]]
                first = "#define ZD(x) x" if f["redef"] == "diff_params" else "#define ZD 1"
                return first + "\n" + second
            if f["paste"]:
                return "#define ZD(x, y) x ## y" if f["fl"] else "#define ZD a ## b"
            if f["va"] == "variadic_used":
                return "#define ZD(x, ...) __VA_ARGS__"
            if f["va"] == "nonvariadic_later":
                return "#define ZD(x) x __VA_ARGS__" if f["fl"] else "#define ZD 1 __VA_ARGS__"
            if f["va"] == "nonvariadic_used":
                return "#define ZD(x) __VA_ARGS__" if f["fl"] else "#define ZD __VA_ARGS__"
            if f["fl"]:
                return {"none": "#define ZD(x) x", "param": "#define ZD(x) #x", "nonparam": "#define ZD(x) #y", "nonident": "#define ZD(x) # 1"}[f["hashop"]]
            return "#define ZD 1"
        if d == "undef":
            if not f["named"]:
                return "#undef"
            return "#undef ZQ extra" if f["extra"] else "#undef ZQ"
        return {"if": "#if 1\n#endif", "ifdef": "#ifdef MF\n#endif", "ifndef": "#ifndef MF\n#endif", "elif": "#elif 1", "else": "#else",
                "endif": "#endif", "include": "#include <stddef.h>", "error": "#error stop", "pragma": "#pragma zzz", "line": "#line 77",
                "null": "#", "foo": "#foo bar", "linemarker": '# 5 "x.c"'}[d]

    # ---- a whole program -------------------------------------------------------------------
    CTX_OPEN = {"while": "while (gi) {", "for": "for (li = 0; li < 2; li++) {", "do": "do {", "if": "if (gi) {",
                "else": "if (gi) { } else {", "block": "{"}
    CTX_CLOSE = {"while": "}", "for": "}", "do": "} while (gi);", "if": "}", "else": "}", "block": "}", "switch": "}"}
    RET = {"void": None, "int": "0", "double": "0", "ptr_int": "0", "struct_S": "gs"}

    FN_PREFIX = {"plain": "", "static": "static ", "inline": "inline ", "static_inline": "static inline ", "extern_inline": "extern inline ",
                 "decl_inline": "inline ", "noreturn": "_Noreturn "}

    def program(self, base, pos, frag):
        b = self.bases[base]
        file_items, block_items = [], []
        if pos != "none":
            inner, drops = frag, []
            while inner["form"] == "drop":      # the fragment with the last occurrence of a token removed
                drops.append((inner["tok"], inner["with"]))
                inner = inner["of"]
            fm = inner["form"]
            isexpr = fm in self.EXPR_FORMS
            text = self.expr(inner) if isexpr else self.item(inner)
            if text is None:   # misc vla_static: a static object of variably modified type
                text = "int zv[gi];" if pos == "file" else "static int zv[li];"
            for tok, rep in reversed(drops):
                i = text.rfind(tok)
                if i < 0:
                    raise ValueError("token %r to drop does not occur in %r" % (tok, text))
                text = text[:i] + (rep or " ") + text[i + len(tok):]
            if isexpr:
                e = text
                if pos == "file":
                    file_items.append("unsigned long zsz = sizeof((%s), 1);" % e)
                elif pos == "block":
                    block_items.append("%s;" % e)
                elif pos == "nested":
                    block_items.append("li = ((%s), 1) + 1;" % e)
                else:
                    file_items.append("#define ZM (%s)" % e)
                    block_items.append("ZM;")
            else:
                it = text
                if pos == "file":
                    file_items.append(it)
                elif pos == "block":
                    block_items.append(it)
                elif pos == "nested":
                    block_items.append("if (gi) { %s }" % it)
                else:
                    file_items.append("#define ZM %s" % it)
                    block_items.append("ZM")
        out = list(self.prelude)
        out += [e["decl"] for n, e in sorted(self.ents.items()) if e["decl"] and not e["loc"]]
        out += file_items
        ret = b["ret"]
        head = "%s(int pa%s)" % (self.decl(ret, "zbase").replace("zbase", "zbase", 1), ", ..." if b["var"] else "")
        fn = b.get("fn", "plain")
        if fn == "decl_inline":
            out.append(head + ";")
        out.append(self.FN_PREFIX[fn] + head)
        out.append("{")
        out += ["\t" + e["decl"] for n, e in sorted(self.ents.items()) if e["decl"] and e["loc"]]
        out += ["\t" + l for l in self.baselocals.get(base, self.locals)]
        if b["var"]:
            out += ["\t__builtin_va_list ap;", "\t__builtin_va_start(ap, pa);"]
        out.append("L1: ;")
        for c in b["ctx"]:
            if c == "switch":
                out.append("switch (gi) {")
                out.append("case 1: ;")
                if b["dflt"]:
                    out.append("default: ;")
            else:
                out.append(self.CTX_OPEN[c])
        out += block_items
        for c in reversed(b["ctx"]):
            out.append(self.CTX_CLOSE[c])
        if b["var"]:
            out.append("\t__builtin_va_end(ap);")
        if self.RET[ret] is not None:
            out.append("\treturn %s;" % self.RET[ret])
        out.append("}")
        text = "\n".join(out) + "\n"
        cut = text.find("\0CUT")      # a literal that runs into the end of the translation unit
        return text if cut < 0 else text[:cut]
