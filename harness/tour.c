/* a compact tour of the grammar: the one-edit neighbourhood of this file (Mutate.tla, Exhaustive) is replayed by C02 */
typedef unsigned long size_t;
enum color { RED, GREEN = 2, BLUE };
struct pt { int x, y; unsigned f : 3, : 0, g : 5; };
union num { long l; double d; char c[8]; };
typedef int (*binop)(int, int);
struct node { struct node *next; union num v; enum color c; struct pt p[2]; };
extern int printf(const char *, ...);
static int sum(int n, ...);
_Static_assert(sizeof(struct pt) >= 8, "pt");
static const char *const names[] = { [RED] = "red", [BLUE] = "blue", "x" "y" };
_Alignas(16) static int table[4] = { 1, 2, [3] = 4 };
int counter __asm__("counter_sym") = 0x10;
_Thread_local static long tl;
static inline int add(int a, int b) { return a + b; }
_Noreturn void die(void);
static int apply(binop f, int a, int b) { return f ? f(a, b) : (a, b); }
int sum(int n, ...)
{
	__builtin_va_list ap;
	int s = 0;
	__builtin_va_start(ap, n);
	while (n-- > 0)
		s += __builtin_va_arg(ap, int);
	__builtin_va_end(ap);
	return s;
}
long walk(struct node *n, int k)
{
	long acc = 0;
	struct pt q = { .x = k, .y = -k, .f = 5 };
	int vla[k > 0 ? k : 1];
	for (int i = 0; i < k; ++i) {
		if (i % 3 == 0)
			continue;
		else if (i > 100)
			break;
		vla[i] = i << 2 | 1;
		acc += vla[i] ^ ~i;
	}
	do {
		if (!n)
			break;
		switch (n->c) {
		case RED:
			acc += n->v.l;
			break;
		case GREEN: case BLUE:
			acc -= (long)n->v.d;
			/* fallthrough */
		default:
			acc *= 2;
		}
		n = n->next;
	} while (n && acc < 1000);
	if (acc < 0)
		goto out;
	acc += sizeof q + _Alignof(union num) + sizeof(int[3]);
	acc += _Generic(acc, long: 1, default: 2) + (k ? q.x : q.y) + (&q)->f;
	acc += apply(add, table[1], names[0][0]) + ((struct pt){ 1, 2 }).y + 'a' + 1.5f + 0x7fUL;
	q.g += 3, q.f--, ++counter;
	tl = acc && k || !tl;
	*&acc >>= 1;
out:
	return acc % 7 ? acc / 3 : -acc;
}
