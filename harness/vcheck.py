#!/usr/bin/env python3
"""./check <ID> [--tier quick|thorough] [--replay path]   (see DESIGN.md §2.3)"""
import argparse, importlib, os, sys, traceback

sys.path.insert(0, os.path.dirname(os.path.abspath(__file__)))
import vlib


def main():
    ap = argparse.ArgumentParser()
    ap.add_argument("pid")
    ap.add_argument("--tier", default=os.environ.get("VERIF_TIER", "quick"), choices=["quick", "thorough"])
    ap.add_argument("--replay")
    a = ap.parse_args()
    seed = int(os.environ.get("VERIF_SEED", "1") or "1") & 0x7FFFFFFF
    pid = a.pid.upper()
    try:
        mod = importlib.import_module("props." + pid.lower())
    except ModuleNotFoundError:
        print("no check for %s" % pid, file=sys.stderr)
        return 2
    ctx = vlib.Ctx(pid, a.tier, seed, a.replay)
    try:
        if a.replay:
            rc = mod.replay(ctx, a.replay) if hasattr(mod, "replay") else 2
            ctx.cleanup()
            return rc
        mod.run(ctx)
        rc = ctx.finish()
        print("%s %s tier=%s evaluations=%d distinct=%d states=%d validated=%d violations=%d wall=%.1fs" % (
            "FAIL" if rc else "OK", pid, a.tier, ctx.cov["evaluations"], ctx.cov["distinct_nontrivial"],
            ctx.cov["states"], ctx.cov["traces_validated_against_impl"], len(ctx.violations), ctx.cov and (__import__("time").time() - ctx.t0)))
        return rc
    except vlib.MachineryError as ex:
        print("MACHINERY-ERROR %s: %s" % (pid, ex), file=sys.stderr)
        ctx.cleanup()
        return 2
    except Exception:
        traceback.print_exc()
        ctx.cleanup()
        return 2


if __name__ == "__main__":
    sys.exit(main())
