"""C07, automatic-object half of flow A.

Each VCASE of Init.tla is rendered as `void fN(void) { T x = I; sink(N, &x, sizeof x); ... }`, compiled by the
real cproc-qbe, the IL translated to C by harness/il2c.py and run natively; `sink` (gcc-built runtime) dumps the
object's bytes, `sinkp` resolves pointer members symbolically.  Compared with the expected image of the spec on
every bit that belongs to a member (padding is unspecified for automatic objects).  The same source built by gcc
alone audits the spec.
"""
import os, subprocess
import vlib, ilparse, il2c

RUNTIME = r"""
#include <stdio.h>
extern char g[8]; extern char hs[8]; extern char ga[16];
void fn(void) {}
void sink(int id, void *p, unsigned long n) {
  printf("D %d %lu ", id, n);
  for (unsigned long k = 0; k < n; k++) printf("%02x", ((unsigned char *)p)[k]);
  puts("");
}
void sinkp(int id, int off, char *v) {
  printf("P %d %d ", id, off);
  if (!v) puts("null");
  else if (v >= g && v <= g + 8) printf("g+%ld\n", (long)(v - g));
  else if (v == (char *)fn) puts("fn+0");
  else if (v >= hs && v <= hs + 8) printf("hs+%ld\n", (long)(v - hs));
  else if (v >= ga && v <= ga + 16) printf("ga+%ld\n", (long)(v - ga));
  else { printf("anon:"); for (; *v; v++) printf("%02x", (unsigned char)*v); puts(""); }
}
"""


def source(c07, tab, cases, ids):
    out = [c07.prelude(tab), "struct P pv = {20818, 1398031702};\n",
           "void sink(int, void *, unsigned long); void sinkp(int, int, char *);\n"]
    for i, c in zip(ids, cases):
        po = c07.ptr_offsets(tab, c["ty"], c["size"])
        out.append("void f%d(void) { %s sink(%d, &x, sizeof x);%s }\n" % (
            i, c07.render_decl(tab, c, "x"), i,
            "".join(" sinkp(%d, %d, *(char **)((char *)&x + %d));" % (i, o, o) for o in po)))
    out.append("int main(void) {%s return 0; }\n" % "".join(" f%d();" % i for i in ids))
    return "".join(out)


def parse_dump(text):
    objs, ptrs = {}, {}
    for ln in text.splitlines():
        f = ln.split(" ")
        if f[0] == "D":
            objs[int(f[1])] = (int(f[2]), list(bytes.fromhex(f[3])))
        elif f[0] == "P":
            if f[3] != "null":
                ptrs.setdefault(int(f[1]), set()).add((int(f[2]), f[3]))
    return objs, ptrs


def compare(c07, tab, case, size, img, rel, want_img=None, want_rel=None):
    """observed automatic object against the expected image on member bytes (None = agrees)."""
    exp = case["img"] if want_img is None else want_img
    if size != case["size"]:
        return "size %d != %d" % (size, case["size"])
    am = case["am"]
    po = set()
    for o in c07.ptr_offsets(tab, case["ty"], case["size"]):
        po |= set(range(o, o + 8))
    unc = case["unc"] if (case["unc"] and want_img is None) else [0] * size
    for k in range(size):
        if k in po or exp[k] < 0:
            continue
        if (img[k] ^ exp[k]) & am[k] & ~unc[k] & 0xff:
            return "byte %d: %d != %d" % (k, img[k], exp[k])
    must = c07.expected_rel(case["rel"] if want_rel is None else want_rel)
    may = must | (c07.expected_rel(case["optrel"]) if want_rel is None else set())
    if not (must <= rel and rel <= may):
        return "pointers %s != %s" % (sorted(rel), sorted(must))
    return None


def run_batch(ctx, c07, tab, cases, ids, objdir, tag):
    """-> (status, objs, ptrs); status: 'ok' | 'cproc:<rc>' | 'exec:<why>'"""
    src = source(c07, tab, cases, ids)
    rc, out, err = vlib.cproc(objdir, src, timeout=60)
    if rc != 0:
        return "cproc:%d:%s" % (rc, err.strip()[-120:]), {}, {}
    rt = ctx.path("rt_c07.c")
    if not os.path.exists(rt):
        open(rt, "w").write(RUNTIME)
    try:
        exe = il2c.build_native(out, ctx.scratch, name="auto_" + tag, runtime_c=rt, sanitize=True, opt="-O0")
    except (il2c.Unsupported, ilparse.ILSyntaxError, RuntimeError) as e:
        return "exec:translate:%s" % str(e)[:200], {}, {}
    rc, so, se = il2c.run_native(exe, timeout=60)
    if rc != 0:
        return "exec:rc=%d:%s" % (rc, se[-300:]), {}, {}
    objs, ptrs = parse_dump(so)
    return "ok", objs, ptrs


def gcc_reference(ctx, c07, tab, cases):
    src = ctx.path("auto_ref.c")
    exe = ctx.path("auto_ref")
    with open(src, "w") as f:
        f.write(source(c07, tab, cases, range(len(cases))) + RUNTIME.replace("#include <stdio.h>", "int printf(const char *, ...); int puts(const char *);")
                .replace("extern char g[8]; extern char hs[8]; extern char ga[16];", "#define hs ((char *)&hs)\n#define ga ((char *)ga)"))
    p = subprocess.run(["gcc", "-std=gnu11", "-w", "-O0", "-o", exe, src], stdout=subprocess.PIPE, stderr=subprocess.STDOUT, text=True)
    if p.returncode != 0:
        raise vlib.MachineryError("SPEC-AUDIT(auto): gcc rejects the generated functions:\n" + p.stdout[-3000:])
    p = subprocess.run([exe], stdout=subprocess.PIPE, text=True, timeout=120)
    if p.returncode != 0:
        raise vlib.MachineryError("SPEC-AUDIT(auto): reference run failed rc=%d" % p.returncode)
    objs, ptrs = parse_dump(p.stdout)
    for i, c in enumerate(cases):
        if i not in objs:
            raise vlib.MachineryError("SPEC-AUDIT(auto): no dump for case %d" % i)
        why = compare(c07, tab, c, objs[i][0], objs[i][1], ptrs.get(i, set()))
        if why:
            raise vlib.MachineryError("SPEC-AUDIT(auto): gcc disagrees with Init.tla on automatic `%s`: %s (gcc %s %s; spec %s)"
                                      % (c07.render_decl(tab, c, "x"), why, objs[i][1], sorted(ptrs.get(i, set())), c["img"]))
    ctx.cov["gcc_audited_auto_cases"] = ctx.cov.get("gcc_audited_auto_cases", 0) + len(cases)


def judge(ctx, c07, tab, case, status, obj, ptrs):
    key = "auto " + c07.case_key(case)
    ctx.count(key, nontrivial=len(case["toks"]) > 1)
    fired = sorted(case["afired"])
    decl = c07.render_decl(tab, case, "x")
    info = {"storage": "automatic", "type": case["ty"], "tokens": case["toks"], "source": decl,
            "expected": {"size": case["size"], "bytes": case["img"], "rel": sorted(c07.expected_rel(case["rel"])), "compared_bits": case["am"]},
            "model": {"status": case["mst"], "fired": fired, "bytes": case["fimg"]}, "case": case}
    if status == "ok" and obj is not None:
        why = compare(c07, tab, case, obj[0], obj[1], ptrs)
        info["observed"] = {"size": obj[0], "bytes": obj[1], "pointers": sorted(ptrs)}
        if why is None:
            if not case["aok"] and case["mst"] != "undef":
                notex = ctx.cov.setdefault("deviation_predicted_but_not_exhibited", {})
                for dv in fired:
                    notex["auto:" + dv] = notex.get("auto:" + dv, 0) + 1
            return
    else:
        why = status
        info["observed"] = status
    info["why"] = why
    explained = None
    if fired:
        if case["mst"] == "err" and status.startswith("cproc:1"):
            explained = "reject"
        elif status == "ok" and obj is not None and case["fimg"] and \
                compare(c07, tab, case, obj[0], obj[1], ptrs, want_img=case["fimg"], want_rel=case["frel"]) is None:
            explained = "image"
    if explained:
        for dv in fired:
            k = "dev:AutoBackZero:auto" if dv == "AutoBackZero" else "dev:%s:%s" % (dv, explained)
            ctx.violation(k, "automatic %s: %s" % (decl, why), info)
    else:
        ctx.violation("auto:%s:%s" % (case["ty"], why.split(":")[0].split(" ")[0]),
                      "automatic object differs from Init.tla: %s -- %s" % (decl, why), info)


def run(ctx, tab, cases, objdir, c07):
    gcc_reference(ctx, c07, tab, cases)
    # cases on which the model predicts trouble inside the compiler run alone; the rest in batches
    risky = [i for i, c in enumerate(cases) if c["mst"] in ("undef", "err")]
    safe = [i for i in range(len(cases)) if i not in set(risky)]
    B = 250
    batches = [safe[k:k + B] for k in range(0, len(safe), B)]
    done = {}

    def do_batch(ids):
        return ids, run_batch(ctx, c07, tab, [cases[i] for i in ids], ids, objdir, "b%d" % ids[0])

    def do_one(i):
        return [i], run_batch(ctx, c07, tab, [cases[i]], [i], objdir, "s%d" % i)
    res = vlib.pmap(do_batch, batches, workers=8)
    retry = []
    for ids, (st, objs, ptrs) in res:
        if st == "ok":
            for i in ids:
                done[i] = ("ok", objs.get(i), ptrs.get(i, set()))
        else:
            retry += ids
    for ids, (st, objs, ptrs) in vlib.pmap(do_one, risky + retry, workers=12):
        i = ids[0]
        done[i] = (st, objs.get(i), ptrs.get(i, set()))
    for i, c in enumerate(cases):
        st, obj, ptrs = done[i]
        judge(ctx, c07, tab, c, st, obj, ptrs)
    ctx.validated(len(cases))
    ctx.cov["auto_objects"] = "%d automatic objects executed through il2c (%d singly)" % (len(cases), len(risky) + len(retry))
