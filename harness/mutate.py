"""Applies the edits chosen by spec/Mutate.tla to corpus files (glue for C02/C03/C19/C20)."""
import glob, json, os, re
import vlib

TOKEN = re.compile(r'\s+|/\*.*?\*/|//[^\n]*|[A-Za-z_]\w*|\.?\d(?:[eEpP][-+]|[\w.])*|"(?:\\.|[^"\\\n])*"|\'(?:\\.|[^\'\\\n])*\'|'
                   r'<<=|>>=|\.\.\.|->|\+\+|--|<<|>>|<=|>=|==|!=|&&|\|\||[-+*/%&^|]=|##|::|.', re.S)
ALPHA = ["0", "1", "x", "int", "long", "unsigned", "char", "struct", "static", "extern", "return", "if", "else", "while", "for", "switch",
         "case", "default", "goto", "break", "sizeof", "_Alignas", "_Generic", "typeof", "(", ")", "{", "}", "[", "]", ";", ",", ".", "->",
         "*", "&", "+", "-", "=", "==", "<", "?", ":", "...", "#", "\"s\"", "'c'", "1.5", "0x7fffffffffffffff", "u8\"s\"", "L'x'", "__attribute__",
         "[[", "]]", "_Static_assert", "enum", "union", "typedef", "inline", "_Thread_local", "void", "double", "float", "_Bool", "short"]


def tokenize(text):
    return [m.group(0) for m in TOKEN.finditer(text)]


def corpus(kind="c"):
    """[(path, target, mode)] for the regression corpus."""
    out = []
    for p in sorted(glob.glob(os.path.join(vlib.REPO, "test", "*.c"))):
        name = os.path.basename(p)[:-2]
        targ = name.split("+")[1] if "+" in name else "x86_64-sysv"
        mode = "E" if os.path.exists(p[:-2] + ".pp") else "c"
        out.append((p, targ, mode))
    return out


def apply(tokens, edits):
    toks = list(tokens)
    sig = [i for i, t in enumerate(toks) if not t.isspace()]   # positions of non-blank tokens
    for e in edits:
        if not sig:
            break
        i = sig[(e["pos"] - 1) % len(sig)]
        a = ALPHA[(e["alpha"] - 1) % len(ALPHA)]
        k = e["kind"]
        if k == "replace":
            toks[i] = a
        elif k == "delete":
            toks[i] = ""
        elif k == "dup":
            toks[i] = toks[i] + " " + toks[i]
        elif k == "swap":
            j = sig[(sig.index(i) + 1) % len(sig)]
            toks[i], toks[j] = toks[j], toks[i]
        elif k == "insert":
            toks[i] = a + " " + toks[i]
        elif k == "truncate":
            toks = toks[:i + 1]
            sig = [x for x in sig if x <= i]
    return "".join(toks)


def generate(ctx, n, max_edits=2):
    """Ask TLC (Mutate.tla, -simulate) for n mutation behaviours; -> list of (src_text, target, mode, descr)."""
    files = corpus()
    toks = [tokenize(open(p, errors="surrogateescape").read()) for p, _, _ in files]
    ntok = [len([t for t in tk if not t.isspace()]) for tk in toks]
    cfgp = ctx.path("MC_Mutate_run.cfg")
    open(cfgp, "w").write("SPECIFICATION Spec\nCONSTANTS MaxEdits = %d\n  Exhaustive = FALSE\nINVARIANT Emit\nCHECK_DEADLOCK FALSE\n" % max_edits)
    ntokp = ctx.path("mutate_ntok.json")
    open(ntokp, "w").write(json.dumps(ntok))
    workers = 4
    r = ctx.tlc("Mutate", cfgp, workers=workers, simulate=max(1, n // (workers * max_edits) + 1), depth=max_edits + 1,
                env={"MUTATE_NTOK": ntokp, "MUTATE_NALPHA": str(len(ALPHA))}, timeout=300)
    if not r.ok:
        raise vlib.MachineryError("Mutate.tla failed: " + r.out[-2000:])
    out, seen = [], set()
    for v in r.vcases:
        c = json.loads(v)
        key = vlib.canon(c)
        if key in seen:
            continue
        seen.add(key)
        p, targ, mode = files[c["file"] - 1]
        out.append((apply(toks[c["file"] - 1], c["edits"]), targ, mode, {"file": os.path.basename(p), "edits": c["edits"]}))
        if len(out) >= n:
            break
    return out


SEPARATORS = ["(", ")", "{", "}", "[", "]", ";", ",", "...", ":", "=", "*", "int", "x", "0", "static", "case", "else"]


def neighbourhood(ctx, path, alpha=SEPARATORS):
    """The whole one-edit neighbourhood of one file, enumerated by TLC (Mutate.tla, Exhaustive = TRUE, breadth first):
    every edit kind at every token, replace/insert with every token of `alpha`.  -> list of (src_text, descr)."""
    text = open(path, errors="surrogateescape").read()
    toks = tokenize(text)
    ntok = len([t for t in toks if not t.isspace()])
    cfgp = ctx.path("MC_Mutate_exh.cfg")
    open(cfgp, "w").write("SPECIFICATION Spec\nCONSTANTS MaxEdits = 1\n  Exhaustive = TRUE\nINVARIANT Emit\nCHECK_DEADLOCK FALSE\n")
    ntokp, alphap = ctx.path("mutate_exh_ntok.json"), ctx.path("mutate_exh_alpha.json")
    open(ntokp, "w").write(json.dumps([ntok]))
    open(alphap, "w").write(json.dumps([ALPHA.index(a) + 1 for a in alpha]))
    r = ctx.tlc("Mutate", cfgp, workers=4, env={"MUTATE_NTOK": ntokp, "MUTATE_NALPHA": str(len(ALPHA)), "MUTATE_EXH_ALPHA": alphap}, timeout=600)
    if not r.ok:
        raise vlib.MachineryError("Mutate.tla (exhaustive) failed: " + r.out[-2000:])
    out, seen = [], set()
    for v in r.vcases:
        c = json.loads(v)
        src = apply(toks, c["edits"])
        if src in seen or src == text:
            continue
        seen.add(src)
        out.append((src, {"file": os.path.basename(path), "edits": c["edits"]}))
    return out
