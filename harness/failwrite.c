/*
 * failwrite -- fault injector for the own-I/O part of property C19 (spec/Proc.tla).
 *
 * DESIGN.md planned an LD_PRELOAD shim; glibc's stdio reaches write(2)/read(2) through
 * internal, non-interposable symbols, so a preloaded `write` is never called.  This tool
 * injects the same faults one level lower, with ptrace, and therefore works for any libc:
 *
 *   failwrite -l LOG [-w FD] [-k K -m fail|short [-e ERRNO] [-b BYTES]]
 *             [-R PATH | -r FD] [-j J [-E ERRNO]] -- cmd args...
 *
 *   -w FD      output descriptor to watch (default 1); every write(2) on it is logged
 *   -k K       the K-th write(2) on FD is faulted once: mode fail -> returns -ERRNO without
 *              being executed; mode short -> executed with its count reduced to BYTES
 *   -R PATH    watch read(2) on the descriptor returned by open/openat of exactly PATH
 *   -r FD      watch read(2) on FD (e.g. 0)
 *   -j J       the J-th watched read(2) returns -ERRNO (default EIO) without being executed
 *   -L BYTES   the command runs with RLIMIT_FSIZE = BYTES and SIGXFSZ ignored (a real "disk
 *              full": the crossing write is short, later ones fail with EFBIG)
 *
 * LOG gets one line per watched call:  "W <requested> <result>" / "R <requested> <result>"
 * (result < 0 = -errno; a trailing " I" marks an injected result), and finally
 * "X <status>" (exit status) or "S <signal>".  failwrite itself exits with the child's
 * status, or 128+signal.  x86_64 Linux only (the verification host).
 */
#define _GNU_SOURCE
#include <errno.h>
#include <signal.h>
#include <stdio.h>
#include <stdlib.h>
#include <string.h>
#include <unistd.h>
#include <sys/ptrace.h>
#include <sys/resource.h>
#include <sys/syscall.h>
#include <sys/types.h>
#include <sys/user.h>
#include <sys/wait.h>
#include <linux/ptrace.h>

static void
die(const char *msg)
{
	perror(msg);
	exit(125);
}

/* read a NUL-terminated string from the tracee */
static void
peekstr(pid_t pid, unsigned long addr, char *buf, size_t len)
{
	size_t i = 0, j;
	long w;

	while (i + 1 < len) {
		errno = 0;
		w = ptrace(PTRACE_PEEKDATA, pid, (void *)(addr + i), NULL);
		if (w == -1 && errno)
			break;
		for (j = 0; j < sizeof(w) && i + 1 < len; ++j, ++i) {
			buf[i] = ((char *)&w)[j];
			if (!buf[i])
				return;
		}
	}
	buf[i] = '\0';
}

int
main(int argc, char *argv[])
{
	const char *logpath = NULL, *mode = NULL, *rpath = NULL;
	int wfd = 1, rfd = -1, werr = ENOSPC, rerr = EIO, opt, status, sig;
	long k = 0, j = 0, bytes = -1, nw = 0, nr = 0, fsize = -1;
	FILE *log;
	pid_t pid;
	struct __ptrace_syscall_info info;
	struct user_regs_struct regs;
	int inject = 0;       /* pending injected result for the syscall in flight */
	long injectval = 0;
	int cur = 0;          /* 'W', 'R', 'O' (open of rpath) for the syscall in flight */
	unsigned long curreq = 0;
	char path[4096];

	while ((opt = getopt(argc, argv, "+l:w:k:m:e:b:R:r:j:E:L:")) != -1) {
		switch (opt) {
		case 'l': logpath = optarg; break;
		case 'w': wfd = atoi(optarg); break;
		case 'k': k = atol(optarg); break;
		case 'm': mode = optarg; break;
		case 'e': werr = atoi(optarg); break;
		case 'b': bytes = atol(optarg); break;
		case 'R': rpath = optarg; break;
		case 'r': rfd = atoi(optarg); break;
		case 'j': j = atol(optarg); break;
		case 'E': rerr = atoi(optarg); break;
		case 'L': fsize = atol(optarg); break;
		default: return 125;
		}
	}
	if (!logpath || optind >= argc || (k && !mode)) {
		fprintf(stderr, "usage: failwrite -l log [options] -- cmd args...\n");
		return 125;
	}
	log = fopen(logpath, "w");
	if (!log)
		die("open log");

	pid = fork();
	if (pid < 0)
		die("fork");
	if (pid == 0) {
		fclose(log);
		if (ptrace(PTRACE_TRACEME, 0, NULL, NULL) < 0)
			die("traceme");
		raise(SIGSTOP);
		if (fsize >= 0) {
			struct rlimit rl = {fsize, fsize};

			signal(SIGXFSZ, SIG_IGN);
			if (setrlimit(RLIMIT_FSIZE, &rl) < 0)
				die("setrlimit");
		}
		execvp(argv[optind], argv + optind);
		die("exec");
	}
	if (waitpid(pid, &status, 0) < 0 || !WIFSTOPPED(status))
		die("wait");
	if (ptrace(PTRACE_SETOPTIONS, pid, NULL, (void *)(long)(PTRACE_O_TRACESYSGOOD | PTRACE_O_EXITKILL | PTRACE_O_TRACEEXEC)) < 0)
		die("setoptions");
	sig = 0;
	for (;;) {
		if (ptrace(PTRACE_SYSCALL, pid, NULL, (void *)(long)sig) < 0)
			die("ptrace syscall");
		sig = 0;
		if (waitpid(pid, &status, 0) < 0)
			die("waitpid");
		if (WIFEXITED(status)) {
			fprintf(log, "X %d\n", WEXITSTATUS(status));
			fclose(log);
			return WEXITSTATUS(status);
		}
		if (WIFSIGNALED(status)) {
			fprintf(log, "S %d\n", WTERMSIG(status));
			fclose(log);
			return 128 + WTERMSIG(status);
		}
		if (!WIFSTOPPED(status))
			continue;
		if (WSTOPSIG(status) != (SIGTRAP | 0x80)) {
			if (WSTOPSIG(status) == SIGTRAP && status >> 16)
				continue;  /* exec event */
			sig = WSTOPSIG(status);  /* deliver real signals */
			continue;
		}
		if (ptrace(PTRACE_GET_SYSCALL_INFO, pid, (void *)sizeof(info), &info) < 0)
			die("syscall info");
		if (info.op == PTRACE_SYSCALL_INFO_ENTRY) {
			cur = 0;
			inject = 0;
			if (info.entry.nr == SYS_write && (int)info.entry.args[0] == wfd) {
				cur = 'W';
				curreq = info.entry.args[2];
				++nw;
				if (nw == k) {
					if (ptrace(PTRACE_GETREGS, pid, NULL, &regs) < 0)
						die("getregs");
					if (strcmp(mode, "fail") == 0) {
						regs.orig_rax = -1;
						inject = 1;
						injectval = -werr;
					} else if (bytes >= 0 && (unsigned long)bytes < curreq) {
						regs.rdx = bytes;
					}
					if (ptrace(PTRACE_SETREGS, pid, NULL, &regs) < 0)
						die("setregs");
				}
			} else if (info.entry.nr == SYS_read && rfd >= 0 && (int)info.entry.args[0] == rfd) {
				cur = 'R';
				curreq = info.entry.args[2];
				++nr;
				if (nr == j) {
					if (ptrace(PTRACE_GETREGS, pid, NULL, &regs) < 0)
						die("getregs");
					regs.orig_rax = -1;
					inject = 1;
					injectval = -rerr;
					if (ptrace(PTRACE_SETREGS, pid, NULL, &regs) < 0)
						die("setregs");
				}
			} else if (rpath && rfd < 0 && (info.entry.nr == SYS_openat || info.entry.nr == SYS_open)) {
				peekstr(pid, info.entry.args[info.entry.nr == SYS_openat ? 1 : 0], path, sizeof(path));
				if (strcmp(path, rpath) == 0)
					cur = 'O';
			} else if (info.entry.nr == SYS_close && rfd >= 0 && rpath && (int)info.entry.args[0] == rfd) {
				rfd = -2;  /* the watched input was closed; never match again */
			}
		} else if (info.op == PTRACE_SYSCALL_INFO_EXIT) {
			long ret = info.exit.rval;

			if (inject) {
				if (ptrace(PTRACE_GETREGS, pid, NULL, &regs) < 0)
					die("getregs");
				regs.rax = injectval;
				if (ptrace(PTRACE_SETREGS, pid, NULL, &regs) < 0)
					die("setregs");
				ret = injectval;
			}
			if (cur == 'W' || cur == 'R') {
				fprintf(log, "%c %lu %ld%s\n", cur, curreq, ret, inject || (cur == 'W' && nw == k && ret >= 0 && (unsigned long)ret < curreq) ? " I" : "");
				fflush(log);
			} else if (cur == 'O' && ret >= 0) {
				rfd = ret;
			}
			cur = 0;
			inject = 0;
		}
	}
}
