"""Glue shared by props/c06.py and props/c08.py: rendering of Layout.tla type terms to C,
running reference compilers for the spec audit, decoding cproc's output.

No layout rule lives here: every expected number comes out of TLC (Layout.tla / Abi.tla);
this file only spells type terms as C text and reads numbers back.
"""
import json, os, re, subprocess
import vlib, ilparse

SC_C = {"bool": "_Bool", "char": "char", "schar": "signed char", "uchar": "unsigned char", "short": "short",
        "ushort": "unsigned short", "int": "int", "uint": "unsigned", "long": "long", "ulong": "unsigned long",
        "llong": "long long", "ullong": "unsigned long long", "float": "float", "double": "double",
        "ldouble": "long double", "ptr": "void *"}
RAISE = {"x86_64-sysv": False, "aarch64": True, "riscv64": False}       # which declarative variant applies (exp0 / exp1)
CHAR_SIGNED = {"x86_64-sysv": True, "aarch64": False, "riscv64": False}
CLANG_TRIPLE = {"x86_64-sysv": "x86_64-linux-gnu", "aarch64": "aarch64-linux-gnu", "riscv64": "riscv64-linux-gnu"}
PACKED_SPELL = ["__attribute__((packed))", "[[gnu::packed]]", "__attribute__((__packed__))"]


class Rendered:
    """C text of one aggregate type term with generated member names."""

    ALIGN_TYPE = {1: "char", 2: "short", 4: "int", 8: "double"}

    def __init__(self, term, tag, prefix, packed="__attribute__((packed))", alignas="_Alignas", align_by_type=False):
        self.term, self.tag, self.prefix = term, tag, prefix
        self.align_by_type = align_by_type
        self.names = {}            # tuple of member indices -> name
        self.n = 0
        self.packed, self.alignas = packed, alignas
        self.kw = "union" if term["un"] else "struct"
        self.text = self._su(term, (), tag) + ";"

    def _name(self, key):
        self.n += 1
        self.names[key] = "%s%d" % (self.prefix, self.n)
        return self.names[key]

    def _su(self, t, key, tag=None):
        head = "union" if t["un"] else "struct"
        if t["pk"]:
            head += " " + self.packed
        if tag:
            head += " " + tag
        parts = []
        for i, m in enumerate(t["ms"], 1):
            k = key + (i,)
            al = ""
            if m["al"]:
                arg = self.ALIGN_TYPE[m["al"]] if self.align_by_type and m["al"] in self.ALIGN_TYPE else str(m["al"])
                al = "%s(%s) " % (self.alignas, arg)
            mt = m["t"]
            if m["w"] != -1:
                nm = self._name(k) if m["nm"] else ""
                parts.append("%s %s: %d;" % (SC_C[mt["n"]], nm, m["w"]))
                continue
            dims = []
            while mt["k"] == "arr":
                dims.append(mt["n"])
                mt = mt["of"]
            if m["nm"]:
                nm = self._name(k)         # name before the nested members: declaration order = numbering order
                base = SC_C[mt["n"]] if mt["k"] == "sc" else self._su(mt, k)
                parts.append("%s%s %s%s;" % (al, base, nm, "".join("[%s]" % (d if d else "") for d in dims)))
            else:
                parts.append("%s%s;" % (al, self._su(mt, k)))
        return head + " { " + " ".join(parts) + " }"

    def desig(self, path):
        """C designator for a node path ('.a.b[1].c'), or None for an anonymous member itself."""
        key, out = (), ""
        for i, e in enumerate(path):
            if e > 0:
                key += (e,)
                nm = self.names.get(key)
                if nm:
                    out += "." + nm
                elif i == len(path) - 1:
                    return None
            else:
                out += "[%d]" % (-e - 1)
        return out

    @property
    def ctype(self):
        return "%s %s" % (self.kw, self.tag)


def pick(case, what, raise_):
    """exp / mod / devs of a Layout.tla Case for the declarative variant of a target."""
    e0 = case["exp0"]
    e = case["exp1"] if raise_ and "same" not in case["exp1"] else e0
    if what == "exp":
        return e
    if what == "mod":
        m = case["mod1" if raise_ else "mod0"]
        return e if "same" in m else m
    return sorted(case["devs1" if raise_ else "devs0"])


def run_cc(cmd, src, timeout=120):
    p = subprocess.run(cmd, input=src.encode(), stdout=subprocess.PIPE, stderr=subprocess.PIPE, timeout=timeout)
    return p.returncode, p.stdout.decode("utf-8", "replace"), p.stderr.decode("utf-8", "replace")


_RE_SA_CLANG = re.compile(r'error: static_assert failed[^\n]*"(A:[^"]*)"')
_RE_SA_GCC = re.compile(r'error: static assertion failed: "(A:[^"]*)"')
_RE_ERR = re.compile(r"^[^\n]*error:[^\n]*$", re.M)


def audit_asserts(src, target=None, std="c2x"):
    """Compile `src` (type definitions + _Static_asserts whose message starts with 'A:') with clang for `target`
    (or gcc on the host when target is None). Returns (failed assertion tags, other error lines, stdout)."""
    if target is None:
        cmd = ["gcc", "-std=gnu2x", "-fsyntax-only", "-w", "-fmax-errors=0", "-x", "c", "-"]
        rx = _RE_SA_GCC
    else:
        cmd = ["clang", "--target=" + CLANG_TRIPLE[target], "-std=" + std, "-fsyntax-only", "-w", "-ferror-limit=0",
               "-Xclang", "-fdump-record-layouts", "-x", "c", "-"]
        rx = _RE_SA_CLANG
    rc, out, err = run_cc(cmd, src)
    failed = rx.findall(err)
    other = [l for l in _RE_ERR.findall(err) if "static_assert failed" not in l and "static assertion failed" not in l]
    return failed, other, out


_RE_DUMP_HEAD = re.compile(r"^\s+0 \| (struct|union) (\S+)$")
_RE_DUMP_BF = re.compile(r"^\s*(\d+):(\d+)-(\d+) \|\s+.*?(\w+)$")


def clang_bitfields(dump, tags):
    """From -fdump-record-layouts output: {tag: {member name: (absolute bit offset, width)}} for the top-level records."""
    res, cur = {}, None
    for line in dump.split("\n"):
        m = _RE_DUMP_HEAD.match(line)
        if m:
            cur = m.group(2) if m.group(2) in tags else None
            if cur:
                res[cur] = {}
            continue
        if line.startswith("*** Dumping") or line.strip().startswith("| ["):
            if line.startswith("***"):
                cur = None
            continue
        if cur:
            m = _RE_DUMP_BF.match(line)
            if m:
                byte, lo, hi, name = int(m.group(1)), int(m.group(2)), int(m.group(3)), m.group(4)
                res[cur][name] = (8 * byte + lo, hi - lo + 1)
    return res


def parse_il(out):
    try:
        return ilparse.parse(out)
    except ilparse.ILSyntaxError as e:
        raise vlib.MachineryError("cannot parse IL: %s" % e)


def longs(d):
    """values of a data definition made of `l` items"""
    vals = []
    for it in d["items"]:
        if it["k"] == "z":
            vals += [0] * (it["n"] // 8)
        elif it["k"] == "num":
            vals += it["vals"]
        else:
            raise vlib.MachineryError("unexpected data item %r" % it)
    return vals


def set_bits(img):
    return [8 * i + b for i, byte in enumerate(img) for b in range(8) if byte >> b & 1]


def term_stats(t):
    """(nesting depth, number of bit-fields, number of members) of a type term."""
    if t["k"] == "sc":
        return 0, 0, 0
    if t["k"] == "arr":
        return term_stats(t["of"])
    d, b, n = 0, 0, 0
    for m in t["ms"]:
        sd, sb, sn = term_stats(m["t"])
        d = max(d, sd)
        b += sb + (1 if m["w"] != -1 else 0)
        n += sn + 1
    return d + 1, b, n


def tlc_cached(ctx, spec, cfg, **kw):
    """ctx.tlc, or (development / negative controls only, VERIF_TLC_CACHE=1) its stored result: TLC's output depends on
    the spec, the config, the arguments and the input file only, never on /repo."""
    import hashlib, pickle, glob
    if os.environ.get("VERIF_TLC_CACHE") != "1":
        return ctx.tlc(spec, cfg, **kw)
    h = hashlib.sha1()
    for f in sorted(glob.glob(os.path.join(vlib.SPEC, "*.tla"))):
        if os.path.basename(f) in ("Layout.tla", "Abi.tla", "Trace_Layout.tla"):
            h.update(open(f, "rb").read())
    h.update(open(os.path.join(vlib.SPEC, cfg), "rb").read())
    env = kw.get("env") or {}
    for k in sorted(env):
        if os.path.exists(str(env[k])):
            h.update(open(env[k], "rb").read())
    h.update(repr(sorted((k, v) for k, v in kw.items() if k not in ("env", "workers", "timeout", "heap"))).encode())
    h.update(str(ctx.seed).encode())
    d = os.path.join(vlib.WORK, "tlc_cache")
    os.makedirs(d, exist_ok=True)
    path = os.path.join(d, "%s-%s-%s.pkl" % (spec, cfg, h.hexdigest()[:16]))
    if os.path.exists(path):
        r = pickle.load(open(path, "rb"))
        ctx.cov["states"] += r.distinct
        ctx.cov["transitions"] += r.states
        ctx.tlc_runs.append({"spec": spec, "cfg": cfg, "rc": r.rc, "generated": r.states, "distinct": r.distinct, "cached": True})
        return r
    r = ctx.tlc(spec, cfg, **kw)
    if r.rc == 0:
        pickle.dump(r, open(path + ".tmp%d" % os.getpid(), "wb"))
        os.rename(path + ".tmp%d" % os.getpid(), path)
    return r
