#!/usr/bin/env python3
"""Regenerates the generated tables of DESIGN.md (between <!-- GEN:x --> markers): fix commits, known findings, seeded changes."""
import glob, json, os, re, subprocess
V = os.path.dirname(os.path.dirname(os.path.abspath(__file__)))


def fixes():
    out = subprocess.check_output(["git", "-C", "/repo", "log", "--reverse", "--format=%h\t%s"], text=True).splitlines()
    rows = ["| commit | repair |", "|---|---|"]
    for l in out:
        h, s = l.split("\t", 1)
        if s.startswith("fix:"):
            rows.append("| %s | %s |" % (h, s[4:].strip().replace("|", "\\|")))
    return "\n".join(rows)


def known():
    rows = ["| property | key | status | what |", "|---|---|---|---|"]
    items = []
    for p in [os.path.join(V, "known_findings.json")] + sorted(glob.glob(os.path.join(V, "known_findings.d", "*.json"))):
        for f in json.load(open(p))["findings"]:
            items.append(f)
    items.sort(key=lambda f: (f["property"], f.get("status") != "known", f["key"]))
    for f in items:
        what = f["what"].replace("|", "\\|").replace("\n", " ")
        if len(what) > 260:
            what = what[:257] + "..."
        rows.append("| %s | `%s` | %s%s | %s |" % (f["property"], f["key"].replace("|", "\\|"), f.get("status"), (" " + f["commit"][:7]) if f.get("commit") else "", what))
    return "\n".join(rows)


def seeds():
    rows = ["| seed | property | change | caught by | first missed because |", "|---|---|---|---|---|"]
    for d in sorted(glob.glob(os.path.join(V, "seeded", "*", "meta.json"))):
        m = json.load(open(d))
        sid = os.path.basename(os.path.dirname(d))
        cell = lambda x: "; ".join([x] if isinstance(x, str) else x).replace("|", "\\|") if x else "—"
        summ = m.get("summary", "").replace("|", "\\|").replace("\n", " ")
        if len(summ) > 200:
            summ = summ[:197] + "..."
        rows.append("| %s | %s | %s | %s | %s |" % (sid, m.get("property", ""), summ, cell(m.get("caught_by")), cell(m.get("missed_by"))))
    return "\n".join(rows)


def main():
    p = os.path.join(V, "DESIGN.md")
    s = open(p).read()
    for name, fn in (("fixes", fixes), ("known", known), ("seeds", seeds)):
        a, b = "<!-- GEN:%s -->" % name, "<!-- /GEN:%s -->" % name
        if a in s and b in s:
            i, j = s.index(a) + len(a), s.index(b)
            s = s[:i] + "\n" + fn() + "\n" + s[j:]
    open(p, "w").write(s)


if __name__ == "__main__":
    main()
