"""IL -> C translator: an accelerated implementation of spec/QbeMachine.tla.

It substitutes the missing QBE backend: every IL instruction is translated 1:1 to C on
untyped machine words, so the emitted IL can be executed natively (with ASan watching the
objects the IL allocates).  It is bound to QbeMachine.tla by running sampled programs
through both (props/c01.py).  Trusted base: this file + gcc.

Conventions (internal to translated modules, not the platform ABI):
  * temporaries: class w -> il_u32, l -> il_u64, s -> float, d -> double
  * aggregate parameters (":t"): callee receives a pointer (il_u64) to a caller-made copy
  * aggregate returns: hidden first parameter il_u64 __ret (caller-allocated); callee copies and returns it
  * `$name` -> C identifier `name` (exported: external linkage, otherwise static); `$.Lx.3` -> L_x_3;
    quoted asm names are used verbatim
  * undefined globals are declared `extern char name[]` and called through casts, so libc works
"""
import re, sys
import ilparse

PRELUDE = r"""
typedef unsigned char il_u8; typedef unsigned short il_u16; typedef unsigned int il_u32; typedef unsigned long il_u64;
typedef signed char il_i8; typedef short il_i16; typedef int il_i32; typedef long il_i64;
#define IL_INLINE static inline __attribute__((always_inline, unused))
IL_INLINE il_u8  ld8 (il_u64 a){il_u8  v; __builtin_memcpy(&v,(void*)a,1); return v;}
IL_INLINE il_u16 ld16(il_u64 a){il_u16 v; __builtin_memcpy(&v,(void*)a,2); return v;}
IL_INLINE il_u32 ld32(il_u64 a){il_u32 v; __builtin_memcpy(&v,(void*)a,4); return v;}
IL_INLINE il_u64 ld64(il_u64 a){il_u64 v; __builtin_memcpy(&v,(void*)a,8); return v;}
IL_INLINE float  ldf(il_u64 a){float v; __builtin_memcpy(&v,(void*)a,4); return v;}
IL_INLINE double ldd(il_u64 a){double v; __builtin_memcpy(&v,(void*)a,8); return v;}
IL_INLINE void st8 (il_u64 a,il_u8  v){__builtin_memcpy((void*)a,&v,1);}
IL_INLINE void st16(il_u64 a,il_u16 v){__builtin_memcpy((void*)a,&v,2);}
IL_INLINE void st32(il_u64 a,il_u32 v){__builtin_memcpy((void*)a,&v,4);}
IL_INLINE void st64(il_u64 a,il_u64 v){__builtin_memcpy((void*)a,&v,8);}
IL_INLINE void stf(il_u64 a,float v){__builtin_memcpy((void*)a,&v,4);}
IL_INLINE void std_(il_u64 a,double v){__builtin_memcpy((void*)a,&v,8);}
/* float -> unsigned conversions as QBE's amd64 lowering does them is target business; for in-range
   values (the only ones with defined C behaviour) plain casts agree */
"""

CTYPE = {"w": "il_u32", "l": "il_u64", "s": "float", "d": "double"}
SCLS = {"b": 1, "h": 2, "w": 4, "l": 8, "s": 4, "d": 8}


class Unsupported(Exception):
    pass


def cname(n):
    if n.startswith('"'):
        return n[1:-1]
    if n.startswith(".L"):
        return "L_" + re.sub(r"[^A-Za-z0-9_]", "_", n[2:])
    return re.sub(r"[^A-Za-z0-9_]", "_", n)


def lname(n):
    return "B_" + re.sub(r"[^A-Za-z0-9_]", "_", n)


def tname(n):
    return "t_" + re.sub(r"[^A-Za-z0-9_]", "_", n)


class TypeTable:
    """Size/alignment of aggregate types under QBE's rules."""

    def __init__(self, types):
        self.t = {}
        for t in types:
            self.t[t["name"]] = self._layout(t)

    def _fa(self, cls):
        if cls in SCLS:
            return SCLS[cls], SCLS[cls]
        if cls not in self.t:
            raise Unsupported("type %s used before definition" % cls)
        return self.t[cls]

    def _layout(self, t):
        if t["kind"] == "opaque":
            return t["size"], t["align"]
        size, align = 0, 1
        for alt in t["alts"]:
            off, al = 0, 1
            for f in alt:
                s, a = self._fa(f["cls"])
                off = (off + a - 1) // a * a + s * f["count"]
                al = max(al, a)
            off = (off + al - 1) // al * al
            size, align = max(size, off), max(align, al)
        size = (size + align - 1) // align * align
        return size, align

    def size(self, cls):
        return self.t[cls][0]

    def align(self, cls):
        return self.t[cls][1]


def translate(mod, main_rename=None):
    """Return C source text for a parsed module."""
    tt = TypeTable(mod["types"])
    out = [PRELUDE]
    defined_data = {d["name"] for d in mod["data"]}
    defined_func = {f["name"]: f for f in mod["funcs"]}
    refs = set()

    def note_val(v):
        if v and v.get("t") == "glob":
            refs.add((v["n"], v.get("thread", False)))

    for d in mod["data"]:
        for it in d["items"]:
            if it["k"] == "ref":
                refs.add((it["sym"], False))
    for f in mod["funcs"]:
        for b in f["blocks"]:
            if b["phi"]:
                for _, v in b["phi"]["srcs"]:
                    note_val(v)
            for ins in b["insts"]:
                for v in ins["args"]:
                    note_val(v)
                if ins["op"] == "call":
                    note_val(ins["callee"])
                    for a in ins["cargs"]:
                        if "val" in a:
                            note_val(a["val"])
            if b["jump"] and b["jump"]["arg"]:
                note_val(b["jump"]["arg"])

    def gname(n):
        if main_rename and n == "main":
            return main_rename
        return cname(n)

    # extern declarations for undefined symbols
    for n, thr in sorted(refs):
        if n not in defined_data and n not in defined_func:
            out.append("extern %schar %s[];" % ("__thread " if thr else "", gname(n)))

    # function prototypes
    def proto(f):
        ps = []
        if f["ret"] and f["ret"].startswith(":"):
            ps.append("il_u64 __ret")
        for p in f["params"]:
            ps.append("%s %s" % (CTYPE.get(p["cls"], "il_u64"), vname(p["name"])))
        if f["variadic"]:
            if not ps:
                raise Unsupported("variadic function without named parameter")
            ps.append("...")
        ret = "void" if not f["ret"] else ("il_u64" if f["ret"].startswith(":") else CTYPE[f["ret"]])
        return "%s%s %s(%s)" % ("" if f["export"] else "static ", ret, gname(f["name"]), ", ".join(ps) if ps else "void")

    def vname(n):
        return "v" + re.sub(r"[^A-Za-z0-9_]", "_", n)

    for f in mod["funcs"]:
        out.append(proto(f) + ";")

    # data: forward declare all (as packed structs), then define
    def data_struct(d):
        fields, inits = [], []
        k = 0
        for it in d["items"]:
            if it["k"] == "z":
                if it["n"] == 0:
                    continue
                fields.append("il_u8 f%d[%d];" % (k, it["n"]))
                inits.append("{0}")
            elif it["k"] == "str":
                if not it["bytes"]:
                    continue
                fields.append("il_u8 f%d[%d];" % (k, len(it["bytes"])))
                inits.append("{" + ",".join(map(str, it["bytes"])) + "}")
            elif it["k"] == "ref":
                if it["cls"] != "l":
                    raise Unsupported("non-pointer-sized relocation")
                fields.append("il_u64 f%d;" % k)
                inits.append("(il_u64)%s + %dUL" % ("&" + gname(it["sym"]) if it["sym"] in defined_func or it["sym"] in defined_data else gname(it["sym"]), it["off"]))
            else:
                cty = {"b": "il_u8", "h": "il_u16", "w": "il_u32", "l": "il_u64", "s": "float", "d": "double"}[it["cls"]]
                for v in it["vals"]:
                    fields.append("%s f%d;" % (cty, k))
                    if isinstance(v, dict):
                        inits.append(fconst(it["cls"], v["flt"]))
                    else:
                        inits.append("(%s)%dULL" % (cty, v & (2 ** (8 * SCLS[it["cls"]]) - 1)))
                    k += 1
                continue
            k += 1
        return fields, inits

    for d in mod["data"]:
        fields, _ = data_struct(d)
        out.append("struct D_%s { %s } __attribute__((packed));" % (cname(d["name"]), " ".join(fields) if fields else "il_u8 empty[0];"))
        out.append("%s%sstruct D_%s %s __attribute__((aligned(%d)));" % ("extern " if d["export"] else "static ", "__thread " if d["thread"] else "",
                                                                          cname(d["name"]), gname(d["name"]), d["align"] or 1))
    for d in mod["data"]:
        _, inits = data_struct(d)
        out.append("%s%sstruct D_%s %s __attribute__((aligned(%d))) = { %s };" % (
            "" if d["export"] else "static ", "__thread " if d["thread"] else "", cname(d["name"]), gname(d["name"]), d["align"] or 1, ", ".join(inits)))

    def addr_of(n):
        return "((il_u64)%s%s)" % ("&" if (n in defined_data or n in defined_func) else "", gname(n))

    def val(v, cls):
        """C expression for IL value v consumed in class cls ('w','l','s','d')."""
        t = v["t"]
        if t == "tmp":
            return vname(v["n"])
        if t == "glob":
            return addr_of(v["n"])
        if t == "int":
            if cls == "w":
                return "((il_u32)%dU)" % (v["v"] & 0xFFFFFFFF)
            if cls in ("s", "d"):
                raise Unsupported("integer constant in float class")
            return "((il_u64)%dUL)" % (v["v"] & 0xFFFFFFFFFFFFFFFF)
        return fconst(v["cls"], v["v"])

    for f in mod["funcs"]:
        out.append(translate_func(f, mod, tt, val, vname, gname, proto, defined_func))
    return "\n".join(out) + "\n"


def fconst(cls, text):
    neg = text.startswith("-")
    body = text[1:] if neg else text
    if body == "inf":
        e = "__builtin_inff()" if cls == "s" else "__builtin_inf()"
    elif body == "nan":
        e = "__builtin_nanf(\"\")" if cls == "s" else "__builtin_nan(\"\")"
    else:
        if not re.search(r"[.en]", body):
            body += ".0"
        e = body + ("f" if cls == "s" else "")
        if cls == "s":
            # %.17g of a float value: the decimal is the exact double; narrowing is exact
            e = "((float)%s)" % body
    return "(-%s)" % e if neg else e


BIN = {"add": "+", "sub": "-", "mul": "*", "or": "|", "xor": "^", "and": "&"}
CMP = {"eq": "==", "ne": "!=", "sle": "<=", "slt": "<", "sge": ">=", "sgt": ">", "ule": "<=", "ult": "<", "uge": ">=", "ugt": ">",
       "le": "<=", "lt": "<", "ge": ">=", "gt": ">"}


def translate_func(f, mod, tt, val, vname, gname, proto, defined_func):
    cls_of = {}
    for p in f["params"]:
        cls_of[p["name"]] = p["cls"] if p["cls"] in CTYPE else "l"
    for b in f["blocks"]:
        if b["phi"]:
            cls_of[b["phi"]["res"]] = b["phi"]["cls"]
        for ins in b["insts"]:
            if ins["res"] is not None:
                if ins["res"] in cls_of:
                    raise Unsupported("temporary %%%s defined twice in $%s" % (ins["res"], f["name"]))
                cls_of[ins["res"]] = ins["cls"] if ins["cls"] in CTYPE else "l"
    body = []
    params = {p["name"] for p in f["params"]}
    for n, c in cls_of.items():
        if n not in params:
            body.append("\t%s %s;" % (CTYPE[c], vname(n)))
    has_phi = any(b["phi"] for b in f["blocks"])
    if has_phi:
        body.append("\tint __prev = -1;")
    bid = {b["label"]: i for i, b in enumerate(f["blocks"])}
    lastparam = vname(f["params"][-1]["name"]) if f["params"] else None

    def V(v, cls):
        return val(v, cls)

    for bi, b in enumerate(f["blocks"]):
        body.append("%s: ;" % ilabel(b["label"]))
        if b["phi"]:
            ph = b["phi"]
            (l0, v0), (l1, v1) = ph["srcs"]
            if l0 not in bid or l1 not in bid:
                raise Unsupported("phi source names missing block")
            body.append("\t%s = (__prev == %d) ? %s : %s;" % (vname(ph["res"]), bid[l0], V(v0, ph["cls"]), V(v1, ph["cls"])))
        for ins in b["insts"]:
            body.append("\t" + translate_inst(ins, cls_of, V, vname, gname, tt, defined_func, lastparam, f))
        j = b["jump"]
        if has_phi:
            body.append("\t__prev = %d;" % bi)
        if j is None:
            if bi + 1 >= len(f["blocks"]):
                raise Unsupported("last block of $%s falls through" % f["name"])
            continue  # falls through to next block
        if j["k"] == "jmp":
            body.append("\tgoto %s;" % ilabel(j["targets"][0]))
        elif j["k"] == "jnz":
            body.append("\tif (%s) goto %s; else goto %s;" % (V(j["arg"], "w") if j["arg"]["t"] != "tmp" else "(il_u32)" + V(j["arg"], "w"), ilabel(j["targets"][0]), ilabel(j["targets"][1])))
        elif j["k"] == "hlt":
            body.append("\t__builtin_trap();")
        else:
            if f["ret"] is None:
                body.append("\treturn;")
            elif f["ret"].startswith(":") and j["arg"] is None:
                body.append("\treturn __ret;")
            elif f["ret"].startswith(":"):
                body.append("\t__builtin_memcpy((void*)__ret, (void*)%s, %d); return __ret;" % (V(j["arg"], "l"), tt.size(f["ret"])))
            else:
                if j["arg"] is None:
                    body.append("\treturn 0;")
                else:
                    body.append("\treturn %s;" % V(j["arg"], f["ret"]))
    return proto(f) + "\n{\n" + "\n".join(body) + "\n}\n"


def ilabel(n):
    return lname(n)


def translate_inst(ins, cls_of, V, vname, gname, tt, defined_func, lastparam, f):
    op, res, a = ins["op"], ins["res"], ins["args"]
    rc = cls_of.get(res) if res is not None else None
    R = vname(res) if res is not None else None
    ity = {"w": ("il_u32", "il_i32", 31), "l": ("il_u64", "il_i64", 63)}
    if op in BIN:
        if rc in ("s", "d"):
            return "%s = %s %s %s;" % (R, V(a[0], rc), BIN[op], V(a[1], rc))
        u = ity[rc][0]
        return "%s = (%s)((%s)%s %s (%s)%s);" % (R, u, u, V(a[0], rc), BIN[op], u, V(a[1], rc))
    if op == "neg":
        if rc in ("s", "d"):
            return "%s = -%s;" % (R, V(a[0], rc))
        return "%s = (%s)(0 - (%s)%s);" % (R, ity[rc][0], ity[rc][0], V(a[0], rc))
    if op in ("div", "rem"):
        o = "/" if op == "div" else "%"
        if rc in ("s", "d"):
            return "%s = %s / %s;" % (R, V(a[0], rc), V(a[1], rc))
        u, s, _ = ity[rc]
        return "%s = (%s)((%s)%s %s (%s)%s);" % (R, u, s, V(a[0], rc), o, s, V(a[1], rc))
    if op in ("udiv", "urem"):
        o = "/" if op == "udiv" else "%"
        u = ity[rc][0]
        return "%s = (%s)((%s)%s %s (%s)%s);" % (R, u, u, V(a[0], rc), o, u, V(a[1], rc))
    if op in ("shl", "shr", "sar"):
        u, s, m = ity[rc]
        cnt = "((il_u32)%s & %d)" % (V(a[1], "w"), m)
        if op == "shl":
            return "%s = (%s)((%s)%s << %s);" % (R, u, u, V(a[0], rc), cnt)
        if op == "shr":
            return "%s = (%s)((%s)%s >> %s);" % (R, u, u, V(a[0], rc), cnt)
        return "%s = (%s)((%s)%s >> %s);" % (R, u, s, V(a[0], rc), cnt)
    m = re.match(r"^c(eq|ne|sle|slt|sge|sgt|ule|ult|uge|ugt)([wl])$", op)
    if m:
        u, s, _ = ity[m.group(2)]
        t = s if m.group(1)[0] == "s" and m.group(1) not in ("eq", "ne") else u
        return "%s = ((%s)%s %s (%s)%s);" % (R, t, V(a[0], m.group(2)), CMP[m.group(1)], t, V(a[1], m.group(2)))
    m = re.match(r"^c(eq|ne|le|lt|ge|gt|o|uo)([sd])$", op)
    if m:
        if m.group(1) in ("o", "uo"):
            raise Unsupported(op)
        return "%s = (%s %s %s);" % (R, V(a[0], m.group(2)), CMP[m.group(1)], V(a[1], m.group(2)))
    if op in ("storeb", "storeh", "storew", "storel", "stores", "stored"):
        fn = {"storeb": ("st8", "w", "(il_u8)"), "storeh": ("st16", "w", "(il_u16)"), "storew": ("st32", "w", "(il_u32)"), "storel": ("st64", "l", ""),
              "stores": ("stf", "s", ""), "stored": ("std_", "d", "")}[op]
        return "%s(%s, %s%s);" % (fn[0], V(a[1], "l"), fn[2], V(a[0], fn[1]))
    if op in ("loadd", "loads"):
        return "%s = %s(%s);" % (R, "ldd" if op == "loadd" else "ldf", V(a[0], "l"))
    if op == "loadl":
        return "%s = ld64(%s);" % (R, V(a[0], "l"))
    if op in ("loadw", "loadsw", "loaduw", "loadsh", "loaduh", "loadsb", "loadub"):
        k = {"loadw": ("ld32", "il_i32"), "loadsw": ("ld32", "il_i32"), "loaduw": ("ld32", "il_u32"), "loadsh": ("ld16", "il_i16"), "loaduh": ("ld16", "il_u16"),
             "loadsb": ("ld8", "il_i8"), "loadub": ("ld8", "il_u8")}[op]
        big = "il_i64" if k[1][0] == "i" else "il_u64"
        return "%s = (%s)(%s)(%s)%s(%s);" % (R, CTYPE[rc], big, k[1], k[0], V(a[0], "l"))
    m = re.match(r"^alloc(4|8|16)$", op)
    if m:
        al = int(m.group(1))
        return "%s = (il_u64)__builtin_alloca_with_align(%s, %d); /* %s */" % (R, V(a[0], "l"), max(al, 8) * 8 if al == 16 else al * 8, op)
    if op in ("extsw", "extuw", "extsh", "extuh", "extsb", "extub"):
        st = {"extsw": "il_i32", "extuw": "il_u32", "extsh": "il_i16", "extuh": "il_u16", "extsb": "il_i8", "extub": "il_u8"}[op]
        big = "il_i64" if st[0] == "i" else "il_u64"
        return "%s = (%s)(%s)(%s)%s;" % (R, CTYPE[rc], big, st, V(a[0], "w"))
    if op == "exts":
        return "%s = (double)%s;" % (R, V(a[0], "s"))
    if op == "truncd":
        return "%s = (float)%s;" % (R, V(a[0], "d"))
    if op in ("stosi", "dtosi"):
        return "%s = (%s)(%s)%s;" % (R, CTYPE[rc], ity[rc][1], V(a[0], op[0]))
    if op in ("stoui", "dtoui"):
        return "%s = (%s)%s;" % (R, CTYPE[rc], V(a[0], op[0]))
    if op in ("swtof", "uwtof", "sltof", "ultof"):
        st = {"swtof": "il_i32", "uwtof": "il_u32", "sltof": "il_i64", "ultof": "il_u64"}[op]
        return "%s = (%s)(%s)%s;" % (R, CTYPE[rc], st, V(a[0], "w" if op[1] == "w" else "l"))
    if op == "vastart":
        if lastparam is None or not f["variadic"]:
            raise Unsupported("vastart in non-variadic function")
        return "__builtin_va_start(*(__builtin_va_list*)%s, %s);" % (V(a[0], "l"), lastparam)
    if op == "vaarg":
        cty = {"w": "il_u32", "l": "il_u64", "d": "double"}.get(rc)
        if not cty:
            raise Unsupported("vaarg class " + str(rc))
        return "%s = __builtin_va_arg(*(__builtin_va_list*)%s, %s);" % (R, V(a[0], "l"), cty)
    if op == "call":
        args, tys, pre = [], [], []
        variadic_at = None
        rcls = ins["cls"]
        for ca in ins["cargs"]:
            if ca.get("variadic"):
                variadic_at = len(args)
                continue
            c = ca["cls"]
            if c.startswith(":"):
                sz = tt.size(c)
                al = max(tt.align(c), 8)
                args.append("({il_u64 __c = (il_u64)__builtin_alloca_with_align(%d, %d); __builtin_memcpy((void*)__c, (void*)%s, %d); __c;})" % (max(sz, 1), al * 8, V(ca["val"], "l"), sz))
                tys.append("il_u64")
            else:
                args.append(V(ca["val"], c))
                tys.append(CTYPE[c])
        if rcls and rcls.startswith(":"):
            sz, al = tt.size(rcls), max(tt.align(rcls), 8)
            args.insert(0, "(il_u64)__builtin_alloca_with_align(%d, %d)" % (max(sz, 1), al * 8))
            tys.insert(0, "il_u64")
            if variadic_at is not None:
                variadic_at += 1
            rty = "il_u64"
        else:
            rty = CTYPE[rcls] if rcls else "void"
        if variadic_at is not None:
            sig = ", ".join(tys[:variadic_at] + ["..."]) if variadic_at > 0 else None
            if sig is None:
                raise Unsupported("variadic call without fixed argument")
        else:
            sig = ", ".join(tys) if tys else "void"
        cal = ins["callee"]
        if cal["t"] == "glob":
            target = "(void*)%s%s" % ("&" if cal["n"] in defined_func else "", gname(cal["n"]))
        else:
            target = "(void*)%s" % V(cal, "l")
        call = "((%s(*)(%s))%s)(%s)" % (rty, sig, target, ", ".join(args))
        return ("%s = %s;" % (R, call)) if R else call + ";"
    raise Unsupported("instruction '%s' is not in cproc's output language" % op)


if __name__ == "__main__":
    text = open(sys.argv[1]).read() if len(sys.argv) > 1 else sys.stdin.read()
    sys.stdout.write(translate(ilparse.parse(text)))


def build_native(il_text, workdir, name="prog", runtime_c=None, sanitize=True, main_rename=None, opt="-O1"):
    """IL text -> native executable path (raises Unsupported / ilparse.ILSyntaxError / RuntimeError)."""
    import os, subprocess
    mod = ilparse.parse(il_text)
    csrc = translate(mod, main_rename=main_rename)
    cpath = os.path.join(workdir, name + ".il.c")
    with open(cpath, "w") as f:
        f.write(csrc)
    exe = os.path.join(workdir, name)
    cmd = ["gcc", "-w", "-fno-pie", "-no-pie", "-fno-builtin", "-fno-strict-aliasing", "-fwrapv", opt, "-o", exe, cpath]
    if sanitize:
        cmd[1:1] = ["-fsanitize=address", "-fno-omit-frame-pointer"]
    if runtime_c:
        cmd.append(runtime_c)
    p = subprocess.run(cmd, stdout=subprocess.PIPE, stderr=subprocess.STDOUT, text=True)
    if p.returncode != 0:
        raise RuntimeError("gcc failed on translated IL:\n" + p.stdout[-3000:])
    return exe


ASAN_RC = 213


def run_native(exe, args=(), timeout=10, stdin=None):
    """-> (rc, stdout str, stderr str); rc < 0 signal, -999 timeout. ASan reports make rc ASAN_RC (programs under test exit with <= 127)."""
    import os, subprocess
    env = dict(os.environ, ASAN_OPTIONS="detect_leaks=0:exitcode=%d:" % ASAN_RC + "abort_on_error=0")
    try:
        p = subprocess.run([exe] + list(args), input=stdin, stdout=subprocess.PIPE, stderr=subprocess.PIPE, timeout=timeout, env=env)
        return p.returncode, p.stdout.decode("utf-8", "replace"), p.stderr.decode("utf-8", "replace")
    except subprocess.TimeoutExpired as ex:
        return -999, (ex.stdout or b"").decode("utf-8", "replace"), (ex.stderr or b"").decode("utf-8", "replace")
