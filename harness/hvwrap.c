/* Harvest wrapper (corpus/README): stands in for cproc-qbe while a check runs with VERIF_HARVEST=<dir>; saves every
 * distinct input (stdin or the file operand) as <dir>/<fnv64>+<target>+<mode>.c and then runs the real compiler on it.
 * Never used by a registered check. */
#include <fcntl.h>
#include <stdio.h>
#include <stdlib.h>
#include <string.h>
#include <unistd.h>

int main(int argc, char *argv[]) {
	const char *dir = getenv("VERIF_HARVEST"), *target = "x86_64-sysv", *file = NULL;
	int mode = 'c', plain = 1, i;
	for (i = 1; i < argc; i++) {
		if (!strcmp(argv[i], "-t") && i + 1 < argc) target = argv[++i];
		else if (!strcmp(argv[i], "-E")) mode = 'E';
		else if (argv[i][0] == '-' && argv[i][1]) plain = 0;
		else if (argv[i][0] != '-') file = argv[i];
	}
	if (dir && plain) {
		size_t cap = 1 << 16, n = 0;
		char *buf = malloc(cap);
		int fd = file ? open(file, O_RDONLY) : 0;
		ssize_t r;
		if (fd >= 0 && buf) {
			while ((r = read(fd, buf + n, cap - n)) > 0) {
				n += r;
				if (n == cap) { cap *= 2; buf = realloc(buf, cap); if (!buf) break; }
			}
			if (buf && n <= (1 << 20)) {
				unsigned long long h = 1469598103934665603ULL;
				char path[4096];
				for (size_t k = 0; k < n; k++) { h ^= (unsigned char)buf[k]; h *= 1099511628211ULL; }
				snprintf(path, sizeof path, "%s/%016llx+%s+%c.c", dir, h, target, mode);
				if (access(path, F_OK) != 0) {
					char tmp[4200];
					snprintf(tmp, sizeof tmp, "%s.%d", path, (int)getpid());
					int o = open(tmp, O_WRONLY | O_CREAT | O_TRUNC, 0644);
					if (o >= 0) { if (write(o, buf, n) == (ssize_t)n) { close(o); rename(tmp, path); } else { close(o); unlink(tmp); } }
				}
				if (!file) {
					/* hand the bytes we consumed to the real compiler */
					int p[2];
					if (pipe(p) == 0) {
						if (n <= 60000 || fork() == 0) {
							/* small inputs fit the pipe buffer; larger ones are fed by a child */
							size_t off = 0;
							while (off < n) { ssize_t w = write(p[1], buf + off, n - off); if (w <= 0) break; off += w; }
							if (n > 60000) _exit(0);
						}
						close(p[1]);
						dup2(p[0], 0);
						close(p[0]);
					}
				}
			} else if (!file) {
				return 111;   /* too large to harvest from stdin: cannot replay it */
			}
		}
	}
	execv(REAL, argv);
	perror("hvwrap: exec");
	return 111;
}
