/* vstub — stand-in for the five tools the cproc driver runs (C17/C18).
 *
 * Installed under the names the generated config.h uses (…cpp, cproc-qbe, …qbe, …as, …ld);
 * the role is derived from the base name of argv[0].
 *
 * Every invocation
 *   1. claims the next free index k for its role by creating $VSTUB_DIR/log/<role>.<k>
 *      (O_EXCL) and writes its argv there, NUL separated (the driver runs the inputs one
 *      after the other, so k = number of earlier pipelines that used this tool);
 *   2. if $VSTUB_DIR/beh/<role>.<k> exists, executes that script (C18, see below);
 *   3. otherwise behaves like a well-behaved tool (C17): reads its whole input — the last
 *      argv word if it names a regular file of the run (relative path or /tmp/cproc-*) that is
 *      not the -o operand, else stdin; for ld every such argv word — and writes "<role>(<input>)" to the -o
 *      operand (last -o) or to stdout, exit 0.
 *
 * Script, one op per line:
 *   open            create/truncate the output file now (no-op when output is stdout)
 *   read N          read N bytes of input (stops early at EOF)
 *   drain           read input until EOF
 *   write N         write N bytes to the output (blocking; SIGPIPE has its default action)
 *   sleep MS        sleep MS milliseconds
 *   touch PATH      create PATH
 *   waitfile PATH   poll until PATH exists (gives up after 20 s, exit 98)
 *   rm PATH         unlink PATH
 *   mark WORD       append "<role>.<k> WORD" to $VSTUB_DIR/log/events
 *   exit N          _exit(N)
 *   sig N           kill(getpid(), N)
 */
#define _GNU_SOURCE
#include <errno.h>
#include <fcntl.h>
#include <signal.h>
#include <stdio.h>
#include <stdlib.h>
#include <string.h>
#include <sys/stat.h>
#include <time.h>
#include <unistd.h>

static char role[16], dir[3000], self[64];
static int infd = 0, outfd = 1;
static const char *outpath, *inpath;

static void die(const char *what)
{
	fprintf(stderr, "vstub(%s): %s: %s\n", role, what, strerror(errno));
	_exit(97);
}

/* a file of the run: a relative path or one of the driver's temporaries (the base commands of
 * config.h name real files of the host, e.g. the dynamic linker) */
static int isreg(const char *p)
{
	struct stat st;
	if (p[0] == '/' && strncmp(p, "/tmp/cproc-", 11) != 0)
		return 0;
	return stat(p, &st) == 0 && S_ISREG(st.st_mode);
}

static int endswith(const char *s, const char *suf)
{
	size_t n = strlen(s), m = strlen(suf);
	return n >= m && strcmp(s + n - m, suf) == 0;
}

static void msleep(long ms)
{
	struct timespec ts = {ms / 1000, (ms % 1000) * 1000000L};
	while (nanosleep(&ts, &ts) < 0 && errno == EINTR)
		;
}

static void openout(void)
{
	if (outpath && outfd == 1) {
		outfd = open(outpath, O_WRONLY | O_CREAT | O_TRUNC, 0644);
		if (outfd < 0)
			die(outpath);
	}
}

static void wr(const char *buf, size_t n)
{
	while (n) {
		ssize_t r = write(outfd, buf, n);
		if (r < 0) {
			if (errno == EINTR)
				continue;
			die("write");
		}
		buf += r, n -= r;
	}
}

static size_t slurp(int fd, char **buf, size_t *len, size_t *cap, size_t want)
{
	size_t got = 0;
	for (;;) {
		if (*cap - *len < 65536) {
			*cap = *cap ? *cap * 2 : 1 << 17;
			*buf = realloc(*buf, *cap);
			if (!*buf)
				die("realloc");
		}
		size_t ask = 65536;
		if (want && want - got < ask)
			ask = want - got;
		ssize_t r = read(fd, *buf + *len, ask);
		if (r < 0) {
			if (errno == EINTR)
				continue;
			die("read");
		}
		if (r == 0)
			break;
		*len += r, got += r;
		if (want && got >= want)
			break;
	}
	return got;
}

int main(int argc, char **argv)
{
	const char *d = getenv("VSTUB_DIR"), *base;
	char path[4096];
	int i, k, fd, oidx = -1;

	base = strrchr(argv[0], '/');
	base = base ? base + 1 : argv[0];
	if (strcmp(base, "cproc-qbe") == 0) strcpy(role, "cc");
	else if (endswith(base, "cpp")) strcpy(role, "cpp");
	else if (endswith(base, "qbe")) strcpy(role, "qbe");
	else if (endswith(base, "as")) strcpy(role, "as");
	else if (endswith(base, "ld")) strcpy(role, "ld");
	else strcpy(role, "unknown");
	if (!d || strlen(d) > sizeof(dir) - 1) {
		errno = EINVAL;
		die("VSTUB_DIR");
	}
	strcpy(dir, d);

	for (k = 0;; ++k) {
		snprintf(path, sizeof(path), "%s/log/%s.%d", dir, role, k);
		fd = open(path, O_WRONLY | O_CREAT | O_EXCL, 0644);
		if (fd >= 0)
			break;
		if (errno != EEXIST)
			die(path);
	}
	snprintf(self, sizeof(self), "%s.%d", role, k);
	for (i = 0; i < argc; ++i)
		if (write(fd, argv[i], strlen(argv[i]) + 1) < 0)
			die("log");
	close(fd);

	for (i = 1; i + 1 < argc; ++i)
		if (strcmp(argv[i], "-o") == 0)
			oidx = i + 1;
	if (oidx > 0)
		outpath = argv[oidx];
	if (strcmp(role, "ld") != 0 && argc > 1 && argc - 1 != oidx && isreg(argv[argc - 1]))
		inpath = argv[argc - 1];
	if (inpath) {
		infd = open(inpath, O_RDONLY);
		if (infd < 0)
			die(inpath);
	}

	char *buf = NULL;
	size_t len = 0, cap = 0;

	snprintf(path, sizeof(path), "%s/beh/%s", dir, self);
	FILE *beh = fopen(path, "r");
	if (!beh) {
		/* well-behaved tool */
		if (strcmp(role, "ld") == 0) {
			int first = 1;
			for (i = 1; i < argc; ++i) {
				if (i == oidx || !isreg(argv[i]))
					continue;
				fd = open(argv[i], O_RDONLY);
				if (fd < 0)
					die(argv[i]);
				if (!first) {
					if (cap - len < 1) { cap = cap ? cap * 2 : 1 << 17; buf = realloc(buf, cap); }
					buf[len++] = ',';
				}
				first = 0;
				slurp(fd, &buf, &len, &cap, 0);
				close(fd);
			}
		} else {
			slurp(infd, &buf, &len, &cap, 0);
		}
		openout();
		wr(role, strlen(role));
		wr("(", 1);
		wr(buf, len);
		wr(")", 1);
		_exit(0);
	}

	char line[4200], arg[4096];
	while (fgets(line, sizeof(line), beh)) {
		char op[32];
		arg[0] = 0;
		if (sscanf(line, "%31s %4095s", op, arg) < 1)
			continue;
		if (strcmp(op, "open") == 0) {
			openout();
		} else if (strcmp(op, "read") == 0) {
			len = 0;
			slurp(infd, &buf, &len, &cap, strtoul(arg, NULL, 10));
		} else if (strcmp(op, "drain") == 0) {
			do len = 0; while (slurp(infd, &buf, &len, &cap, 1 << 20) > 0);
		} else if (strcmp(op, "write") == 0) {
			size_t n = strtoul(arg, NULL, 10);
			char *x = malloc(n ? n : 1);
			memset(x, 'x', n);
			openout();
			wr(x, n);
			free(x);
		} else if (strcmp(op, "sleep") == 0) {
			msleep(strtol(arg, NULL, 10));
		} else if (strcmp(op, "touch") == 0) {
			fd = open(arg, O_WRONLY | O_CREAT, 0644);
			if (fd >= 0)
				close(fd);
		} else if (strcmp(op, "waitfile") == 0) {
			int n = 0;
			while (access(arg, F_OK) != 0) {
				if (++n > 20000)
					_exit(98);
				msleep(1);
			}
		} else if (strcmp(op, "rm") == 0) {
			unlink(arg);
		} else if (strcmp(op, "mark") == 0) {
			snprintf(path, sizeof(path), "%s/log/events", dir);
			fd = open(path, O_WRONLY | O_CREAT | O_APPEND, 0644);
			if (fd >= 0) {
				char m[200];
				int n = snprintf(m, sizeof(m), "%s %s\n", self, arg);
				if (write(fd, m, n) < 0) {}
				close(fd);
			}
		} else if (strcmp(op, "exit") == 0) {
			_exit(atoi(arg));
		} else if (strcmp(op, "sig") == 0) {
			signal(atoi(arg), SIG_DFL);
			kill(getpid(), atoi(arg));
			msleep(5000);
			_exit(96);
		} else {
			errno = EINVAL;
			die(op);
		}
	}
	_exit(0);
}
