"""Stage 2 of C02: cproc compiled by cproc.  There is no QBE here, so the backend is
substituted: cpp (flags of config.h) -> stage-1 cproc-qbe -> IL -> il2c -> gcc -> link."""
import os, shutil, subprocess, glob
import vlib, il2c, ilparse

SRC = ["attr", "decl", "eval", "expr", "init", "main", "map", "pp", "scan", "scope", "stmt", "targ", "token", "tree", "type", "utf", "util", "qbe"]
CPPFLAGS = ["-U__GNUC__", "-U__GNUC_MINOR__", "-D__STDC_NO_ATOMICS__", "-D__STDC_NO_COMPLEX__", "-U__SIZEOF_INT128__", "-U__PIC__", "-D__extension__="]


def preprocess(name, outdir, hooks=False):
    out = os.path.join(outdir, name + ".i")
    cmd = ["cpp"] + CPPFLAGS + (["-D" + vlib.GUARD] if hooks else []) + [os.path.join(vlib.REPO, name + ".c"), "-o", out]
    p = subprocess.run(cmd, stdout=subprocess.PIPE, stderr=subprocess.STDOUT, text=True)
    if p.returncode != 0:
        raise vlib.MachineryError("cpp failed on %s: %s" % (name, p.stdout[-2000:]))
    return out


def build(flavour="plain"):
    """-> objdir containing the stage-2 cproc-qbe (cached per repo hash). flavour: plain|hooks.
    Raises Stage2Failure(kind, detail) if stage 1 cannot compile its own sources or emits IL that does not translate."""
    hooks = flavour == "hooks"
    s1 = vlib._build_stage1("plain")
    key = vlib.repo_hash() + "-s2" + flavour
    root = os.path.join(vlib.WORK, "build")
    d = os.path.join(root, key)
    if os.path.exists(os.path.join(d, ".ok")):
        return d
    import time
    for old in glob.glob(os.path.join(root, "*-s2" + flavour)):
        try:
            if time.time() - os.path.getmtime(os.path.join(old, ".ok")) > 1800:
                shutil.rmtree(old, ignore_errors=True)
        except OSError:
            pass
    tmp = d + ".tmp%d" % os.getpid()
    shutil.rmtree(tmp, ignore_errors=True)
    os.makedirs(tmp)

    def one(name):
        ipath = preprocess(name, tmp, hooks)
        rc, out, err = vlib.cproc(s1, None, "x86_64-sysv", path=ipath, timeout=60)
        if rc != 0:
            return ("stage1-rejects-own-source", "%s: rc=%s %s" % (name, rc, err[-500:]))
        try:
            csrc = il2c.translate(ilparse.parse(out))
        except (ilparse.ILSyntaxError, il2c.Unsupported) as ex:
            return ("own-source-il-untranslatable", "%s: %s" % (name, ex))
        cpath = os.path.join(tmp, name + ".il.c")
        open(cpath, "w").write(csrc)
        p = subprocess.run(["gcc", "-w", "-fno-pie", "-fno-builtin", "-fno-strict-aliasing", "-fwrapv", "-O1", "-c", "-o", os.path.join(tmp, name + ".o"), cpath],
                           stdout=subprocess.PIPE, stderr=subprocess.STDOUT, text=True)
        if p.returncode != 0:
            return ("own-source-il-not-compilable", "%s: %s" % (name, p.stdout[-800:]))
        return None

    errs = [e for e in vlib.pmap(one, SRC) if e]
    if errs:
        shutil.rmtree(tmp, ignore_errors=True)
        raise Stage2Failure(errs[0][0], errs[0][1])
    p = subprocess.run(["gcc", "-no-pie", "-o", os.path.join(tmp, "cproc-qbe")] + [os.path.join(tmp, n + ".o") for n in SRC],
                       stdout=subprocess.PIPE, stderr=subprocess.STDOUT, text=True)
    if p.returncode != 0:
        shutil.rmtree(tmp, ignore_errors=True)
        raise Stage2Failure("stage2-link", p.stdout[-1500:])
    for junk in glob.glob(os.path.join(tmp, "*.il.c")) + glob.glob(os.path.join(tmp, "*.o")):
        os.unlink(junk)
    open(os.path.join(tmp, ".ok"), "w").close()
    try:
        os.rename(tmp, d)
    except OSError:
        shutil.rmtree(tmp, ignore_errors=True)
    # stable alias for other checks (C20's binary dimension)
    alias = os.path.join(vlib.WORK, "stage2")
    os.makedirs(alias, exist_ok=True)
    if flavour == "plain":
        shutil.copy2(os.path.join(d, "cproc-qbe"), os.path.join(alias, "cproc-qbe.new"))
        os.replace(os.path.join(alias, "cproc-qbe.new"), os.path.join(alias, "cproc-qbe"))
    return d


class Stage2Failure(Exception):
    def __init__(self, kind, detail):
        Exception.__init__(self, kind + ": " + detail)
        self.kind, self.detail = kind, detail
