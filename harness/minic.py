"""MiniC ASTs for spec/CSem.tla: builders, JSON form, and the renderer to C source (glue; no semantics here)."""
import json

INTS = ["bool", "char", "schar", "uchar", "short", "ushort", "int", "uint", "long", "ulong", "llong", "ullong"]
CNAME = {"bool": "_Bool", "char": "char", "schar": "signed char", "uchar": "unsigned char", "short": "short", "ushort": "unsigned short",
         "int": "int", "uint": "unsigned", "long": "long", "ulong": "unsigned long", "llong": "long long", "ullong": "unsigned long long"}
SIZE = {"bool": 1, "char": 1, "schar": 1, "uchar": 1, "short": 2, "ushort": 2, "int": 4, "uint": 4, "long": 8, "ulong": 8, "llong": 8, "ullong": 8}
SUFFIX = {"int": "", "uint": "U", "long": "L", "ulong": "UL", "llong": "LL", "ullong": "ULL"}


def w8(n):
    n &= (1 << 64) - 1
    return [(n >> (8 * i)) & 255 for i in range(8)]


def from_w8(b, signed=True):
    n = sum(x << (8 * i) for i, x in enumerate(b))
    return n - (1 << 64) if signed and n >> 63 else n


# ---- types ----
def T(n): return {"k": "i", "n": n}
def F(n): return {"k": "f", "n": n}
def TY(n): return F(n) if n in ("float", "double") else T(n)
def flit(n, neg, mag): return {"k": "flit", "t": F(n), "neg": bool(neg), "mag": mag if isinstance(mag, list) else w8(mag)}
def P(t): return {"k": "p", "t": t}
def FP(ret, ps): return {"k": "fp", "ret": ret, "ps": ps}
def fnref(n, t): return {"k": "fnref", "n": n, "t": t}
def s_alloca(n, t, length): return {"k": "alloca", "n": n, "t": t, "len": length}
def A(t, n): return {"k": "a", "t": t, "n": n}
def St(i): return {"k": "s", "id": i}


# ---- expressions ----
def lit(n, v): return {"k": "lit", "t": T(n), "v": w8(v)}
def var(n): return {"k": "var", "n": n}
def un(op, e): return {"k": "un", "op": op, "e": e}
def bin_(op, l, r): return {"k": "bin", "op": op, "l": l, "r": r}
def cast(t, e): return {"k": "cast", "t": t, "e": e}
def cond(c, a, b): return {"k": "cond", "c": c, "a": a, "b": b}
def idx(a, i): return {"k": "idx", "a": a, "i": i}
def deref(e): return {"k": "deref", "e": e}
def mem(e, f): return {"k": "mem", "e": e, "f": f}
def addr(l): return {"k": "addr", "l": l}
def clit(t, init): return {"k": "clit", "t": t, "init": init}
def s_static(n, t, init, uid, thread=False):
    d = {"k": "static", "n": n, "u": uid, "t": t, "thread": thread}
    if init is not None:
        d["init"] = init
    return d
def misalign(l, n): return {"k": "misalign", "l": l, "n": n}
def sizeof_(l): return {"k": "sizeof", "l": l}
def s_vla(n, t, length, length2=None):
    d = {"k": "vla", "n": n, "t": t, "len": length}
    if length2 is not None:
        d["len2"] = length2
    return d
def s_vtypedef(n, t, length, length2=None):
    d = {"k": "vtypedef", "n": n, "t": t, "len": length}
    if length2 is not None:
        d["len2"] = length2
    return d
def s_vlat(n, tn): return {"k": "vlat", "n": n, "tn": tn}
def incdec(l, dec=False, post=False): return {"k": "incdec", "l": l, "dec": dec, "post": post}
def strlit(n, bs): return {"k": "strlit", "n": n, "bytes": list(bs)}
def s_strobj(n, bs, charsigned):
    """the hidden array object a string literal denotes (CSem declares it; the C text only has the literal)"""
    def cv(b): return b - 256 if charsigned and b > 127 else b
    return {"k": "decl", "n": n, "t": A(T("char"), len(bs) + 1), "hidden": True,
            "init": {"list": [i_e(cast(T("char"), lit("int", cv(b)))) for b in bs]}}
def sc_e(op, a, b): return {"k": "sc", "op": op, "a": a, "b": b}
def scond_e(c, a, b): return {"k": "scond", "c": c, "a": a, "b": b}
def scomma_e(a, b): return {"k": "scomma", "a": a, "b": b}
def asg_e(op, l, r): return {"k": "asg", "op": op, "l": l, "r": r}
def chain(ops, es): return {"k": "chain", "ops": list(ops), "es": list(es)}


# ---- statements ----
def s_expr(e): return {"k": "expr", "e": e}
def s_asg(op, l, r): return {"k": "asg", "op": op, "l": l, "r": r}
def s_obs(e): return {"k": "obs", "e": e}
def s_decl(n, t, init=None, al=0):
    d = {"k": "decl", "n": n, "t": t}
    if al:
        d["al"] = al
    if init is not None:
        d["init"] = init
    return d
def i_e(e): return {"e": e}
def i_list(xs): return {"list": xs}
def s_block(ss): return {"k": "block", "ss": ss}
def s_if(c, a, b=None):
    d = {"k": "if", "c": c, "a": a}
    if b is not None:
        d["b"] = b
    return d
def s_while(c, body): return {"k": "while", "c": c, "body": body}
def s_do(body, c): return {"k": "do", "c": c, "body": body}
def s_for(init, c, step, body): return {"k": "for", "init": init or s_nop(), "c": c or lit("int", 1), "step": step or s_nop(), "body": body}
def s_nop(): return {"k": "nop"}
def s_goto(n): return {"k": "goto", "n": n}
def s_label(n): return {"k": "label", "n": n}
def s_break(): return {"k": "break"}
def s_continue(): return {"k": "continue"}
def s_case(v): return {"k": "case", "v": w8(v)}
def s_default(): return {"k": "default"}
def s_switch(e, body): return {"k": "switch", "e": e, "body": body}
def s_call(f, args, l=None, fe=None):
    d = {"k": "call", "f": f, "args": args}
    if fe is not None:
        d["fe"] = fe
    if l is not None:
        d["l"] = l
    return d
def s_va_arg(l, t): return {"k": "va_arg", "l": l, "t": t}
def s_ret(e=None):
    d = {"k": "ret"}
    if e is not None:
        d["e"] = e
    return d


def func(name, ret, params, body, variadic=False):
    return {"name": name, "ret": ret, "params": [{"n": n, "t": t} for n, t in params], "body": body, "variadic": variadic}
def struct(name, fields, union=False):
    """fields: (name, type, bitwidth[, alignas])"""
    d = {"name": name, "fields": [{"n": f[0], "t": f[1], "bw": f[2], "al": f[3] if len(f) > 3 else 0} for f in fields]}
    if union:
        d["union"] = True
    return d
def i_um(member, init): return {"um": member, "i": init}      # union initialiser { .member = init }
def program(structs, globals_, funcs, charsigned=True): return {"charsigned": charsigned, "structs": structs, "globals": globals_, "funcs": funcs}


# ---- rendering ----
def ctype(t, structs, inner=""):
    """C declarator text for type t around `inner`."""
    if t["k"] == "i":
        return (CNAME[t["n"]] + " " + inner).rstrip()
    if t["k"] == "f":
        return (t["n"] + " " + inner).rstrip()
    if t["k"] == "s":
        return ("%s %s %s" % ("union" if structs[t["id"] - 1].get("union") else "struct", structs[t["id"] - 1]["name"], inner)).rstrip()
    if t["k"] == "fp":
        return ctype(t["ret"], structs, "(*%s)(%s)" % (inner, ", ".join(ctype(q, structs) for q in t["ps"]) or "void"))
    if t["k"] == "p":
        sub = "*" + inner
        if t["t"]["k"] == "a":
            sub = "(" + sub + ")"
        return ctype(t["t"], structs, sub)
    if t["k"] == "a":
        return ctype(t["t"], structs, "%s[%d]" % (inner, t["n"]))
    raise ValueError(t)


def rlit(e):
    n = e["t"]["n"]
    if n == "bool":
        return "((_Bool)%d)" % (1 if any(e["v"]) else 0)
    signed = n in ("char", "schar", "short", "int", "long", "llong")
    v = from_w8(e["v"], signed=signed)
    if not signed:
        v &= (1 << (8 * SIZE[n])) - 1
    # the same constant may be spelled in another base: an unsuffixed (or l/ll-suffixed) octal or hexadecimal constant takes
    # the unsigned type when the signed one cannot hold it (6.4.4.1p5), so these spellings have exactly the type n
    if n == "uint" and v >= 1 << 31 and v % 3:
        return ("0x%x" if v % 3 == 1 else "0%o") % v
    if n in ("ulong", "ullong") and v >= 1 << 63 and v % 3:
        return (("0x%x" if v % 3 == 1 else "0%o") % v) + ("L" if n == "ulong" else "LL")
    if n in SUFFIX:
        if v < 0:
            mn = -(1 << (8 * SIZE[n] - 1))
            if v == mn:
                return "(-%d%s-1)" % (-(mn + 1), SUFFIX[n])
            return "(-%d%s)" % (-v, SUFFIX[n])
        return "%d%s" % (v, SUFFIX[n])
    return "((%s)%s)" % (CNAME[n], ("(-%d)" % -v) if v < 0 else str(v))


def rexpr(e, structs):
    k = e["k"]
    r = lambda x: rexpr(x, structs)
    if k == "lit":
        return rlit(e)
    if k == "fnref":
        return e["n"]
    if k == "flit":
        m = from_w8(e["mag"], signed=False)
        return "(%s%d.0%s)" % ("-" if e["neg"] else "", m, "f" if e["t"]["n"] == "float" else "")
    if k == "var":
        return e["n"]
    if k == "un":
        return "(%s%s)" % (e["op"], r(e["e"]))
    if k == "bin":
        return "(%s %s %s)" % (r(e["l"]), e["op"], r(e["r"]))
    if k == "cast":
        return "((%s)%s)" % (ctype(e["t"], structs), r(e["e"]))
    if k == "cond":
        return "(%s ? %s : %s)" % (r(e["c"]), r(e["a"]), r(e["b"]))
    if k == "idx":
        return "%s[%s]" % (r(e["a"]), r(e["i"]))
    if k == "deref":
        return "(*%s)" % r(e["e"])
    if k == "mem":
        return "%s.%s" % (r(e["e"]), e["f"])
    if k == "addr":
        return "(&%s)" % r(e["l"])
    if k == "sizeof":
        return "sizeof(%s)" % r(e["l"])
    if k == "misalign":
        return "((unsigned long)&%s %% %d)" % (r(e["l"]), e["n"])
    if k == "clit":
        return "((%s)%s)" % (ctype(e["t"], structs), rinit(e["init"] if "list" in e["init"] else {"list": [e["init"]]}, structs))
    if k == "incdec":
        op = "--" if e["dec"] else "++"
        return "(%s%s)" % (r(e["l"]), op) if e["post"] else "(%s%s)" % (op, r(e["l"]))
    if k == "asg":
        return "(%s %s %s)" % (r(e["l"]), e["op"], r(e["r"]))
    if k == "strlit":
        return '"' + "".join(chr(b) if (48 <= b < 58 or 65 <= b < 91 or 97 <= b < 123 or b in b" _+-*/=<>()[]{},.;:!#%&^|~") else "\\%03o" % b for b in e["bytes"]) + '"'
    if k == "sc":
        return "(%s %s %s)" % (r(e["a"]), e["op"], r(e["b"]))
    if k == "scond":
        return "(%s ? %s : %s)" % (r(e["c"]), r(e["a"]), r(e["b"]))
    if k == "scomma":
        return "(%s, %s)" % (r(e["a"]), r(e["b"]))
    if k == "chain":     # e1 op1 e2 op2 e3 ...: the bare token sequence; which operands belong to which operator is the grammar's business (OpCases.tla GrammarTree)
        out = [r(e["es"][0])]
        for op, x in zip(e["ops"], e["es"][1:]):
            out += [op, r(x)]
        return " ".join(out)
    raise ValueError(k)


def rinit(i, structs):
    if "e" in i:
        return rexpr(i["e"], structs)
    if "um" in i:
        return "{.%s = %s}" % (i["um"], rinit(i["i"], structs))
    return "{" + ", ".join(rinit(x, structs) for x in i["list"]) + "}"


def rjoined(ss, structs, ind):
    """statements rendered in order; a declaration marked "join" becomes a further declarator of the declaration before it
    (`static int a = 1, b;`): a list of declarators means the same as the declarations one after the other (6.7p1-6)"""
    out = []
    for x in ss:
        if x.get("join") and out and x["k"] in ("decl", "static") and out[-1].rstrip().endswith(";"):
            d = x["n"] + (" = " + rinit(x["init"], structs) if "init" in x else "")
            out[-1] = out[-1].rstrip()[:-1] + ", " + d + ";\n"
        else:
            out.append(rstmt(x, structs, ind))
    return out


def rstmt(s, structs, ind=1):
    t = "\t" * ind
    k = s["k"]
    r = lambda x: rexpr(x, structs)
    if k == "expr":
        return t + r(s["e"]) + ";\n"
    if k == "asg":
        return t + "%s %s %s;\n" % (r(s["l"]), s["op"], r(s["r"]))
    if k == "obs":
        return t + "obs(%s);\n" % r(s["e"])
    if k == "decl" and s.get("hidden"):
        return ""
    if k == "decl":
        d = ("_Alignas(%d) " % s["al"] if s.get("al") else "") + ctype(s["t"], structs, s["n"])
        if "init" in s:
            d += " = " + rinit(s["init"], structs)
        return t + d + ";\n"
    if k == "static":
        d = ("static _Thread_local " if s.get("thread") else "static ") + ctype(s["t"], structs, s["n"])
        if "init" in s:
            d += " = " + rinit(s["init"], structs)
        return t + d + ";\n"
    if k == "alloca":
        return t + "%s = __builtin_alloca(sizeof(%s) * (%s));\n" % (ctype({"k": "p", "t": s["t"]}, structs, s["n"]), ctype(s["t"], structs), r(s["len"]))
    if k == "vla":
        return t + ctype(s["t"], structs, "%s[%s]%s" % (s["n"], r(s["len"]), "[%s]" % r(s["len2"]) if "len2" in s else "")) + ";\n"
    if k == "vtypedef":
        return t + "typedef " + ctype(s["t"], structs, "%s[%s]%s" % (s["n"], r(s["len"]), "[%s]" % r(s["len2"]) if "len2" in s else "")) + ";\n"
    if k == "vlat":
        return t + "%s %s;\n" % (s["tn"], s["n"])
    if k == "block":
        return t + "{\n" + "".join(rjoined(s["ss"], structs, ind + 1)) + t + "}\n"
    if k == "if":
        o = t + "if (%s)\n" % r(s["c"]) + rstmt(s["a"], structs, ind + 1)
        if "b" in s:
            o += t + "else\n" + rstmt(s["b"], structs, ind + 1)
        return o
    if k == "while":
        return t + "while (%s)\n" % r(s["c"]) + rstmt(s["body"], structs, ind + 1)
    if k == "do":
        return t + "do\n" + rstmt(s["body"], structs, ind + 1) + t + "while (%s);\n" % r(s["c"])
    if k == "for":
        init = rstmt(s["init"], structs, 0).strip()
        if not init.endswith(";"):
            init = ";"
        step = rstmt(s["step"], structs, 0).strip().rstrip(";")
        return t + "for (%s %s; %s)\n" % (init, r(s["c"]), step) + rstmt(s["body"], structs, ind + 1)
    if k == "nop":
        return t + ";\n"
    if k == "goto":
        return t + "goto %s;\n" % s["n"]
    if k == "label":
        return t + "%s:;\n" % s["n"]
    if k == "break":
        return t + "break;\n"
    if k == "continue":
        return t + "continue;\n"
    if k == "case":
        v = from_w8(s["v"])
        return t + "case %s:;\n" % (("(-%dLL-1)" % -(v + 1)) if v < 0 else "%dULL" % v if v >= 2 ** 63 else "%dLL" % v)
    if k == "default":
        return t + "default:;\n"
    if k == "switch":
        return t + "switch (%s) {\n" % r(s["e"]) + "".join(rstmt(x, structs, ind + 1) for x in s["body"]) + t + "}\n"
    if k == "call":
        c = "%s(%s)" % (r(s["fe"]) if "fe" in s else s["f"], ", ".join(r(a) for a in s["args"]))
        return t + ("%s = %s;\n" % (r(s["l"]), c) if "l" in s else c + ";\n")
    if k == "va_arg":
        return t + "%s = __builtin_va_arg(ap__, %s);\n" % (r(s["l"]), ctype(s["t"], structs))
    if k == "ret":
        return t + ("return %s;\n" % r(s["e"]) if "e" in s else "return;\n")
    raise ValueError(k)


def render(p):
    st = p["structs"]
    o = "void obs(long long);\n"
    for s in st:
        o += "%s %s {\n" % ("union" if s.get("union") else "struct", s["name"])
        # "anon": [i, j): these members are declared inside an anonymous struct member; they are members of the containing
        # struct all the same (6.7.2.1p13), so nothing changes for CSem - only where the compiler has to look them up
        a0, a1 = s.get("anon", (-1, -1))
        for i, f in enumerate(s["fields"]):
            if i == a0:
                o += "\tstruct {\n"
            o += ("\t\t" if a0 <= i < a1 else "\t") + ("_Alignas(%d) " % f["al"] if f.get("al") else "") + ctype(f["t"], st, f["n"]) + (" : %d" % f["bw"] if f["bw"] else "") + ";\n"
            if i == a1 - 1:
                o += "\t};\n"
        o += "};\n"
    def plist(f):
        ps = [ctype(q["t"], st, q["n"]) for q in f["params"]]
        if f.get("variadic"):
            ps.append("...")
        return ", ".join(ps) or "void"
    for f in p["funcs"]:
        if f["name"] != "main":
            o += "static %s;\n" % ctype(f["ret"], st, "%s(%s)" % (f["name"], plist(f)))
    o += "".join(rjoined(p["globals"], st, 0))
    for f in p["funcs"]:
        head = ctype(f["ret"], st, "%s(%s)" % (f["name"], plist(f)))
        body = rstmt(f["body"], st, 0)
        if f.get("variadic"):
            # the va_list lives for the whole body; va_start right at the top, va_end is implicit at every return (no-op on these targets)
            body = body.replace("{\n", "{\n\t__builtin_va_list ap__;\n\t__builtin_va_start(ap__, %s);\n" % f["params"][-1]["n"], 1)
        o += ("static " if f["name"] != "main" else "") + head + "\n" + body
    return o


def to_json(p):
    q = dict(p)
    q["funcs"] = [{k: v for k, v in f.items() if not k.startswith("_")} for f in p["funcs"]]
    return json.dumps(q, separators=(",", ":"))
