"""C15 flow C: generated switch statements compiled by the real cproc; the comparison ladder is read back from the IL and
judged by spec/Switch.tla, which also computes the expected dispatch for every probe; the IL is then executed (il2c)."""
import json, os, random
import vlib, ilparse, il2c
from minic import w8, from_w8, CNAME, SIZE

PROMO = {n: ("int" if SIZE[n] < 4 else n) for n in CNAME}
SIGNED = {"bool": False, "char": None, "schar": True, "uchar": False, "short": True, "ushort": False, "int": True, "uint": False,
          "long": True, "ulong": False, "llong": True, "ullong": False}
SUF = {"int": "", "uint": "U", "long": "L", "ulong": "UL", "llong": "LL", "ullong": "ULL"}


def clit(n, v):
    """literal of (promoted) type n with value v (python int in range)"""
    if v < 0:
        mn = -(1 << (8 * SIZE[n] - 1))
        return "(-%d%s-1)" % (-(mn + 1), SUF[n]) if v == mn else "(-%d%s)" % (-v, SUF[n])
    return "%d%s" % (v, SUF[n])


def gen_switch(rng, sid, big):
    t = rng.choice(list(CNAME))
    pt = PROMO[t]
    psigned = SIGNED[pt]
    bits = 8 * SIZE[pt]
    lo, hi = (-(1 << (bits - 1)), (1 << (bits - 1)) - 1) if psigned else (0, (1 << bits) - 1)
    n = rng.choice([1000, 2500, 5000]) if big else rng.choice([1, 2, 3, 5, 8, 13, 21, 40])
    interesting = [0, 1, 2, -1, -2, lo, lo + 1, hi, hi - 1, 127, 128, 255, 256, 32767, 32768, 65535, 65536, 2 ** 31 - 1, 2 ** 31, 2 ** 32 - 1, 2 ** 32,
                   -2 ** 31, -2 ** 31 - 1, 2 ** 63 - 1, 2 ** 63, 2 ** 64 - 1]
    interesting = [v for v in interesting if lo <= v <= hi]
    keys = set()
    while len(keys) < n:
        c = rng.random()
        if c < 0.3:
            keys.add(rng.choice(interesting))
        elif c < 0.6:
            keys.add(rng.randrange(lo, hi + 1))
        elif c < 0.8:
            keys.add(rng.randrange(max(lo, -300), min(hi, 300) + 1))
        else:
            base = rng.choice(interesting)
            keys.add(min(hi, max(lo, base + rng.randrange(-3, 4))))
    keys = list(keys)
    rng.shuffle(keys)
    hasdef = rng.random() < 0.6
    # probes: values of the controlling type t (before promotion)
    tb = 8 * SIZE[t]
    tsigned = SIGNED[t]
    if t == "bool":
        plo, phi = 0, 1
    elif tsigned is None:
        plo, phi = None, None    # plain char: decided per target
    else:
        plo, phi = (-(1 << (tb - 1)), (1 << (tb - 1)) - 1) if tsigned else (0, (1 << tb) - 1)
    return {"id": sid, "type": t, "ptype": pt, "keys": keys, "hasdef": hasdef, "prange": (plo, phi), "shape": rng.choice(["plain", "loop", "nested"])}


def probes_for(sw, charsigned, rng, maxn):
    plo, phi = sw["prange"]
    if plo is None:
        plo, phi = (-128, 127) if charsigned else (0, 255)
    ps = set([plo, phi, 0])
    ks = sw["keys"] if len(sw["keys"]) <= maxn else rng.sample(sw["keys"], maxn)
    for k in ks:
        for d in (-1, 0, 1):
            if plo <= k + d <= phi:
                ps.add(k + d)
    for _ in range(20):
        ps.add(rng.randrange(plo, phi + 1))
    return sorted(ps)


def render(sw, probes):
    t, pt = sw["type"], sw["ptype"]
    o = "void obs(long long);\n"
    o += "static int f(%s v)\n{\n\tint r = -1;\n" % CNAME[t]
    pre, post = "", ""
    if sw["shape"] == "loop":
        pre, post = "\tfor (int i = 0; i < 2; ++i) {\n", "\t\tif (r != -1) break;\n\t}\n"
    elif sw["shape"] == "nested":
        pre, post = "\tswitch (v == 0) { case 0: case 1:\n", "\t\tbreak;\n\t}\n"
    o += pre + "\tswitch (v) {\n"
    for i, k in enumerate(sw["keys"]):
        o += "\tcase %s: r = %d; break;\n" % (clit(pt, k), i + 1)
        if i == len(sw["keys"]) // 2 and sw["hasdef"]:
            o += "\tdefault: r = 0; break;\n"
    o += "\t}\n" + post + "\treturn r;\n}\n"
    lt = "long long" if SIGNED[pt] or pt in ("int",) else "unsigned long long"
    o += "%s probes[%d] = {%s};\n" % (CNAME[t], len(probes), ", ".join("(%s)%s" % (CNAME[t], clit("llong" if p < 2 ** 63 else "ullong", p)) for p in probes))
    o += "int main(void)\n{\n\tfor (int i = 0; i < %d; ++i) obs(f(probes[i]));\n\treturn 0;\n}\n" % len(probes)
    return o


def extract_ladder(fn):
    """Read the casesearch ladder of the LAST switch of function f back from the IL: the ladder whose eq-targets are switch_case labels.
    Returns (tree, caselabels in tree order)"""
    blocks = {b["label"]: b for b in fn["blocks"]}
    order = [b["label"] for b in fn["blocks"]]
    case_labels = [l for l in order if l.startswith("switch_case.")]

    def node(label, depth=0):
        b = blocks[label]
        if depth > 200:
            raise vlib.MachineryError("ladder too deep to read back")
        if not b["insts"]:
            return {"leaf": True, "to": b["jump"]["targets"][0] if b["jump"] else order[order.index(label) + 1]}
        ins = b["insts"]
        if len(ins) != 1 or ins[0]["op"] not in ("ceqw", "ceql") or b["jump"]["k"] != "jnz":
            raise LadderShape("block @%s is not a ladder equality test" % label)
        key = ins[0]["args"][1]
        if key["t"] != "int":
            raise LadderShape("ladder key is not a constant")
        eq, ne = b["jump"]["targets"]
        nb = blocks[ne]
        if len(nb["insts"]) != 1 or nb["insts"][0]["op"] not in ("cultw", "cultl") or nb["jump"]["k"] != "jnz":
            raise LadderShape("block @%s is not a ladder order test" % ne)
        if nb["insts"][0]["args"][1] != key or (nb["insts"][0]["op"][-1] != ins[0]["op"][-1]):
            raise LadderShape("order test compares with a different key/class than the equality test")
        lt, gt = nb["jump"]["targets"]
        return {"key": w8(key["v"]), "eqlabel": eq, "cls": ins[0]["op"][-1], "lt": node(lt, depth + 1), "gt": node(gt, depth + 1)}
    return node, case_labels, blocks, order


class LadderShape(Exception):
    pass


def run_switches(ctx, objdir, runtime, charsigned_of):
    rng = random.Random(ctx.seed * 7919 + 15)
    nsmall, nbig = (24, 2) if ctx.quick else (300, 12)
    sws = [gen_switch(rng, i + 1, i >= nsmall) for i in range(nsmall + nbig)]
    targets = ["x86_64-sysv", "aarch64"] if ctx.quick else vlib.TARGETS

    def comp(sw):
        t = targets[sw["id"] % len(targets)]
        probes = probes_for(sw, charsigned_of(t), random.Random(sw["id"]), 400 if ctx.quick else 3000)
        src = render(sw, probes)
        rc, out, err = vlib.cproc(objdir, src, t, timeout=120)
        return (sw, t, probes, src, rc, out, err)
    comps = vlib.pmap(comp, sws)
    recs, meta = [], {}
    for sw, t, probes, src, rc, out, err in comps:
        if rc != 0:
            ctx.violation("switch:rejected", "valid switch over distinct case constants rejected: rc=%s %s" % (rc, err[:300]), {"target": t, "source": src[:5000]})
            continue
        mod = ilparse.parse(out)
        fn = [f for f in mod["funcs"] if f["name"] == "f"][0]
        node, case_labels, blocks, order = extract_ladder(fn)
        conds = [l for l in order if l.startswith("switch_cond.")]
        try:
            # the switch on v is the one whose ladder tests use switch_case labels numbered in source order; outer 'nested' switch has 2 cases
            trees = []
            for c in conds:
                trees.append((c, node(c)))
        except LadderShape as ex:
            # a different (possibly equally correct) dispatch shape: no structural judgement, execution still decides
            ctx.cov["ladders_not_read_back"] = ctx.cov.get("ladders_not_read_back", 0) + 1
            pt = sw["ptype"]
            recs.append({"id": sw["id"], "cls": "l" if SIZE[pt] == 8 else "w", "pbits": 8 * SIZE[pt], "psigned": bool(SIGNED[pt]),
                         "keys": [w8(k) for k in sw["keys"]], "ladder": {"leaf": True}, "probes": [w8(p) for p in probes]})
            meta[sw["id"]] = (sw, t, probes, src, out, None)
            continue

        def keys_of(tr):
            return [] if "leaf" in tr else [tr["eqlabel"]] + keys_of(tr["lt"]) + keys_of(tr["gt"])
        # blocks are emitted when a switch statement ends, so the innermost switch (the one on v) has the first switch_cond block
        main_tree = trees[0][1]
        # case labels of the inner switch appear in source order: map label -> case number
        used = keys_of(main_tree)
        inner_labels = [l for l in case_labels if l in set(used)]
        num = {l: i + 1 for i, l in enumerate(inner_labels)}

        def strip(tr):
            if "leaf" in tr:
                return {"leaf": True}
            return {"key": tr["key"], "eq": num.get(tr["eqlabel"], -1), "lt": strip(tr["lt"]), "gt": strip(tr["gt"])}
        cls = main_tree.get("cls", "w") if "leaf" not in main_tree else "w"
        pt = sw["ptype"]
        recs.append({"id": sw["id"], "cls": cls, "pbits": 8 * SIZE[pt], "psigned": bool(SIGNED[pt]), "keys": [w8(k) for k in sw["keys"]],
                     "ladder": strip(main_tree), "probes": [w8(p) for p in probes]})
        meta[sw["id"]] = (sw, t, probes, src, out, cls)
    if not recs:
        return
    sfile = ctx.path("switches.ndjson")
    with open(sfile, "w") as f:
        for r in recs:
            f.write(json.dumps(r) + "\n")
    r = ctx.tlc("Switch", "MC_Switch.cfg", workers=16, env={"SWITCHES": sfile}, timeout=2400, heap="6g")
    if not r.ok:
        raise vlib.MachineryError("Switch.tla failed:\n" + r.out[-3000:])
    verd = {json.loads(v)["id"]: json.loads(v) for v in r.vcases}

    def native(i):
        sw, t, probes, src, out, cls = meta[i]
        try:
            exe = il2c.build_native(out, ctx.scratch, name="sw%d" % i, runtime_c=runtime, sanitize=False)
        except (il2c.Unsupported, RuntimeError, ilparse.ILSyntaxError) as ex:
            return (i, None, str(ex)[:400])
        rc, so, se = il2c.run_native(exe, timeout=60)
        for x in (exe, os.path.join(ctx.scratch, "sw%d.il.c" % i)):
            try:
                os.unlink(x)
            except OSError:
                pass
        return (i, so.split(), "rc=%s %s" % (rc, se[:200]))
    nat = {x[0]: x for x in vlib.pmap(native, list(meta))}
    for i, (sw, t, probes, src, out, cls) in meta.items():
        v = verd.get(i)
        if v is None:
            raise vlib.MachineryError("no Switch.tla verdict for switch %d" % i)
        want_cls = "l" if SIZE[sw["ptype"]] == 8 else "w"
        case = {"target": t, "type": sw["type"], "keys": [str(k) for k in sw["keys"][:50]], "nkeys": len(sw["keys"]), "source": src[:6000]}
        if not v["distinct"]:
            raise vlib.MachineryError("generator produced duplicate case constants")
        for name, ok in v["wf"].items():
            if not ok and cls is not None:
                ctx.violation("switch:ladder-%s" % name, "ladder emitted for a %d-case switch on %s violates %s (depth %d)" % (len(sw["keys"]), sw["type"], name, v["depth"]), case)
        if cls is not None and cls != want_cls:
            ctx.violation("switch:class", "ladder compares in class %s but the promoted controlling type %s needs %s" % (cls, sw["ptype"], want_cls), case)
        if cls is not None and not v["ladderok"]:
            ctx.violation("switch:ladder-dispatch", "walking the emitted ladder does not select the case C prescribes for some probe", case)
        # native execution: r = case number, 0 = default, -1 = no case and no default
        exp = [str(x if x != 0 else (0 if sw["hasdef"] else -1)) for x in v["expected"]]
        _, lines, info = nat[i]
        if lines != exp:
            bad = [(probes[j], lines[j] if lines and j < len(lines) else None, exp[j]) for j in range(len(exp)) if not lines or j >= len(lines) or lines[j] != exp[j]][:5]
            ctx.violation("switch:exec", "executing the IL: wrong case selected for probes %s (%s)" % (bad, info), case)
        ctx.count("switch|%s|%d|%s|%s" % (sw["type"], len(sw["keys"]), sw["shape"], t), nontrivial=len(sw["keys"]) >= 3)
        ctx.cov["evaluations"] += len(probes)
        ctx.validated(1)
        if len(sw["keys"]) < 30:
            vlib.pool_add("C15", src, t)
    big = [v for v in verd.values() if v["n"] >= 1000]
    ctx.cov["switches"] = len(meta)
    ctx.cov["max_cases"] = max(v["n"] for v in verd.values())
    ctx.cov["max_ladder_depth"] = max(v["depth"] for v in verd.values())
    any_ = next(iter(meta.values()))
    ctx.sample({"switch": {"type": any_[0]["type"], "keys": any_[0]["keys"][:12], "shape": any_[0]["shape"], "target": any_[1], "probes": any_[2][:12]}})
