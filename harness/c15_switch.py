"""C15 flow C: generated switch statements compiled by the real cproc; the comparison ladder is read back from the IL and
judged by spec/Switch.tla, which also computes the expected dispatch for every probe; the IL is then executed (il2c)."""
import json, os, random
import vlib, ilparse, il2c
from minic import w8, from_w8, CNAME, SIZE

PROMO = {n: ("int" if SIZE[n] < 4 else n) for n in CNAME}
SIGNED = {"bool": False, "char": None, "schar": True, "uchar": False, "short": True, "ushort": False, "int": True, "uint": False,
          "long": True, "ulong": False, "llong": True, "ullong": False}
SUF = {"int": "", "uint": "U", "long": "L", "ulong": "UL", "llong": "LL", "ullong": "ULL"}


# enumerated controlling types wider than int (an enum whose enumerators do not fit int has a 64-bit compatible type; it is
# not changed by the integer promotions): same dispatch as long / unsigned long, but a type KIND of its own in the compiler
ENUMS = {"elong": ("long", "enum EL", "enum EL { EL_A = -1, EL_B = 0x7fffffffffffffff };\n"),
         "eulong": ("ulong", "enum EU", "enum EU { EU_A = 0, EU_B = 0xffffffffffffffff };\n")}
CNAME = dict(CNAME)
SIZE = dict(SIZE)
for _e, (_b, _c, _d) in ENUMS.items():
    CNAME[_e] = _c
    SIZE[_e] = SIZE[_b]
    SIGNED[_e] = SIGNED[_b]
    PROMO[_e] = _b


def clit(n, v):
    """literal of (promoted) type n with value v (python int in range)"""
    if v < 0:
        mn = -(1 << (8 * SIZE[n] - 1))
        return "(-%d%s-1)" % (-(mn + 1), SUF[n]) if v == mn else "(-%d%s)" % (-v, SUF[n])
    return "%d%s" % (v, SUF[n])


def writings(pt, k, rng, all_=False):
    """C spellings of a case constant whose conversion to the promoted controlling type pt is k (6.8.4.2p5): in-range, and, for
    the 32-bit promoted types, constants of wider type that differ from k by a multiple of 2^32 -> [(text, 64-bit written value)]"""
    out = [(clit(pt, k), k)]
    if SIZE[pt] == 4:
        for m in (1, -1, 2, 3, 0x7fffffff, -0x80000000, 0x40000000, 0xffffffff):
            v = k + (m << 32)
            if -(1 << 63) <= v < (1 << 63):
                out.append((clit("llong", v), v))
            if 0 <= v < (1 << 64):
                out.append((clit("ullong", v), v))
        if k < 0:
            out.append((clit("uint", k + (1 << 32)), k + (1 << 32)))          # -1 written 0xffffffffU
        if k >= (1 << 31):
            out.append((clit("int", k - (1 << 32)), k - (1 << 32)))            # unsigned controlling type, negative constant
    else:
        if k < 0:
            out.append((clit("ullong", k + (1 << 64)), k + (1 << 64)))
        if k >= (1 << 63):
            out.append((clit("llong", k - (1 << 64)), k - (1 << 64)))
    return out if all_ else [rng.choice(out)]


def gen_switch(rng, sid, big):
    t = rng.choice(list(CNAME))
    pt = PROMO[t]
    psigned = SIGNED[pt]
    bits = 8 * SIZE[pt]
    lo, hi = (-(1 << (bits - 1)), (1 << (bits - 1)) - 1) if psigned else (0, (1 << bits) - 1)
    n = rng.choice([1000, 2500, 5000]) if big else rng.choice([1, 2, 3, 5, 8, 13, 21, 40])
    interesting = [0, 1, 2, -1, -2, lo, lo + 1, hi, hi - 1, 127, 128, 255, 256, 32767, 32768, 65535, 65536, 2 ** 31 - 1, 2 ** 31, 2 ** 32 - 1, 2 ** 32,
                   -2 ** 31, -2 ** 31 - 1, 2 ** 63 - 1, 2 ** 63, 2 ** 64 - 1]
    interesting = [v for v in interesting if lo <= v <= hi]
    keys = set()
    while len(keys) < n:
        c = rng.random()
        if c < 0.3:
            keys.add(rng.choice(interesting))
        elif c < 0.6:
            keys.add(rng.randrange(lo, hi + 1))
        elif c < 0.8:
            keys.add(rng.randrange(max(lo, -300), min(hi, 300) + 1))
        else:
            base = rng.choice(interesting)
            keys.add(min(hi, max(lo, base + rng.randrange(-3, 4))))
    keys = list(keys)
    rng.shuffle(keys)
    hasdef = rng.random() < 0.6
    # probes: values of the controlling type t (before promotion)
    tb = 8 * SIZE[t]
    tsigned = SIGNED[t]
    if t == "bool":
        plo, phi = 0, 1
    elif tsigned is None:
        plo, phi = None, None    # plain char: decided per target
    else:
        plo, phi = (-(1 << (tb - 1)), (1 << (tb - 1)) - 1) if tsigned else (0, (1 << tb) - 1)
    sw = {"id": sid, "type": t, "ptype": pt, "keys": keys, "hasdef": hasdef, "prange": (plo, phi), "shape": rng.choice(["plain", "loop", "nested", "duff", "inif"])}
    # how each constant is written: a third of the small switches spell constants out of the range of the promoted type
    if not big and rng.random() < 0.35:
        sw["written"] = [writings(pt, k, rng)[0] for k in keys]
    else:
        sw["written"] = [(clit(pt, k), k) for k in keys]
    return sw


def probes_for(sw, charsigned, rng, maxn):
    plo, phi = sw["prange"]
    if plo is None:
        plo, phi = (-128, 127) if charsigned else (0, 255)
    ps = set([plo, phi, 0])
    ks = sw["keys"] if len(sw["keys"]) <= maxn else rng.sample(sw["keys"], maxn)
    for k in ks:
        for d in (-1, 0, 1):
            if plo <= k + d <= phi:
                ps.add(k + d)
    for _ in range(20):
        ps.add(rng.randrange(plo, phi + 1))
    return sorted(ps)


def render(sw, probes):
    t, pt = sw["type"], sw["ptype"]
    o = "void obs(long long);\n" + (ENUMS[t][2] if t in ENUMS else "")
    o += "static int f(%s v)\n{\n\tint r = -1;\n" % CNAME[t]
    pre, post = "", ""
    if sw["shape"] == "loop":
        pre, post = "\tfor (int i = 0; i < 2; ++i) {\n", "\t\tif (r != -1) break;\n\t}\n"
    elif sw["shape"] == "nested":
        pre, post = "\tswitch (v == 0) { case 0: case 1:\n", "\t\tbreak;\n\t}\n"
    o += pre + "\tswitch (v) {\n"
    # case and default labels may sit inside statements nested in the switch body (6.8.4.2p2: "in or on the switch body");
    # 'duff': all labels inside a do-while whose break leaves the loop, after which the switch body ends; 'inif': inside the
    # body of an if that control never enters from the top
    if sw["shape"] == "duff":
        o += "\tdo {\n"
    elif sw["shape"] == "inif":
        o += "\tif (v == 12345 && v != 12345) {\n"
    for i, k in enumerate(sw["keys"]):
        o += "\tcase %s: r = %d; break;\n" % (sw["written"][i][0], i + 1)
        if i == len(sw["keys"]) // 2 and sw["hasdef"]:
            o += "\tdefault: r = 0; break;\n"
    if sw["shape"] == "duff":
        o += "\t} while (0);\n"
    elif sw["shape"] == "inif":
        o += "\t}\n"
    o += "\t}\n" + post + "\treturn r;\n}\n"
    lt = "long long" if SIGNED[pt] or pt in ("int",) else "unsigned long long"
    o += "%s probes[%d] = {%s};\n" % (CNAME[t], len(probes), ", ".join("(%s)%s" % (CNAME[t], clit("llong" if p < 2 ** 63 else "ullong", p)) for p in probes))
    o += "int main(void)\n{\n\tfor (int i = 0; i < %d; ++i) obs(f(probes[i]));\n\treturn 0;\n}\n" % len(probes)
    return o


def extract_ladder(fn):
    """Read the casesearch ladder of the LAST switch of function f back from the IL: the ladder whose eq-targets are switch_case labels.
    Returns (tree, caselabels in tree order)"""
    blocks = {b["label"]: b for b in fn["blocks"]}
    order = [b["label"] for b in fn["blocks"]]
    case_labels = [l for l in order if l.startswith("switch_case.")]

    def node(label, depth=0):
        b = blocks[label]
        if depth > 200:
            raise vlib.MachineryError("ladder too deep to read back")
        if not b["insts"]:
            return {"leaf": True, "to": b["jump"]["targets"][0] if b["jump"] else order[order.index(label) + 1]}
        ins = b["insts"]
        if len(ins) != 1 or ins[0]["op"] not in ("ceqw", "ceql") or b["jump"]["k"] != "jnz":
            raise LadderShape("block @%s is not a ladder equality test" % label)
        key = ins[0]["args"][1]
        if key["t"] != "int":
            raise LadderShape("ladder key is not a constant")
        eq, ne = b["jump"]["targets"]
        nb = blocks[ne]
        if len(nb["insts"]) != 1 or nb["insts"][0]["op"] not in ("cultw", "cultl") or nb["jump"]["k"] != "jnz":
            raise LadderShape("block @%s is not a ladder order test" % ne)
        if nb["insts"][0]["args"][1] != key or (nb["insts"][0]["op"][-1] != ins[0]["op"][-1]):
            raise LadderShape("order test compares with a different key/class than the equality test")
        lt, gt = nb["jump"]["targets"]
        return {"key": w8(key["v"]), "eqlabel": eq, "cls": ins[0]["op"][-1], "lt": node(lt, depth + 1), "gt": node(gt, depth + 1)}
    return node, case_labels, blocks, order


class LadderShape(Exception):
    pass


def run_switches(ctx, objdir, runtime, charsigned_of):
    rng = random.Random(ctx.seed * 7919 + 15)
    nsmall, nbig = (24, 2) if ctx.quick else (300, 12)
    sws = [gen_switch(rng, i + 1, i >= nsmall) for i in range(nsmall + nbig)]
    targets = ["x86_64-sysv", "aarch64"] if ctx.quick else vlib.TARGETS

    def comp(sw):
        t = targets[sw["id"] % len(targets)]
        probes = probes_for(sw, charsigned_of(t), random.Random(sw["id"]), 400 if ctx.quick else 3000)
        src = render(sw, probes)
        rc, out, err = vlib.cproc(objdir, src, t, timeout=120)
        return (sw, t, probes, src, rc, out, err)
    comps = vlib.pmap(comp, sws)
    recs, meta = [], {}
    for sw, t, probes, src, rc, out, err in comps:
        if rc != 0:
            ctx.violation("switch:rejected", "valid switch over distinct case constants rejected: rc=%s %s" % (rc, err[:300]), {"target": t, "source": src[:5000]})
            continue
        mod = ilparse.parse(out)
        fn = [f for f in mod["funcs"] if f["name"] == "f"][0]
        node, case_labels, blocks, order = extract_ladder(fn)
        conds = [l for l in order if l.startswith("switch_cond.")]
        try:
            # the switch on v is the one whose ladder tests use switch_case labels numbered in source order; outer 'nested' switch has 2 cases
            trees = []
            for c in conds:
                trees.append((c, node(c)))
        except LadderShape as ex:
            # a different (possibly equally correct) dispatch shape: no structural judgement, execution still decides
            ctx.cov["ladders_not_read_back"] = ctx.cov.get("ladders_not_read_back", 0) + 1
            pt = sw["ptype"]
            recs.append({"id": sw["id"], "cls": "l" if SIZE[pt] == 8 else "w", "pbits": 8 * SIZE[pt], "psigned": bool(SIGNED[pt]),
                         "keys": [w8(wv) for _, wv in sw["written"]], "ladder": {"leaf": True}, "probes": [w8(p) for p in probes]})
            meta[sw["id"]] = (sw, t, probes, src, out, None)
            continue

        def keys_of(tr):
            return [] if "leaf" in tr else [tr["eqlabel"]] + keys_of(tr["lt"]) + keys_of(tr["gt"])
        # blocks are emitted when a switch statement ends, so the innermost switch (the one on v) has the first switch_cond block
        main_tree = trees[0][1]
        # case labels of the inner switch appear in source order: map label -> case number
        used = keys_of(main_tree)
        inner_labels = [l for l in case_labels if l in set(used)]
        num = {l: i + 1 for i, l in enumerate(inner_labels)}

        def strip(tr):
            if "leaf" in tr:
                return {"leaf": True}
            return {"key": tr["key"], "eq": num.get(tr["eqlabel"], -1), "lt": strip(tr["lt"]), "gt": strip(tr["gt"])}
        cls = main_tree.get("cls", "w") if "leaf" not in main_tree else "w"
        pt = sw["ptype"]
        recs.append({"id": sw["id"], "cls": cls, "pbits": 8 * SIZE[pt], "psigned": bool(SIGNED[pt]), "keys": [w8(wv) for _, wv in sw["written"]],
                     "ladder": strip(main_tree), "probes": [w8(p) for p in probes]})
        meta[sw["id"]] = (sw, t, probes, src, out, cls)
    if not recs:
        return
    sfile = ctx.path("switches.ndjson")
    with open(sfile, "w") as f:
        for r in recs:
            f.write(json.dumps(r) + "\n")
    r = ctx.tlc("Switch", "MC_Switch.cfg", workers=16, env={"SWITCHES": sfile}, timeout=2400, heap="6g")
    if not r.ok:
        raise vlib.MachineryError("Switch.tla failed:\n" + r.out[-3000:])
    verd = {json.loads(v)["id"]: json.loads(v) for v in r.vcases}

    def native(i):
        sw, t, probes, src, out, cls = meta[i]
        try:
            exe = il2c.build_native(out, ctx.scratch, name="sw%d" % i, runtime_c=runtime, sanitize=False)
        except (il2c.Unsupported, RuntimeError, ilparse.ILSyntaxError) as ex:
            return (i, None, str(ex)[:400])
        rc, so, se = il2c.run_native(exe, timeout=60)
        for x in (exe, os.path.join(ctx.scratch, "sw%d.il.c" % i)):
            try:
                os.unlink(x)
            except OSError:
                pass
        return (i, so.split(), "rc=%s %s" % (rc, se[:200]))
    nat = {x[0]: x for x in vlib.pmap(native, list(meta))}
    for i, (sw, t, probes, src, out, cls) in meta.items():
        v = verd.get(i)
        if v is None:
            raise vlib.MachineryError("no Switch.tla verdict for switch %d" % i)
        want_cls = "l" if SIZE[sw["ptype"]] == 8 else "w"
        case = {"target": t, "type": sw["type"], "keys": [str(k) for k in sw["keys"][:50]], "nkeys": len(sw["keys"]), "source": src[:6000]}
        if not v["distinct"]:
            raise vlib.MachineryError("generator produced duplicate case constants")
        for name, ok in v["wf"].items():
            if not ok and cls is not None:
                ctx.violation("switch:ladder-%s" % name, "ladder emitted for a %d-case switch on %s violates %s (depth %d)" % (len(sw["keys"]), sw["type"], name, v["depth"]), case)
        if cls is not None and cls != want_cls:
            ctx.violation("switch:class", "ladder compares in class %s but the promoted controlling type %s needs %s" % (cls, sw["ptype"], want_cls), case)
        if cls is not None and not v["ladderok"]:
            ctx.violation("switch:ladder-dispatch", "walking the emitted ladder does not select the case C prescribes for some probe", case)
        # native execution: r = case number, 0 = default, -1 = no case and no default
        exp = [str(x if x != 0 else (0 if sw["hasdef"] else -1)) for x in v["expected"]]
        _, lines, info = nat[i]
        if lines != exp:
            bad = [(probes[j], lines[j] if lines and j < len(lines) else None, exp[j]) for j in range(len(exp)) if not lines or j >= len(lines) or lines[j] != exp[j]][:5]
            ctx.violation("switch:exec", "executing the IL: wrong case selected for probes %s (%s)" % (bad, info), case)
        ctx.count("switch|%s|%d|%s|%s" % (sw["type"], len(sw["keys"]), sw["shape"], t), nontrivial=len(sw["keys"]) >= 3)
        ctx.cov["evaluations"] += len(probes)
        ctx.validated(1)
        if len(sw["keys"]) < 30:
            vlib.pool_add("C15", src, t)
    big = [v for v in verd.values() if v["n"] >= 1000]
    ctx.cov["switches"] = len(meta)
    ctx.cov["max_cases"] = max(v["n"] for v in verd.values())
    ctx.cov["max_ladder_depth"] = max(v["depth"] for v in verd.values())
    any_ = next(iter(meta.values()))
    ctx.sample({"switch": {"type": any_[0]["type"], "keys": any_[0]["keys"][:12], "shape": any_[0]["shape"], "target": any_[1], "probes": any_[2][:12]}})


def run_duplicates(ctx, objdir):
    """Case constants that are equal after conversion to the promoted controlling type (6.8.4.2p3) must be diagnosed, however they
    are written.  Switch.tla decides which pairs collide (Distinct over the written values); cproc must reject exactly those."""
    rng = random.Random(ctx.seed * 7919 + 16)
    cases = []
    for t in CNAME:
        pt = PROMO[t]
        bits = 8 * SIZE[pt]
        lo, hi = (-(1 << (bits - 1)), (1 << (bits - 1)) - 1) if SIGNED[pt] else (0, (1 << bits) - 1)
        for k in [v for v in (0, 1, 7, -1, -2, lo, hi, 2 ** 31 - 1, 2 ** 31, 2 ** 32 - 1, 2 ** 63) if lo <= v <= hi]:
            ws = writings(pt, k, rng, all_=True)
            pairs = [(a, b) for i, a in enumerate(ws) for b in ws[i + 1:]]
            for a, b in (pairs if not ctx.quick else rng.sample(pairs, min(len(pairs), 6))):
                other = (clit(pt, k + 1), k + 1) if k + 1 <= hi else (clit(pt, k - 1), k - 1)
                for keys in ([a, b], [other, a, b], [a, other, b]):
                    cases.append({"type": t, "ptype": pt, "keys": keys, "dup": True})
            # near misses: differ by one after conversion -> valid
            for a in rng.sample(ws, min(len(ws), 3)):
                other = (clit(pt, k + 1), k + 1) if k + 1 <= hi else (clit(pt, k - 1), k - 1)
                cases.append({"type": t, "ptype": pt, "keys": [a, other], "dup": False})
    recs = []
    for i, c in enumerate(cases):
        c["id"] = i + 1
        recs.append({"id": c["id"], "cls": "l" if SIZE[c["ptype"]] == 8 else "w", "pbits": 8 * SIZE[c["ptype"]], "psigned": bool(SIGNED[c["ptype"]]),
                     "keys": [w8(wv) for _, wv in c["keys"]], "ladder": {"leaf": True}, "probes": [w8(0)]})
    sfile = ctx.path("dupswitches.ndjson")
    with open(sfile, "w") as f:
        for r in recs:
            f.write(json.dumps(r) + "\n")
    r = ctx.tlc("Switch", "MC_Switch.cfg", workers=16, env={"SWITCHES": sfile}, timeout=1200, heap="4g")
    if not r.ok:
        raise vlib.MachineryError("Switch.tla failed on the duplicate family:\n" + r.out[-2000:])
    verd = {json.loads(v)["id"]: json.loads(v) for v in r.vcases}

    def comp(c):
        src = (ENUMS[c["type"]][2] if c["type"] in ENUMS else "") + "int f(%s v)\n{\n\tswitch (v) {\n%s\t}\n\treturn 0;\n}\n" % (CNAME[c["type"]], "".join("\tcase %s: return %d;\n" % (txt, j + 1) for j, (txt, _) in enumerate(c["keys"])))
        rc, out, err = vlib.cproc(objdir, src, timeout=30)
        return c, src, rc, err
    for c, src, rc, err in vlib.pmap(comp, cases):
        v = verd[c["id"]]
        if v["distinct"] == c["dup"]:
            raise vlib.MachineryError("Switch.tla and the generator disagree on whether %s collide for %s" % ([k[0] for k in c["keys"]], c["type"]))
        ctx.count("dup|%s|%s" % (c["type"], "|".join(k[0] for k in c["keys"])), nontrivial=True)
        ctx.validated(1)
        if c["dup"] and not (rc == 1 and "error" in err):
            ctx.violation("switch:dup-case-after-conversion-accepted", "case constants equal after conversion to %s are not diagnosed: rc=%s" % (c["ptype"], rc),
                          {"type": c["type"], "keys": [k[0] for k in c["keys"]], "source": src})
        if not c["dup"] and rc != 0:
            ctx.violation("switch:rejected", "valid switch over distinct case constants rejected: rc=%s %s" % (rc, err[:300]), {"source": src})
    ctx.cov["duplicate_family"] = len(cases)
