#!/usr/bin/env python3
"""Writes /verif/MANIFEST.json from the table below (single source for the interface)."""
import json, os, sys
V = os.path.dirname(os.path.dirname(os.path.abspath(__file__)))

BASELINE_OFF = ("d=$(mktemp -d /tmp/cproc-base.XXXXXX) && make -s -C /repo objdir=$d >/dev/null && "
                "(cd /repo && CCQBE=$d/cproc-qbe ./runtests); rc=$?; rm -rf $d; exit $rc")

# id -> (category, technique, text, note, design_ref)
CHECKS = {
 "C15": ("model_checking",
         "TLA+ spec of AVL case index + comparison ladder (Tree.tla) model-checked by TLC; every transition of TLC's state graph replayed into /repo/tree.c",
         "Tree.tla transcribes treeinsert/balance/rot and casesearch's ladder; TLC checks BST/balance/exact heights/log depth/new-flag and ladder = declarative switch dispatch on all histories over a 10-key boundary universe at a scaled carrier width; each (shape,key) transition is then executed by the real tree.c and the full concrete shape compared. Flow C: generated switches (all integer types, up to 5000 cases, shuffled, negative and >2^31/2^63 constants, nested in loops/switches) are compiled; Switch.tla judges the ladder read back from the IL (search order, one node per case, logarithmic depth, targets) and computes the case C prescribes for every probe, which the executed IL must select; duplicate case/default labels must be rejected.",
         "trusted: the order- and low-half-preserving map from the scaled carrier to 64-bit keys; ctree.c dump routine; TLC",
         "DESIGN.md §5 C15"),
}
CHECKS["C02"] = ("translation_validation",
         "stage-2 compiler built from cproc's own IL (il2c backend substitute); merged run log of stage 1 and stage 2 validated by TLC against the Stage.tla monitor",
         "Stage 1 (gcc-built) and stage 2 (cproc-built, IL lowered by il2c+gcc) are run on the compiler's own sources x3 targets (bootstrap fixed point), the corpus, -E runs, a committed corpus of the inputs every other property's generator feeds to the compiler (corpus/pool.tar.xz, 105k inputs; quick: 1 500 per property), the exhaustive one-edit neighbourhood of a grammar tour (Mutate.tla Exhaustive/EditAll, 24k inputs in quick) and Mutate.tla token-level mutants (error paths); TLC accepts the merged ndjson log only if stdout/stderr/status are a function of (input,target,mode) and status is 0/1/2.",
         "trusted: il2c.py + gcc as backend substitute for the missing qbe (il2c is bound to QbeMachine.tla by C01); equality observed on explored inputs only, not proved for all inputs",
         "DESIGN.md §5 C02")
CHECKS["C01"] = ("model_checking",
         "TLA+ abstract machine for C (CSem.tla) and small-step IL semantics (QbeMachine.tla) run by TLC on the real compiler's output; Refine.tla evaluates observational agreement; OpCases.tla enumerates single operations exhaustively; il2c executes the IL at volume and is bound to QbeMachine each run",
         "Expected behaviour of every generated program comes from CSem.tla inside TLC (integer operators/conversions/promotions, integral floating values, bit-fields, arrays, pointers, nested structs, arrays of structs, unions used member-wise, string literals, VLAs and variably modified typedefs, alloca, sequenced side effects, control flow incl. goto, calls incl. variadic and function pointers). The IL cproc prints is executed by QbeMachine.tla (memory-safety of every load/store checked) for a sample and natively through il2c+ASan for all; OpCases.tla covers every operator x integer type pair x boundary value pair with defined behaviour.",
         "trusted: TLC; il2c.py+gcc for volume (cross-checked against QbeMachine.tla on the sampled programs every run); the spec is audited by gcc and clang -fsanitize=undefined on rendered programs (disagreement = machinery error). Floating values are integral and exactly representable only (FloatInt.tla); unions are modelled member-wise (no type punning); long double, volatile, _Atomic, anonymous members are outside MiniC.",
         "DESIGN.md §5 C01")
CHECKS["C07"] = ("model_checking",
         "TLA+ refinement of init.c's cursor machine and qbe.c's data/automatic emitters against a declarative C11 6.7.9 image (Init.tla); exhaustive initializer token sequences replayed into cproc-qbe; H5 trace validation (Trace_Init.tla)",
         "For 18 declared types and every initializer of <= 6 (quick) / <= 8 (thorough) tokens over {value, 2 strings, {, }, {}, .m, [i]} plus sampled 12-token ones, TLC checks that the implementation-shaped model (deviations off) produces the C11 image through EmitData and FuncInit; every valid initializer is compiled by the real cproc-qbe as a static object (size, align, bytes, relocations compared) and as an automatic object (IL executed via il2c, member bits compared); every initadd event of real executions (corpus, own sources, generated inputs) must be a step of the spec's InitAdd.",
         "trusted: TLC, ilparse, il2c+gcc for the automatic half, gcc as auditor of the spec on every case. x86_64-sysv only; small value/address universes; no float/_Alignas/thread members; union re-initialisation bits on which two readings differ are unconstrained; known code defects carried as named deviations (known findings).",
         "DESIGN.md §5 C07")
CHECKS["C14"] = ("model_checking",
         "TLA+ declarative literal semantics (Lit.tla) plus refinement-checked model of scan.c/expr.c/utf.c decode/encode; TLC-generated literals replayed into cproc-qbe for all three targets",
         "Lit.tla defines element type, length and code units of every character constant and (concatenated) string literal per target; TLC checks on ~47k (quick) / 98k (thorough) exhaustive boundary cases that the transcription of the decoder/encoders with deviations off refines it and emits every case plus random literals (-simulate); each is compiled by the real cproc-qbe and its data compared byte for byte, rejects must exit 1 with a diagnostic, accepted cases re-run under ASan/UBSan.",
         "trusted: TLC, ilparse, the C11 reading in Decl (audited on every accepted case against gcc and clang --target, sampled rejects). Implementation-defined classes (multi-char constants, mixed wide prefixes, UCNs) excluded as unspec. Literals observed through static initialisers, sizeof and _Generic only.",
         "DESIGN.md §5 C14")
CHECKS["C10"] = ("model_checking",
         "TLA+ static-semantics catalogue (CStatic.tla: 127 named constraint rules + 16 unsupported-feature predicates) with rule-exact mutation actions checked by TLC; every generated program replayed into cproc-qbe",
         "TLC checks that each Violate_r / Use_u witness violates exactly its claimed rule and that bases and benign twins are valid, and enumerates rule x position (file, block, nested expression, macro body) x base programs plus a fragment-composition universe; each program is compiled by the real cproc-qbe: valid => exit 0 with empty stderr; invalid or unsupported => exit 1 with a located diagnostic matching an error()/fatal() format string extracted from the sources at run time, never 0, a signal or a hang. Diagnostic-site coverage is measured (message matching; gcov in thorough) and reported in evidence.",
         "trusted: the renderer (attributes -> C text) and the rule predicates, audited per class by gcc -std=c11 -pedantic-errors (disagreement = machinery error); classes whose outcome the standard leaves open are excluded and listed; one violation per program; wording/location of diagnostics is C11's business. Known findings keyed by rule.",
         "DESIGN.md §5 C10")
CHECKS["C11"] = ("model_checking",
         "TLA+ item-level presumed-location specification (Loc.tla) vs transcription of nextchar/scankind/directive (ScanOps.tla) checked by TLC; layout programs replayed: token dump and diagnostic prefix compared",
         "All layout programs of <= 2 (quick) / <= 3 (thorough) items over 24 item kinds (splices, multi-line comments, blank lines, #line and line markers with 1/7/2147483647/010, pragma, multi-line macro invocations) plus 8 violation items: file and line of every token (H1 dump) and of the first diagnostic (`file:line:col: error:` on stderr of the plain build) are compared with the declarative presumed location.",
         "trusted: Loc.tla item tables (audited against gcc -E with __LINE__/__FILE__), H1 hook, Python glue; columns only counted; macro-body tokens, EOF and look-ahead-token diagnostics not asserted; known deviations are named and keyed.",
         "DESIGN.md §5 C11")
CHECKS["C13"] = ("model_checking",
         "TLA+ declarative maximal-munch lexer (Tok.tla/Scan.tla Lex) vs transcription of scan.c and pp.c keyword() (ScanOps.tla) checked by TLC; exhaustive short texts replayed through the -E token dump",
         "TLC enumerates all texts <= 3/4 over the punctuator alphabet, <= 3/4 over the literal alphabet, <= 4/5 over number/prefix alphabets, all keyword spellings with one-character perturbations (keyword table extracted from pp.c at run time, binary search modelled), splices and comments at every position, random long texts; Lex(t) is the oracle for kind, spelling and space flag of every token `cproc-qbe -E` delivers; lexical errors must exit 1 with a located diagnostic; `enum { w };` accepted iff w is not a keyword.",
         "trusted: Tok/Scan.tla (Lex audited against clang -dump-tokens), H1 hook, Python glue; `::` and u8'c' per C23; trigraphs, UCN ranges outside the model; known: digraphs, UCNs.",
         "DESIGN.md §5 C13")
CHECKS["C03"] = ("model_checking",
         "TLA+ IL validator (QbeWF.tla: named well-formedness obligations + def-dominates-use dataflow as a TLC state machine) judging every IL printed with status 0; emission bookkeeping model (EmitModel.tla) model-checked and replayed; process clause on injected write failures",
         "Every IL the real compiler prints with exit 0 (corpus, own sources, WfGen.tla grammar programs, Mutate.tla mutants, EmitModel.tla behaviours rendered to C) is parsed strictly and judged in TLC: types before use, data items and sizes/alignments (hook H6-lite / generator table), labels unique, jumps target existing blocks, blocks terminated, temporaries defined once and on every path before use, instruction/call/ret/phi classes, phi sources are predecessors. EmitModel.tla's block/jump bookkeeping is checked over all bounded front-end call sequences and its behaviours replayed (block skeleton compared). Exit 0 with a failed write (full device, closed stdout, file size limit) is a violation.",
         "trusted: ilparse.py (strict parser) and name interning; instruction signature table transcribed from the QBE IL reference and audited on the 159 stored .qbe files; callees not defined in the module unchecked.",
         "DESIGN.md §5 C03")
CHECKS["C17"] = ("model_checking",
         "TLA+ declarative plan of cproc(1) (Driver.tla Plans) vs character-level transcription of driver.c's option loop and argv assembly, checked by TLC; every emitted command line replayed into the real driver built against recording stub tools",
         "TLC checks Impl(words, {}) in Plans(items) on all command lines within bounds (one representative option per routing class x input types, full option alphabet at smaller depth) plus simulated long lines with up to 6 inputs, and emits each with the expected plan (argv per tool, pipeline composition text, files created, exit status); the real driver.c+util.c, compiled next to a config.h produced by the real configure for 4-10 target triples with stub tools, must show exactly that plan.",
         "trusted: stub semantics (vstub.c) and its model StubEffects; base commands are read back from the generated config.h (configure's lists not judged); where cproc(1) is silent every documented reading is accepted (Plans is a set); -v output not compared.",
         "DESIGN.md §5 C17")
CHECKS["C18"] = ("model_checking",
         "concurrent TLA+ model of driver and stage processes (DriverProc.tla: safety + liveness under fairness) checked by TLC; every failure configuration realised on the real driver with fault-scripted stubs in private /tmp mount namespaces; strace syscall traces validated against the model (Trace_DriverProc.tla)",
         "All interleavings of the driver (one action per critical section of buildobj/buildexe: mkstemp, spawn, close, wait returning any zombie, kill, unlink, exit) and its children for <= 3-4 stages, <= 2 inputs, every failing stage x failure mode (spawn failure, exit 1 before read / mid write / after, SIGSEGV, SIGKILL) and link failure: non-zero exit, no link, output and temporaries removed, children reaped, no hang (FairSpec => <>Exited). Each configuration is realised on the real driver at two delay scales and observed (status, surviving files, processes, timeout); straced runs must be behaviours of the model.",
         "trusted: sleep-steered orderings of stub tools; the strace event extraction; liveness assumes a stage that exits 0 has drained its input (the no-drain hang is recorded as an observation). Known: temporaries of earlier inputs / on link spawn failure are leaked.",
         "DESIGN.md §5 C18")
CHECKS["C09"] = ("model_checking",
         "TLA+ declarative linkage resolution (C11 6.2.2 / 6.9 / 6.9.2 / 6.7.4p7: Linkage.tla Resolve) vs transcription of decl.c getlinkage/declcommon/decl/tentative list with named deviations, model-checked by TLC on all declaration histories; histories replayed into cproc-qbe; H6 trace validation (Trace_Linkage.tla)",
         "For every history of <= 3 (quick) / <= 4 (thorough) declarations of one identifier over 24 file-scope x 12 block-scope forms x scope placements, plus asm-label / object-function mixes and random 3-identifier units, TLC checks that the repaired model refines Resolve, that at most one definition is emitted per entity and that exported implies external linkage. Each history is rendered with a use after every declaration and compiled: the export/local/thread definitions, the .L naming, what each use resolves to, undefined references and the exit status must equal the spec's. Every declcommon decision, tentative enqueue and emitted definition of real compilations must be a step of the model.",
         "trusted: TLC, ilparse, the renderer; Resolve audited on every judged unit against gcc -std=c11 -pedantic-errors + nm (two justified exception classes; disagreement = machinery error). One type only; x86_64-sysv; UB classes only required to exit 0/1; longest histories replayed on a sample.",
         "DESIGN.md §5 C09")
CHECKS["C16"] = ("model_checking",
         "TLA+ hash-table (Map.tla, quantified over all hash functions), scope-chain (Scope.tla, CScope.tla) and literal-pool (Pool.tla) specs model-checked by TLC; state graph replayed into /repo/map.c with engineered colliding keys; TLC-generated scoping programs and pool units compiled and read off the IL; recorded map histories (Trace_Map.tla) and H8 scope traces (Trace_Scope.tla) validated by TLC",
         "Map.tla refines a dictionary for every hash function (4 keys, caps 4->8; 6 keys 8->16 by simulation); every (state, op) is executed by the real map.c with keys whose real hash has the model's low bits and with forged full-hash collisions (results and full slot array compared); 10^5-op histories judged by Trace_Map.tla; CScope.tla programs (exhaustive <= 3/4 items, random, 200-deep, 50 000 identifiers) decide what every use of an identifier, tag, label, typedef or macro must denote; Pool.tla decides all literal pairs; every scope.c call on the tests and generated programs must be a step of Scope.tla.",
         "trusted: cmap.c dump, renderer, ilparse, renaming-invariance for scaled copies, TLC. A layout-only divergence of map.c (dictionary still correct) is reported as machinery exit 2, not as a violation.",
         "DESIGN.md §5 C16")
CHECKS["C20"] = ("exploration",
         "TLA+ monitor (Pure.tla) with trace validation of run logs over TLC-enumerated pairwise-covering environment arrays (PureLattice.tla), plus model-checked structural invariants (MapPure.tla hash independence, Ids.tla counter-only ids) bound by hash-substituted binaries and id hook traces",
         "Determinism of (stdout, normalised stderr, status) is checked on explored inputs x environments: every run of the real binary is an event of a log that TLC must accept as a behaviour of Pure.tla. Environments: 15 dimensions (locale variables, TZ, MALLOC_PERTURB_, malloc tunables, ASLR, cwd, argv0, stdin vs path, -o vs stdout, extra env, stack limit, open fds, valgrind, binary incl. hash-substituted and stage-2 builds); quick = a model-checked pairwise-covering set + memcheck sample, thorough = 4 covering arrays and the full 138 240-element product on 3 inputs. Uninitialised-value reports are forbidden events. Hash independence is model-checked, replayed into map.c under arbitrary hash functions and enforced end to end; the id discipline is model-checked and bound by H10 traces.",
         "trusted: valgrind, sha256, glibc tunables, stderr normalisation (file name and argv[0] are inputs). Only C/C.UTF-8/POSIX locales exist here (setlocale/getenv use is caught by an import deny-list). Determinism beyond explored inputs/environments is not decided.",
         "DESIGN.md §5 C20")
CHECKS["C05"] = ("model_checking",
         "TLA+ declarative C11 typing (CTypes.tla: promotions, usual arithmetic conversions, literal/constant typing, operator result types, compatibility, composite, pointer assignment, _Generic selection) vs transcription of type.c/expr.c (TypeModel.tla) refined under TLC; every enumerated case replayed into cproc-qbe; H3 typing-event traces validated (Trace_Types.tla)",
         "TLC checks exhaustively that the repaired implementation model equals the C11 rules over operators x {arithmetic types, enum flavours, bit-fields of widths 1,7,8,15,16,31,32,33,63,64}^2 x 3 targets (incl. literals by base/suffix/magnitude, character constants) and over all pairs of derived types of depth <= 2/3 (Compatible, Composite, pointer assignment). Every enumerated case and random nested expressions (depth <= 4) are compiled by the real cproc-qbe and the TYPE IDENTITY is observed as data (_Generic over all basic types and enum twins, sizeof, __builtin_types_compatible_p, accepted/refused declarations, redeclarations, pointer initialisation); H3 prom/ucv/bin/cond events of real compilations must be steps of the model.",
         "trusted: TLC, ilparse, the probe renderer; the spec is audited on the same probes by gcc 12 (x86_64) and clang 14 (3 targets) before cproc is judged, with documented exception classes; implementation-defined choices follow the psABIs; struct/union types are opaque tags; known findings keyed by deviation.",
         "DESIGN.md §5 C05")
CHECKS["C12"] = ("model_checking",
         "TLA+ refinement of an action-level transcription of pp.c (PPModel: ctx stack, hide flags, macrodepth, peekparen pending array, aliasing of token storage) against Prosser's declarative C11 6.10.3 expansion (Macro.tla), model-checked by TLC; programs replayed into cproc-qbe (-E token dump, and IL of P vs IL of the spec's expansion); H7 push/pop/args trace validation (Trace_PP.tla)",
         "TLC checks on all small programs (<= 3 macros, bodies <= 2-4 tokens, sources <= 3-5 tokens, #define/#undef histories <= 3; 1.4 M states quick, 4.8 M thorough) that PPModel with deviations off yields an outcome the standard permits (DR 268 modelled as a set) and obeys the hide discipline (ctx depth, macrodepth returns to 0, every pushed macro un-hidden once). Every enumerated and simulated program (<= 12 macros, 0-4 parameters, variadic, #, nested and multi-line invocations, redefinitions) is run through the real cproc-qbe: -E token stream (H1), and without hook the IL of `int chkN = <invocation>;` against the IL of the rendered expansion; incompatible redefinition must exit 1. H7 traces of these executions and of the preprocess tests must be accepted.",
         "trusted: TLC, rendering glue, cproc's own scanner for the H1 dump; Expand audited against gcc cpp on deterministic cases (disagreement = machinery error); programs with undefined behaviour (directive inside an invocation, unterminated invocation) generated but not judged; ##/#if/#include never generated; failing inputs attributed to a known defect only if the binary equals PPModel(KnownDevs).",
         "DESIGN.md §5 C12")
CHECKS["C04"] = ("model_checking",
         "TLA+ refinement FoldModel (transcription of eval.c/expr.c constant folding on the 64-bit carrier) => ConstEval (declarative C semantics) checked by TLC exhaustively over all values at scaled widths; TLC-generated boundary cases at real widths replayed into every folding context and into run-time execution; H2 fold-event trace validation (Trace_Fold.tla)",
         "The refinement is exhaustive over every operator x all 14x14 arithmetic type pairs x all value pairs at widths char=2, short=3, int=4, long=6 bits (2.3 M cases per configuration) incl. unary, casts, ?:, logical short-circuit, literals by base/suffix, address constants; NeverTraps is an invariant. At real widths TLC emits boundary-value cases in 12 families, each rendered in 13 folding contexts (static and _Thread_local initialisers decoded from the data definition, array bound, negative bound rejected, enumerator, case label read from the ladder, bit-field width, _Alignas, _Static_assert accepted and its negation rejected, constant ?: condition, _Generic type, address constants) on the real cproc-qbe, and the same expression with non-constant operands is executed (il2c): folded = run-time = spec value. Every fold event of the corpus and generated units is judged by the model.",
         "trusted: TLC, the hand transcription, il2c+gcc for the run-time half; gcc and clang audit every assertion (disagreement = machinery error). Floating point only where results are exact; inexact results, NaN/inf, long double excluded; undefined cases checked for crash-freedom only.",
         "DESIGN.md §5 C04")
CHECKS["C19"] = ("fault_enumeration",
         "TLA+ models of the exit/stdio protocol (Proc.tla), capacity mechanisms (Bounds.tla) and delimiter-skipping loops (Skip.tla, liveness) checked by TLC; every enumerated fault scenario, boundary input and truncated stream replayed into the real binary with ptrace write/read fault injection; sanitizer observation at volume on spec-driven mutants",
         "Proc.tla, Bounds.tla and Skip.tla are model-checked (safety invariants: exit in {0,1,2}, exit 0 => every emitted byte accepted by the sink, index < capacity, overflow <=> diagnosed; liveness: every skipping loop stops on every stream ending in EOF). All scenarios (k-th write fails/short, /dev/full, closed stdout, file size limit, unreadable/missing/directory input, r-th read fails), all boundary inputs (token lengths around every buffer capacity, 31/32/33 nesting levels, 63/64/65-byte diagnostics, nesting to 10^4) and all truncated streams TLC emits are executed on the ASan+UBSan and plain builds: status, write(2) log, sink bytes, outcome class compared. Memory safety on arbitrary bytes is exploration: Mutate.tla token mutants, byte mutants and truncation at every token boundary of the corpus under ASan+UBSan plus a valgrind sample, findings keyed by crash signature (kind + top in-repo frame).",
         "trusted: failwrite.c (ptrace injector), glibc's 4096-byte buffering (audited every run), sanitizer runtimes, the crash-signature normaliser. A new bug at an already known (kind, site) signature is masked; no allocator-failure injection; hang limit is CPU time.",
         "DESIGN.md §5 C19")
CHECKS["C06"] = ("model_checking",
         "TLA+ layout specification (Layout.tla: declarative LP64 ABI layout as least-position constraints vs exact transcription of decl.c addmember/tagspec accumulator and enum base selection) refined under TLC; TLC-enumerated and simulated types replayed into cproc-qbe for three targets; H4 trace validation (Trace_Layout.tla)",
         "TLC checks that the accumulator (size, align, bits, pack, flexible) refines the declarative layout by one-step simulation from every reachable accumulator state (member sequences of every length, structs of bounded size) and on all full histories of <= 2/3 members over an 85-kind universe (scalars, arrays, nested/anonymous aggregates, _Alignas, flexible arrays, bit-fields of char/short/int/long x 14 widths x named/unnamed) x struct/union/packed, plus enum underlying types (plain, wide, 11 fixed types). 12.6 k / 25 k generated aggregates (nesting <= 4) and 9.8 k / 169 k enums are compiled for 3 targets; every sizeof, _Alignof, offsetof (nested, through anonymous members), bit-field position (image of `T x = {.bf = -1}`) and enum base is compared with TLC's numbers; every addmember call of real compilations is validated step by step.",
         "trusted: clang 14 with three --target triples and gcc 12 as ABI references, used for audit only (disagreement = machinery error); ilparse; the H4 hook. aligned attribute, packed bit-fields and packed unions are diagnosed by cproc and not laid out.",
         "DESIGN.md §5 C06")
CHECKS["C08"] = ("model_checking",
         "TLA+ ABI specification (Abi.tla: flattened field lists of the C type vs of the emitted QBE `type`, transcription of qbe.c emittype, SysV / AAPCS64 / LP64D classification) judging aggregate descriptors and parameter/return classes parsed from the IL of generated signatures",
         "Structural clause only (the dynamic mixed-executable clause is NOT claimed: no qbe/assembler for cproc's IL exists here). 2.2 k / 24.6 k generated signatures x 3 targets (0..12 parameters from scalars and generated aggregates, variadic, va_list; definitions and call sites): function-header and call-operand classes and the variadic marker are compared with the spec's PClass/VClass; 4.3 k / 36.7 k emitted `type` definitions are judged by TLC ABI-equivalent (same size, alignment and register classification) or field-for-field equal to the C type; the emittype transcription is model-checked on 26 k / 852 k aggregates.",
         "trusted: ilparse; the classification model is audited against clang's IR lowering for the three targets; aggregates in known problem classes (_Alignas members, packed, unnamed bit-field gaps, pointer+float on riscv64: QBE IL cannot express them) are attributed to named findings, not verified; long double and flexible-array aggregates excluded.",
         "DESIGN.md §5 C08")
NOT_YET = {}

# round-15 additions to what each check explores (appended to the level text)
ADD15 = {
 "C01": " Operator chains written without parentheses (OpCases.tla GrammarTree: the operand structure is the grammar's, 6.5.5-6.5.14): every ordered pair of the 18 binary operators and a slice (thorough: all) of the triples, on operand tuples that distinguish the grammar's tree from every other tree; the sign-sensitive operators < >= / % >> are enumerated on every type pair in every run.",
 "C03": " SigGen.tla: signatures of a definition called in the same unit (0..3 parameters from 13 type classes, named or unnamed, variadic or not); QbeWF obligation SigMatchesC compares header, call and C signature pairwise.",
 "C04": " Floating results that need IEEE-754 rounding are decided (CArith DRound: round-to-nearest-even of exact dyadic values to binary32/binary64): f-suffixed, hexadecimal and large integral constants, integer->floating and double->float conversions, rounded arithmetic; unparenthesised operator chains and ?: in every folding context.",
 "C05": " EnumConst.tla: the type of an enumeration constant and of the enumerated type as a function of the enumerator values, the types of their defining expressions, implicit successors and a fixed underlying type, probed inside the enumerator list and after the closing brace.",
 "C10": " Function-context dimension (static, inline definition, static inline, extern inline, inline after a non-inline declaration, _Noreturn) for the rules diagnosed at function end.",
 "C11": " The text of a block comment is enumerated character by character (Loc.tla cmt: `*`, `/`, new-line, backslash, filler) until the comment is closed.",
 "C12": " Directive lines that leave the macro table alone (null directive, #pragma, #line, line markers; 13 spellings) at every line boundary of a base unit, both legs judged; PPNEWLINE is model state (Inv_Newline).",
 "C14": " Units of 2-4 literals of one prefix and element count used as expressions, each followed to the data definition it evaluates to (pool family).",
 "C19": " Raw UTF-8 byte sequences derived from the decoder's case boundaries (Bounds.tla utf8 family) x literal kind x prefix x context.",
 "C20": " VmTypes.tla: derivation chains of constant / variable / expression-length arrays and pointers over 8 code-generating positions, rendered into large (recycled heap) and small (fresh heap) files.",
}
for _i, _t in ADD15.items():
    _c = CHECKS[_i]
    CHECKS[_i] = (_c[0], _c[1], _c[2] + _t, _c[3], _c[4])

def main():
    props = [json.loads(l) for l in open(os.path.join(V, "properties.jsonl"))]
    na_file = os.path.join(V, "harness", "not_applicable.json")
    na = json.load(open(na_file)) if os.path.exists(na_file) else {}
    m = {"version": 1, "setup_cmd": "./setup.sh",
         "hooks": {"guard": "CPROC_VERIF", "enable": "make -C /repo objdir=<scratch> CFLAGS='-std=c11 -O1 -g -DCPROC_VERIF' (harness/vlib.py build('hooks'))",
                   "baseline_off_cmd": BASELINE_OFF, "source_commits": json.load(open(os.path.join(V, "harness", "hook_commits.json"))) if os.path.exists(os.path.join(V, "harness", "hook_commits.json")) else [], "add_only": True},
         "engines": [{"name": "tlc", "path": "/opt/veriftools/tla/tla2tools.jar", "serves_properties": sorted(CHECKS), "kind_free_text": "TLC 1.8.0 explicit-state model checker run by harness/vlib.py (specs in spec/*.tla)"}],
         "checks": [], "not_applicable": [],
         "notes": "Single entry point ./check <ID> --tier quick|thorough [--replay path]. Exit 2 = machinery error (never a property verdict). Known findings: known_findings.json."}
    for p in props:
        i = p["id"]
        if i in CHECKS:
            cat, tech, text, note, ref = CHECKS[i]
            m["checks"].append({"property_id": i, "quick_cmd": "./check %s --tier quick" % i, "thorough_cmd": "./check %s --tier thorough" % i,
                                "evidence_file": "/verif/evidence/%s.json" % i, "replay_cmd_template": "./check %s --replay {path}" % i,
                                "engine": "tlc", "level_claimed": {"category": cat, "text": text, "design_ref": ref}, "level_note": note, "technique": tech})
        else:
            m["not_applicable"].append({"property_id": i, "reason": na.get(i, "check not built yet in this round (planned, see DESIGN.md §5 %s); not claimed until it runs" % i)})
    out = os.path.join(V, "MANIFEST.json")
    txt = json.dumps(m, indent=1) + "\n"
    if "--verify" in sys.argv:
        if not os.path.exists(out) or open(out).read() != txt:
            print("MANIFEST.json out of date: run harness/gen_manifest.py", file=sys.stderr); sys.exit(1)
        return
    open(out, "w").write(txt)
    try:
        import jsonschema
        jsonschema.validate(m, json.load(open("/root/.vp/MANIFEST.schema.json")))
    except ImportError:
        pass

if __name__ == "__main__":
    main()
