"""Shared machinery for the cproc TLA+ model-based checks.

Ctx bundles: tier/seed, scratch dirs, builds of /repo's working tree, the TLC runner,
the known-findings matcher, violation reporting and the evidence writer.
Exit codes of a check: 0 held / 1 VIOLATION printed / 2 machinery error.
"""
import hashlib, json, os, re, shutil, subprocess, sys, tempfile, time, glob, random

VERIF = os.path.dirname(os.path.dirname(os.path.abspath(__file__)))
REPO = os.environ.get("VERIF_REPO", "/repo")
WORK = os.path.join(VERIF, ".work")
SPEC = os.path.join(VERIF, "spec")
TLAJAR = "/opt/veriftools/tla/tla2tools.jar"
CMJAR = "/opt/veriftools/tla/CommunityModules-deps.jar"
GUARD = "CPROC_VERIF"
TARGETS = ["x86_64-sysv", "aarch64", "riscv64"]


class MachineryError(Exception):
    pass


def sha(s):
    if isinstance(s, str):
        s = s.encode()
    return hashlib.sha1(s).hexdigest()


def canon(obj):
    return json.dumps(obj, sort_keys=True, separators=(",", ":"))


def repo_hash():
    h = hashlib.sha1()
    names = sorted(glob.glob(os.path.join(REPO, "*.[ch]"))) + [os.path.join(REPO, "Makefile")]
    for n in names:
        h.update(os.path.basename(n).encode())
        with open(n, "rb") as f:
            h.update(f.read())
    return h.hexdigest()[:16]


BUILD_FLAVOURS = {
    # name: (CC, CFLAGS, LDFLAGS)
    "plain": ("gcc", "-std=c11 -O1 -g -Wall -Wno-parentheses -Wno-switch", ""),
    "hooks": ("gcc", "-std=c11 -O1 -g -D%s -Wall -Wno-parentheses -Wno-switch" % GUARD, ""),
    "asan": ("clang", "-std=c11 -O1 -g -D%s -fsanitize=address,undefined -fno-sanitize-recover=undefined -fno-omit-frame-pointer" % GUARD,
             "-fsanitize=address,undefined"),
    # line coverage of the compiler itself (C10 measures which error()/fatal() sites its catalogue reaches)
    "gcov": ("gcc", "-std=c11 -O0 -g --coverage", "--coverage"),
}


def build(flavour):
    if os.environ.get("VERIF_IMPL") == "stage2" and flavour in ("plain", "hooks"):
        import stage2
        return stage2.build(flavour)
    d = _build_stage1(flavour)
    if os.environ.get("VERIF_HARVEST"):
        d = _harvest_wrap(d)
    return d


def _harvest_wrap(d):
    """corpus harvesting only (corpus/README): a copy of the build whose cproc-qbe is harness/hvwrap.c in front of the real one"""
    hv = d + "-hv"
    if not os.path.exists(os.path.join(hv, ".ok")):
        tmp = hv + ".tmp%d" % os.getpid()
        shutil.rmtree(tmp, ignore_errors=True)
        os.makedirs(tmp)
        for f in os.listdir(d):
            if f != "cproc-qbe":
                os.symlink(os.path.join(d, f), os.path.join(tmp, f))
        subprocess.check_call(["gcc", "-O1", "-o", os.path.join(tmp, "cproc-qbe"), "-DREAL=\"%s\"" % os.path.join(d, "cproc-qbe"),
                               os.path.join(VERIF, "harness", "hvwrap.c")])
        try:
            os.rename(tmp, hv)
        except OSError:
            shutil.rmtree(tmp, ignore_errors=True)
    os.makedirs(os.environ["VERIF_HARVEST"], exist_ok=True)
    return hv


def _build_stage1(flavour):
    """Build /repo's current working tree out of tree; returns objdir (contains cproc-qbe, cproc)."""
    cc, cflags, ldflags = BUILD_FLAVOURS[flavour]
    key = repo_hash() + "-" + flavour
    root = os.path.join(WORK, "build")
    os.makedirs(root, exist_ok=True)
    d = os.path.join(root, key)
    if os.path.exists(os.path.join(d, ".ok")):
        return d
    # evict stale builds of this flavour (not recent ones: a concurrent check may still be using them)
    for old in glob.glob(os.path.join(root, "*-" + flavour)):
        try:
            if time.time() - os.path.getmtime(os.path.join(old, ".ok")) > 1800:
                shutil.rmtree(old, ignore_errors=True)
        except OSError:
            pass
    tmp = d + ".tmp%d" % os.getpid()
    shutil.rmtree(tmp, ignore_errors=True)
    os.makedirs(tmp)
    cmd = ["make", "-s", "-j16", "-C", REPO, "objdir=" + tmp, "CC=" + cc, "CFLAGS=" + cflags, "LDFLAGS=" + ldflags]
    p = subprocess.run(cmd, stdout=subprocess.PIPE, stderr=subprocess.STDOUT, text=True)
    if p.returncode != 0 or not os.path.exists(os.path.join(tmp, "cproc-qbe")):
        shutil.rmtree(tmp, ignore_errors=True)
        raise MachineryError("build %s failed:\n%s" % (flavour, p.stdout[-4000:]))
    open(os.path.join(tmp, ".ok"), "w").close()
    try:
        os.rename(tmp, d)
    except OSError:
        shutil.rmtree(tmp, ignore_errors=True)  # a concurrent check built it
    return d


def cc_link(sources, out, extra=(), cc="gcc"):
    """Compile a small direct harness against files of /repo (e.g. map.c, tree.c)."""
    cmd = [cc, "-std=c11", "-O1", "-g", "-I", REPO, "-o", out] + list(extra) + list(sources)
    p = subprocess.run(cmd, stdout=subprocess.PIPE, stderr=subprocess.STDOUT, text=True)
    if p.returncode != 0:
        raise MachineryError("cc failed: %s\n%s" % (" ".join(cmd), p.stdout[-4000:]))
    return out


class TlcResult:
    def __init__(self):
        self.rc = None
        self.states = 0
        self.distinct = 0
        self.transitions = 0
        self.vcases = []
        self.out = ""
        self.coverage = {}
        self.wall = 0.0

    @property
    def ok(self):
        return self.rc == 0

    @property
    def rejected(self):
        return self.rc in (10, 11, 12, 13)


_STAT = re.compile(r"(\d+) states generated, (\d+) distinct states found")
_COV = re.compile(r"^<(\w+) line (\d+), col \d+ to line \d+, col \d+ of module (\w+)>: (\d+):(\d+)")


def tlc(spec, cfg=None, workers=8, simulate=None, depth=None, env=None, timeout=900, coverage=False,
        heap="2g", deque=False, seed=None, extra=(), collect="VCASE ", on_line=None):
    """Run TLC on spec (module name under spec/). Returns TlcResult. Never raises on
    rejection (rc 10..13); raises MachineryError on parse errors/timeouts/other failures."""
    os.makedirs(os.path.join(WORK, "tlc"), exist_ok=True)
    meta = tempfile.mkdtemp(prefix="meta.", dir=os.path.join(WORK, "tlc"))
    # SerialGC + fixed heap: ParallelGC/G1 with adaptive sizing burn minutes of sys time here
    # java.io.tmpdir: TLC unpacks the standard modules into a fresh tlc-* directory there and never removes it
    jopts = ["-Xss256m", "-Xms" + heap, "-Xmx" + heap, "-XX:+UseSerialGC", "-Djava.io.tmpdir=" + meta]
    if deque:
        jopts.append("-Dtlc2.tool.queue.IStateQueue=StateDeque")
    cmd = ["java"] + jopts + ["-cp", TLAJAR + ":" + CMJAR, "tlc2.TLC", "-workers", str(workers),
                              "-metadir", meta, "-noGenerateSpecTE"]
    if cfg:
        cmd += ["-config", cfg]
    if simulate:
        cmd += ["-simulate", "num=%d" % simulate]
        if seed is not None:
            cmd += ["-seed", str(seed)]
    if depth:
        cmd += ["-depth", str(depth)]
    if coverage:
        cmd += ["-coverage", "1"]
    cmd += list(extra)
    cmd += [spec if spec.endswith(".tla") else spec + ".tla"]
    e = dict(os.environ)
    e.pop("JAVA_TOOL_OPTIONS", None)
    if env:
        e.update({k: str(v) for k, v in env.items()})
    r = TlcResult()
    t0 = time.time()
    try:
        p = subprocess.Popen(cmd, cwd=SPEC, env=e, stdout=subprocess.PIPE, stderr=subprocess.STDOUT, text=True, errors="replace")
        keep = []
        deadline = t0 + timeout
        import threading
        timer = threading.Timer(timeout, p.kill)
        timer.start()
        try:
            for line in p.stdout:
                if collect and line.startswith(collect):
                    payload = line[len(collect):].strip()
                    if on_line:
                        on_line(payload)
                    else:
                        r.vcases.append(payload)
                    continue
                if line.startswith('"' + (collect or "\0")):
                    # PrintT of a string prints it quoted
                    payload = json.loads(line.strip())[len(collect):]
                    if on_line:
                        on_line(payload)
                    else:
                        r.vcases.append(payload)
                    continue
                if len(keep) < 4000:
                    keep.append(line)
                m = _STAT.search(line)
                if m:
                    r.states = int(m.group(1))
                    r.distinct = int(m.group(2))
                m = _COV.match(line)
                if m:
                    r.coverage["%s@%s:%s" % (m.group(1), m.group(3), m.group(2))] = (int(m.group(4)), int(m.group(5)))
            p.wait()
        finally:
            timer.cancel()
        r.rc = p.returncode
        r.out = "".join(keep)
        if time.time() > deadline and r.rc not in (0, 10, 11, 12, 13):
            raise MachineryError("TLC timeout after %ds on %s" % (timeout, spec))
    finally:
        shutil.rmtree(meta, ignore_errors=True)
    r.wall = time.time() - t0
    r.transitions = r.states
    if r.rc not in (0, 10, 11, 12, 13):
        raise MachineryError("TLC failed rc=%s on %s %s:\n%s" % (r.rc, spec, cfg, r.out[-6000:]))
    return r


def run(cmd, stdin=None, timeout=20, env=None, cwd=None):
    """Run a subprocess, return (rc, stdout bytes, stderr bytes); rc=-999 on timeout; negative = signal."""
    try:
        p = subprocess.run(cmd, input=stdin, stdout=subprocess.PIPE, stderr=subprocess.PIPE, timeout=timeout, env=env, cwd=cwd)
        return p.returncode, p.stdout, p.stderr
    except subprocess.TimeoutExpired as ex:
        return -999, ex.stdout or b"", ex.stderr or b""


class Ctx:
    def __init__(self, pid, tier, seed, replay=None):
        self.pid = pid
        self.tier = tier
        self.seed = seed
        self.replay = replay
        self.rng = random.Random(seed)
        self.t0 = time.time()
        os.makedirs(WORK, exist_ok=True)
        self.scratch = tempfile.mkdtemp(prefix="cproc-verif.%s." % pid, dir=os.environ.get("VERIF_SCRATCH", "/tmp"))
        self.violations = []
        self.known_hits = {}
        self.level = "model_checking"
        self.cov = {"evaluations": 0, "distinct_nontrivial": 0, "rule": "", "samples": [], "states": 0,
                    "transitions": 0, "traces_validated_against_impl": 0}
        self.assumptions = []
        self._distinct = set()
        self.tlc_runs = []
        kf = os.path.join(VERIF, "known_findings.json")
        self.known = []
        if os.path.exists(kf):
            self.known = [k for k in json.load(open(kf))["findings"]]
        for extra in sorted(glob.glob(os.path.join(VERIF, "known_findings.d", "*.json"))):
            self.known += json.load(open(extra))["findings"]

    @property
    def quick(self):
        return self.tier == "quick"

    def path(self, name):
        return os.path.join(self.scratch, name)

    # --- TLC -------------------------------------------------------------------------
    def tlc(self, spec, cfg=None, **kw):
        if "seed" not in kw and kw.get("simulate"):
            kw["seed"] = self.seed
        r = tlc(spec, cfg, **kw)
        self.cov["states"] += r.distinct
        self.cov["transitions"] += r.states
        self.tlc_runs.append({"spec": spec, "cfg": cfg, "rc": r.rc, "generated": r.states, "distinct": r.distinct,
                              "wall_s": round(r.wall, 1), "simulate": kw.get("simulate")})
        return r

    def tlc_must_pass(self, spec, cfg=None, **kw):
        """Design-level model checking run that must succeed; a failing model is a machinery
        error (exit 2), never a VIOLATION (the code did nothing wrong)."""
        r = self.tlc(spec, cfg, **kw)
        if not r.ok:
            raise MachineryError("model %s/%s rejected (rc=%d):\n%s" % (spec, cfg, r.rc, r.out[-5000:]))
        return r

    def check_coverage(self, r, allow_untaken=()):
        untaken = [a for a, (taken, _) in r.coverage.items() if taken == 0 and a.split("@")[0] not in allow_untaken]
        self.cov.setdefault("untaken_actions", []).extend(untaken)
        if untaken and not self.quick:
            raise MachineryError("vacuity guard: actions never taken: %s" % untaken)

    # --- accounting ------------------------------------------------------------------
    def count(self, case_key=None, nontrivial=True, n=1):
        self.cov["evaluations"] += n
        if case_key is not None and nontrivial:
            self._distinct.add(case_key if isinstance(case_key, (str, int)) else sha(canon(case_key)))

    def sample(self, obj, limit=6):
        if len(self.cov["samples"]) < limit:
            self.cov["samples"].append(obj)

    def validated(self, n=1):
        self.cov["traces_validated_against_impl"] += n

    # --- findings --------------------------------------------------------------------
    def violation(self, key, what, case):
        """Report a disagreement between the real code and the specification.
        key: canonical signature (string). Known findings print KNOWN-FINDING once per key."""
        for k in self.known:
            if k.get("property") == self.pid and k.get("status") == "known" and re.fullmatch(k["key"], key):
                if k["key"] not in self.known_hits:
                    self.known_hits[k["key"]] = 0
                    print("KNOWN-FINDING: property=%s %s [%s]" % (self.pid, k["what"], k["key"]), flush=True)
                self.known_hits[k["key"]] += 1
                return False
        if len(self.violations) >= 20:
            self.violations.append(None)
            return True
        rid = sha(key + canon(case))[:16]
        d = os.path.join(WORK, "replays", self.pid)
        os.makedirs(d, exist_ok=True)
        path = os.path.join(d, rid + ".json")
        with open(path, "w") as f:
            json.dump({"property": self.pid, "key": key, "what": what, "case": case}, f, indent=1)
        print("VIOLATION property=%s replay=%s" % (self.pid, path), flush=True)
        print("  key=%s :: %s" % (key, what), flush=True)
        self.violations.append(path)
        return True

    # --- end -------------------------------------------------------------------------
    def finish(self):
        self.cov["distinct_nontrivial"] = len(self._distinct)
        self.cov["tlc_runs"] = self.tlc_runs
        self.cov["known_findings_hit"] = self.known_hits
        if not self.cov["samples"]:
            self.cov["samples"] = ["(no case explored)"]
        ev = {"property_id": self.pid, "tier": self.tier, "seed": self.seed, "level": self.level,
              "coverage": self.cov, "assumptions": self.assumptions,
              "wall_s": round(time.time() - self.t0, 2), "violations": len(self.violations),
              "repo_hash": repo_hash()}
        # a run against a scratch copy (VERIF_REPO: seeded changes, negative controls) must not overwrite the evidence of /repo itself
        evdir = os.environ.get("VERIF_EVIDENCE_DIR") or (os.path.join(VERIF, "evidence") if REPO == "/repo" else os.path.join(WORK, "evidence-scratch"))
        os.makedirs(evdir, exist_ok=True)
        with open(os.path.join(evdir, self.pid + ".json"), "w") as f:
            json.dump(ev, f, indent=1, default=str)
            f.write("\n")
        shutil.rmtree(self.scratch, ignore_errors=True)
        return 1 if self.violations else 0

    def cleanup(self):
        shutil.rmtree(self.scratch, ignore_errors=True)


# --- running the compiler proper ------------------------------------------------------
def cproc(objdir, src, target="x86_64-sysv", args=(), env=None, timeout=20, tokdump=False, trace=None, path=None, stack=None):
    """Run <objdir>/cproc-qbe on source text (stdin unless path given). Returns (rc, stdout str, stderr str).
    rc < 0: killed by signal -rc; rc == -999: timeout."""
    e = dict(os.environ)
    e["ASAN_OPTIONS"] = "detect_leaks=0:abort_on_error=0"
    e["UBSAN_OPTIONS"] = "print_stacktrace=1:halt_on_error=1"
    e.pop("CPROC_VERIF_TRACE", None)
    e.pop("CPROC_VERIF_TOKDUMP", None)
    if tokdump:
        e["CPROC_VERIF_TOKDUMP"] = "1"
    if trace:
        e["CPROC_VERIF_TRACE"] = trace
    if env:
        e.update(env)
    cmd = [os.path.join(objdir, "cproc-qbe")] + (["-t", target] if target else []) + list(args)
    if stack:
        cmd = ["prlimit", "--stack=%d" % stack] + cmd      # same (large) stack limit for whatever build runs
    data = None
    if path is not None:
        cmd.append(path)
    else:
        data = src.encode("utf-8", "surrogateescape") if isinstance(src, str) else src
    rc, out, err = run(cmd, stdin=data, timeout=timeout, env=e)
    return rc, out.decode("utf-8", "surrogateescape"), err.decode("utf-8", "replace")


def pmap(fn, items, workers=16):
    from concurrent.futures import ThreadPoolExecutor
    with ThreadPoolExecutor(max_workers=workers) as ex:
        return list(ex.map(fn, items))


def read_tokdump(out):
    """Parse the H1 dump: list of dicts kind, space, hide, line, col, file, text."""
    toks = []
    for ln in out.split("\n"):
        if not ln:
            continue
        f = ln.split("\t", 6)
        if len(f) != 7:
            raise MachineryError("bad tokdump line %r" % ln)
        toks.append({"kind": int(f[0]), "space": int(f[1]), "hide": int(f[2]), "line": int(f[3]), "col": int(f[4]), "file": f[5], "text": f[6]})
    return toks


def token_kinds():
    """enum tokenkind names in order, read from /repo/cc.h at run time."""
    src = open(os.path.join(REPO, "cc.h")).read()
    body = src[src.index("enum tokenkind {") + len("enum tokenkind {"):]
    body = body[:body.index("};")]
    body = re.sub(r"/\*.*?\*/", "", body, flags=re.S)
    return [x.strip() for x in body.split(",") if x.strip()]


# --- shared pool of generated inputs (consumed by C02/C03/C19/C20) -----------------------
def pool_add(pid, src, target="x86_64-sysv", mode="c", cap=300):
    """Drop a generated input into .work/pool/<pid>/ so whole-compiler checks can reuse it."""
    d = os.path.join(WORK, "pool", pid)
    os.makedirs(d, exist_ok=True)
    data = src.encode("utf-8", "surrogateescape") if isinstance(src, str) else src
    name = "%s+%s+%s.c" % (sha(data)[:12], target, mode)
    if os.path.exists(os.path.join(d, name)):
        return
    if len(os.listdir(d)) >= cap:
        return
    with open(os.path.join(d, name), "wb") as f:
        f.write(data)


def pool_items():
    """-> list of (pid, path, target, mode)"""
    out = []
    for p in sorted(glob.glob(os.path.join(WORK, "pool", "*", "*.c"))):
        base = os.path.basename(p)[:-2].split("+")
        if len(base) == 3:
            out.append((os.path.basename(os.path.dirname(p)), p, base[1], base[2]))
    return out
