#!/bin/sh
# After a `fix:` commit in /repo: switch a deviation of the implementation-shaped models off in every Layout/Abi config
# (the checks then demand the correct behaviour).   usage: harness/layout_devs.sh off <DeviationName>
# Deviations: EnumFirstZeroUnsigned UnnamedNoAlign UnionUnnamedIgnored PackedNoFinalAlign
set -e
[ "$1" = off ] && [ -n "$2" ] || { echo "usage: $0 off <DeviationName>" >&2; exit 2; }
here=$(cd "$(dirname "$0")/.." && pwd)
for f in "$here"/spec/MC_Layout_*.cfg "$here"/spec/MC_Abi_*.cfg "$here"/spec/Trace_Layout*.cfg; do
	sed -i -e "s/\"$2\", //" -e "s/, \"$2\"}/}/" -e "s/{\"$2\"}/{}/" "$f"
done
grep -l "\"$2\"" "$here"/spec/MC_Layout_*.cfg "$here"/spec/MC_Abi_*.cfg "$here"/spec/Trace_Layout*.cfg 2>/dev/null && { echo "still present" >&2; exit 1; }
echo "deviation $2 switched off; remove its entry from known_findings.d/C06.json (status fixed)"
