/* Direct harness for /repo/map.c (flows A and B of C16).  Links the real map.c; `struct map`
 * is public (util.h) so the whole slot array is dumped.  Line protocol on stdin:
 *
 *   K <id> <hex bytes|-> <hash hex|->     define key <id>; hash '-' = mapkey() (the real hash function),
 *                                         otherwise a forged struct mapkey with that hash
 *   S <id> <prefix hex|-> <mask hex> <target hex>
 *                                         define key <id> = prefix + searched suffix such that the REAL hash
 *                                         (mapkey) satisfies hash & mask == target; prints "S <id> <hex> <hash>"
 *   P <id> <tail hex> <mask hex> <target hex>   as S, but the key is 'v' + searched part + tail
 *   B <id> <len> <seed> <mask hex> <target hex>
 *                                         long key: <len> pseudo-random bytes, last 8 searched as for S
 *   R <cap> <op>...                       replay a history on a fresh table; ops: p<id>,<v> (v = k: keep,
 *                                         else the integer stored through the returned pointer), g<id>, f
 *                                         prints "<results> | <cap> <len> <key val>*cap"  (key -1 = free slot)
 *   L <path> <cap> <op>...                same, but appends one ndjson event per call to <path> (flow B)
 *
 * Values are small integers carried in the void *.
 */
#define _POSIX_C_SOURCE 200809L
#include <stdarg.h>
#include <stdbool.h>
#include <stddef.h>
#include <stdint.h>
#include <stdio.h>
#include <stdlib.h>
#include <string.h>
#include <signal.h>
#include <unistd.h>
#include "util.h"

char *argv0 = "cmap";
void fatal(const char *fmt, ...) { va_list ap; va_start(ap, fmt); vfprintf(stderr, fmt, ap); va_end(ap); fputc('\n', stderr); exit(3); }
void *xmalloc(size_t n) { void *p = malloc(n ? n : 1); if (!p) exit(3); return p; }
void *xreallocarray(void *p, size_t n, size_t m) { p = realloc(p, n * m ? n * m : 1); if (!p) exit(3); return p; }

struct key { struct mapkey k; unsigned char *mem; };
static struct key *keys;
static size_t nkeys;

static struct key *
keyslot(long id)
{
	if (id < 0) fatal("bad key id");
	if ((size_t)id >= nkeys) {
		size_t n = nkeys ? nkeys : 64;
		while ((size_t)id >= n) n *= 2;
		keys = xreallocarray(keys, n, sizeof(keys[0]));
		memset(keys + nkeys, 0, (n - nkeys) * sizeof(keys[0]));
		nkeys = n;
	}
	return &keys[id];
}

/* key bytes live behind an 8-byte header holding the id, so a slot's str pointer identifies its key */
static unsigned char *
keymem(struct key *k, long id, size_t len)
{
	free(k->mem);
	k->mem = xmalloc(8 + len + 1);
	memcpy(k->mem, &(int64_t){id}, 8);
	return k->mem + 8;
}

static long
idof(const void *str)
{
	int64_t id;
	memcpy(&id, (const unsigned char *)str - 8, 8);
	return id;
}

static size_t
unhex(const char *s, unsigned char *out)
{
	size_t n = 0;
	unsigned v;
	if (strcmp(s, "-") == 0) return 0;
	for (; s[0] && s[1]; s += 2) {
		sscanf(s, "%2x", &v);
		if (out) out[n] = v;
		++n;
	}
	return n;
}

static void
puthex(const unsigned char *p, size_t n)
{
	if (!n) putchar('-');
	for (size_t i = 0; i < n; ++i) printf("%02x", p[i]);
}

static const char alphabet[] = "abcdefghijklmnopqrstuvwxyz0123456789_ABCDEFGHIJKLMNOPQRSTUVWXYZ";

/* search a suffix over the identifier alphabet such that the real hash has the wanted low bits */
static void
search(long id, const unsigned char *prefix, size_t plen, unsigned long mask, unsigned long target, bool front)
{
	struct key *k = keyslot(id);
	unsigned char *b = keymem(k, id, plen + 13);
	unsigned char var[12];
	size_t slen;
	unsigned long long ctr;

	for (ctr = 0;; ++ctr) {
		unsigned long long c = ctr;
		slen = 0;
		do { var[slen++] = alphabet[c % 63]; c /= 63; } while (c && slen < 11);
		if (front) {          /* 'v' + searched part + fixed tail: names that differ only near the start */
			b[0] = 'v';
			memcpy(b + 1, var, slen);
			memcpy(b + 1 + slen, prefix, plen);
			++slen;
		} else {
			memcpy(b, prefix, plen);
			memcpy(b + plen, var, slen);
		}
		mapkey(&k->k, b, plen + slen);
		if ((k->k.hash & mask) == target)
			break;
		if (ctr > 400ull * (mask + 1) + 100000) fatal("SEARCH-FAILED: no suffix gives hash & %lx == %lx (is the hash still a function of all bytes?)", mask, target);
	}
	printf("S %ld ", id);
	if (plen + slen <= 256) puthex(b, plen + slen); else printf("(%zu bytes)", plen + slen);
	printf(" %lx\n", k->k.hash);
}

static FILE *logf;
static void **delbuf;
static size_t ndel, capdel;
static void del(void *v)
{
	if (ndel == capdel) { capdel = capdel ? capdel * 2 : 64; delbuf = xreallocarray(delbuf, capdel, sizeof(void *)); }
	delbuf[ndel++] = v;
}

static void
dump(struct map *m)
{
	printf("| %zu %zu", m->cap, m->len);
	for (size_t i = 0; i < m->cap; ++i) {
		if (m->keys[i].str) printf(" %ld %ld", idof(m->keys[i].str), (long)(intptr_t)m->vals[i]);
		else fputs(" -1 0", stdout);
	}
	putchar('\n');
}

static void
replay(char *p, bool log)
{
	struct map m;
	char *tok, *save;
	size_t cap;

	tok = strtok_r(p, " \n", &save);
	if (log) {
		if (logf) fclose(logf);
		logf = fopen(tok, "a");
		if (!logf) fatal("cannot open %s", tok);
		tok = strtok_r(NULL, " \n", &save);
	}
	cap = strtoul(tok, NULL, 10);
	mapinit(&m, cap);
	if (log) fprintf(logf, "{\"e\":\"init\",\"cap\":%zu}\n", cap);
	while ((tok = strtok_r(NULL, " \n", &save))) {
		if (tok[0] == 'p') {
			char *c;
			long id = strtol(tok + 1, &c, 10);
			void **e = mapput(&m, &keyslot(id)->k);
			long old = (long)(intptr_t)*e, a = -1;
			if (c[1] != 'k') { a = strtol(c + 1, NULL, 10); *e = (void *)(intptr_t)a; }
			if (e < m.vals || e >= m.vals + m.cap) fatal("mapput returned a pointer outside vals");
			if (log) fprintf(logf, "{\"e\":\"put\",\"k\":%ld,\"a\":%ld,\"old\":%ld,\"i\":%zu,\"cap\":%zu,\"len\":%zu}\n", id, a, old, (size_t)(e - m.vals), m.cap, m.len);
			else printf("p:%ld,%zu ", old, (size_t)(e - m.vals));
		} else if (tok[0] == 'g') {
			long id = strtol(tok + 1, NULL, 10);
			long v = (long)(intptr_t)mapget(&m, &keyslot(id)->k);
			if (log) fprintf(logf, "{\"e\":\"get\",\"k\":%ld,\"r\":%ld}\n", id, v);
			else printf("g:%ld ", v);
		} else if (tok[0] == 'f') {
			ndel = 0;
			mapfree(&m, del);
			if (log) {
				fprintf(logf, "{\"e\":\"free\",\"vals\":[");
				for (size_t i = 0; i < ndel; ++i) fprintf(logf, "%s%ld", i ? "," : "", (long)(intptr_t)delbuf[i]);
				fprintf(logf, "]}\n");
			} else {
				fputs("f:", stdout);
				for (size_t i = 0; i < ndel; ++i) printf("%s%ld", i ? "," : "", (long)(intptr_t)delbuf[i]);
				putchar(' ');
			}
			mapinit(&m, cap);
			if (log) fprintf(logf, "{\"e\":\"init\",\"cap\":%zu}\n", cap);
		} else fatal("bad op %s", tok);
	}
	if (log) { fprintf(logf, "{\"e\":\"end\",\"cap\":%zu,\"len\":%zu}\n", m.cap, m.len); fflush(logf); puts("L ok"); }
	else dump(&m);
	mapfree(&m, NULL);
}

/* watchdog: a keyindex loop that never finds a free slot would spin forever */
static void onalarm(int sig) { (void)sig; static const char m[] = "\nHANG\n"; if (write(1, m, sizeof m - 1) < 0) {} _exit(4); }

int
main(void)
{
	char *line = NULL;
	size_t lcap = 0;
	ssize_t n;

	signal(SIGALRM, onalarm);
	while ((n = getline(&line, &lcap, stdin)) > 0) {
		fflush(stdout);
		alarm(60);
		if (line[0] == 'K') {
			long id; char *hex = xmalloc(n), hs[64];
			if (sscanf(line + 1, "%ld %s %63s", &id, hex, hs) != 3) fatal("bad K");
			struct key *k = keyslot(id);
			size_t len = unhex(hex, NULL);
			unsigned char *b = keymem(k, id, len);
			unhex(hex, b);
			if (strcmp(hs, "-") == 0) mapkey(&k->k, b, len);
			else { k->k.str = b; k->k.len = len; k->k.hash = strtoul(hs, NULL, 16); }
			free(hex);
		} else if (line[0] == 'S' || line[0] == 'P') {
			long id; char *hex = xmalloc(n); unsigned long mask, target;
			if (sscanf(line + 1, "%ld %s %lx %lx", &id, hex, &mask, &target) != 4) fatal("bad S");
			size_t len = unhex(hex, NULL);
			unsigned char *b = xmalloc(len);
			unhex(hex, b);
			search(id, b, len, mask, target, line[0] == 'P');
			free(b); free(hex);
		} else if (line[0] == 'B') {
			long id; size_t len; unsigned long seed, mask, target;
			if (sscanf(line + 1, "%ld %zu %lu %lx %lx", &id, &len, &seed, &mask, &target) != 5) fatal("bad B");
			unsigned char *b = xmalloc(len);
			unsigned long long x = seed * 2654435761u + 1;
			for (size_t i = 0; i < len; ++i) { x = x * 6364136223846793005ull + 1442695040888963407ull; b[i] = x >> 56; }
			search(id, b, len, mask, target, false);
			free(b);
		} else if (line[0] == 'R') {
			replay(line + 1, false);
		} else if (line[0] == 'L') {
			replay(line + 1, true);
		} else if (line[0] != '\n' && line[0] != '#') {
			fatal("bad command %c", line[0]);
		}
	}
	fflush(stdout);
	return 0;
}
