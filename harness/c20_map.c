/* C20 direct harness for /repo/map.c: replays operation histories emitted by
 * spec/MapPure.tla with an ARBITRARY hash per key (struct mapkey.hash is public,
 * so the harness fills it from the spec's H instead of calling mapkey()).
 *
 * stdin, one case per line:   cap0 nkeys h_1 .. h_nkeys nops k_1 v_1 .. k_nops v_nops
 *   (keys are 1..nkeys, h_i the hash of key i, v > 0)
 * stdout, one line per case:  len cap g_1 .. g_nkeys      (g_i = value mapget finds for key i, 0 = NULL)
 */
#include <stdbool.h>
#include <stdio.h>
#include <stdlib.h>
#include <string.h>
#include "util.h"

#define MAXK 64

static int valcell[256];
static char names[MAXK + 1][16];

static void
key(struct mapkey *k, int i, const unsigned long *h)
{
	k->str = names[i];
	k->len = strlen(names[i]);
	k->hash = h[i];
}

int
main(void)
{
	unsigned long h[MAXK + 1];
	int cap0, nkeys, nops, i, k, v;
	struct map m;
	struct mapkey mk;
	void **e, *g;

	for (i = 0; i < 256; ++i)
		valcell[i] = i;
	for (i = 0; i <= MAXK; ++i)
		snprintf(names[i], sizeof(names[i]), "key%d", i);
	while (scanf("%d %d", &cap0, &nkeys) == 2) {
		if (nkeys > MAXK)
			return 3;
		for (i = 1; i <= nkeys; ++i)
			if (scanf("%lu", &h[i]) != 1)
				return 3;
		if (scanf("%d", &nops) != 1)
			return 3;
		mapinit(&m, cap0);
		for (i = 0; i < nops; ++i) {
			if (scanf("%d %d", &k, &v) != 2 || k < 1 || k > nkeys || v < 1 || v > 255)
				return 3;
			key(&mk, k, h);
			e = mapput(&m, &mk);
			*e = &valcell[v];
		}
		printf("%zu %zu", m.len, m.cap);
		for (i = 1; i <= nkeys; ++i) {
			key(&mk, i, h);
			g = mapget(&m, &mk);
			printf(" %d", g ? *(int *)g : 0);
		}
		putchar('\n');
		mapfree(&m, NULL);
	}
	return 0;
}
