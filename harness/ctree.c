/* Direct harness for /repo/tree.c (flow A of C15): replays insertion histories
 * and prints the full concrete shape.  One input line = one history of decimal
 * unsigned 64-bit keys; output line = "<new> <preorder: key height | ->".  */
#include <stdbool.h>
#include <stddef.h>
#include <stdio.h>
#include <stdlib.h>
#include <string.h>
#include <stdarg.h>
#include "util.h"

char *argv0 = "ctree";
void fatal(const char *fmt, ...) { va_list ap; va_start(ap, fmt); vfprintf(stderr, fmt, ap); va_end(ap); exit(3); }
void *xmalloc(size_t n) { void *p = malloc(n); if (!p) exit(3); return p; }

struct cnode { struct treenode node; int pad; };

static void dump(struct treenode *n)
{
	if (!n) { fputs(" -", stdout); return; }
	printf(" %llu %d", n->key, n->height);
	dump(n->child[0]);
	dump(n->child[1]);
}

static void freetree(struct treenode *n)
{
	if (!n) return;
	freetree(n->child[0]); freetree(n->child[1]); free(n);
}

int main(void)
{
	char *line = NULL; size_t cap = 0;
	while (getline(&line, &cap, stdin) > 0) {
		void *root = NULL;
		struct treenode *n = NULL;
		char *p = line, *e;
		int perstep = 0;
		if (*p == '@') { perstep = 1; ++p; }   /* '@' prefix: dump new-flag after every insertion */
		for (;;) {
			unsigned long long k = strtoull(p, &e, 10);
			if (e == p) break;
			p = e;
			n = treeinsert(&root, k, sizeof(struct cnode));
			if (n->key != k) { puts("BADRET"); }
			if (perstep) printf("%d", n->new);
		}
		if (perstep) putchar(' ');
		printf("%d", n ? n->new : -1);
		dump(root);
		putchar('\n');
		freetree(root);
	}
	return 0;
}
