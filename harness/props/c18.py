"""C18 — a failing stage makes the whole driver invocation fail cleanly.

spec/DriverProc.tla is the concurrent model of buildobj()/buildexe(): the driver and one child per stage, pipes with
holder sets, files.  TLC chooses pipeline shape, output mode, and the program of every child (exit0, exit 1 before
reading / after half of the output / after everything, death by signal at any moment, spawn failure), explores all
interleavings, checks the safety invariants of C18 (and, in a second run, liveness under weak fairness) and prints
one VCASE per terminal state: configuration, stages that had exited 0 before the first failure, exit status, surviving files, link started.

Flow A.  Every configuration is realised on the REAL driver (driver.c + util.c built against stub tools, see
drvlib.py / vstub.c): each stage gets a script derived from its program and from the termination order of a TLC
behaviour (which stages had finished before the first failure, which were still running), delays are multiples of a
scale and every class is run with two scales.  Observed: exit status, surviving files in the working directory and in
the (private) /tmp, whether ld ran, processes left running / un-reaped, wall clock (timeout = hang).  The observation
must be one of the outcomes TLC found for that configuration; outcomes that differ from the REQUIRED one (no
temporary left) only through a named deviation of the model are reported as known findings.

Flow B.  strace -f of the real driver: its own system calls (clone+execve per stage, close of the pipe write end,
wait4 results, kill, unlink, exit_group, mkstemp's openat) are the events of Trace_DriverProc.tla; the children's
steps are not logged and are inferred by TLC.
"""
import json, os, re
import vlib, drvlib

UNIT = 32768          # bytes per model unit (Cap = 2 units = one 64 KiB Linux pipe)
LONG = 30000          # ms: "still running when the failure happens"; the run times out (hang) long before
SCALES = (40, 110)    # ms per delay rank
TRIPLE = "x86_64-linux-gnu"
SIGNALS = []          # filled from DriverProc.tla's Signals (VSIGNALS line): SIGSEGV, SIGKILL, SIGTERM, SIGINT, SIGHUP, SIGPIPE, SIGABRT

LINKISH = {1: [("p%d.s", ["as"])], 2: [("p%d.S", ["cpp", "as"]), ("p%d.qbe", ["qbe", "as"])],
           3: [("p%d.i", ["cc", "qbe", "as"])], 4: [("p%d.c", ["cpp", "cc", "qbe", "as"])]}
TO_S = {1: [("p%d.qbe", ["qbe"])], 2: [("p%d.i", ["cc", "qbe"])], 3: [("p%d.c", ["cpp", "cc", "qbe"])]}
TO_E = {1: [("p%d.c", ["cpp"])]}


def shape(cfg, variant=0):
    """Command line and, per input, (name, roles) realising the configuration; None if no command line has this shape."""
    mode, ni, nst = cfg["mode"], cfg["ni"], cfg["nst"][:cfg["ni"]]
    if mode in ("link", "file"):
        table, flags = LINKISH, (["-c"] if mode == "file" else [])
    elif max(nst) == 1 and variant % 2:
        table, flags = TO_E, ["-E"]
    else:
        table, flags = TO_S, ["-S", "-o", "-"]
    if any(n not in table for n in nst):
        return None
    inputs = []
    for k, n in enumerate(nst):
        alts = table[n]
        name, roles = alts[variant % len(alts)]
        inputs.append((name % (k + 1), roles))
    return flags + [n for n, _ in inputs], inputs


def classes_of(cases):
    """Group terminal states by configuration: outcomes allowed by the model, required outcome, steering classes."""
    by = {}
    for c in cases:
        key = vlib.canon(c["cfg"])
        g = by.setdefault(key, {"cfg": c["cfg"], "outcomes": set(), "required": set(), "early": set()})
        g["outcomes"].add((c["exit"], tuple(sorted(c["files"])), c["link"]))
        g["required"].add((c["exit"], tuple(sorted(c["required_files"])), c["link"]))
        g["early"].add(tuple(sorted(c["early"])))
    return by


def scripts(cfg, inputs, early, scale, sig):
    """Stub scripts (beh), tools missing from the start, for one class."""
    beh, missing = {}, set()
    fin = cfg["fin"]
    calls = {}        # role -> number of invocations so far
    idx = {}
    for k, (_name, roles) in enumerate(inputs):
        for s, r in enumerate(roles):
            idx[(k + 1, s + 1)] = "%s.%d" % (r, calls.get(r, 0))
            calls[r] = calls.get(r, 0) + 1
    if fin:
        roles = inputs[fin - 1][1]
        n = len(roles)
        fails = [s for s in range(1, n + 1) if cfg["ends"][s - 1] not in ("exit0", "exit0_nodrain")]
        rank = {}
        base = 2 if early else 1
        for j, s in enumerate(fails):
            rank[s] = base + j
        for s in range(1, n + 1):
            end = cfg["ends"][s - 1]
            w = (3 if cfg["big"] == s else 1) * UNIT
            key = idx[(fin, s)]
            if end == "exit0":
                if s in early:
                    beh[key] = "open\ndrain\nwrite %d\nexit 0\n" % w
                else:
                    beh[key] = "open\ndrain\nwrite %d\nsleep %d\nexit 0\n" % (w, LONG)
            elif end == "exit1_before_read":
                beh[key] = "sleep %d\nexit 1\n" % (rank[s] * scale)
            elif end == "exit1_mid_write":
                half = ((3 if cfg["big"] == s else 1) + 1) // 2 * UNIT
                beh[key] = "open\nsleep %d\nwrite %d\nexit 1\n" % (rank[s] * scale, half)
            elif end == "exit1_after":
                beh[key] = "open\nsleep %d\ndrain\nwrite %d\nexit 1\n" % (rank[s] * scale, w)
            elif end == "signal":
                beh[key] = "open\nsleep %d\nsig %d\n" % (rank[s] * scale, sig)
            elif end == "exit0_nodrain":
                beh[key] = "sleep %d\nexit 0\n" % scale
            elif end == "spawn_fails":
                role = roles[s - 1]
                users = [(k, st) for (k, st), v in idx.items() if v.split(".")[0] == role and k < fin]
                if not users:
                    missing.add(role)
                else:
                    # the tool vanishes while the previous input runs: its last stage is exec'd after all its others
                    k = fin - 1
                    lastkey = idx[(k, len(inputs[k - 1][1]))]
                    beh[lastkey] = "rm $BIN/@%s@\nopen\ndrain\nwrite 10\nexit 0\n" % role
    le = cfg["lend"]
    if le == "exit1_after":
        beh["ld.0"] = "open\nwrite 10\nexit 1\n"
    elif le == "signal":
        beh["ld.0"] = "open\nsleep %d\nsig %d\n" % (scale // 4, sig)
    elif le == "spawn_fails":
        missing.add("ld")
    return beh, missing, idx


def observed_outcome(cfg, inputs, obs):
    """Project a run onto the model's vocabulary: (exit, files, link started)."""
    files = set()
    mode = cfg["mode"]
    produced = {"p%d.%s" % (k + 1, ext): k + 1 for k in range(len(inputs)) for ext in ("o", "s", "qbe")}
    given = {n for n, _ in inputs}
    extra = []
    for n in obs["files"]:
        if n in given:
            continue
        if n == "a.out":
            files.add("exe")
        elif n in produced and mode == "file":
            files.add("out%d" % produced[n])
        else:
            extra.append(n)
    # temporaries: the k-th link-mode pipeline created the k-th mkstemp name; recover the index from the -o operand
    # its last stage was given (every stage is logged), else by elimination
    owner = {}
    for k, (_n, roles) in enumerate(inputs):
        pass
    asruns = obs["runs"].get("as", [])
    for i, av in enumerate(asruns):
        for j, w in enumerate(av):
            if j and av[j - 1] == "-o" and w.startswith("/tmp/cproc-"):
                owner[w] = i + 1
    unknown = 0
    for t in obs["tmp"]:
        full = "/tmp/" + t
        if full in owner:
            files.add("tmp%d" % owner[full])
        else:
            unknown += 1
            files.add("tmp?%d" % unknown)
    rc = obs["rc"]
    return (rc, tuple(sorted(files)), bool(obs["runs"].get("ld"))), extra


class FlowA:
    def __init__(self, ctx, m, pool):
        self.ctx, self.m, self.pool = ctx, m, pool
        self.b = m.builds[TRIPLE]
        self.nrun = 0

    def make_task(self, g, early, scale, sig, variant, tag):
        cfg = g["cfg"]
        sh = shape(cfg, variant)
        if sh is None:
            return None
        argv, inputs = sh
        beh, missing, _idx = scripts(cfg, inputs, set(early), scale, sig)
        beh = {k: re.sub(r"@(\w+)@", lambda mm: ("cproc-qbe" if mm.group(1) == "cc" else self.b.tool[mm.group(1)]), v)
               for k, v in beh.items()}
        files = {n: "[%s]" % n for n, _ in inputs}
        return dict(triple=TRIPLE, files=files, argv=argv, beh=beh, missing=tuple(missing), timeout=3.5,
                    tag=tag, stdin=b""), inputs

    def judge(self, g, inputs, obs):
        cfg = g["cfg"]
        if obs["rc"] == -999:
            return "bad", "hang", "driver did not exit within the time limit"
        out, extra = observed_outcome(cfg, inputs, obs)
        if obs["running"]:
            return "bad", "running", "%d stage process(es) still running after the driver exited" % obs["running"]
        if obs["unreaped"]:
            return "bad", "unreaped", "%d terminated stage process(es) not waited for by the driver" % obs["unreaped"]
        if extra:
            return "bad", "files", "unexpected files %s" % extra
        if out in g["required"]:
            if out not in g["outcomes"]:       # a deviation the model still lists is not exhibited (repaired?)
                self.stale = getattr(self, "stale", 0) + 1
            return "ok", None, None
        if out not in g["outcomes"]:
            exp = sorted(g["outcomes"])
            field = "exit" if out[0] not in {o[0] for o in exp} else ("link" if out[2] not in {o[2] for o in exp} else "files")
            return "bad", field, "observed %s, model allows %s" % (out, exp)
        if True:
            dev = "LinkSpawnLeak" if cfg["lend"] == "spawn_fails" else "TempLeak"
            return "known", dev, "observed %s, required %s" % (out, sorted(g["required"]))
        return "ok", None, None

    def run(self, groups, max_classes_per_cfg):
        sigs = list(SIGNALS)
        ctx = self.ctx
        tasks, meta = [], []
        skipped = 0
        for gi, key in enumerate(sorted(groups)):
            g = groups[key]
            earlies = sorted(g["early"], key=lambda e: (len(e), e))
            if len(earlies) > max_classes_per_cfg:   # keep the extremes: nothing finished, everything possible finished
                earlies = [earlies[0], earlies[-1]] + earlies[1:max_classes_per_cfg - 1]
            has_signal = "signal" in g["cfg"]["ends"] or g["cfg"]["lend"] == "signal"
            for ei, early in enumerate(earlies):
                for si, sig in enumerate(sigs if has_signal else sigs[:1]):
                    # every signal at every position; the first two with both delay scales, the others alternate
                    for scale in (SCALES if si < 2 else (SCALES[(si + ei) % 2],)):
                        t = self.make_task(g, early, scale, sig, gi + ei, len(meta))
                        if t is None:
                            skipped += 1
                            continue
                        tasks.append(t[0])
                        meta.append((g, early, scale, sig, gi + ei, t[1]))
        for obs in self.pool.map(tasks, chunksize=2):
            if len(ctx.violations) >= 6:
                ctx.cov["stopped_early"] = "after %d violations" % len(ctx.violations)
                break
            g, early, scale, sig, variant, inputs = meta[obs["tag"]]
            verdict, what, detail = self.judge(g, inputs, obs)
            if verdict == "bad":    # timing-dependent observation: report only if an immediate re-run repeats it
                t2 = self.make_task(g, early, scale, sig, variant, 0)[0]
                obs = list(self.pool.map([t2], chunksize=1))[0]
                verdict, what, detail = self.judge(g, inputs, obs)
            self.nrun += 1
            cfg = g["cfg"]
            ctx.count(vlib.canon([cfg, early, sig]), nontrivial=bool(cfg["fin"]) or cfg["lend"] != "exit0")
            case = {"cfg": cfg, "finished_before_failure": list(early), "delay_scale_ms": scale, "signal": sig, "variant": variant,
                    "model_outcomes": sorted(g["outcomes"]), "required_outcomes": sorted(g["required"]),
                    "argv": tasks[obs["tag"]]["argv"] if verdict != "bad" else None, "detail": detail,
                    "stderr": obs["stderr"][-400:]}
            if verdict == "known":
                ctx.violation("leak:" + what, "temporary objects survive the driver", case)
            elif verdict == "bad":
                case["argv"] = self.make_task(g, early, scale, sig, variant, 0)[0]["argv"]
                case["variant"] = variant
                ctx.violation("c18:" + what, detail, case)
            elif cfg["fin"] and len(ctx.cov["samples"]) < 3 and cfg["nst"][cfg["fin"] - 1] >= 3:
                ctx.sample({"cfg": cfg, "argv": tasks[obs["tag"]]["argv"], "finished_before_failure": list(early),
                            "observed (exit, files, link started)": observed_outcome(cfg, inputs, obs)[0]})
        ctx.cov["flowA_runs"] = self.nrun
        if getattr(self, "stale", 0):
            ctx.cov["deviations_predicted_but_not_observed"] = self.stale
            print("NOTE C18: %d runs left no temporary where DriverProc.tla's deviations predict a leak (repaired? remove them from Devs "
                  "in MC_DriverProc_*.cfg / MC_Trace_DriverProc.cfg)" % self.stale, flush=True)
        ctx.cov["flowA_unrealisable_classes"] = skipped
        return self.nrun


# ----------------------------------------------------------------------------------------------
# Flow B: strace of the real driver -> events of Trace_DriverProc.tla
_LINE = re.compile(r"^(\d+)\s+(.*)$")
_RESUMED = re.compile(r"^<\.\.\. (\w+) resumed>(.*)$")
_WSTAT = re.compile(r"\[\{(.*?)\}\]")


def _calls(path):
    """Yield (pid, name, args, ret) for every completed system call, in completion order."""
    pending = {}
    with open(path, errors="replace") as f:
        for ln in f:
            m = _LINE.match(ln.rstrip("\n"))
            if not m:
                continue
            pid, rest = int(m.group(1)), m.group(2)
            if rest.endswith("<unfinished ...>"):
                pending[pid] = rest[:-len("<unfinished ...>")]
                continue
            r = _RESUMED.match(rest)
            if r:
                rest = pending.pop(pid, r.group(1) + "(") + r.group(2)
            if rest.startswith("+++") or rest.startswith("---"):
                continue
            name = rest.split("(", 1)[0]
            eq = rest.rfind(" = ")
            ret = rest[eq + 3:].strip() if eq >= 0 else "?"
            yield pid, name, rest[len(name):eq if eq >= 0 else None], ret
    # calls that never returned: an execve cut short by SIGKILL is an exec that was succeeding (a failing one returns)
    for pid, rest in pending.items():
        name = rest.split("(", 1)[0]
        yield pid, name, rest[len(name):], "?"


def role_of(path):
    base = os.path.basename(path)
    if base == "cproc-qbe":
        return "cc"
    for r in ("cpp", "qbe", "as", "ld"):
        if base.endswith(r):
            return r
    return base


def trace_events(path, inputs):
    """The driver's own system calls as events.  inputs: [(name, roles)] gives the stage number of a tool."""
    calls = list(_calls(path))
    driver = None
    execs = {}                   # pid -> [(path, ok)]
    for pid, name, args, ret in calls:
        if name == "execve":
            p = args.split('"')[1] if '"' in args else ""
            execs.setdefault(pid, []).append((p, ret.startswith("0") or ret == "?"))
            if driver is None and p.endswith("/bin/cproc") and ret.startswith("0"):
                driver = pid
    if driver is None:
        raise vlib.MachineryError("strace: driver execve not found in %s" % path)
    ev = []
    started = False
    stage_of, cur, last_stage = {}, 0, 99
    failed_spawn = set()
    wend, newr, rends = None, None, {}
    ntmp, tmpname = 0, {}
    outnames = {}
    for k, (n, _r) in enumerate(inputs):
        base = n.rsplit(".", 1)[0]
        for ext in ("o", "s", "qbe"):
            outnames[base + "." + ext] = "out%d" % (k + 1)
    linkpid = None
    for pid, name, args, ret in calls:
        if pid != driver:
            continue
        if not started:
            started = name == "execve" and ret.startswith("0") and "/bin/cproc" in args
            continue
        if name == "openat" and '"/tmp/cproc-' in args and "O_EXCL" in args and not ret.startswith("-1"):
            ntmp += 1
            tmpname[args.split('"')[1]] = "tmp%d" % ntmp
            ev.append({"e": "Mkstemp"})
        elif name in ("pipe2", "pipe") and ret.startswith("0"):
            fds = re.findall(r"\d+", args.split("]")[0])
            wend = int(fds[1])
            newr = int(fds[0])
        elif name in ("clone3", "clone", "vfork", "fork") and not ret.startswith("-1"):
            child = int(ret.split()[0])
            ex = execs.get(child, [])
            ok = any(o for _p, o in ex)
            role = role_of(ex[-1][0]) if ex else "?"
            if role == "ld":
                linkpid = child
                ev.append({"e": "SpawnLink", "ok": ok})
                if not ok:
                    failed_spawn.add(child)
                continue
            # which stage of which input: stage numbers increase within a pipeline
            while True:
                roles = inputs[cur - 1][1] if cur >= 1 else []
                s = roles.index(role) + 1 if role in roles else 0
                if cur >= 1 and s > last_stage:
                    break
                cur += 1
                last_stage = 0
                if cur > len(inputs):
                    s = 0
                    break
            last_stage = s
            if ok:
                stage_of[child] = s
                if newr is not None:
                    rends = {fd: v for fd, v in rends.items() if v[0] == cur}
                    rends[newr] = (cur, s)
            else:
                failed_spawn.add(child)
                wend = None
            newr = None
            ev.append({"e": "Spawn", "stage": s, "ok": ok})
        elif name == "close" and wend is not None and args.strip("() ") == str(wend) and ret.startswith("0"):
            ev.append({"e": "CloseW"})
            wend = None
        elif name == "close" and args.strip("() ").isdigit() and int(args.strip("() ")) in rends and ret.startswith("0"):
            k, s = rends.pop(int(args.strip("() ")))
            if k == cur:
                ev.append({"e": "CloseR", "pipe": s})
        elif name == "wait4" and not ret.startswith("-1"):
            child = int(ret.split()[0])
            if child in failed_spawn:
                continue                     # posix_spawn() reaping the child whose exec failed
            st = _WSTAT.search(args)
            txt = st.group(1) if st else ""
            status = "ok" if "WEXITSTATUS(s) == 0" in txt else ("sig" if "WIFSIGNALED" in txt else "exit1")
            if child == linkpid:
                ev.append({"e": "WaitLink", "status": status})
            else:
                ev.append({"e": "Wait", "stage": stage_of.get(child, 0), "status": status})
        elif name == "kill":
            target = int(args.strip("(").split(",")[0])
            if not any(x in args for x in ("SIGTERM", "SIGKILL", "SIGINT", "SIGHUP", "SIGQUIT")):   # any terminating signal
                ev.append({"e": "Kill", "stages": [-1]})
            elif ev and ev[-1]["e"] == "Kill":
                ev[-1]["stages"].append(stage_of.get(target, 0))
            else:
                ev.append({"e": "Kill", "stages": [stage_of.get(target, 0)]})
        elif name in ("unlink", "unlinkat"):
            p = args.split('"')[1] if '"' in args else "?"
            mname = tmpname.get(p) or outnames.get(p) or ("exe" if p == "a.out" else "other:" + p)
            if ev and ev[-1]["e"] == "Unlink":
                ev[-1]["paths"].append(mname)
            else:
                ev.append({"e": "Unlink", "paths": [mname]})
        elif name == "exit_group":
            ev.append({"e": "Exit", "code": int(re.findall(r"\d+", args)[0])})
    return ev


def pad_cfg(cfg, max_inputs=2, max_stages=4):
    c = dict(cfg)
    c["nst"] = (list(cfg["nst"]) + [1] * max_inputs)[:max_inputs]
    c["ends"] = (list(cfg["ends"]) + ["exit0"] * max_stages)[:max_stages]
    return c


class FlowB:
    def __init__(self, ctx, m, pool, fa):
        self.ctx, self.m, self.pool, self.fa = ctx, m, pool, fa

    def run(self, groups, n_traces):
        ctx = self.ctx
        keys = sorted(groups)
        ctx.rng.shuffle(keys)
        tdir = os.path.join(self.m.root, "traces")
        os.makedirs(tdir, exist_ok=True)
        tasks, meta = [], []
        for i, key in enumerate(keys):
            if len(tasks) >= n_traces:
                break
            g = groups[key]
            earlies = sorted(g["early"])
            early = earlies[i % len(earlies)]
            t = self.fa.make_task(g, early, SCALES[0], SIGNALS[i % len(SIGNALS)], i, len(meta))
            if t is None:
                continue
            task, inputs = t
            task["strace"] = os.path.join(tdir, "t%d.txt" % len(meta))
            task["timeout"] = 12.0
            tasks.append(task)
            meta.append((g, early, inputs, task["strace"], task["argv"]))
        execs = []
        for obs in self.pool.map(tasks, chunksize=1):
            g, early, inputs, spath, argv = meta[obs["tag"]]
            if obs["rc"] == -999:
                ctx.violation("c18:hang", "driver under strace did not exit", {"cfg": g["cfg"], "argv": argv})
                continue
            evs = trace_events(spath, inputs)
            execs.append({"cfg": g["cfg"], "argv": argv, "early": list(early),
                          "events": [{"e": "Reset", "cfg": pad_cfg(g["cfg"])}] + evs})
        accepted = self.validate(execs)
        ctx.cov["flowB_traces_accepted"] = accepted
        ctx.cov["flowB_events"] = sum(len(x["events"]) for x in execs)
        return accepted

    def validate(self, execs):
        """Concatenate executions into one trace; on rejection locate the execution, report, drop it, go on."""
        ctx = self.ctx
        accepted = 0
        pending = list(execs)
        rounds = 0
        while pending and rounds < 6:
            rounds += 1
            path = os.path.join(self.m.root, "trace%d.ndjson" % rounds)
            bounds = []
            with open(path, "w") as f:
                n = 0
                for x in pending:
                    for e in x["events"]:
                        f.write(json.dumps(e) + "\n")
                    n += len(x["events"])
                    bounds.append(n)
            r = ctx.tlc("Trace_DriverProc", "MC_Trace_DriverProc.cfg", workers=1, deque=True, env={"TRACE": path}, timeout=1200,
                        heap="3g", collect="VREJECT ")
            if r.ok:
                accepted += len(pending)
                break
            if not r.vcases:
                raise vlib.MachineryError("Trace_DriverProc: rejected without diagnostics:\n%s" % r.out[-3000:])
            far = int(r.vcases[0])           # index (1-based) of the first event no path could consume
            bad = next(i for i, b in enumerate(bounds) if far <= b) if far <= bounds[-1] else len(bounds) - 1
            x = pending[bad]
            start = bounds[bad - 1] if bad else 0
            # re-check that execution alone (same rule as flow A: report what repeats)
            ctx.violation("c18:trace", "system-call trace of the driver is not a behaviour of DriverProc (event %d of the execution)" % (far - start),
                          {"cfg": x["cfg"], "argv": x["argv"], "events": x["events"], "rejected_at": far - start})
            accepted += bad
            pending = pending[bad + 1:]
        return accepted


def observation_nodrain(ctx, fa):
    """Outside C18's antecedent (no tool fails): a stage that exits 0 WITHOUT draining its input while the upstream
    stage still writes.  The driver keeps every pipe read end open, so the writer never gets SIGPIPE/EPIPE, blocks on
    the full pipe, and the driver waits forever.  TLC finds the schedule (liveness violated with KeepReadEnds = TRUE,
    satisfied with FALSE); the real driver is run once to confirm.  Recorded as an observation, never as a violation."""
    r = ctx.tlc("DriverProc", "MC_DriverProc_nodrain.cfg", workers=2, timeout=600)
    if r.rc != 13:
        raise vlib.MachineryError("MC_DriverProc_nodrain.cfg: expected a liveness counterexample (rc 13), got rc=%s" % r.rc)
    ctx.tlc_must_pass("DriverProc", "MC_DriverProc_nodrain_closed.cfg", workers=2, timeout=600)
    cfg = {"ni": 1, "nst": [2, 1], "mode": "stdout", "fin": 1, "ends": ["exit0", "exit0_nodrain", "exit0"], "big": 1, "lend": "exit0"}
    t, _inputs = fa.make_task({"cfg": cfg}, (1,), 40, 11, 0, 0)
    t["timeout"] = 3.0
    obs = list(fa.pool.map([t], chunksize=1))[0]
    ctx.cov["observation_exit0_without_draining"] = {
        "model": "liveness counterexample found with KeepReadEnds=TRUE (as the code), none with KeepReadEnds=FALSE",
        "argv": t["argv"], "stubs": t["beh"], "real_driver": "still waiting after 3 s (killed)" if obs["rc"] == -999 else "exited rc=%s" % obs["rc"]}


def model_check(ctx, cfgname, workers, timeout=2400, heap="4g"):
    cases = []
    r = ctx.tlc("DriverProc", cfgname, workers=workers, timeout=timeout, heap=heap, on_line=lambda p: cases.append(json.loads(p)))
    if not r.ok:
        raise vlib.MachineryError("DriverProc.tla %s: invariant violated in the model (rc=%d):\n%s" % (cfgname, r.rc, r.out[-5000:]))
    for ln in r.out.split("\n"):
        if ln.startswith('"VSIGNALS '):      # the signals that realise the end "signal" come from the spec
            import signal as _sg
            names = json.loads(json.loads(ln)[len("VSIGNALS "):])
            SIGNALS[:] = [int(getattr(_sg, n)) for n in names]
    if not SIGNALS:
        raise vlib.MachineryError("no VSIGNALS line from DriverProc.tla")
    return r, cases


def run(ctx):
    m = drvlib.Machinery()
    pool = None
    try:
        m.build(TRIPLE)
        pool = drvlib.Pool(m, workers=12)
        ctx.cov["private_tmp_namespace"] = pool.private_tmp
        # 2. (in the background) the repaired driver (deviations off) satisfies the strict invariants; liveness
        #    under weak fairness: <>DriverExited
        import threading
        aux_err = []

        def aux():
            try:
                ctx.tlc_must_pass("DriverProc", "MC_DriverProc_fixed.cfg", workers=4, timeout=1500)
                ctx.tlc_must_pass("DriverProc", "MC_DriverProc_live.cfg" if ctx.quick else "MC_DriverProc_live_thorough.cfg",
                                  workers=4, timeout=2400, heap="4g")
            except Exception as ex:      # re-raised in the main thread
                aux_err.append(ex)
        th = threading.Thread(target=aux)
        th.start()
        # 1. safety of the model with the deviations of the current code; terminal states = behaviour classes
        r, cases = model_check(ctx, "MC_DriverProc_quick.cfg", workers=10 if ctx.quick else 14)
        if not ctx.quick:     # 4-stage pipelines; two failing stages in one pipeline
            for extra in ("MC_DriverProc_thorough4.cfg", "MC_DriverProc_thorough2f.cfg"):
                _r, more = model_check(ctx, extra, workers=14, timeout=3000)
                cases += more
        groups = classes_of(cases)
        ctx.cov["configurations"] = len(groups)
        ctx.cov["terminal_states"] = len(cases)
        # 3. flow A
        fa = FlowA(ctx, m, pool)
        n = fa.run(groups, max_classes_per_cfg=2 if ctx.quick else 8)
        fb = FlowB(ctx, m, pool, fa)
        nb = fb.run(groups, n_traces=60 if ctx.quick else 500) if len(ctx.violations) < 6 else 0
        ctx.validated(n + nb)
        observation_nodrain(ctx, fa)
        th.join()
        if aux_err:
            raise aux_err[0]
        ctx.cov["rule"] = ("one class = (pipeline shape 1..%d stages x 1..2 inputs, output mode link/file/stdout, failing stage, failure mode, "
                           "set of stages that had finished before the failure) taken from the terminal states of DriverProc.tla; each class is "
                           "run on the real driver with two delay scales (and with every signal of DriverProc.tla's Signals for 'signal'); non-trivial = some stage "
                           "or the link step fails") % (3 if ctx.quick else 4)
        ctx.assumptions += [
            "a stage that exits 0 has read its input to end-of-file (otherwise the driver, which keeps every pipe read end open, can wait forever: recorded as an observation in the notes, outside C18's antecedent)",
            "tools die of SIGTERM (default action)",
        ]
    finally:
        if pool:
            pool.close()
        m.close()


def replay(ctx, path):
    rec = json.load(open(path))
    case = rec["case"]
    if "model_outcomes" not in case:
        print("this replay file holds a system-call trace (flow B); events:\n" + "\n".join(json.dumps(e) for e in case.get("events", [])))
        return 1
    m = drvlib.Machinery()
    pool = None
    try:
        m.build(TRIPLE)
        pool = drvlib.Pool(m, workers=1)
        fa = FlowA(ctx, m, pool)
        g = {"cfg": case["cfg"], "outcomes": {tuple([o[0], tuple(o[1]), o[2]]) for o in case["model_outcomes"]},
             "required": {tuple([o[0], tuple(o[1]), o[2]]) for o in case["required_outcomes"]}}
        t, inputs = fa.make_task(g, tuple(case["finished_before_failure"]), case["delay_scale_ms"], case["signal"], case.get("variant", 0), 0)
        obs = list(pool.map([t], chunksize=1))[0]
        verdict, what, detail = fa.judge(g, inputs, obs)
        print(json.dumps({"argv": t["argv"], "stub scripts": t["beh"], "tools missing": t["missing"],
                          "model allows (exit, files, link started)": sorted(g["outcomes"]), "required": sorted(g["required"]),
                          "observed": None if obs["rc"] == -999 else observed_outcome(case["cfg"], inputs, obs)[0],
                          "rc": obs["rc"], "running": obs["running"], "unreaped": obs["unreaped"], "verdict": verdict, "what": what,
                          "stderr": obs["stderr"]}, indent=1, default=list))
        return 0 if verdict == "ok" else 1
    finally:
        if pool:
            pool.close()
        m.close()
