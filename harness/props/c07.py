"""C07 — initialised objects contain exactly the specified initial image.

Oracle: spec/Init.tla.  TLC (a) model-checks the implementation-shaped cursor machine of init.c plus the
emitters of qbe.c against the declarative Image(T, I) (deviations off), (b) with the known deviations on,
enumerates every initializer token sequence up to the bound and prints one VCASE per valid initializer:
type, tokens, C text of the expressions, expected bytes/relocations, and what the implementation model
predicts where a named deviation fires.

Flow A: each VCASE is rendered as `T x = I;` at file scope, compiled by the real cproc-qbe, the `data`
definition decoded with ilparse and compared (size, alignment, bytes, relocations).  The same objects are
compiled by gcc and dumped at run time to audit the spec (disagreement = machinery error, never a VIOLATION).
Flow B: H5 events (initadd) recorded from the hooks build on /repo/test/*.c and on the generated inputs are
validated by spec/Trace_Init.tla.
The automatic-object half needs harness/il2c.py (IL -> C); it is skipped with a note when that is absent.
Python here only renders, runs and compares projections; every expected value comes from TLC output.
"""
import glob, json, os, re, subprocess, sys
import vlib, ilparse

DEVIATIONS = ["CompositeKeepsNew", "SharedIncompleteType", "EmptyBraceNoFocus", "BraceNoReset", "UnionCover", "AutoBackZero",
              "ReplaceEndOnly"]
ACTIONS = ["Read", "Designate", "Advance", "Focus", "OpenBrace", "EmptyBrace", "StartExpr", "ExprFocus", "AddString",
           "AddScalar", "CloseBrace", "initadd:skip", "initadd:insert-before", "initadd:append", "initadd:replace",
           "initadd:inside-earlier"]
SCALARS = {"char": "char", "short": "short", "ushort": "unsigned short", "float": "float", "double": "double", "int": "int", "uint": "unsigned", "ptr": "char *"}


# ------------------------------------------------------------------------------------------------
# rendering (glue): type table exported by the spec -> C declarations; tokens -> initializer text
def load_tables(ctx):
    r = ctx.tlc("Init", "MC_Init_tables.cfg", workers=1, collect="VTABLES ")
    if r.rc != 0 or len(r.vcases) < 1:
        raise vlib.MachineryError("cannot export tables from Init.tla:\n" + r.out[-2000:])
    return json.loads(r.vcases[0])


def declarator(tab, t, name, open_bound=False):
    """C declarator of an object `name` of spec type t (returns (specifier, declarator)); open_bound: outermost [] empty."""
    ty = tab["ty"][t]
    if ty["kind"] == "arr":
        spec, d = declarator(tab, ty["base"], "")
        return spec, "%s[%s]%s" % (name, "" if open_bound else (ty["n"] or ""), d)
    if ty["kind"] in ("int", "ptr", "flt"):
        return SCALARS[t], name
    return "%s %s" % (ty["kind"], t), name


def decl(tab, t, name, open_bound=False):
    spec, d = declarator(tab, t, name, open_bound)
    if spec.endswith("*"):
        return spec + d
    return spec + " " + d


def body(tab, t):
    ty = tab["ty"][t]
    out = []
    for k, m in enumerate(ty["mems"], 1):
        out += [u["c"] for u in ty.get("pre", []) if u["at"] == k]        # unnamed bit-fields
        mt = tab["ty"][m["ty"]]
        if m["name"] == "":
            out.append("%s { %s};" % (mt["kind"], body(tab, m["ty"])))
        elif m["before"] or m["after"]:
            out.append("%s %s : %d;" % (SCALARS[m["ty"]], m["name"], mt["size"] * 8 - m["before"] - m["after"]))
        else:
            out.append(decl(tab, m["ty"], m["name"]) + ";")
    return " ".join(out) + " "


def type_order(tab):
    """named struct/union types, dependencies first; anonymous member types are rendered inline."""
    anon = {m["ty"] for t in tab["ty"].values() if "mems" in t for m in t["mems"] if m["name"] == ""}
    done, order = set(), []

    def visit(t):
        ty = tab["ty"][t]
        if ty["kind"] == "arr":
            visit(ty["base"])
        elif "mems" in ty:
            for m in ty["mems"]:
                visit(m["ty"])
            if t not in done and t not in anon:
                done.add(t)
                order.append(t)
    for t in sorted(tab["ty"]):
        visit(t)
    return order


def prelude(tab):
    out = []
    for t in type_order(tab):
        out.append("%s %s { %s};" % (tab["ty"][t]["kind"], t, body(tab, t)))
    out.append("char g[8]; void fn(void); struct P hs; int ga[4];")
    return "\n".join(out) + "\n"


def render_init(case):
    ex = {e["tp"]: e for e in case["ex"]}
    out, need_comma, indes = [], False, False
    for i, tk in enumerate(case["toks"], 1):
        if tk[0] in ".[" :
            if not indes and need_comma:
                out.append(", ")
            out.append(tk)
            indes = True
            need_comma = False
            continue
        if indes:
            out.append(" = ")
            indes = False
        elif need_comma and tk != "}":
            out.append(", ")
        if tk == "{":
            out.append("{")
            need_comma = False
        elif tk == "}":
            out.append("}")
            need_comma = True
        elif tk == "E":
            out.append("{}")
            need_comma = True
        else:
            out.append(ex[i]["c"])
            need_comma = True
    return "".join(out)


def render_decl(tab, case, name, forms=False):
    """forms=True: honour the declaration form of the case (file scope only); otherwise the plain declaration."""
    f = case.get("form", "plain") if forms else "plain"
    t, init = case["ty"], render_init(case)
    if f == "redecl-extern":
        return "extern %s; %s = %s;" % (decl(tab, t, name), decl(tab, t, name, True), init)
    if f == "redecl-tent":
        return "%s; %s = %s;" % (decl(tab, t, name), decl(tab, t, name, True), init)
    if f in ("shared-big", "shared-small"):
        td = "A_" + name
        return "typedef %s; %s %s_0 = {%s}; %s %s = %s;" % (decl(tab, t, td), td, name, "0, 0, 0, 0, 0" if f == "shared-big" else "0", td, name, init)
    if f == "alignas":
        return "_Alignas(int[4]) %s = %s;" % (decl(tab, t, name), init)
    return "%s = %s;" % (decl(tab, t, name), init)


def ptr_offsets(tab, t, size):
    """byte offsets of pointer-typed leaves (glue for dumping the gcc reference symbolically)."""
    ty = tab["ty"][t]
    if ty["kind"] == "ptr":
        return [0]
    if ty["kind"] in ("int", "flt"):
        return []
    if ty["kind"] == "arr":
        b = tab["ty"][ty["base"]]
        n = ty["n"] or (size // b["size"])
        return [k * b["size"] + o for k in range(n) for o in ptr_offsets(tab, ty["base"], b["size"])]
    return [m["off"] + o for m in ty["mems"] for o in ptr_offsets(tab, m["ty"], tab["ty"][m["ty"]]["size"])]


# ------------------------------------------------------------------------------------------------
# projections
def expected_rel(rels, full=False):
    """canonical relocation set: (offset, 'sym+add') or, for unnamed targets (string / compound literals),
    (offset, 'anon:<bytes from the target up to NUL>'); full=True: '<all bytes from the target to the end of the object>'
    (what the data definition of the compiler under test must contain, terminating NUL included)."""
    out = set()
    for r in rels:
        if r["sym"]:
            out.add((r["off"], "%s+%d" % (r["sym"], r["add"])))
        else:
            tail = r["obj"][r["add"]:]
            if not full:
                tail = tail[:tail.index(0)]
            out.add((r["off"], "anon:" + bytes(tail).hex()))
    return out


def observed_rel(mod, rel):
    names = ilparse.data_by_name(mod)
    out = set()
    for off, sz, sym, add in rel:
        if sz != 8:
            out.add((off, "badsize%d:%s+%d" % (sz, sym, add)))
        elif sym.startswith("."):
            d = names.get(sym)
            if d is None:
                out.add((off, "undefined:" + sym))
                continue
            img, r2 = ilparse.data_image(d)
            out.add((off, "anon:" + bytes(img[add:]).hex()))
        else:
            out.add((off, "%s+%d" % (sym, add)))
    return out


def compare(case, size, align, img, rel, tab, want_img=None, want_rel=None, full=True):
    """None when the observed projection is the expected one, else a short reason."""
    exp_img = case["img"] if want_img is None else want_img
    if size != len(exp_img):
        return "size %d != %d" % (size, len(exp_img))
    want_align = case.get("al", tab["ty"][case["ty"]]["align"])
    if align is not None and align != want_align:
        return "align %d != %d" % (align, want_align)
    unc = case["unc"] if (case["unc"] and want_img is None) else [0] * size
    if len(unc) != size:
        unc = [0] * size
    for k in range(size):
        if (img[k] ^ exp_img[k]) & ~unc[k] & 0xff:
            return "byte %d: %d != %d" % (k, img[k], exp_img[k])
    must = expected_rel(case["rel"] if want_rel is None else want_rel, full)
    may = must | (expected_rel(case["optrel"], full) if want_rel is None else set())
    if not (must <= rel and rel <= may):
        return "relocations %s != %s" % (sorted(rel), sorted(must))
    return None


# ------------------------------------------------------------------------------------------------
def run_static(ctx, tab, cases, objdir):
    pre = prelude(tab)

    def one(case):
        src = pre + render_decl(tab, case, "x", True) + "\n"
        rc, out, err = vlib.cproc(objdir, src)
        return src, rc, out, err
    results = vlib.pmap(one, cases, workers=16)
    notex = ctx.cov.setdefault("deviation_predicted_but_not_exhibited", {})
    for case, (src, rc, out, err) in zip(cases, results):
        key = case_key(case)
        nontrivial = len(case["toks"]) > 1
        ctx.count(key, nontrivial=nontrivial)
        fired = sorted(case["sfired"])
        info = {"type": case["ty"], "tokens": case["toks"], "source": render_decl(tab, case, "x", True),
                "expected": {"size": case["size"], "bytes": case["img"], "rel": sorted(expected_rel(case["rel"], True))},
                "model": {"status": case["mst"], "fired": fired, "bytes": case["mimg"]}, "case": case}
        obs = None
        if rc == 0:
            try:
                mod = ilparse.parse(out)
                d = ilparse.data_by_name(mod).get("x")
                if d is None:
                    obs = ("nodata", None)
                else:
                    img, rel = ilparse.data_image(d)
                    obs = ("data", (len(img), d["align"], img, observed_rel(mod, rel)))
            except ilparse.ILSyntaxError as e:
                obs = ("ilsyntax:" + str(e)[:80], None)
        elif rc == 1:
            obs = ("reject:" + err.strip().split("\n")[-1][-100:], None)
        else:
            obs = ("crash:%d" % rc, None)
        info["observed"] = obs[0] if obs[1] is None else {"size": obs[1][0], "align": obs[1][1], "bytes": obs[1][2], "rel": sorted(obs[1][3])}
        why = None
        if obs[0] == "data":
            why = compare(case, obs[1][0], obs[1][1], obs[1][2], obs[1][3], tab)
            if why is None:
                if case["mst"] != "undef" and not case["sok"]:
                    for dv in fired:
                        notex[dv] = notex.get(dv, 0) + 1
                continue
        else:
            why = obs[0]
        info["why"] = why
        # the real binary disagrees with the declarative image: explained by a named deviation of the model?
        explained = None
        if fired:
            if case["mst"] == "abort" and rc == -6:
                explained = "abort"
            elif case["mst"] == "err" and rc == 1:
                explained = "reject"
            elif case["mst"] == "ok" and obs[0] == "data" and case["mimg"] and \
                    compare(case, obs[1][0], obs[1][1], obs[1][2], obs[1][3], tab, want_img=case["mimg"], want_rel=case["mrel"]) is None:
                explained = "image"
        if explained:
            for dv in fired:
                ctx.violation("dev:%s:%s" % (dv, explained), "%s: %s" % (render_decl(tab, case, "x", True), why), info)
        else:
            kind = why.split(":")[0].split(" ")[0]
            ctx.violation("static:%s:%s" % (case["ty"], kind),
                          "static object image differs from Init.tla: %s -- %s" % (render_decl(tab, case, "x", True), why), info)
    ctx.validated(len(cases))


def find_data(mod, name):
    """data definition of object `name`: file scope `$name`, block-scope static `$.Lname.N`."""
    for d in mod["data"]:
        if d["name"] == name or re.fullmatch(r"\.L%s\.\d+" % re.escape(name), d["name"]):
            return d
    return None


def render_list(tab, case, form):
    spec, d = declarator(tab, case["ty"], "%s")
    if spec.endswith("*"):
        spec, d = spec[:-1].strip(), "*" + d
    init = render_init(case)
    body = "static %s%s %s = %s, %s, %s = %s;" % ("_Thread_local " if form == "list-thread" else "", spec,
                                                  d % "x", init, d % "x_z", d % "x_2", init)
    return body if form == "list-file" else "void f(void) { %s }" % body


def run_lists(ctx, tab, cases, forms, objdir):
    """Declarator lists: every object of `static T x = I, x_z, x_2 = I;` has the image of its own initializer,
    the one without initializer is all zero (expected bytes `zimg` from the spec)."""
    pre = prelude(tab)
    # the model predicts nothing unusual for the initializer itself; block-scope initializers must be constant
    # expressions, which the address of a block-scope compound literal is not
    base = [c for c in cases if c.get("form", "plain") == "plain" and c["zimg"] and c["mst"] == "ok" and c["sok"] and not c["sfired"]
            and not c["agg"] and not any("(char [])" in e["c"] for e in c["ex"])]
    jobs = [(c, f) for c in base for f in forms]

    def one(job):
        case, form = job
        return vlib.cproc(objdir, pre + render_list(tab, case, form) + "\n")
    results = vlib.pmap(one, jobs, workers=16)
    for (case, form), (rc, out, err) in zip(jobs, results):
        src = render_list(tab, case, form)
        ctx.count(form + " " + case_key(case), nontrivial=True)
        info = {"form": form, "source": src, "case": case}
        why = None
        if rc != 0:
            why = "crash:%d" % rc if rc != 1 else "reject:" + err.strip().split("\n")[-1][-100:]
        else:
            try:
                mod = ilparse.parse(out)
                for name, zero in (("x", False), ("x_z", True), ("x_2", False)):
                    d = find_data(mod, name)
                    if d is None:
                        why = "no definition of %s" % name
                        break
                    img, rel = ilparse.data_image(d)
                    if d["thread"] != (form == "list-thread"):
                        why = "%s: thread storage %s" % (name, d["thread"])
                    elif zero:
                        if img != case["zimg"] or rel or d["align"] != tab["ty"][case["ty"]]["align"]:
                            why = "%s (no initializer): size %d align %d bytes %s relocations %s, required %d zero bytes" % (
                                name, len(img), d["align"], img[:16], rel, len(case["zimg"]))
                    else:
                        w = compare(case, len(img), d["align"], img, observed_rel(mod, rel), tab)
                        why = w and "%s: %s" % (name, w)
                    if why:
                        break
            except ilparse.ILSyntaxError as e:
                why = "ilsyntax:" + str(e)[:80]
        if why:
            info["why"] = why
            ctx.violation("static:%s:%s:%s" % (case["ty"], form, why.split(":")[0].split(" ")[0]),
                          "objects of a declarator list differ from Init.tla: %s -- %s" % (src, why), info)
    ctx.validated(len(jobs))
    ctx.cov["declarator_list_cases"] = len(jobs)


def gcc_audit(ctx, tab, cases):
    """The same objects through gcc; bytes dumped at run time, pointers resolved symbolically.  A disagreement
    between gcc and the spec is a spec defect (machinery error)."""
    cases = [c for c in cases if not c["agg"]]
    chunks = [(k, cases[k:k + 1500]) for k in range(0, len(cases), 1500)]
    vlib.pmap(lambda kc: gcc_audit_chunk(ctx, tab, kc[1], "audit%d" % kc[0]), chunks, workers=8)
    ctx.cov["gcc_audited_cases"] = ctx.cov.get("gcc_audited_cases", 0) + len(cases)


def gcc_audit_chunk(ctx, tab, cases, tag):
    lines = ["#include <stdio.h>\n#include <string.h>\n", prelude(tab),
             "void fn(void) {}\n",
             "static void dump(int id, const unsigned char *p, unsigned long size, unsigned long align, const int *po) {\n"
             "  printf(\"%d %lu %lu \", id, size, align);\n"
             "  char relbuf[4096]; relbuf[0] = 0;\n"
             "  for (unsigned long k = 0; k < size; ) {\n"
             "    int isp = 0; for (const int *q = po; *q >= 0; q++) if ((unsigned long)*q == k) isp = 1;\n"
             "    if (!isp) { printf(\"%02x\", p[k]); k++; continue; }\n"
             "    char *v; memcpy(&v, p + k, 8); printf(\"0000000000000000\");\n"
             "    char *e = relbuf + strlen(relbuf);\n"
             "    if (!v) ;\n"
             "    else if (v >= g && v <= g + sizeof g) sprintf(e, \" %lu:g+%ld\", k, (long)(v - g));\n"
             "    else if (v == (char *)fn) sprintf(e, \" %lu:fn+0\", k);\n"
             "    else if (v >= (char *)&hs && v <= (char *)&hs + sizeof hs) sprintf(e, \" %lu:hs+%ld\", k, (long)(v - (char *)&hs));\n"
             "    else if (v >= (char *)ga && v <= (char *)ga + sizeof ga) sprintf(e, \" %lu:ga+%ld\", k, (long)(v - (char *)ga));\n"
             "    else { e += sprintf(e, \" %lu:anon:\", k); for (; *v; v++) e += sprintf(e, \"%02x\", (unsigned char)*v); }\n"
             "    k += 8;\n"
             "  }\n"
             "  printf(\"%s\\n\", relbuf);\n"
             "}\n"]
    main = ["int main(void) {\n"]
    for i, c in enumerate(cases):
        lines.append(render_decl(tab, c, "x%d" % i, True) + "\n")
        po = ptr_offsets(tab, c["ty"], c["size"])
        main.append("  dump(%d, (const unsigned char *)&x%d, sizeof x%d, __alignof__(x%d), (const int[]){%s-1});\n"
                    % (i, i, i, i, "".join("%d, " % o for o in po)))
    main.append("  return 0;\n}\n")
    src = ctx.path(tag + ".c")
    exe = ctx.path(tag)
    with open(src, "w") as f:
        f.write("".join(lines) + "".join(main))
    p = subprocess.run(["gcc", "-std=gnu11", "-w", "-O0", "-o", exe, src], stdout=subprocess.PIPE, stderr=subprocess.STDOUT, text=True)
    if p.returncode != 0:
        raise vlib.MachineryError("SPEC-AUDIT: gcc rejects an initializer the spec calls valid:\n" + p.stdout[-3000:])
    p = subprocess.run([exe], stdout=subprocess.PIPE, text=True, timeout=120)
    got = p.stdout.splitlines()
    if p.returncode != 0 or len(got) != len(cases):
        raise vlib.MachineryError("SPEC-AUDIT: reference dump failed rc=%d lines=%d/%d" % (p.returncode, len(got), len(cases)))
    n = 0
    for c, ln in zip(cases, got):
        f = ln.split(" ")
        size, align, hexs = int(f[1]), int(f[2]), f[3]
        img = list(bytes.fromhex(hexs))
        rel = set()
        for r in f[4:]:
            if r:
                off, tgt = r.split(":", 1)
                rel.add((int(off), tgt))
        why = compare(c, size, align, img, rel, tab, full=False)
        if why:
            raise vlib.MachineryError("SPEC-AUDIT: gcc disagrees with Init.tla on `%s`: %s (gcc bytes %s rel %s; spec bytes %s)"
                                      % (render_decl(tab, c, "x", True), why, img, sorted(rel), c["img"]))
        n += 1


def audit_types(ctx, tab):
    """size / alignment / member offsets / bit positions of the spec's type table against gcc."""
    lines = ["#include <stdio.h>\n#include <stddef.h>\n#include <string.h>\n", prelude(tab), "int main(void) {\n"]
    checks = 0
    for t in type_order(tab):
        ty = tab["ty"][t]
        tn = "%s %s" % (ty["kind"], t)
        lines.append('  if (sizeof(%s) != %d || _Alignof(%s) != %d) { puts("size/align %s"); return 1; }\n' % (tn, ty["size"], tn, ty["align"], t))
        checks += 2

        def members(tt, base, path):
            nonlocal checks
            for m in tab["ty"][tt]["mems"]:
                if m["name"] == "":
                    members(m["ty"], base + m["off"], path)
                    continue
                mt = tab["ty"][m["ty"]]
                if m["before"] or m["after"]:
                    lo = (base + m["off"]) * 8 + m["before"]
                    w = mt["size"] * 8 - m["before"] - m["after"]
                    lines.append('  { %s v; memset(&v, 0, sizeof v); v.%s = -1; unsigned char *p = (unsigned char *)&v; long lo = -1, n = 0;'
                                 ' for (long b = 0; b < (long)sizeof v * 8; b++) if (p[b / 8] >> (b %% 8) & 1) { if (lo < 0) lo = b; n++; }'
                                 ' if (lo != %d || n != %d) { printf("bit-field %s.%s lo %%ld n %%ld\\n", lo, n); return 1; } }\n'
                                 % (tn, m["name"], lo, w, t, m["name"]))
                else:
                    lines.append('  if (offsetof(%s, %s) != %d || sizeof(((%s *)0)->%s) != %d) { puts("member %s.%s"); return 1; }\n'
                                 % (tn, m["name"], base + m["off"], tn, m["name"], mt["size"], t, m["name"]))
                checks += 2
        members(t, 0, "")
    for t, ty in tab["ty"].items():
        if ty["kind"] == "arr" and ty["n"]:
            lines.append('  { typedef %s; if (sizeof(T_) != %d || _Alignof(T_) != %d) { puts("array %s"); return 1; } }\n'
                         % (decl(tab, t, "T_"), ty["size"], ty["align"], t))
            checks += 2
    lines.append('  if (sizeof(char *) != %d || sizeof(L\'a\') != %d || sizeof(u\'a\') != %d) { puts("scalars"); return 1; }\n' % (tab["ty"]["ptr"]["size"], tab["ty"]["int"]["size"], tab["ty"]["ushort"]["size"]))
    lines.append("  return 0;\n}\n")
    src, exe = ctx.path("types.c"), ctx.path("types")
    open(src, "w").write("".join(lines))
    p = subprocess.run(["gcc", "-std=gnu11", "-w", "-o", exe, src], stdout=subprocess.PIPE, stderr=subprocess.STDOUT, text=True)
    if p.returncode != 0:
        raise vlib.MachineryError("SPEC-AUDIT: type table does not compile:\n" + p.stdout[-3000:])
    p = subprocess.run([exe], stdout=subprocess.PIPE, text=True)
    if p.returncode != 0:
        raise vlib.MachineryError("SPEC-AUDIT: type table of Init.tla disagrees with gcc: " + p.stdout)
    ctx.cov["type_table_checks_vs_gcc"] = checks


# ------------------------------------------------------------------------------------------------
def run_auto(ctx, tab, cases, objdir):
    """Automatic objects: same initializer in a function, IL translated to C by harness/il2c.py, run natively,
    member bytes dumped (padding excluded).  Skipped when the IL executor is not available."""
    il2c = os.path.join(vlib.VERIF, "harness", "il2c.py")
    if not os.path.exists(il2c):
        ctx.cov["auto_objects"] = "skipped: harness/il2c.py (IL executor) not present; FuncInit is model-checked against Image by TLC only"
        ctx.assumptions.append("automatic-object half not replayed into the binary (no IL executor)")
        return
    try:
        import auto_c07
    except ImportError:
        ctx.cov["auto_objects"] = "skipped: harness/auto_c07.py not present"
        return
    auto_c07.run(ctx, tab, cases, objdir, sys.modules[__name__])


def private_build(ctx, flavour):
    """copy of the compiler in this run's scratch dir (the shared build cache is evicted when /repo changes)."""
    import shutil, time
    dst = ctx.path("bin-" + flavour)
    os.makedirs(dst, exist_ok=True)
    last = None
    for attempt in range(10):
        try:
            shutil.copy2(os.path.join(vlib.build(flavour), "cproc-qbe"), os.path.join(dst, "cproc-qbe"))
            return dst
        except (OSError, vlib.MachineryError) as ex:      # evicted by a concurrent check of another tree: retry
            last = ex
            time.sleep(2 + 3 * (os.getpid() % 3) + attempt)
    raise vlib.MachineryError("cannot obtain a %s build of cproc-qbe: %s" % (flavour, str(last)[-1500:]))


def cfg_for(ctx, name):
    """C07_DEVIATIONS=off: the same configuration with every named deviation switched off, i.e. what the check
    demands once the defects of known_findings.d/C07.json are repaired in /repo."""
    if os.environ.get("C07_DEVIATIONS", "") != "off":
        return name
    text = open(os.path.join(vlib.SPEC, name)).read()
    text = re.sub(r"DevOn = \{[^}]*\}", "DevOn = {}", text)
    out = ctx.path(name)
    open(out, "w").write(text)
    return out


def case_key(c):
    return c.get("form", "plain") + " " + c["ty"] + " " + " ".join(c["toks"]) + " | " + " ".join(e["c"] for e in c["ex"])


def emit_cases(ctx, cfg, must_pass=True, **kw):
    cfg = cfg_for(ctx, cfg)
    r = ctx.tlc_must_pass("Init", cfg, **kw) if must_pass else ctx.tlc("Init", cfg, **kw)
    if not must_pass and r.rc != 0:
        raise vlib.MachineryError("model Init/%s rejected (rc=%d):\n%s" % (cfg, r.rc, r.out[-5000:]))
    cases = [json.loads(v) for v in r.vcases]
    seen, out = set(), []
    for c in cases:                      # one case per rendered initializer
        k = case_key(c)
        if k not in seen:
            seen.add(k)
            out.append(c)
    return r, out


def merge(*lists):
    seen, out = set(), []
    for l in lists:
        for c in l:
            k = case_key(c)
            if k not in seen:
                seen.add(k)
                out.append(c)
    return out


def phase(ctx, name, t0):
    import time
    ctx.cov.setdefault("phase_wall_s", {})[name] = round(time.time() - t0, 1)
    return time.time()


def run(ctx):
    import time
    t0 = time.time()
    ctx.cov["rule"] = ("TLC enumerates every initializer token sequence (value, string, {, }, {}, .member, [index]) up to MaxTok "
                       "tokens that begins a valid initializer for each of 14 declared types; every complete valid initializer is "
                       "one case: rendered as a file-scope object, compiled by cproc-qbe, data definition decoded and compared "
                       "(size, align, bytes, relocations); non-trivial = more than one token")
    tab = load_tables(ctx)
    audit_types(ctx, tab)
    tier = "quick" if ctx.quick else "thorough"
    # (a) design-level: implementation-shaped model refines the declarative image, deviations off
    ctx.tlc_must_pass("Init", "MC_Init_refine_%s.cfg" % tier, workers=8 if ctx.quick else 12,
                      timeout=1500, heap="3g" if ctx.quick else "8g")
    ctx.tlc_must_pass("Init", "MC_Init_agg.cfg", workers=4, timeout=900)
    t0 = phase(ctx, "tlc_refine", t0)
    # (b) behaviours for flow A, deviations on
    r, cases = emit_cases(ctx, "MC_Init_emit_%s.cfg" % tier, workers=8 if ctx.quick else 12, timeout=1500,
                          heap="3g" if ctx.quick else "8g")
    ctx.cov["exhaustive_cases"] = len(cases)
    if not ctx.quick:
        # the same machine without pruning (error paths of the parser), other value / address tables, and a random
        # sample of long initializers (up to 12 tokens)
        ctx.tlc_must_pass("Init", "MC_Init_unpruned.cfg", workers=8, timeout=1500, heap="4g")
        _, c3 = emit_cases(ctx, "MC_Init_emit_salt3.cfg", workers=8, timeout=900, heap="3g")
        _, c5 = emit_cases(ctx, "MC_Init_emit_salt5.cfg", workers=8, timeout=900, heap="3g")
        _, cs = emit_cases(ctx, "MC_Init_emit_sim.cfg", workers=4, simulate=3000, depth=80, timeout=1500, heap="3g")
        ctx.cov["sampled_long_cases"] = len(cs)
        cases = merge(cases, c3, c5, cs)
    # vacuity: every action of the machine and every branch of initadd's scan lies on the path of some valid case
    # (TLC's own -coverage does not terminate on this spec; the machine records the names itself)
    taken = set()
    for c in cases:
        taken |= set(c["tr"])
    ctx.cov["actions_taken"] = sorted(taken)
    missing = set(ACTIONS) - taken
    if missing:
        ctx.cov["untaken_actions"] = sorted(missing)
        raise vlib.MachineryError("vacuity guard: actions never taken on a valid initializer: %s" % sorted(missing))
    ra, agg_cases = emit_cases(ctx, "MC_Init_emit_agg.cfg", workers=4, timeout=900)
    agg_cases = [c for c in agg_cases if c["agg"]]       # struct-valued initializer expressions: automatic objects only
    t0 = phase(ctx, "tlc_emit", t0)
    objdir = private_build(ctx, "plain")
    gcc_audit(ctx, tab, cases)
    t0 = phase(ctx, "gcc_audit_static", t0)
    run_static(ctx, tab, cases, objdir)
    run_lists(ctx, tab, cases, tab["listforms"], objdir)
    t0 = phase(ctx, "static_replay", t0)
    for c in cases[len(cases) // 3::max(1, len(cases) // 5)][:4]:
        ctx.sample({"source": render_decl(tab, c, "x"), "expected_bytes": c["img"], "expected_rel": sorted(expected_rel(c["rel"]))})
    plain = [c for c in cases if c.get("form", "plain") == "plain"]      # the other forms are file-scope declarations
    run_auto(ctx, tab, plain + agg_cases, objdir)
    t0 = phase(ctx, "auto_replay", t0)
    import trace_c07
    trace_c07.run(ctx, tab, plain)
    t0 = phase(ctx, "trace_validation", t0)


def replay(ctx, path):
    rec = json.load(open(path))
    info = rec["case"]
    case = info.get("case", info)
    tab = load_tables(ctx)
    objdir = private_build(ctx, "plain")
    src = prelude(tab) + render_decl(tab, case, "x", True) + "\n"
    rc, out, err = vlib.cproc(objdir, src)
    print("source:   " + render_decl(tab, case, "x", True))
    print("expected: size %d bytes %s rel %s" % (case["size"], case["img"], sorted(expected_rel(case["rel"]))))
    if rc != 0:
        print("observed: rc=%d %s" % (rc, err.strip()[-300:]))
        return 1
    mod = ilparse.parse(out)
    d = ilparse.data_by_name(mod)["x"]
    img, rel = ilparse.data_image(d)
    print("observed: size %d align %d bytes %s rel %s" % (len(img), d["align"], img, sorted(observed_rel(mod, rel))))
    why = compare(case, len(img), d["align"], img, observed_rel(mod, rel), tab)
    print("verdict:  " + (why or "agrees"))
    return 1 if why else 0
