"""C16 — names always resolve to the declaration C scoping selects.

 map_flow_a      Map.tla's state graph (every hash function into the chosen buckets, every op from every
                 reachable table) replayed into /repo/map.c through harness/cmap.c with several realisations
                 of the abstract keys (real FNV low bits = H, forged full collisions, long keys ...);
                 every result and the full slot array compared.
 map_flow_b      long random histories (keys engineered to collide in the low hash bits at every table size)
                 executed by the real map.c, the recorded ndjson accepted/rejected by Trace_Map.tla.
 pool / scope    see the functions below (added in later steps).
Python holds no dictionary/scoping semantics: expected values come from TLC output or TLC judges the trace.
"""
import json, os, subprocess, threading
import vlib

H = os.path.join(vlib.VERIF, "harness")
ENV = dict(os.environ, ASAN_OPTIONS="detect_leaks=0")


def build_cmap(ctx):
    return vlib.cc_link([os.path.join(H, "cmap.c"), os.path.join(vlib.REPO, "map.c")], ctx.path("cmap"),
                        extra=["-fsanitize=address,undefined", "-fno-sanitize-recover=undefined", "-w"])


def run_cmap(exe, text, timeout=900):
    p = subprocess.run([exe], input=text, stdout=subprocess.PIPE, stderr=subprocess.PIPE, text=True, env=ENV, timeout=timeout)
    return p.returncode, p.stdout, p.stderr


# ------------------------------------------------------------------------------------------------
# Realisations of the abstract keys 1..NKeys with abstract hash H[k] in 0..CapMax-1.
# Each realisation defines, for every (key j, bucket b), a real key id; ids are allocated in blocks.
class Realisation:
    def __init__(self, name, base, nkeys, capmax):
        self.name, self.base, self.nkeys, self.capmax = name, base, nkeys, capmax

    def kid(self, j, b):           # j in 1..nkeys, b in 0..capmax-1
        return self.base + (j - 1) * self.capmax + b

    def defs(self):
        out = []
        m = self.capmax - 1
        for j in range(1, self.nkeys + 1):
            for b in range(self.capmax):
                i = self.kid(j, b)
                n = self.name
                if n == "real-ident":        # identifier-like keys, real hash, low bits searched
                    out.append("S %d %s %x %x" % (i, ("name%d_" % j).encode().hex(), m, b))
                elif n == "real-binary":     # bytes with NULs and high bytes (string-literal pool keys), real hash
                    out.append("S %d %s %x %x" % (i, bytes([0, 255, j, 0]).hex(), m, b))
                elif n == "real-long":       # 20 000-byte keys, real hash
                    out.append("B %d 20000 %d %x %x" % (i, j * 64 + b, m, b))
                elif n == "forged-samelen":  # full hash equal whenever H equal; same length, last byte differs
                    out.append("K %d %s %x" % (i, ("same-prefix-%d" % j).encode().hex(), 0xfeed0000 + b))
                elif n == "forged-prefix":   # full hash equal whenever H equal; each key a proper prefix of the next
                    out.append("K %d %s %x" % (i, (b"ab" * j).hex(), 0x5a5a00 + b))
                elif n == "forged-empty":    # key 1 is the empty key (len 0), the others 1 byte
                    out.append("K %d %s %x" % (i, (b"" if j == 1 else bytes([j])).hex() or "-", 0x100 + b))
                elif n == "forged-highbits": # equal low bits, full hashes differ only above bit 32
                    out.append("K %d %s %x" % (i, b"x".hex(), (j << 40) + b))
                else:
                    raise vlib.MachineryError("unknown realisation " + n)
        return out


REALISATIONS = ["real-ident", "real-binary", "real-long", "forged-samelen", "forged-prefix", "forged-empty"]
# "forged-highbits": identical bytes and lengths, different hash: such keys cannot come out of mapkey() (the hash is
# a function of the bytes), map.c may treat them either way -> not used.


def _ops_text(ops, real, Hf):
    out = []
    for e in ops:
        if e["o"] == "p":
            out.append("p%d,%s" % (real.kid(e["k"], Hf[e["k"] - 1]), "k" if e["a"] == -1 else e["a"]))
        elif e["o"] == "g":
            out.append("g%d" % real.kid(e["k"], Hf[e["k"] - 1]))
        else:
            out.append("f")
    return " ".join(out)


def _res_text(ops):
    out = []
    for e in ops:
        if e["o"] == "p":
            out.append("p:%d,%d " % (e["r"][0], e["r"][1]))
        elif e["o"] == "g":
            out.append("g:%d " % e["r"][0])
        else:
            out.append("f:%s " % ",".join(map(str, e["r"])))
    return "".join(out)


def _dump_text(c, n, s, real, Hf):
    parts = ["| %d %d" % (c, n)]
    for i in range(0, len(s), 2):
        if s[i] == 0:
            parts.append("-1 0")
        else:
            parts.append("%d %d" % (real.kid(s[i], Hf[s[i] - 1]), s[i + 1]))
    return " ".join(parts)


def map_flow_a(ctx, exe, cfg, nkeys, capmax, workers=8, timeout=1200):
    """TLC explores cfg; each VCASE (state) = history + all successor ops; replayed under every realisation."""
    reals = [Realisation(n, 1000 * (i + 1), nkeys, capmax) for i, n in enumerate(REALISATIONS)]
    head = []
    for r in reals:
        head += r.defs()
    lines, expect = list(head), []
    r = ctx.tlc_must_pass("Map", cfg, workers=workers, timeout=timeout, heap="4g")
    if len(r.vcases) != r.distinct:
        raise vlib.MachineryError("expected one VCASE per distinct state: %d vs %d" % (len(r.vcases), r.distinct))
    nstates = 0
    for v in r.vcases:
        c = json.loads(v)
        nstates += 1
        Hf, hist = c["H"], c["hist"]
        for ri, real in enumerate(reals):
            # rotate which realisation sees which state so that each state is replayed under 2 realisations
            # in the quick tier and under all of them in the thorough tier
            if ctx.quick and (nstates + ri) % 3 != 0:
                continue
            pre = _ops_text(hist, real, Hf)
            preres = _res_text(hist)
            if hist:
                lines.append("R %d %s" % (c["init"], pre))
                expect.append((preres + _dump_text(c["c"], c["n"], c["s"], real, Hf), c, None, real.name))
            for s in c["succ"]:
                lines.append("R %d %s %s" % (c["init"], pre, _ops_text([s], real, Hf)))
                expect.append((preres + _res_text([s]) + _dump_text(s["c"], s["n"], s["s"], real, Hf), c, s, real.name))
    rc, out, err = run_cmap(exe, "\n".join(lines) + "\n")
    got = [g for g in out.splitlines() if not g.startswith("S ")]
    if rc != 0 or len(got) != len(expect):
        ctx.violation("map:crash", "map.c harness died rc=%s (sanitizer report / hang?): %s" % (rc, err[-800:]),
                      {"lines": len(lines), "got": len(got)})
        return
    bad = 0
    for (exp, c, s, rname), g, inp in zip(expect, got, lines[len(head):]):
        nontriv = s is not None and len(c["hist"]) >= 2
        ctx.count(inp, nontrivial=nontriv)
        if g.strip() != exp.strip():
            bad += 1
            if bad <= 5:
                op = s["o"] if s else "hist"
                ctx.violation("map:%s:%s" % (op, rname.split("-")[0]),
                              "map.c result/slot array differs from Map.tla",
                              {"H": c["H"], "hist": c["hist"], "op": s, "realisation": rname, "input": inp, "expected": exp, "observed": g})
    ctx.validated(nstates)
    mid = len(expect) // 2
    ctx.sample({"map history (real key ids)": lines[len(head) + mid], "realisation": expect[mid][3],
                "expected '<results> | cap len (key val)*'": expect[mid][0]})
    ctx.cov["map_flow_a"] = {"cfg": cfg, "states": nstates, "replays": len(expect), "mismatches": bad}


# ------------------------------------------------------------------------------------------------
def _rand_history(rng, nops, nkeys, growth, reset_p):
    ops = []
    for j in range(nops):
        live = max(2, min(nkeys, int(4 + j * growth)))
        x = rng.random()
        if x < 0.40:
            ops.append("g%d" % rng.randrange(live))
        elif x < 0.45:
            ops.append("g%d" % rng.randrange(nkeys))            # mostly absent keys
        elif x < 0.45 + reset_p:
            ops.append("f")
        else:
            ops.append("p%d,%s" % (rng.randrange(live), rng.choice(["k", "k", "0", "1", "2", "3"])))
    return ops


def map_flow_b(ctx, exe, plans):
    """plans: list of (name, initcap, nkeys, nops, keydefs(list of cmap lines), growth, reset_p)"""
    total_ev = 0
    for name, initcap, nkeys, nops, keydefs, growth, reset_p in plans:
        trace = ctx.path("map_%s.ndjson" % name)
        ops = _rand_history(ctx.rng, nops, nkeys, growth, reset_p)
        rc, out, err = run_cmap(exe, "\n".join(keydefs) + "\nL %s %d %s\n" % (trace, initcap, " ".join(ops)))
        if rc != 0 or "L ok" not in out:
            ctx.violation("map:crash:history:" + name, "map.c harness died on a long history rc=%s: %s" % (rc, err[-800:]), {"plan": name})
            continue
        nev = sum(1 for _ in open(trace))
        r = ctx.tlc("Trace_Map", "MC_Trace_Map.cfg", workers=1, env={"TRACE": trace}, timeout=1500, heap="4g")
        ctx.count("hist:" + name + ":" + str(ctx.seed), nontrivial=True, n=nev)
        total_ev += nev
        if not r.ok:
            keep = os.path.join(vlib.WORK, "replays", "C16")
            os.makedirs(keep, exist_ok=True)
            dst = os.path.join(keep, "map_%s_%d.ndjson" % (name, ctx.seed))
            with open(dst, "w") as f:
                f.write(open(trace).read())
            ctx.violation("map:history:" + name, "recorded map.c history rejected by Trace_Map.tla after %d events" % (r.distinct - 1),
                          {"plan": name, "trace": dst, "tlc": r.out[-1500:]})
        else:
            ctx.validated(1)
    # canary: the same machinery must reject a history with one corrupted result
    trace = ctx.path("map_canary.ndjson")
    rc, out, err = run_cmap(exe, "S 0 61 0 0\nS 1 62 0 0\nL %s 4 p0,1 p1,2 g0 g1 f g0\n" % trace)
    evs = open(trace).read().splitlines()
    evs = [e.replace('"r":2', '"r":1') for e in evs]
    open(trace, "w").write("\n".join(evs) + "\n")
    r = ctx.tlc("Trace_Map", "MC_Trace_Map.cfg", workers=1, env={"TRACE": trace}, timeout=300)
    if r.ok:
        raise vlib.MachineryError("Trace_Map accepted a corrupted history: the trace binding is vacuous")
    ctx.cov["map_flow_b"] = {"histories": len(plans), "events": total_ev}


def map_plans(ctx):
    plans = []
    # A: identifiers all colliding in the low 12 bits (one probe chain through every table size up to 4096)
    n = 400 if ctx.quick else 1500
    plans.append(("onechain", 8, n, 30000 if ctx.quick else 100000,
                  ["S %d %s %x %x" % (i, ("id%d_" % i).encode().hex(), 0xfff, 0xfff) for i in range(n)], 0.02, 0.0002))
    # B: many keys, groups of 16 colliding in the low 16 bits, groups adjacent (clusters merge, wrap at table end)
    n = 3000 if ctx.quick else 20000
    M = 0xfff if ctx.quick else 0x7fff
    plans.append(("groups", 32, n, 40000 if ctx.quick else 100000,
                  ["S %d %s %x %x" % (i, ("g%d_" % i).encode().hex(), M, (M - (i // 16) % 7) & M) for i in range(n)], 0.1 if ctx.quick else 0.3, 0.0))
    # C: long and binary keys (string-literal pool shape), initial capacity 64
    n = 300
    defs = []
    for i in range(n):
        if i % 3 == 0:
            defs.append("B %d %d %d %x %x" % (i, 1000 + 37 * i, i, 0xff, i % 3))
        else:
            defs.append("S %d %s %x %x" % (i, bytes([i % 256, 0, 0, 0, (i // 7) % 256, 0, 0, 0]).hex(), 0xff, 0x80 + i % 2))
    plans.append(("binary", 64, n, 30000 if ctx.quick else 100000, defs, 0.02, 0.0005))
    if not ctx.quick:
        n = 1000
        defs = ["B %d 1000000 %d %x %x" % (0, 99, 0xf, 5)] + \
               ["S %d %s %x %x" % (i, ("z%d" % i).encode().hex(), 0x3ffff, 0x12345) for i in range(1, n)]
        plans.append(("deep", 8, n, 100000, defs, 0.02, 0.0))
    return plans


def run(ctx):
    ctx.cov["rule"] = ("Map: TLC enumerates every reachable table of Map.tla for every monotone hash function into the bucket set "
                       "(4 keys, capacities 4->8) and every operation from it; each (state, op) is replayed into map.c under "
                       "several key realisations; non-trivial = history of >= 2 ops followed by an op. "
                       "Histories: random 3*10^4..10^5-op histories with engineered collisions judged by Trace_Map.tla.")
    exe = build_cmap(ctx)
    results = {}

    def design():
        results["full"] = ctx.tlc_must_pass("Map", "MC_Map_full.cfg", workers=6, timeout=1200)
    th = threading.Thread(target=design)
    th.start()
    map_flow_a(ctx, exe, "MC_Map_quick.cfg" if ctx.quick else "MC_Map_thorough.cfg", 4, 8, workers=6)
    map_flow_b(ctx, exe, map_plans(ctx))
    th.join()
    if "full" not in results:
        raise vlib.MachineryError("design-level model check MC_Map_full did not pass")
    # the capacity-2 hazard must be *found* by TLC (keeps Inv_FreeSlot honest: it is not a tautology)
    r = ctx.tlc("Map", "MC_Map_cap2.cfg", workers=2, timeout=300)
    if r.ok:
        raise vlib.MachineryError("MC_Map_cap2 expected to violate Inv_FreeSlot (vacuity guard)")
