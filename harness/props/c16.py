"""C16 — names always resolve to the declaration C scoping selects.

 map_flow_a      Map.tla's state graph (every hash function into the chosen buckets, every op from every
                 reachable table) replayed into /repo/map.c through harness/cmap.c with several realisations
                 of the abstract keys (real FNV low bits = H, forged full collisions, long keys ...);
                 every result and the full slot array compared.
 map_flow_b      long random histories (keys engineered to collide in the low hash bits at every table size)
                 executed by the real map.c, the recorded ndjson accepted/rejected by Trace_Map.tla.
 pool / scope    see the functions below (added in later steps).
Python holds no dictionary/scoping semantics: expected values come from TLC output or TLC judges the trace.
"""
import json, os, subprocess, threading
import vlib, ilparse

_LOCK = threading.Lock()
H = os.path.join(vlib.VERIF, "harness")
ENV = dict(os.environ, ASAN_OPTIONS="detect_leaks=0")


def own_build(ctx, flavour):
    """private copy of the compiler binary: the shared build cache evicts builds when another check runs on a
    different source tree (mutant runs), which must not pull the binary from under a running check"""
    import shutil
    last = None
    for attempt in range(4):
        try:
            d = vlib.build(flavour)
            dst = ctx.path("bin-" + flavour)
            os.makedirs(dst, exist_ok=True)
            shutil.copy2(os.path.join(d, "cproc-qbe"), os.path.join(dst, "cproc-qbe"))
            return dst
        except (OSError, vlib.MachineryError) as ex:
            last = ex
    raise vlib.MachineryError("cannot obtain a %s build: %s" % (flavour, last))


def build_cmap(ctx):
    return vlib.cc_link([os.path.join(H, "cmap.c"), os.path.join(vlib.REPO, "map.c")], ctx.path("cmap"),
                        extra=["-fsanitize=address,undefined", "-fno-sanitize-recover=undefined", "-w"])


def run_cmap(exe, text, timeout=900):
    p = subprocess.run([exe], input=text, stdout=subprocess.PIPE, stderr=subprocess.PIPE, text=True, env=ENV, timeout=timeout)
    return p.returncode, p.stdout, p.stderr


# ------------------------------------------------------------------------------------------------
# Realisations of the abstract keys 1..NKeys with abstract hash H[k] in 0..CapMax-1.
# Each realisation defines, for every (key j, bucket b), a real key id; ids are allocated in blocks.
class Realisation:
    def __init__(self, name, base, nkeys, capmax):
        self.name, self.base, self.nkeys, self.capmax = name, base, nkeys, capmax

    def kid(self, j, b):           # j in 1..nkeys, b in 0..capmax-1
        return self.base + (j - 1) * self.capmax + b

    def defs(self):
        out = []
        m = self.capmax - 1
        for j in range(1, self.nkeys + 1):
            for b in range(self.capmax):
                i = self.kid(j, b)
                n = self.name
                if n == "real-ident":        # identifier-like keys, real hash, low bits searched
                    out.append("S %d %s %x %x" % (i, ("name%d_" % j).encode().hex(), m, b))
                elif n == "real-binary":     # bytes with NULs and high bytes (string-literal pool keys), real hash
                    out.append("S %d %s %x %x" % (i, bytes([0, 255, j, 0]).hex(), m, b))
                elif n == "real-long":       # 20 000-byte keys, real hash
                    out.append("B %d 20000 %d %x %x" % (i, j * 64 + b, m, b))
                elif n == "forged-samelen":  # full hash equal whenever H equal; same length, last byte differs
                    out.append("K %d %s %x" % (i, ("same-prefix-%d" % j).encode().hex(), 0xfeed0000 + b))
                elif n == "forged-prefix":   # full hash equal whenever H equal; each key a proper prefix of the next
                    out.append("K %d %s %x" % (i, (b"ab" * j).hex(), 0x5a5a00 + b))
                elif n == "forged-empty":    # key 1 is the empty key (len 0), the others 1 byte
                    out.append("K %d %s %x" % (i, (b"" if j == 1 else bytes([j])).hex() or "-", 0x100 + b))
                elif n == "forged-highbits": # equal low bits, full hashes differ only above bit 32
                    out.append("K %d %s %x" % (i, b"x".hex(), (j << 40) + b))
                else:
                    raise vlib.MachineryError("unknown realisation " + n)
        return out


REALISATIONS = ["real-ident", "real-binary", "real-long", "forged-samelen", "forged-prefix", "forged-empty"]
# "forged-highbits": identical bytes and lengths, different hash: such keys cannot come out of mapkey() (the hash is
# a function of the bytes), map.c may treat them either way -> not used.


def _ops_text(ops, real, Hf):
    out = []
    for e in ops:
        if e["o"] == "p":
            out.append("p%d,%s" % (real.kid(e["k"], Hf[e["k"] - 1]), "k" if e["a"] == -1 else e["a"]))
        elif e["o"] == "g":
            out.append("g%d" % real.kid(e["k"], Hf[e["k"] - 1]))
        else:
            out.append("f")
    return " ".join(out)


def _res_text(ops):
    out = []
    for e in ops:
        if e["o"] == "p":
            out.append("p:%d,%d " % (e["r"][0], e["r"][1]))
        elif e["o"] == "g":
            out.append("g:%d " % e["r"][0])
        else:
            out.append("f:%s " % ",".join(map(str, e["r"])))
    return "".join(out)


def _dump_text(c, n, s, real, Hf):
    parts = ["| %d %d" % (c, n)]
    for i in range(0, len(s), 2):
        if s[i] == 0:
            parts.append("-1 0")
        else:
            parts.append("%d %d" % (real.kid(s[i], Hf[s[i] - 1]), s[i + 1]))
    return " ".join(parts)


def _sem(line):
    """dictionary-level projection of a cmap result line: results without slot indices (mapfree values as a bag),
    len, and the set of (key, value) pairs stored - everything except WHERE things are kept and the capacity"""
    res, _, dump = line.partition("|")
    out = []
    for t in res.split():
        k, _, v = t.partition(":")
        if k == "p":
            out.append("p:" + v.split(",")[0])
        elif k == "f":
            out.append("f:" + ",".join(sorted(v.split(","))))
        else:
            out.append(t)
    d = dump.split()
    pairs = sorted((d[i], d[i + 1]) for i in range(2, len(d), 2) if d[i] != "-1")
    return (tuple(out), d[1] if len(d) > 1 else None, tuple(pairs))


class Drift(vlib.MachineryError):
    """the real code satisfies the dictionary semantics but its layout/growth no longer matches the transcription"""


def map_flow_a(ctx, exe, cfg, nkeys, capmax, workers=8, timeout=1500, per_state=2, simulate=None, depth=None):
    """TLC explores cfg; each VCASE (state) = history + all successor ops; every (state, op) is replayed into
    map.c under `per_state` of the key realisations (rotating), in chunks."""
    reals = [Realisation(n, 1000 * (i + 1), nkeys, capmax) for i, n in enumerate(REALISATIONS)]
    head = []
    for r in reals:
        head += r.defs()
    r = ctx.tlc_must_pass("Map", cfg, workers=workers, timeout=timeout, heap="4g", simulate=simulate, depth=depth)
    if not simulate and len(r.vcases) != r.distinct:
        raise vlib.MachineryError("expected one VCASE per distinct state: %d vs %d" % (len(r.vcases), r.distinct))
    nstates = nrep = bad = drift = 0
    driftex = None
    sample = None
    CH = 4000
    for lo in range(0, len(r.vcases), CH):
        lines, expect = list(head), []
        for v in r.vcases[lo:lo + CH]:
            c = json.loads(v)
            nstates += 1
            Hf, hist = c["H"], c["hist"]
            for j in range(per_state):
                real = reals[(nstates + j * (len(reals) // per_state)) % len(reals)]
                pre = _ops_text(hist, real, Hf)
                preres = _res_text(hist)
                if hist:
                    lines.append("R %d %s" % (c["init"], pre))
                    expect.append((preres + _dump_text(c["c"], c["n"], c["s"], real, Hf), c, None, real.name))
                for su in c["succ"]:
                    lines.append("R %d %s %s" % (c["init"], pre, _ops_text([su], real, Hf)))
                    expect.append((preres + _res_text([su]) + _dump_text(su["c"], su["n"], su["s"], real, Hf), c, su, real.name))
        rc, out, err = run_cmap(exe, "\n".join(lines) + "\n")
        got = [g for g in out.splitlines() if not g.startswith("S ")]
        if rc == 3 and "SEARCH-FAILED" in err:
            raise vlib.MachineryError("cannot realise the abstract keys with the real hash function: " + err[-300:])
        if rc != 0 or len(got) != len(expect):
            hang = "HANG" in out[-40:]
            inp = lines[len(head) + len(got) - (2 if hang else 0)] if len(head) + len(got) < len(lines) + 2 and got else None
            with _LOCK:
                ctx.violation("map:hang" if hang else "map:crash",
                              "map.c %s while replaying a Map.tla history (rc=%s): %s" % ("does not terminate (probe loop finds no free slot)" if hang else "died", rc, err[-800:]),
                              {"lines": len(lines), "completed": len(got), "around_input": inp})
            return
        with _LOCK:
            for (exp, c, su, rname), g, inp in zip(expect, got, lines[len(head):]):
                ctx.count(inp, nontrivial=(su is not None and len(c["hist"]) >= 2))
                if g.strip() != exp.strip():
                    if _sem(g) == _sem(exp):
                        drift += 1       # same dictionary, different slot/capacity: the transcription is out of date, not the property
                        driftex = driftex or {"input": inp, "expected": exp, "observed": g}
                        continue
                    bad += 1
                    if bad <= 5:
                        ctx.violation("map:%s:%s" % (su["o"] if su else "hist", rname.split("-")[0]),
                                      "map.c result/slot array differs from Map.tla",
                                      {"H": c["H"], "hist": c["hist"], "op": su, "realisation": rname, "input": inp, "expected": exp, "observed": g})
        nrep += len(expect)
        if sample is None and expect:
            mid = len(expect) // 2
            sample = {"map history (real key ids)": lines[len(head) + mid], "realisation": expect[mid][3],
                      "expected '<results> | cap len (key val)*'": expect[mid][0]}
    with _LOCK:
        ctx.validated(nstates)
        if sample:
            ctx.sample(sample)
        ctx.cov["map_flow_a:" + cfg] = {"states": nstates, "replays": nrep, "mismatches": bad, "layout_only_mismatches": drift,
                                        "realisations": REALISATIONS}
    if drift and not bad:
        raise Drift("MODEL-DRIFT: map.c returns the dictionary's results but no longer places keys / grows as Map.tla's "
                                  "transcription does (%d replays); update Map.tla.  First: %s" % (drift, driftex))


# ------------------------------------------------------------------------------------------------
def _rand_history(rng, nops, nkeys, growth, reset_p):
    ops = []
    for j in range(nops):
        live = max(2, min(nkeys, int(4 + j * growth)))
        x = rng.random()
        if x < 0.40:
            ops.append("g%d" % rng.randrange(live))
        elif x < 0.45:
            ops.append("g%d" % rng.randrange(nkeys))            # mostly absent keys
        elif x < 0.45 + reset_p:
            ops.append("f")
        else:
            ops.append("p%d,%s" % (rng.randrange(live), rng.choice(["k", "k", "0", "1", "2", "3"])))
    return ops


def map_flow_b(ctx, exe, plans):
    """plans: list of (name, initcap, nkeys, nops, keydefs(list of cmap lines), growth, reset_p).  All histories go
    into one ndjson file (an `init` event starts a new table) judged by one Trace_Map run."""
    trace = ctx.path("map_hist.ndjson")
    names = []
    for name, initcap, nkeys, nops, keydefs, growth, reset_p in plans:
        ops = _rand_history(ctx.rng, nops, nkeys, growth, reset_p)
        rc, out, err = run_cmap(exe, "\n".join(keydefs) + "\nL %s %d %s\n" % (trace, initcap, " ".join(ops)))
        if rc == 3 and "SEARCH-FAILED" in err:
            raise vlib.MachineryError("cannot engineer colliding keys with the real hash function: " + err[-300:])
        keyhex = [l.split()[2] for l in out.splitlines() if l.startswith("S ") and not l.split()[2].startswith("(")]
        if len(set(keyhex)) != len(keyhex):
            raise vlib.MachineryError("plan %s: two key ids were given identical bytes (harness defect)" % name)
        if rc != 0 or "L ok" not in out:
            with _LOCK:
                ctx.violation(("map:hang:history:" if "HANG" in out[-40:] else "map:crash:history:") + name, "map.c harness died on a long history rc=%s: %s" % (rc, err[-800:]), {"plan": name})
            return
        names.append(name)
    nev = sum(1 for _ in open(trace))
    r = ctx.tlc("Trace_Map", "MC_Trace_Map.cfg", workers=1, env={"TRACE": trace}, timeout=2400, heap="4g")
    if not r.ok:
        r2 = ctx.tlc("Trace_Map", "MC_Trace_Map_lenient.cfg", workers=1, env={"TRACE": trace}, timeout=2400, heap="4g")
        if r2.ok:
            raise Drift("MODEL-DRIFT: recorded map.c histories satisfy the dictionary semantics and keep a free slot, "
                                      "but the capacity does not follow MapDict!CapAfterPut (event %d); update the growth rule" % r.distinct)
    with _LOCK:
        ctx.count("hist:" + ",".join(names) + ":" + str(ctx.seed), nontrivial=True, n=nev)
        if not r.ok:
            keep = os.path.join(vlib.WORK, "replays", "C16")
            os.makedirs(keep, exist_ok=True)
            dst = os.path.join(keep, "map_hist_%d.ndjson" % ctx.seed)
            with open(dst, "w") as f:
                f.write(open(trace).read())
            ctx.violation("map:history", "recorded map.c history rejected by Trace_Map.tla at event %d" % r.distinct,
                          {"plans": names, "trace": dst, "tlc": r.out[-1500:]})
        else:
            ctx.validated(len(plans))
    # canary: the same machinery must reject a history with one corrupted result
    trace = ctx.path("map_canary.ndjson")
    rc, out, err = run_cmap(exe, "S 0 61 0 0\nS 1 62 0 0\nL %s 4 p0,1 p1,2 g0 g1 f g0\n" % trace)
    evs = open(trace).read().splitlines()
    evs = [e.replace('"r":2', '"r":1') for e in evs]
    open(trace, "w").write("\n".join(evs) + "\n")
    r = ctx.tlc("Trace_Map", "MC_Trace_Map.cfg", workers=1, env={"TRACE": trace}, timeout=300)
    if r.ok:
        raise vlib.MachineryError("Trace_Map accepted a corrupted history: the trace binding is vacuous")
    with _LOCK:
        ctx.cov["map_flow_b"] = {"histories": names, "events": nev}


def map_plans(ctx):
    plans = []
    # A: identifiers all colliding in the low 12 bits (one probe chain through every table size up to 4096)
    n = 400 if ctx.quick else 1500
    plans.append(("onechain", 8, n, 30000 if ctx.quick else 100000,
                  ["S %d %s %x %x" % (i, ("id%d_" % i).encode().hex(), 0xfff, 0xfff) for i in range(n)], 0.02, 0.0002))
    # B: many keys, groups of 16 colliding in the low 16 bits, groups adjacent (clusters merge, wrap at table end)
    n = 3000 if ctx.quick else 20000
    M = 0xfff if ctx.quick else 0x7fff
    plans.append(("groups", 32, n, 40000 if ctx.quick else 100000,
                  ["S %d %s %x %x" % (i, ("g%d_" % i).encode().hex(), M, (M - (i // 16) % 7) & M) for i in range(n)], 0.1 if ctx.quick else 0.3, 0.0))
    # C: long and binary keys (string-literal pool shape), initial capacity 64
    n = 300
    defs = []
    for i in range(n):
        if i % 3 == 0:
            defs.append("B %d %d %d %x %x" % (i, 1000 + 37 * i, i, 0xff, i % 3))
        else:
            defs.append("S %d %s %x %x" % (i, bytes([i % 256, 0, 0, 0, (i // 7) % 256, 0, 0, 0]).hex(), 0xff, 0x80 + i % 2))
    plans.append(("binary", 64, n, 30000 if ctx.quick else 100000, defs, 0.02, 0.0005))
    if not ctx.quick:
        n = 1000
        defs = ["B %d 1000000 %d %x %x" % (0, 99, 0xf, 5)] + \
               ["S %d %s %x %x" % (i, ("z%d_" % i).encode().hex(), 0x3ffff, 0x12345) for i in range(1, n)]
        plans.append(("deep", 8, n, 100000, defs, 0.02, 0.0))
    return plans



# ------------------------------------------------------------------------------------------------
# String-literal pool (Pool.tla -> translation units -> IL)


def _lit_c(u, variant):
    pf = {1: ["", "u8"], 2: ["u"], 4: ["L", "U"]}[u["w"]]
    pf = pf[variant % len(pf)]
    if not u["els"]:
        return pf + '""'
    out = []
    for e in u["els"]:       # one adjacent piece per element: a hex escape never swallows the next character
        if 32 < e < 127 and chr(e) not in '"\\?':
            out.append('%s"%s"' % (pf, chr(e)))
        else:
            out.append('%s"\\x%x"' % (pf, e))
    return " ".join(out)


def pool_unit(case, variant):
    return "".join("const void *p%d = %s;\n" % (i, _lit_c(u, variant + i)) for i, u in enumerate(case["uses"]))


def pool_judge(ctx, case, src, rc, out, err):
    """case: VCASE of Pool.tla.  Returns None or (key, what, detail)."""
    if rc != 0:
        return ("pool:compile", "unit of string literals not compiled rc=%s: %s" % (rc, err[-300:]), {})
    try:
        mod = ilparse.parse(out)
    except ilparse.ILSyntaxError as ex:
        raise vlib.MachineryError("IL of a pool unit does not parse: %s" % ex)
    data = ilparse.data_by_name(mod)
    syms, fails = [], []
    for i, u in enumerate(case["uses"]):
        d = data.get("p%d" % i)
        if d is None:
            return ("pool:missing", "no data for p%d" % i, {})
        img, rel = ilparse.data_image(d)
        if len(rel) != 1 or rel[0][0] != 0:
            return ("pool:shape", "p%d is not a single address" % i, {"items": d["items"]})
        sym, off = rel[0][2], rel[0][3]
        obj = data.get(sym)
        if obj is None:
            return ("pool:dangling", "p%d points at undefined %s" % (i, sym), {})
        oimg, orel = ilparse.data_image(obj)
        syms.append(sym)
        want = u["bytes"]
        if oimg[off:off + len(want)] != want:
            fails.append((i, "content", {"literal": _lit_c(u, 0), "required_bytes": want, "object": sym, "object_bytes": oimg[:64]}))
        elif (obj["align"] % u["w"]) != 0 or off % u["w"] != 0:
            fails.append((i, "align", {"literal": _lit_c(u, 0), "element_width": u["w"], "object": sym, "object_align": obj["align"]}))
    first = {}
    pattern = []
    for i, sname in enumerate(syms):
        first.setdefault(sname, i + 1)
        pattern.append(first[sname])
    case["_pattern"] = pattern
    if not fails:
        return None
    i, cls, det = fails[0]
    det["observed_sharing"] = pattern
    det["model_sharing"] = case["objModel"]
    # attribution to a named deviation (Pool.tla): since /repo 7b5722a both are switched off in the cfgs and the finding is
    # recorded as fixed, so these keys are no longer suppressed: the old behaviour coming back is a VIOLATION
    if pattern == case["objShipped"] and cls == "content":
        key = "pool:content:Dev_PoolKeyInElements"
    elif pattern == case["objNaive"] and cls == "align":
        key = "pool:align:Dev_PoolKeyIgnoresWidth"
    else:
        key = "pool:%s:unexplained" % cls
    return (key, "string literal #%d does not read its own image at the address it evaluates to (%s)" % (i, cls), det)


def pool_check(ctx, objdir):
    r = ctx.tlc_must_pass("Pool", "MC_Pool_quick.cfg", workers=2, timeout=600)
    cases = [json.loads(v) for v in r.vcases]
    if not ctx.quick:
        r2 = ctx.tlc_must_pass("Pool", "MC_Pool_sim.cfg", workers=2, timeout=600, simulate=1500, depth=8)
        cases += [json.loads(v) for v in r2.vcases]
    for cfg in ("MC_Pool_dev.cfg", "MC_Pool_naive.cfg"):      # vacuity guards: both deviations must be visible to TLC
        rr = ctx.tlc("Pool", cfg, workers=1, timeout=300)
        if rr.ok:
            raise vlib.MachineryError("%s expected to be rejected" % cfg)

    def one(ic):
        i, c = ic
        src = pool_unit(c, i)
        rc, out, err = vlib.cproc(objdir, src)
        return pool_judge(ctx, c, src, rc, out, err), src
    res = vlib.pmap(one, list(enumerate(cases)), workers=12)
    stats = {"units": len(cases), "served": 0, "pattern_model": 0, "pattern_shipped": 0, "pattern_other": 0, "not_served": 0}
    for c, (v, src) in zip(cases, res):
        nontriv = len(set(c["objShipped"])) < len(c["objShipped"]) or len(set(c["objModel"])) < len(c["objModel"])
        with _LOCK:
            ctx.count("pool:" + src, nontrivial=nontriv)
        pat = c.get("_pattern")
        if pat == c["objModel"]:
            stats["pattern_model"] += 1
        elif pat == c["objShipped"]:
            stats["pattern_shipped"] += 1
        else:
            stats["pattern_other"] += 1
        if v is None:
            stats["served"] += 1
            continue
        stats["not_served"] += 1
        key, what, det = v
        det["unit"] = src
        with _LOCK:
            ctx.violation(key, what, det)
    with _LOCK:
        ctx.validated(len(cases))
        ctx.cov["pool"] = stats
        ctx.sample({"pool unit": pool_unit(cases[len(cases) // 3], len(cases) // 3), "model_sharing": cases[len(cases) // 3]["objModel"],
                    "required": "every p_i addresses storage beginning with the literal's image, aligned for its element type"})



# ------------------------------------------------------------------------------------------------
# Scoping programs (CScope.tla -> C -> IL).  Rendering only: which entity a use denotes comes from TLC
# (item["id"]); the renderer gives every (entity id, copy) a unique number U and every use an expression
# whose constant value is the U of the entity the compiler resolved.
KEYWORDS = set("auto break case char const continue default do double else enum extern float for goto if inline int long "
               "register restrict return short signed sizeof static struct switch typedef union unsigned void volatile while "
               "mark main asm typeof alignas alignof bool true false nullptr constexpr thread_local static_assert".split())


class ScopeRender:
    def __init__(self, case, namefn, copies=1, use_copies=None, audit=False):
        self.prog, self.ent = case["prog"], case["ent"]
        self.nm = namefn
        self.copies = copies
        self.use_copies = set(range(copies)) if use_copies is None else set(use_copies)
        self.audit = audit
        self.stride = len(self.ent) + 1
        self.expect = {}       # chk name -> expected value
        self.gotoexp = {}      # goto marker -> expected label marker
        self.nuses = 0
        self.callids = {}      # id passed to usei/usel -> chk name
        self.size = {}         # (entity id, copy) -> sizeof observed for it, when it is not simply U

    def U(self, eid, c):
        return 11 + c * self.stride + eid

    # type specifiers of size 1 / 4 / 8 an object or parameter declaration rotates through: arithmetic keyword(s),
    # struct / union / enum specifier, pointer to void, _Bool, typeof - the declarator that follows may be spelled like
    # a visible typedef name and must still be the declarator (6.7.2)
    BASES = [("char", 1), ("struct chk_s1", 1), ("union chk_u1", 1), ("enum chk_e4", 4), ("void *", 8), ("_Bool", 1),
             ("__typeof__(chk_c1)", 1), ("unsigned long", 8)]
    PRE = ("void mark(int); void usei(int, int); void usel(int, unsigned long);\n"
           "struct chk_s1 { char c; }; union chk_u1 { char c; }; enum chk_e4 { chk_e4v }; extern char chk_c1;")

    def base(self, it, c, K, plain):
        """(specifier text, size of one element) for the declaration item"""
        if "ts" in it:
            return self.nm(it["ts"], c), self.size.get((it["tsid"], c), self.U(it["tsid"], c))
        if plain:
            return "char", 1
        return self.BASES[(K + c) % len(self.BASES)]

    def val(self, eid, c):
        return self.size.get((eid, c), self.U(eid, c))

    def members(self, it, c):
        txt, extra = "", 0
        for m in it.get("mem", []):
            txt += " %s %s;" % (self.nm(m["ts"], c), self.nm(m["name"], c))
            extra += self.val(m["tsid"], c)
        return txt, extra

    def expr(self, it, c):
        n, k = self.nm(it["name"], c), it["kind"]
        if it.get("form") == "call":
            return "%s()" % n
        return {"obj": "sizeof(%s)", "xobj": "sizeof(%s)", "xfunc": "sizeof(*%s())", "typedef": "sizeof(%s)", "param": "sizeof(*%s)", "tparam": "sizeof(%s)", "enum": "%s", "macro": "%s",
                "struct": "sizeof(struct %s)", "union": "sizeof(union %s)"}[k] % n

    def render(self):
        out = [self.PRE]
        stack = ["file"]
        plist = None
        pending_goto = []      # (marker, name, copy) of the current function
        frames = []            # open statement / substatement scopes: their text is assembled when they close
        C = range(self.copies)
        skip = set()           # items already rendered inside the member list of the preceding struct item
        for K, it in enumerate(self.prog):
            if K in skip:
                continue
            op = it["op"]
            top = stack[-1]
            if op == "open":
                how = it["how"]
                if how in ("func", "funcx"):
                    self._params = []
                    self._groups = []      # further parameter lists of the declarator: (role, [parameter texts])
                    self._fn = K
                    pending_goto = []
                    how = "func"
                elif how == "pscope":
                    self._groups.append((it["role"], []))
                elif how == "stmt":
                    frames.append({"how": "stmt", "form": it["form"], "ctrl": [], "subs": []})
                elif how == "sub":
                    frames.append({"how": "sub", "parts": [], "nested": None})
                elif how == "block":
                    out.append("{")
                elif how == "proto":
                    plist = []
                elif how == "for":
                    self._forK = K
                stack.append(how)
            elif op == "body":
                # own parameters, then function-pointer parameters with their own (prototype-scope) parameter lists;
                # each "ret" list wraps the declarator: char (*fn(P))(Q), char (*(*fn(P))(Q))(R)
                ps = list(self._params)
                for gi, (role, g) in enumerate(self._groups):
                    if role == "cb":
                        ps.append("void (*chkcb_%d_%d)(%s)" % (self._fn, gi, ", ".join(g) if g else "void"))
                decl = "fn_%d(%s)" % (self._fn, ", ".join(ps) if ps else "void")
                rets = [g for role, g in self._groups if role == "ret"]
                for g in rets:
                    decl = "(*%s)(%s)" % (decl, ", ".join(g) if g else "void")
                out.append("%s %s {" % ("char" if rets else "void", decl))
                self._params = None
            elif op == "close":
                how = it["how"]
                if stack[-1] != how:
                    raise vlib.MachineryError("renderer: close %s but top is %s" % (how, stack[-1]))
                stack.pop()
                if how in ("block", "forbody"):
                    out.append("}")
                elif how == "pscope":
                    pass
                elif how == "sub":       # one unbraced statement: a comma expression, a nested statement, or the null statement
                    fr = frames.pop()
                    frames[-1]["subs"].append(fr["nested"] or (", ".join(fr["parts"]) + ";" if fr["parts"] else ";"))
                elif how == "stmt":
                    fr = frames.pop()
                    ctrl, subs, form = fr["ctrl"], fr["subs"], fr["form"]
                    cond = "(%s)" % ", ".join(ctrl + ["0"])
                    if form == "if":
                        text = "if (%s)\n%s" % (cond, subs[0]) + ("\nelse\n%s" % subs[1] if len(subs) > 1 else "")
                    elif form == "while":
                        text = "while (%s)\n%s" % (cond, subs[0])
                    elif form == "switch":
                        text = "switch (%s)\n%s" % (cond, subs[0])
                    elif form == "do":
                        text = "do\n%s\nwhile (%s);" % (subs[0], cond)
                    else:                # for (E1; E2; E3) with the items split in textual order over the three clauses
                        n = len(ctrl)
                        a, b = (n + 2) // 3, (2 * n + 2) // 3
                        text = "for (%s; %s; %s)\n%s" % (", ".join(ctrl[:a]), ", ".join(ctrl[a:b] + ["0"]), ", ".join(ctrl[b:]), subs[0])
                    if frames and frames[-1]["how"] == "sub":
                        frames[-1]["nested"] = text
                    else:
                        out.append(text)
                elif how == "func":
                    lab = {x["name"]: x["id"] for x in it["labels"]}
                    for g, n, c in pending_goto:
                        self.gotoexp[g] = self.U(lab[n], c)
                    out.append("}")
                elif how == "proto":
                    out.append("void chkproto_%d(%s);" % (K, ", ".join(plist) if plist else "void"))
                    plist = None
            elif op in ("decl", "fwd", "complete"):
                for c in C:
                    n, u = self.nm(it["name"], c), self.U(it["id"], c)
                    k = it["kind"]
                    if top in ("stmt", "sub"):
                        # declared by a type name inside an expression: sizeof / _Alignof / cast / compound literal
                        mt, extra = self.members(it, c)
                        if extra:
                            self.size[(it["id"], c)] = u + extra
                        tn = "enum { %s = %d }" % (n, u) if k == "enum" else "%s %s { char m[%d];%s }" % (k, n, u, mt)
                        v = (K + c) % 4
                        part = ("(void)sizeof(%s)" % tn if v == 0 else "(void)_Alignof(%s)" % tn if v == 1 else
                                ("(void)(%s)0" if k == "enum" else "(void)(%s *)0") % tn if v == 2 else
                                ("(void)(%s){0}" if k == "enum" else "(void)(%s){{0}}") % tn)
                        frames[-1]["ctrl" if top == "stmt" else "parts"].append(part)
                        continue
                    if op == "fwd":
                        out.append("%s %s;" % (k, n))
                    elif k in ("struct", "union"):
                        mt, extra = self.members(it, c)
                        if it.get("nest"):      # a tag with body and an enumerator declared inside the member list
                            ti, ei = self.prog[K + 1], self.prog[K + 2]
                            skip.update((K + 1, K + 2))
                            mt += " struct %s { char m[%d]; } chkmb_%d; char chkme_%d[sizeof(enum { %s = %d })];" % (
                                self.nm(ti["name"], c), self.U(ti["id"], c), K, K, self.nm(ei["name"], c), self.U(ei["id"], c))
                            extra += self.U(ti["id"], c) + 4
                        if extra:
                            self.size[(it["id"], c)] = u + extra
                        t = "%s %s { char m[%d];%s }" % (k, n, u, mt)
                        if top == "proto":
                            plist.append("%s *" % t)      # unnamed: the prototype scope may hold tags and no ordinary identifier
                        else:
                            out.append(t + ";")
                    elif k == "tparam":        # `T T`: declared with the typedef of its own spelling; array type -> pointer
                        t = "%s %s" % (self.nm(it["ts"], c), n)
                        self.size[(it["id"], c)] = 8
                        if top == "proto":
                            plist.append(t)
                        else:
                            self._params.append(t)
                    elif k == "param":
                        b, m = self.base(it, c, K, False)
                        self.size[(it["id"], c)] = u * m
                        t = "%s (*%s)[%d]" % (b, n, u)
                        if top == "proto":
                            plist.append(t)
                        elif top == "pscope":
                            self._groups[-1][1].append(t)
                        else:
                            self._params.append(t)
                    elif k == "enum":
                        if top == "proto":
                            plist.append("enum { %s = %d } chke_%d_%d" % (n, u, K, c))
                        else:
                            out.append("enum { %s = %d };" % (n, u))
                    elif k == "typedef":
                        b, m = self.base(it, c, K, True)
                        self.size[(it["id"], c)] = u * m
                        out.append("typedef %s %s[%d];" % (b, n, u))
                    elif k == "xobj":        # declaration with linkage: u is the size of the ONE linked entity of that spelling
                        out.append("extern char %s[%d];" % (n, u))
                    elif k == "xfunc":
                        out.append("char (*%s(void))[%d];" % (n, u))
                    elif k == "obj":
                        if top == "for":
                            if c == 0:
                                self._fordecl = []
                            self._fordecl.append("%s[%d]" % (n, u))
                        else:
                            b, m = self.base(it, c, K, top == "file")     # file-scope objects stay char: `extern char` redeclares them
                            self.size[(it["id"], c)] = u * m
                            out.append("%s %s[%d];" % (b, n, u))
                if it["kind"] == "obj" and top == "for":
                    out.append("for (char %s, *chkf_%d = 0; chkf_%d; ) {" % (", ".join(self._fordecl), K, K))
            elif op == "use":
                for c in C:
                    if c not in self.use_copies:
                        continue
                    e, u = self.expr(it, c), self.val(it["id"], c)
                    self.nuses += 1
                    if top == "proto":
                        plist.append("char (*chku_%d_%d)[(%s) == %d ? 1 : -1]" % (K, c, e, u))
                        continue
                    name = "chk_%d_%d" % (K, c)
                    self.expect[name] = u
                    if top in ("stmt", "sub"):
                        cid = len(self.callids) + 1
                        self.callids[cid] = name
                        dst = frames[-1]["ctrl" if top == "stmt" else "parts"]
                        dst.append("%s(%d, %s)" % ("usei" if it["kind"] in ("enum", "macro", "fmacro") else "usel", cid, e))
                        if self.audit:
                            dst.append("(void)sizeof(char[((%s) == %d) ? 1 : -1])" % (e, u))
                        continue
                    if top != "file" and (K + c) % 2 == 1:
                        # observed as a call argument: puts no identifier into the scope the lookup starts from
                        cid = len(self.callids) + 1
                        self.callids[cid] = name
                        out.append("%s(%d, %s);" % ("usei" if it["kind"] in ("enum", "macro", "fmacro") else "usel", cid, e))
                        if self.audit:
                            out.append('_Static_assert((%s) == %d, "%s");' % (e, u, name))
                    else:
                        out.append("%sint %s = %s;" % ("" if top == "file" else "static ", name, e))
                    if self.audit:
                        out.append('_Static_assert((%s) == %d, "%s");' % (e, u, name))
                    n = self.nm(it["name"], c)
                    if it["kind"] == "typedef" and it.get("form") != "call":
                        out.append("%s chkv_%d_%d;" % (n, K, c))            # typedef name in declaration position
                    elif it["kind"] == "obj" and top != "file":
                        out.append("%s[0];" % n)                              # object name starting an expression statement
                    elif it["kind"] == "xobj" and top != "file":
                        out.append("%s[0] = 1;" % n)                          # write through the re-exposed linked name
                    elif it["kind"] == "xfunc" and top != "file":
                        out.append("(void)%s();" % n)                         # call: must be the function, not a hiding object
            elif op == "define":
                for c in C:
                    out.append("#define %s%s %d" % (self.nm(it["name"], c), "()" if it["kind"] == "fmacro" else "", self.U(it["id"], c)))
            elif op == "undef":
                for c in C:
                    out.append("#undef %s" % self.nm(it["name"], c))
            elif op == "label":
                for c in C:
                    out.append("%s: mark(%d);" % (self.nm(it["name"], c), self.U(it["id"], c)))
            elif op == "goto":
                for c in C:
                    if c not in self.use_copies:
                        continue
                    g = self.U(it["id"], c)
                    pending_goto.append((g, it["name"], c))
                    self.nuses += 1
                    out.append("mark(%d); goto %s;" % (g, self.nm(it["name"], c)))
            else:
                raise vlib.MachineryError("renderer: unknown item %r" % it)
        while len(stack) > 1:
            how = stack.pop()
            if how in ("block", "forbody"):
                out.append("}")
            elif how == "proto":
                out.append("void chkproto_end(%s);" % (", ".join(plist) if plist else "void"))
            elif how == "func":
                raise vlib.MachineryError("renderer: program ends inside a function")
        return "\n".join(out) + "\n"


def scope_observe(out, callids=None):
    """IL -> ({chk name: value}, {goto marker: label marker or None})"""
    mod = ilparse.parse(out)
    vals = {}
    for f in mod["funcs"]:
        for b in f["blocks"]:
            for ins in b["insts"]:
                if ins["op"] == "call" and ins.get("callee", {}).get("n") in ("usei", "usel") and len(ins["cargs"]) == 2:
                    a, v = ins["cargs"][0]["val"], ins["cargs"][1]["val"]
                    if a["t"] == "int" and v["t"] == "int" and callids and a["v"] in callids:
                        vals[callids[a["v"]]] = v["v"]
    for d in mod["data"]:
        nm = d["name"]
        if nm.startswith(".Lchk_"):
            nm = nm[2:nm.rindex(".")]
        if nm.startswith("chk_") and len(d["items"]) == 1 and d["items"][0]["k"] == "num":
            vals[nm] = d["items"][0]["vals"][0]
    jumps = {}
    for f in mod["funcs"]:
        first = {}
        for b in f["blocks"]:
            for ins in b["insts"]:
                if ins["op"] == "call" and ins.get("callee", {}).get("n") == "mark":
                    first.setdefault(b["label"], ins["cargs"][0]["val"]["v"])
                    break
        for b in f["blocks"]:
            marks = [ins["cargs"][0]["val"]["v"] for ins in b["insts"] if ins["op"] == "call" and ins.get("callee", {}).get("n") == "mark"]
            if marks and b["jump"] and b["jump"]["k"] == "jmp":
                jumps[marks[-1]] = first.get(b["jump"]["targets"][0])
    return vals, jumps


def scope_judge(rend, rc, out, err):
    """Returns list of (key, what, detail)."""
    if rc != 0:
        return [("scope:compile", "valid scoping program rejected / crashed rc=%s: %s" % (rc, err[-300:]), {})]
    try:
        vals, jumps = scope_observe(out, rend.callids)
    except ilparse.ILSyntaxError as ex:
        raise vlib.MachineryError("IL of a scope unit does not parse: %s" % ex)
    bad = []
    for name, u in rend.expect.items():
        if vals.get(name) != u:
            K = int(name.split("_")[1])
            it = rend.prog[K]
            bad.append(("scope:%s:%s" % (it["ns"], it["kind"]), "use %s resolved to the wrong entity" % name,
                        {"item": it, "expected_value": u, "observed_value": vals.get(name)}))
    for g, u in rend.gotoexp.items():
        if jumps.get(g) != u:
            bad.append(("scope:label", "goto (marker %d) does not jump to the function's label of that name" % g,
                        {"expected_label_marker": u, "observed": jumps.get(g)}))
    return bad


_NAMECACHE = {}


def collide_names(exe, count, mask, target, stem, shape="tail"):
    """identifiers whose REAL hash (map.c, through cmap) agrees in the low bits: one probe chain in every scope table.
    shape: "tail"   <stem><i>_<searched>                      (differ early)
           "prefix" <stem>_a_long_common_prefix_of_names_<i>_<searched>   (differ only after 30+ characters)
           "suffix" v<searched>_<i>_<stem>_a_long_common_suffix           (differ only in the first characters)"""
    key = (count, mask, target, stem, shape)
    if key not in _NAMECACHE:
        lines = []
        for i in range(count):
            if shape == "tail":
                lines.append("S %d %s %x %x" % (i, ("%s%d_" % (stem, i)).encode().hex(), mask, target))
            elif shape == "prefix":
                lines.append("S %d %s %x %x" % (i, ("%s_a_long_common_prefix_of_names_%d_" % (stem, i)).encode().hex(), mask, target))
            else:
                lines.append("P %d %s %x %x" % (i, ("_%d_%s_a_long_common_suffix" % (i, stem)).encode().hex(), mask, target))
        rc, out, err = run_cmap(exe, "\n".join(lines) + "\n")
        names = [bytes.fromhex(l.split()[2]).decode() for l in out.splitlines() if l.startswith("S ")]
        if rc != 0 or len(names) != count or len(set(names)) != count or any(n in KEYWORDS for n in names):
            raise vlib.MachineryError("name search failed: %s" % err[-300:])
        _NAMECACHE[key] = names
    return _NAMECACHE[key]


def gcc_audit(ctx, src, tag):
    path = ctx.path("audit_%s.c" % tag)
    with open(path, "w") as f:
        f.write(src)
    rc, out, err = vlib.run(["gcc", "-std=c11", "-fsyntax-only", "-w", path], timeout=60)
    if rc != 0:
        raise vlib.MachineryError("SPEC-AUDIT: gcc rejects a program CScope.tla considers valid with these resolutions:\n%s\n%s"
                                  % (err.decode()[-1500:], src[:3000]))


def scope_programs(ctx, objdir, exe, cases, label, copies=1, use_copies=None, names=None, audit_n=0, workers=12):
    def mk(ic):
        i, c = ic
        if names is None:
            pool = collide_names(exe, 16, 0x3ff, (0x3ff, 0x155, 0x020)[i % 3], "n", ("tail", "prefix", "suffix")[i % 3])
        else:
            pool = names
        nn = max([it["name"] for it in c["prog"] if "name" in it] + [1])

        if len(pool) < copies * nn or len(set(pool[:copies * nn])) != copies * nn:
            raise vlib.MachineryError("name pool too small / not distinct for %d copies of %d names" % (copies, nn))

        def namefn(n, k):
            return pool[k * nn + (n - 1)]
        rend = ScopeRender(c, namefn, copies, use_copies)
        src = rend.render()
        if i < audit_n:
            gcc_audit(ctx, ScopeRender(c, namefn, copies, use_copies, audit=True).render(), "%s_%d" % (label, i))
        rc, out, err = vlib.cproc(objdir, src, timeout=300)
        return rend, src, scope_judge(rend, rc, out, err)
    if names is None:
        for j in range(3):       # fill the cache before the workers start
            collide_names(exe, 16, 0x3ff, (0x3ff, 0x155, 0x020)[j], "n", ("tail", "prefix", "suffix")[j])
    res = vlib.pmap(mk, list(enumerate(cases)), workers=workers)
    nuse = 0
    perkey = {}
    for rend, src, bad in res:
        nuse += rend.nuses
        with _LOCK:
            ctx.count("scope:" + vlib.sha(src), nontrivial=rend.nuses > 0, n=max(1, rend.nuses))
            for key, what, det in bad[:3]:
                perkey[key] = perkey.get(key, 0) + 1
                if perkey[key] > 2:  # two per key and class: keep room in the report for the other parts of the check
                    continue
                det["program"] = src if len(src) < 20000 else src[:20000] + "..."
                ctx.violation(key, what, det)
    with _LOCK:
        ctx.validated(len(cases))
        ctx.cov.setdefault("scope", {})[label] = {"programs": len(cases), "uses_checked": nuse, "copies": copies,
                                                  "programs_failing": sum(1 for r in res if r[2])}
    return res


# ------------------------------------------------------------------------------------------------
# Flow B for scope.c: H8 events -> Trace_Scope.tla
def _scope_events(trace_path, out):
    smap, imap = {}, {"(nil)": 0}

    def S(p):
        if p not in smap:
            smap[p] = 0 if not smap else max(smap.values()) + 1        # the first scope ever mentioned is the file scope
        return smap[p]
    out.append({"e": "Reset"})
    n = 0
    for line in open(trace_path):
        try:
            ev = json.loads(line)
        except ValueError:
            continue
        k = ev.get("e")
        if k == "open" and "p" in ev:
            pp = S(ev["p"])
            smap[ev["s"]] = max(smap.values()) + 1
            out.append({"e": "open", "s": smap[ev["s"]], "p": pp})
        elif k == "close" and "s" in ev:
            out.append({"e": "close", "s": S(ev["s"])})
            smap.pop(ev["s"], None)
        elif k in ("put", "get") and "ns" in ev:
            if ev["id"] not in imap:
                imap[ev["id"]] = len(imap)
            x = {"e": k, "ns": ev["ns"], "s": S(ev["s"]), "name": ev["name"], "id": imap[ev["id"]]}
            if k == "get":
                x["rec"] = ev["rec"]
            out.append(x)
        else:
            continue
        n += 1
    return n


def scope_flow_b(ctx, hooks, units):
    """units: list of (tag, path or None, source or None).  Every unit is compiled by the hooks build with the H8
    trace on; all executions are concatenated and judged by one Trace_Scope run."""
    def one(iu):
        i, (tag, path, src) = iu
        tr = ctx.path("h8_%d.ndjson" % i)
        rc, out, err = vlib.cproc(hooks, src, path=path, trace=tr, timeout=120)
        return tr if os.path.exists(tr) else None
    traces = vlib.pmap(one, list(enumerate(units)), workers=8)
    evs, nunits = [], 0
    for tr in traces:
        if tr:
            if _scope_events(tr, evs) > 0:
                nunits += 1
            os.remove(tr)
    if nunits < len(units) // 2:
        raise vlib.MachineryError("H8 hook produced events for only %d of %d units" % (nunits, len(units)))
    allp = ctx.path("h8_all.ndjson")
    with open(allp, "w") as f:
        f.write("\n".join(json.dumps(e) for e in evs) + "\n")
    r = ctx.tlc("Trace_Scope", "MC_Trace_Scope.cfg", workers=1, env={"TRACE": allp}, timeout=1500, heap="4g")
    with _LOCK:
        ctx.count("h8:%d" % len(evs), nontrivial=True, n=len(evs))
        if not r.ok:
            k = max(0, r.distinct - 1)
            ctx.violation("scope:trace", "H8 event %d of the real compiler is not a behaviour of Scope.tla (lookup returned something other "
                          "than the innermost visible binding, or scope discipline broken)" % k,
                          {"events_around": evs[max(0, k - 6):k + 2], "tlc": r.out[-1200:]})
        else:
            ctx.validated(nunits)
        ctx.cov["scope_flow_b"] = {"units": nunits, "events": len(evs)}
    # canary: a lookup result changed to another declaration must be rejected
    gi = [i for i, e in enumerate(evs) if e["e"] == "get" and e["id"] > 1]
    if gi:
        cut = evs[:gi[len(gi) // 2] + 1]
        cut[-1] = dict(cut[-1], id=cut[-1]["id"] - 1)
        cp = ctx.path("h8_canary.ndjson")
        with open(cp, "w") as f:
            f.write("\n".join(json.dumps(e) for e in cut) + "\n")
        r = ctx.tlc("Trace_Scope", "MC_Trace_Scope.cfg", workers=1, env={"TRACE": cp}, timeout=600, heap="4g")
        if r.ok:
            raise vlib.MachineryError("Trace_Scope accepted a corrupted lookup: the trace binding is vacuous")


def scope_check(ctx, objdir, hooks, exe):
    q = ctx.quick
    ctx.tlc_must_pass("Scope", "MC_Scope_quick.cfg" if q else "MC_Scope_thorough.cfg", workers=4 if q else 10, timeout=2400)
    # systematic short programs
    r = ctx.tlc_must_pass("CScope", "MC_CScope_bfs_quick.cfg" if q else "MC_CScope_bfs_thorough.cfg", workers=4, timeout=1200)
    bfs = [json.loads(v) for v in r.vcases]
    scope_programs(ctx, objdir, exe, bfs, "bfs", audit_n=40 if q else 400)
    # random programs
    r = ctx.tlc_must_pass("CScope", "MC_CScope_sim.cfg", workers=4, simulate=60 if q else 500, depth=140, timeout=1200)
    sim = [json.loads(v) for v in r.vcases]
    scope_programs(ctx, objdir, exe, sim, "sim", audit_n=60 if q else 600)
    # function definitions with several function declarators: which parameter list is the scope of the body
    r = ctx.tlc_must_pass("CScope", "MC_CScope_fx.cfg", workers=2, simulate=25 if q else 200, depth=140, timeout=1200)
    fx = [json.loads(v) for v in r.vcases]
    if not any(it.get("how") == "funcx" for c in fx for it in c["prog"]):
        raise vlib.MachineryError("MC_CScope_fx generated no multi-declarator function definition")
    scope_programs(ctx, objdir, exe, fx, "funcx", audit_n=40 if q else 300)
    # tags / enumeration constants declared inside struct member lists stay visible after the closing brace
    r = ctx.tlc_must_pass("CScope", "MC_CScope_nest.cfg", workers=2, simulate=25 if q else 200, depth=150, timeout=1200)
    ne = [json.loads(v) for v in r.vcases]
    if not any(it.get("nest") for c in ne for it in c["prog"]):
        raise vlib.MachineryError("MC_CScope_nest generated no nested member-list declaration")
    scope_programs(ctx, objdir, exe, ne, "nest", audit_n=40 if q else 300)
    # declarators spelled like visible typedef names after every kind of type specifier
    r = ctx.tlc_must_pass("CScope", "MC_CScope_td.cfg", workers=2, simulate=30 if q else 250, depth=150, timeout=1200)
    td = [json.loads(v) for v in r.vcases]
    seen = set(it["kind"] for c in td for it in c["prog"] if it["op"] == "decl" and "ts" in it)
    if not ({"obj", "typedef", "tparam"} <= seen and any(it.get("mem") for c in td for it in c["prog"])):
        raise vlib.MachineryError("MC_CScope_td did not generate every typedef-specifier declaration form: %s" % seen)
    scope_programs(ctx, objdir, exe, td, "tdspec", audit_n=50 if q else 300)
    # declarations with linkage in nested blocks behind hiding declarations
    r = ctx.tlc_must_pass("CScope", "MC_CScope_link.cfg", workers=2, simulate=30 if q else 250, depth=150, timeout=1200)
    lk = [json.loads(v) for v in r.vcases]
    if {"xobj", "xfunc"} - set(it.get("kind") for c in lk for it in c["prog"] if it["op"] == "use"):
        raise vlib.MachineryError("MC_CScope_link generated no use of a linked object / function")
    scope_programs(ctx, objdir, exe, lk, "linkage", audit_n=50 if q else 300)
    # selection / iteration statements with unbraced substatements: each substatement and the statement are blocks
    r = ctx.tlc_must_pass("CScope", "MC_CScope_stmt.cfg", workers=2, simulate=30 if q else 250, depth=170, timeout=1200)
    st = [json.loads(v) for v in r.vcases]
    forms = set(it.get("form") for c in st for it in c["prog"] if it.get("how") == "stmt" and it["op"] == "open")
    if forms != {"if", "while", "do", "switch", "forx"}:
        raise vlib.MachineryError("MC_CScope_stmt did not generate every statement form: %s" % forms)
    scope_programs(ctx, objdir, exe, st, "stmt", audit_n=50 if q else 300)
    # 200-deep nesting
    r = ctx.tlc_must_pass("CScope", "MC_CScope_deep.cfg", workers=2, simulate=1 if q else 4, depth=8000, timeout=1200)
    deep = [json.loads(v) for v in r.vcases]
    for c in deep:
        d = m = 0
        for it in c["prog"]:
            d += (it["op"] == "open") - (it["op"] == "close")
            m = max(m, d)
        if m < 200:
            raise vlib.MachineryError("deep generator reached only depth %d" % m)
    scope_programs(ctx, objdir, exe, deep, "deep200", audit_n=len(deep))
    scope_programs(ctx, objdir, exe, deep[:1], "deep200x40", copies=40, names=collide_names(exe, 160, 0x1f, 0x1f, "d"))
    # large units: a pattern program instantiated in 12 500 disjointly renamed, interleaved copies = 50 000 identifiers;
    # all names agree in the low 8 hash bits (real hash of map.c)
    r = ctx.tlc_must_pass("CScope", "MC_CScope_pat.cfg", workers=2, simulate=2 if q else 8, depth=120, timeout=600)
    pat = [json.loads(v) for v in r.vcases]
    pat.sort(key=lambda c: -sum(1 for it in c["prog"] if it["op"] in ("use", "goto")))
    for j, c in enumerate(pat[:2 if q else 6]):
        shape = ("tail", "prefix", "suffix")[j % 3]
        scope_programs(ctx, objdir, exe, [c], "big50k-%d-%s" % (j, shape), copies=12500, use_copies=range(0, 12500, 50 if q else 5),
                       names=collide_names(exe, 50000, 0xff, 0x5a, "q", shape), workers=2)
    # flow B
    import glob
    units = [("test:" + os.path.basename(f), f, None) for f in sorted(glob.glob(os.path.join(vlib.REPO, "test", "*.c")))]
    pool = collide_names(exe, 64, 0x3ff, 0x3ff, "n")
    for i, c in enumerate(sim[:40 if q else 400] + deep[:1]):
        nn = max([it["name"] for it in c["prog"] if "name" in it] + [1])
        units.append(("gen:%d" % i, None, ScopeRender(c, lambda n, k, nn=nn: pool[k * nn + n - 1]).render()))
    scope_flow_b(ctx, hooks, units)


def _spawn(fn, errs, *a, **kw):
    def w():
        try:
            fn(*a, **kw)
        except BaseException as ex:      # noqa
            errs.append(ex)
    t = threading.Thread(target=w)
    t.start()
    return t


def _raise(ctx, errs):
    """machinery errors first; a layout drift is reported only when nothing violates the property itself"""
    hard = [e for e in errs if not isinstance(e, Drift)]
    if hard:
        raise hard[0]
    if errs and not ctx.violations:
        raise errs[0]
    for e in errs:
        print("note: %s" % str(e)[:300], flush=True)
    del errs[:]


def run(ctx):
    ctx.cov["rule"] = (
        "Map: TLC enumerates every reachable table of Map.tla for every monotone hash function into the bucket set (4 keys, "
        "capacities 4->8) and every operation from it; each (state, op) is replayed into map.c under rotating key realisations "
        "(real FNV low bits = H / forged full-hash collisions / long / binary / empty keys); non-trivial = history of >= 2 ops "
        "followed by an op.  Histories: random op histories with engineered collisions (counted per event) judged by Trace_Map.tla. "
        "Pool: every ordered pair (thorough: + random 6-tuples) of literals from Pool.tla, one translation unit each; non-trivial = "
        "some model predicts sharing.  Scope: CScope.tla programs (exhaustive short, random, 200-deep, 50 000-identifier scaled "
        "copies), counted per checked use; H8 traces counted per event.")
    exe = build_cmap(ctx)
    objdir = own_build(ctx, "plain")
    hooks = own_build(ctx, "hooks")
    errs = []
    q = ctx.quick
    ths = [
        _spawn(map_flow_a, errs, ctx, exe, "MC_Map_quick.cfg", 4, 8, workers=4, per_state=2 if q else 6),
        _spawn(map_flow_b, errs, ctx, exe, map_plans(ctx)),
        _spawn(pool_check, errs, ctx, objdir),
        _spawn(scope_check, errs, ctx, objdir, hooks, exe),
    ]
    for t in ths:
        t.join()
    _raise(ctx, errs)
    # the capacity-2 hazard must be *found* by TLC (keeps Inv_FreeSlot honest: it is not a tautology)
    r = ctx.tlc("Map", "MC_Map_cap2.cfg", workers=2, timeout=300)
    if r.ok:
        raise vlib.MachineryError("MC_Map_cap2 expected to violate Inv_FreeSlot (vacuity guard)")
    if not q:
        ths = [
            _spawn(map_flow_a, errs, ctx, exe, "MC_Map_thorough.cfg", 4, 8, workers=8, per_state=2),
            _spawn(map_flow_a, errs, ctx, exe, "MC_Map_sim16.cfg", 6, 16, workers=2, per_state=2, simulate=150, depth=21),
            _spawn(lambda: ctx.tlc_must_pass("Map", "MC_Map_hist.cfg", workers=6, timeout=2400, heap="4g"), errs),
        ]
        for t in ths:
            t.join()
        _raise(ctx, errs)
        # vacuity: every action of the models taken
        for spec, cfg, kw in (("Map", "MC_Map_quick.cfg", {}), ("Scope", "MC_Scope_quick.cfg", {}),
                              ("CScope", "MC_CScope_bfs_quick.cfg", {})):
            r = ctx.tlc_must_pass(spec, cfg, workers=6, coverage=True, timeout=1200, collect="VCASE ", on_line=lambda x: None, **kw)
            # TLC prints <action>: <distinct states found>:<states generated>; with a VIEW (Map) read-only actions find
            # no new distinct state, so "taken" is judged on the generated count
            import re
            cov = dict(r.coverage)
            for m in re.finditer(r"^<(\w+) line \d+, col \d+ to line \d+, col \d+ of module (\w+) \((\d+) \d+ \d+ \d+\)>: (\d+):(\d+)", r.out, re.M):
                cov["%s@%s:%s" % (m.group(1), m.group(2), m.group(3))] = (int(m.group(4)), int(m.group(5)))   # disjuncts of a Next without own name
            r.coverage = cov
            untaken = [a for a, (found, gen) in r.coverage.items() if gen == 0 and a.split("@")[0] not in ("Turn", "OpenFuncX", "OpenStmt", "OpenSub", "CloseSub", "CloseStmt", "DeclLinked", "DeclTD", "DeclTagNest")]
            # Turn: Deep only; OpenFuncX / statement scopes: enabled only in MC_CScope_fx / _stmt (simulation), where
            # scope_check itself refuses to continue unless every shape / statement form was generated
            ctx.cov.setdefault("untaken_actions", []).extend(untaken)
            ctx.cov.setdefault("actions_taken", {}).update({a: gen for a, (found, gen) in r.coverage.items()})
            if untaken:
                raise vlib.MachineryError("vacuity guard: actions never taken: %s" % untaken)


def replay(ctx, path):
    """./check C16 --replay <file>: re-run one stored case against the current tree; prints expected and observed."""
    rec = json.load(open(path))
    key, case = rec["key"], rec["case"]
    print("replay %s :: %s" % (key, rec["what"]))
    if key.startswith("map:") and "input" in case and "realisation" in case:
        exe = build_cmap(ctx)
        real = Realisation(case["realisation"], 1000 * (REALISATIONS.index(case["realisation"]) + 1), 4, 8)
        rc, out, err = run_cmap(exe, "\n".join(real.defs() + [case["input"]]) + "\n")
        got = [g for g in out.splitlines() if not g.startswith("S ")]
        print("input   :", case["input"])
        print("expected:", case["expected"])
        print("observed:", got[-1] if got else "(none) rc=%s %s" % (rc, err[-300:]))
        return 0 if got and got[-1].strip() == case["expected"].strip() else 1
    if key.startswith("pool:") and "unit" in case:
        rc, out, err = vlib.cproc(own_build(ctx, "plain"), case["unit"])
        print(case["unit"]); print(out or err)
        print("required: literal %s must read bytes %s at its address" % (case.get("literal"), case.get("required_bytes")))
        data = ilparse.data_by_name(ilparse.parse(out)) if rc == 0 else {}
        obj = data.get(case.get("object"))
        img = ilparse.data_image(obj)[0] if obj else None
        ok = img is not None and img[:len(case.get("required_bytes", []))] == case.get("required_bytes")
        print("observed object bytes:", img)
        return 0 if ok and rc == 0 else 1
    if key.startswith("scope:") and "program" in case:
        rc, out, err = vlib.cproc(own_build(ctx, "plain"), case["program"], timeout=300)
        print(case["program"][:4000])
        print("item:", case.get("item"), "expected value:", case.get("expected_value"), "previously observed:", case.get("observed_value"))
        print("compiler rc=%s %s" % (rc, err[-400:]))
        if rc != 0:
            return 1
        it = case.get("item")
        if it is None:
            return 0
        print("IL lines mentioning the expected value:", [l for l in out.splitlines() if (" %d" % case["expected_value"]) in l][:5])
        return 0 if any((" %d" % case["expected_value"]) in l for l in out.splitlines()) else 1
    print(json.dumps(case, indent=1)[:4000])
    return 2
