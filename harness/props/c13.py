"""C13 — source text is split into tokens by C11 6.4 maximal munch; keywords.

Oracle: spec/Scan.tla over spec/Tok.tla.  TLC enumerates texts (exhaustively over the punctuator and the
literal alphabet, every keyword spelling and its one-character perturbations, splices / comments inserted at
every position, random long chunk sequences), computes the declarative Lex(t) and the result of the
implementation-shaped scanner (scan.c transcription + bisection over pp.c's table as extracted at run time),
and prints both.  Flow A: each text is fed to the hooks build (`-E`, H1 token dump) and every token (kind,
spelling, space flag) is compared with Lex(t); texts whose Lex is "error" must be rejected (exit 1, diagnostic).
Second, hook-free observation: `enum { <word> };` is accepted by the plain build iff Lex says <word> is an identifier.
clang's lexer audits Lex (disagreement = spec defect = exit 2, never a VIOLATION).
"""
import json, os, re
import vlib, lexlib

PID = "C13"


def text_of(c):
    return bytes(c["t"])


def expected_of(c):
    return c["_e"]


ACTIONS = ["ScanSpaceFirst", "ScanNewline", "ScanEOF", "ScanSingle", "ScanOp2", "ScanOp3", "ScanMinus", "ScanSlash", "ScanOp4", "ScanHash",
           "ScanColon", "ScanDot", "ScanString", "ScanChar", "ScanPrefix", "ScanNumber", "ScanIdent", "ScanOther"]
taken = {}


def load_cases(r):
    cases = []
    for v in r.vcases:
        c = json.loads(v)
        for a in c.pop("x", ()):
            taken[a] = taken.get(a, 0) + 1
        c["_e"] = [(k, s, sp) for k, s, sp in lexlib.triples(c["e"])]
        cases.append(c)
    return cases


def nontrivial(c):
    body = [t for t in c["_e"][1:] if t[0] != "TNEWLINE"]
    return c["r"] == "error" or len(body) >= 2 or any(len(t[1]) >= 2 for t in body)


def classify(ctx, c, rc, obs, err, family):
    """Compare one replayed case with the declarative result. Returns True when it agreed."""
    exp = c["_e"]
    txt = text_of(c).decode("latin-1")
    fired = sorted(c["f"])
    if c["r"] == "ok":
        if rc == 0 and obs == exp:
            return True
        # attribute to named deviations only when the binary does exactly what the model with those deviations does
        model = c["m"]
        model_toks = [(k, s, sp) for k, s, sp in lexlib.triples(model[1:])] if model else None
        case = {"text": txt, "expected": exp, "observed": obs, "rc": rc, "stderr": err[-300:], "model": model, "fired": fired}
        if fired and model and ((model[0] == "ok" and rc == 0 and obs == model_toks) or (model[0] == "error" and rc == 1)):
            for d in fired:          # one finding per named deviation that took part
                ctx.violation("lex:dev:" + d, "token stream of cproc-qbe -E differs from Lex(t) exactly as the scanner model with deviation %s predicts" % d, case)
        else:
            ctx.violation("lex:%s:%s" % (family, "rejected" if rc != 0 else "tokens"), "token stream of cproc-qbe -E differs from Lex(t)", case)
        return False
    # r == "error": must exit 1 with a located diagnostic, and not crash
    if rc == 1 and lexlib.DIAG.search(err):
        return True
    ctx.violation("lex:%s:error-not-diagnosed" % family, "text with no valid tokenisation (stray quote / bad escape / open comment) was not rejected with a diagnostic",
                  {"text": txt, "rc": rc, "observed": obs, "stderr": err[-300:]})
    return False


def replay_cases(ctx, objdir, cases, family):
    ok_cases = [c for c in cases if c["r"] == "ok"]
    err_cases = [c for c in cases if c["r"] == "error"]
    undef = len(cases) - len(ok_cases) - len(err_cases)
    # texts on which the model predicts a deviation would break batch alignment: run them on their own
    solo = [c for c in ok_cases if not c["a"] or c["f"]]
    batched = [c for c in ok_cases if c["a"] and not c["f"]]
    results, runs = lexlib.replay_batched(objdir, batched, text_of, expected_of)
    res2, runs2 = lexlib.replay_batched(objdir, solo + err_cases, text_of, expected_of, batch=1)
    agree = 0
    model_wrong = []
    for c, rc, obs, err in results + res2:
        good = classify(ctx, c, rc, obs, err, family)
        agree += good
        ctx.count(text_of(c).decode("latin-1"), nontrivial=nontrivial(c))
        if good and not c["a"] and not c["f"]:
            model_wrong.append(text_of(c).decode("latin-1"))
    ctx.validated(len(results) + len(res2))
    st = ctx.cov.setdefault("families", {}).setdefault(family, {"texts": 0, "ok": 0, "error": 0, "outside_model": 0, "compiler_runs": 0, "agree": 0})
    st["texts"] += len(cases); st["ok"] += len(ok_cases); st["error"] += len(err_cases); st["outside_model"] += undef
    st["compiler_runs"] += runs + runs2; st["agree"] += agree
    if model_wrong:
        # binary = Lex but the transcription disagrees without a named deviation: the model is wrong, not the code
        raise vlib.MachineryError("Scan.tla scanner model disagrees with Lex and with the binary on %d texts, e.g. %r" % (len(model_wrong), model_wrong[:3]))
    return ok_cases


C23_NOT_IN_CLANG14 = {"true", "false", "bool", "alignas", "alignof", "constexpr", "nullptr", "static_assert", "thread_local", "typeof",
                      "typeof_unqual", "_Decimal32", "_Decimal64", "_Decimal128", "__typeof", "__typeof__"}


def audit_clang(ctx, cases, family, limit):
    """Spec audit: clang's lexer on the same texts (ok cases; u8'..' excluded: C23 feature clang 14 lacks)."""
    def digit_sep(c):      # C23 digit separators: clang -std=c2x lexes 08'a as one pp-number
        e = c["_e"]
        return any(e[i][0] == "TNUMBER" and e[i + 1][0] == "TCHARCONST" and not e[i + 1][2] for i in range(len(e) - 1))

    bs_space = re.compile(rb"\\[ \t]+\n")     # clang/gcc extension: backslash, white space, new-line is taken as a splice (C11: it is not)
    sel = [c for c in cases if c["r"] == "ok" and b"u8'" not in text_of(c).replace(b"\\\n", b"") and not digit_sep(c) and not bs_space.search(text_of(c))]
    if len(sel) > limit:
        sel = ctx.rng.sample(sel, limit)

    def toks_expected(c):
        return [t for t in c["_e"] if t[0] != "TNEWLINE"]

    def run(batch, tag):
        p = ctx.path("audit_%s_%s.c" % (family, tag))
        with open(p, "wb") as f:
            for c in batch:
                f.write(text_of(c))
        return [t for t in lexlib.clang_tokens(p) if t[0] != "eof"]

    base = ("TIDENT", "TNUMBER", "TCHARCONST", "TSTRINGLIT", "TOTHER", "TNEWLINE")
    punct = set(lexlib.CLANG_KIND.values()) - set(base)

    def same(e, t):
        ck = lexlib.CLANG_KIND.get(t[0])
        spec_kw = e[0] not in base and e[0] not in punct
        if ck is None:                       # a keyword for clang
            # plain C11 keyword (clang names the kind by the spelling): the spec must agree; GNU alternates: clang knows more than cproc claims
            return spec_kw or t[0] != t[1]
        if spec_kw:                          # keyword for the spec, identifier for clang 14: only the C23 keywords clang 14 lacks
            return ck == "TIDENT" and t[1] in C23_NOT_IN_CLANG14
        if ck != e[0]:
            return False
        if e[0] in ("TIDENT", "TNUMBER", "TCHARCONST", "TSTRINGLIT", "TOTHER") and e[1] != t[1]:
            return False
        return t[3] or bool(e[2]) == t[2]          # space flag, except for the first token of a physical line

    bad = []
    B = 2000
    for bi in range(0, len(sel), B):
        batch = sel[bi:bi + B]
        got = run(batch, str(bi))
        i, fine = 0, True
        for c in batch:
            e = toks_expected(c)
            seg = got[i:i + len(e)]
            i += len(e)
            if len(seg) != len(e) or not all(same(a, b) for a, b in zip(e, seg)):
                fine = False
                break
        if fine and i == len(got):
            continue
        for j, c in enumerate(batch):            # locate
            got1 = run([c], "%d_%d" % (bi, j))
            e = toks_expected(c)
            if len(got1) != len(e) or not all(same(a, b) for a, b in zip(e, got1)):
                bad.append({"text": text_of(c).decode("latin-1"), "spec": e, "clang": got1})
                if len(bad) >= 5:
                    break
        if bad:
            break
    ctx.cov.setdefault("audit", {})[family] = {"texts_audited_with_clang": len(sel), "disagreements": len(bad)}
    if bad:
        raise vlib.MachineryError("SPEC-AUDIT: Lex disagrees with clang's lexer: %s" % json.dumps(bad[:3])[:1500])


def enum_observation(ctx, plain, cases):
    """Without the hook: `enum { w };` compiles iff w is an identifier (spec: single token of kind TIDENT)."""
    sel = []
    for c in cases:
        body = [t for t in c["_e"][1:] if t[0] != "TNEWLINE"]
        if c["r"] == "ok" and len(body) == 1 and body[0][0] not in ("TNUMBER",):
            sel.append((c, body[0]))
    if ctx.quick and len(sel) > 2500:
        kws = [x for x in sel if x[1][0] != "TIDENT" or x[0]["f"]]
        sel = kws + ctx.rng.sample([x for x in sel if x[1][0] == "TIDENT" and not x[0]["f"]], 2500 - len(kws))

    def one(x):
        c, tok = x
        word = text_of(c)[2:-1]
        rc, out, err = vlib.cproc(plain, b"enum { " + word + b" };\n")
        return c, tok, word, rc, err

    n = 0
    for c, tok, word, rc, err in vlib.pmap(one, sel):
        n += 1
        want_ok = tok[0] == "TIDENT"
        ctx.count("enum:" + word.decode("latin-1"), nontrivial=True)
        if (rc == 0) != want_ok and c["f"]:
            for d in sorted(c["f"]):      # e.g. a universal character name in the word: same named deviation as in the token dump
                ctx.violation("lex:dev:" + d, "`enum { %s };` %s although Lex classifies the word as %s" % (word.decode(), "accepted" if rc == 0 else "rejected", tok[0]),
                              {"word": word.decode(), "rc": rc, "stderr": err[-200:], "expected_kind": tok[0], "fired": sorted(c["f"])})
        elif (rc == 0) != want_ok:
            ctx.violation("kw:enum:%s" % ("keyword-accepted-as-identifier" if not want_ok else "identifier-rejected"),
                          "`enum { %s };` %s but Lex classifies the word as %s" % (word.decode(), "accepted" if rc == 0 else "rejected", tok[0]),
                          {"word": word.decode(), "rc": rc, "stderr": err[-200:], "expected_kind": tok[0]})
    ctx.validated(n)
    ctx.cov.setdefault("families", {})["enum_identifier_position(no hook)"] = {"words": n}


def run(ctx):
    quick = ctx.quick
    ctx.cov["rule"] = ("TLC (Scan.tla) enumerates texts '; <body>\\n': every body of <= N characters over the 25-character punctuator alphabet "
                       "and over the 19-character literal alphabet {0 1 8 9 e E p x . + - _ a u U L ' \" \\} (N = 3 quick, 4 thorough), every body of <= 4 (5) characters "
                       "over the number alphabet {1 e p + - . x _} and over the prefix alphabet {u U L 8 ' \" a}, each body of <= N-1 "
                       "characters additionally with a splice, a double splice, an empty block comment, a block comment holding quotes and a new-line at every "
                       "position and two line-comment tails; every keyword spelling of the spec list and of pp.c's table with all one-character substitutions / "
                       "insertions / deletions over a perturbation alphabet; random sequences of 8..14 lexeme chunks (simulation). Each text is replayed into "
                       "cproc-qbe -E (token dump) and compared token by token with Lex(t). non-trivial = body of >= 2 tokens, or a token of >= 2 characters, or a lexical error")
    hooks = lexlib.private_build(ctx, "hooks")
    plain = lexlib.private_build(ctx, "plain")
    kwfile, tab = lexlib.kw_table_file(ctx)
    devs = lexlib.known_devs(PID)
    env = {"KWTABLE": kwfile}
    tier = "quick" if quick else "thorough"
    W = 12
    try:
        n_sim = 1000 if quick else 4000
        jobs = {"refine": ("MC_Scan_refine_%s.cfg" % tier, {}, {}),
                "punct": ("MC_Scan_punct_%s.cfg" % tier, {"Devs": lexlib.tla_set(devs)}, {"heap": "4g"}),
                "lit": ("MC_Scan_lit_%s.cfg" % tier, {"Devs": lexlib.tla_set(devs)}, {"heap": "4g"}),
                "num": ("MC_Scan_num_%s.cfg" % tier, {"Devs": lexlib.tla_set(devs)}, {}),
                "pre": ("MC_Scan_pre_%s.cfg" % tier, {"Devs": lexlib.tla_set(devs)}, {}),
                "kw": ("MC_Scan_kw_%s.cfg" % tier, {"Devs": lexlib.tla_set(devs)}, {}),
                "mix": ("MC_Scan_mix.cfg", {"Devs": lexlib.tla_set(devs)}, {"simulate": n_sim, "depth": 60})}

        def tlc_job(name):
            base, subst, kw = jobs[name]
            cfg = lexlib.write_cfg(ctx, base, base, subst) if subst else base
            return name, ctx.tlc("Scan", cfg, workers=4 if quick else 6, env=env, timeout=2400, **kw)

        runs = dict(vlib.pmap(tlc_job, list(jobs), workers=len(jobs)))
        for name, r in runs.items():
            if r.rc != 0:
                raise vlib.MachineryError("model %s rejected (rc=%d):\n%s" % (jobs[name][0], r.rc, r.out[-4000:]))
        # design-level model checking: with every deviation switched off the scanner model refines Lex
        ctx.cov["refinement"] = {"cfg": jobs["refine"][0], "distinct_states": runs["refine"].distinct, "holds": True}

        kwcases = []
        for family in ("punct", "lit", "num", "pre", "kw", "mix"):
            cases = load_cases(runs[family])
            if family == "mix":
                seen, uniq = set(), []
                for c in cases:
                    k = bytes(c["t"])
                    if k not in seen:
                        seen.add(k)
                        uniq.append(c)
                cases = uniq
            if not cases:
                raise vlib.MachineryError("no VCASE from %s" % jobs[family][0])
            okc = replay_cases(ctx, hooks, cases, family)
            audit_clang(ctx, okc, family, 6000 if quick else 60000)
            for c in cases[:: max(1, len(cases) // 2)][:2]:
                ctx.sample({"text": text_of(c).decode("latin-1"), "Lex": c["r"], "tokens(kind,spelling,space)": c["_e"]})
            if family == "kw":
                kwcases = cases
        enum_observation(ctx, plain, kwcases)
        ctx.cov["actions_taken(texts)"] = dict(taken)
        untaken = [a for a in ACTIONS if not taken.get(a)]
        if untaken:      # vacuity guard (TLC -coverage runs out of memory on this spec; the spec records its own action history)
            raise vlib.MachineryError("scanner actions never taken: %s" % untaken)
        ctx.cov["keyword_table_entries_in_pp.c"] = len(tab)
        ctx.cov["deviations_on"] = sorted(devs)
        ctx.cov["exhaustive"] = True
    finally:
        lexlib.cleanup_cfgs(ctx)


def replay(ctx, path):
    """Re-run one stored case: prints Lex's expectation and what the current binary delivers."""
    d = json.load(open(path))
    c = d["case"]
    if "word" in c:
        rc, out, err = vlib.cproc(lexlib.private_build(ctx, "plain"), ("enum { %s };\n" % c["word"]).encode())
        print("word %r expected kind %s -> rc=%d %s" % (c["word"], c["expected_kind"], rc, err.strip()))
        return 0 if (rc == 0) == (c["expected_kind"] == "TIDENT") else 1
    rc, toks, err = lexlib.dump_tokens(lexlib.private_build(ctx, "hooks"), c["text"].encode("latin-1"))
    obs = [[k, s, sp] for k, s, sp, _, _, _ in toks]
    exp = [list(t) for t in c.get("expected", [])]
    print("text     %r\nexpected %s\nobserved rc=%d %s %s" % (c["text"], exp if exp else "rejection with a diagnostic", rc, obs, err.strip()))
    same = (rc == 0 and obs == exp) if exp else (rc == 1 and bool(lexlib.DIAG.search(err)))
    return 0 if same else 1
