"""C01 — compiled programs behave as the C abstract machine prescribes.

(a) OpCases.tla: bounded-exhaustive single operations (operator x type pair x boundary values), expected value from
    CSem's expression semantics inside TLC; rendered as run-time operations, compiled by the real cproc, IL executed
    natively through il2c (ASan watching the IL's allocations).
(b) random structured MiniC programs (progen): expected observation sequence from the CSem machine run by TLC.
(c) flow C at sample size: Refine.tla runs CSem and QbeMachine (IL semantics on the real compiler's output) inside TLC and
    evaluates ObsAgree; the same programs are also run through il2c, binding the accelerated executor to QbeMachine.tla.
Audit: the rendered C is built by gcc and clang with -fsanitize=undefined and must print CSem's output (else MachineryError).
"""
import json, os, subprocess, itertools
import vlib, ilparse, ilprep, il2c, minic
from minic import *

RUNTIME = r"""
#include <stdio.h>
void obs(long long v) { printf("%lld\n", v); }
"""


def charsigned_of(target):
    return target == "x86_64-sysv"


def two_dummy_progs(ctx):
    p = ctx.path("opc.ndjson")
    if not os.path.exists(p):
        with open(p, "w") as f:
            f.write('{"charsigned":true,"structs":[],"globals":[],"funcs":[]}\n{"charsigned":false,"structs":[],"globals":[],"funcs":[]}\n')
    return p


def case_program(cases, charsigned):
    """Pack single-operation cases into one MiniC program: operands are file-scope non-constant objects."""
    g, body = [], []
    def operand(tn, word=None, frec=None):
        if tn in ("float", "double"):
            return flit(tn, frec["neg"], frec["mag"])
        return {"k": "lit", "t": T(tn), "v": word}
    for i, c in enumerate(cases):
        a, b = "a%d" % i, "b%d" % i
        if c["k"] == "f2i":
            g.append(s_decl(a, TY(c["lt"]), i_e(operand(c["lt"], frec=c["fa"]))))
            body.append(s_obs(cast(T(c["rt"]), var(a))))
            continue
        if c["k"] == "fbin":
            isf = lambda x: isinstance(x, dict)
            g.append(s_decl(a, TY(c["lt"]), i_e(operand(c["lt"], c["xa"] if not isf(c["xa"]) else None, c["xa"] if isf(c["xa"]) else None))))
            g.append(s_decl(b, TY(c["rt"]), i_e(operand(c["rt"], c["xb"] if not isf(c["xb"]) else None, c["xb"] if isf(c["xb"]) else None))))
            e = bin_(c["op"], var(a), var(b))
            body.append(s_obs(e if c["t"] == "int" else cast(T("llong"), e)))
            continue
        if c["k"] == "chain":
            names = ["%s%d_%d" % (a, i, j) for j in range(len(c["vals"]))]
            for nm, tn, w in zip(names, c["tys"], c["vals"]):
                g.append(s_decl(nm, T(tn), i_e({"k": "lit", "t": T(tn), "v": w})))
            body.append(s_obs(minic.chain(c["ops"], [var(nm) for nm in names])))
            continue
        g.append(s_decl(a, T(c["lt"]), i_e({"k": "lit", "t": T(c["lt"]), "v": c["a"]})))
        if c["k"] == "bincast":
            g.append(s_decl(b, T(c["lt"]), i_e({"k": "lit", "t": T(c["lt"]), "v": c["b"]})))
            body.append(s_obs(bin_(c["op"], cast(T(c["mt"]), var(a)), cast(T(c["mt"]), var(b)))))
            continue
        if c["k"] == "cast2":
            e = cast(TY(c["rt"]), cast(T(c["mt"]), var(a)))
            body.append(s_obs(e if c["rt"] not in ("float", "double") else cast(T("llong"), e)))
            continue
        if c["k"] == "i2f":
            body.append(s_obs(cast(T(c["lt"]), cast(F(c["rt"]), var(a)))))
            body.append(s_obs(bin_("<", cast(F(c["rt"]), var(a)), flit(c["rt"], False, 0))))
            continue
        if c["k"] in ("bin", "casg"):
            g.append(s_decl(b, T(c["rt"]), i_e({"k": "lit", "t": T(c["rt"]), "v": c["b"]})))
        if c["k"] == "bin":
            body.append(s_obs(bin_(c["op"], var(a), var(b))))
        elif c["k"] == "casg":
            body.append(s_asg(c["op"] + "=", var(a), var(b)))
            body.append(s_obs(var(a)))
        elif c["k"] == "un":
            body.append(s_obs(un(c["op"], var(a))))
        else:
            body.append(s_obs(cast(T(c["rt"]), var(a))))
    body.append(s_ret(lit("int", 0)))
    return program([], g, [func("main", T("int"), [], s_block(body))], charsigned)


def compile_and_run(ctx, objdir, src, target, name, runtime):
    """-> (kind, detail, lines) kind in ok|reject|crash|il|run"""
    rc, out, err = vlib.cproc(objdir, src, target, timeout=60)
    if rc != 0:
        return ("reject" if rc == 1 else "crash", "rc=%s %s" % (rc, err[:400]), None, out)
    try:
        exe = il2c.build_native(out, ctx.scratch, name=name, runtime_c=runtime)
    except ilparse.ILSyntaxError as ex:
        return ("il", "IL does not parse: %s" % ex, None, out)
    except il2c.Unsupported as ex:
        return ("il", "IL not executable: %s" % ex, None, out)
    except RuntimeError as ex:
        return ("il", str(ex)[:600], None, out)
    rc, so, se = il2c.run_native(exe, timeout=20)
    try:
        os.unlink(exe)
        os.unlink(os.path.join(ctx.scratch, name + ".il.c"))
    except OSError:
        pass
    if rc == il2c.ASAN_RC or rc < 0:
        return ("run", "native run of IL: rc=%s %s" % (rc, se[:600]), so.split(), out)
    return ("ok", rc, so.split(), out)


def audit_native(ctx, src, name, runtime, charsigned):
    """gcc + clang -fsanitize=undefined on the rendered C -> list of output lines per compiler (None if UB reported)."""
    res = []
    cpath = os.path.join(ctx.scratch, name + ".c")
    open(cpath, "w").write(src)
    for cc in ("gcc", "clang"):
        exe = os.path.join(ctx.scratch, name + "." + cc)
        cmd = [cc, "-w", "-O1", "-fsanitize=undefined", "-fno-sanitize-recover=all", "-fsigned-char" if charsigned else "-funsigned-char", "-o", exe, cpath, runtime]
        p = subprocess.run(cmd, stdout=subprocess.PIPE, stderr=subprocess.STDOUT, text=True)
        if p.returncode != 0:
            raise vlib.MachineryError("audit compiler %s rejects rendered MiniC:\n%s\n%s" % (cc, p.stdout[-1500:], src[:1500]))
        rc, so, se = vlib.run([exe], timeout=20)
        os.unlink(exe)
        res.append((cc, rc, so.decode().split(), se.decode()[:300]))
    os.unlink(cpath)
    return res


def opcases(ctx, objdir, runtime):
    progs = two_dummy_progs(ctx)
    if ctx.quick:
        r = ctx.tlc("OpCases", "MC_OpCases_quick.cfg", workers=16, env={"C_PROGS": progs, "OPCASES_PART": ctx.seed % 16}, timeout=900)
    else:
        r = ctx.tlc("OpCases", "MC_OpCases_thorough.cfg", workers=16, env={"C_PROGS": progs, "OPCASES_PART": 0}, timeout=7200, heap="6g")
    if not r.ok:
        raise vlib.MachineryError("OpCases.tla failed:\n" + r.out[-3000:])
    seen, cases = set(), []
    for v in r.vcases:
        if v in seen:
            continue
        seen.add(v)
        cases.append(json.loads(v))
    ctx.cov["opcases_emitted"] = len(cases)
    # group by char signedness -> target; signed-char cases also run on a second target in thorough
    jobs = []
    per = 60
    for cs in (True, False):
        sel = [c for c in cases if c["cs"] == cs]
        targets = ["x86_64-sysv"] if cs else ["aarch64", "riscv64"]
        if cs and not ctx.quick:
            pass
        for i in range(0, len(sel), per):
            chunk = sel[i:i + per]
            for t in (targets if not ctx.quick else targets[:1]):
                jobs.append((chunk, cs, t))

    def one(job):
        chunk, cs, t = job
        p = case_program(chunk, cs)
        src = render(p)
        name = "op" + vlib.sha(src + "|" + t)[:12]
        kind, detail, lines, il = compile_and_run(ctx, objdir, src, t, name, runtime)
        return (job, src, kind, detail, lines)

    results = vlib.pmap(one, jobs)
    audited = 0
    for (chunk, cs, t), src, kind, detail, lines in results:
        if kind != "ok":
            ctx.violation("opcase:%s" % kind, "single-operation program: %s" % detail, {"target": t, "source": src})
            continue
        exp = []
        for c in chunk:
            exp.append(str(from_w8(c["v"])))
            if c["k"] == "i2f":
                exp.append("1" if c["neg"] else "0")
        if lines != exp:
            # audit the spec on this program before blaming cproc
            au = audit_native(ctx, src, "au" + vlib.sha(src)[:10], runtime, cs)
            for cc, rc, alines, se in au:
                if alines != exp:
                    raise vlib.MachineryError("SPEC-AUDIT: %s disagrees with CSem on a single-operation program (rc=%s %s)\nexpected %s\n%s got %s\n%s" % (
                        cc, rc, se, exp[:80], cc, alines[:80], src[:3000]))
            pos = 0
            for c in chunk:
                i = pos
                pos += 2 if c["k"] == "i2f" else 1
                got = lines[i:pos] if lines is not None and pos <= len(lines) else None
                if got != exp[i:pos]:
                    got = got[0] if got and len(got) == 1 else got
                    key = "opcase:%s:%s:%s:%s" % (c["k"], c.get("op", "cast"), c["lt"], c.get("rt", ""))
                    if c["k"] == "chain":
                        key = "opcase:chain:%s" % " ".join(c["ops"])
                        ctx.violation(key, "e1 %s on %s with operands %s of types %s (written without parentheses; grammar tree %s): IL computes %s, C semantics give %s" % (
                            " ".join("%s e%d" % (o, n + 2) for n, o in enumerate(c["ops"])), t, [from_w8(w) for w in c["vals"]], c["tys"], c["tree"], got, exp[i:pos]),
                            {"case": c, "target": t, "source": src})
                        continue
                    ctx.violation(key, "%s %s (%s %s, %s %s) on %s: IL computes %s, C semantics give %s" % (
                        c["k"], c.get("op", ""), c["lt"], c.get("a") and from_w8(c["a"]), c.get("rt", ""), from_w8(c.get("b", [0] * 8)), t, got, exp[i:pos]),
                        {"case": c, "target": t, "source": src})
        elif audited < (3 if ctx.quick else 40):
            audited += 1
            for cc, rc, alines, se in audit_native(ctx, src, "au" + vlib.sha(src)[:10], runtime, cs):
                if alines != exp:
                    raise vlib.MachineryError("SPEC-AUDIT: %s disagrees with CSem (rc=%s %s) on\n%s\nexpected %s got %s" % (cc, rc, se, src[:3000], exp[:80], alines[:80]))
        for c in chunk:
            ctx.count("%s|%s|%s|%s|%s|%s|%s|%s" % (c["k"], c.get("op"), c["lt"], c.get("rt"), c.get("mt"), c.get("a") or c.get("fa") or c.get("xa") or c.get("ops"), c.get("b") or c.get("xb") or c.get("vals"), t),
                      nontrivial=(c.get("a") != [0] * 8))
        ctx.validated(1)
    ctx.cov["opcase_programs"] = len(jobs)
    if cases:
        c = cases[len(cases) // 3]
        ctx.sample({"single-op case": {k: (from_w8(v) if isinstance(v, list) and len(v) == 8 else v) for k, v in c.items()}})
    return results


def run(ctx):
    objdir = vlib.build("plain")
    runtime = ctx.path("rt.c")
    open(runtime, "w").write(RUNTIME)
    ctx.cov["rule"] = ("(a) OpCases.tla: every (kind in bin/compound-assign/unary/cast) x operator x integer type pair x boundary value pair with "
                       "defined behaviour; distinct = distinct (kind,op,types,values,target); non-trivial = left operand non-zero. "
                       "(b)/(c) random MiniC programs: distinct programs with at least 3 observations")
    import time
    t0 = time.time()
    opcases(ctx, objdir, runtime)
    ctx.cov["seconds_opcases"] = round(time.time() - t0, 1)
    try:
        import c01_progs
    except ImportError:
        c01_progs = None
    if c01_progs:
        t0 = time.time()
        c01_progs.random_programs(ctx, objdir, runtime)
        ctx.cov["seconds_random_programs"] = round(time.time() - t0, 1)
    ctx.assumptions += ["il2c.py + gcc execute the IL (bound to QbeMachine.tla on the sampled programs each run)",
                        "non-integral floating values, long double, volatile, _Atomic, unions are outside MiniC (see DESIGN.md §6, §11.2)",
                        "programs with undefined behaviour (as decided by CSem) are discarded"]


def replay(ctx, path):
    """Re-judge one recorded violation (random-program and Refine keys carry the MiniC AST) on the current tree."""
    import c01_progs
    case = json.load(open(path)).get("case", {})
    if "prog" not in case:
        print("replay: this violation kind carries no program AST (operation cases are re-run by the quick tier)")
        return 2
    objdir = vlib.build("plain")
    runtime = ctx.path("rt.c")
    open(runtime, "w").write(RUNTIME)
    c01_progs.random_programs(ctx, objdir, runtime, only=[(case["prog"], case.get("target", "x86_64-sysv"))])
    print("verdict:  " + ("still fails" if ctx.violations else "agrees with the C abstract machine (CSem) on the current tree"))
    return 1 if ctx.violations else 0
