"""C11 — diagnostics name the file and line of the offending construct.

Oracle: spec/Loc.tla.  TLC enumerates "layout programs" (prologue + items: declarations split by splices, block
comments over 2-3 lines, // comments continued by a splice, blank lines, `#line n`, `#line n "f"`, `# n "f" flags`,
#pragma, null directive, macro invocations spread over lines, `..` + splice) and computes, per token, the declarative
presumed location (on the item structure, C11 5.1.1.2 + 6.10.4) and the location the transcription of
nextchar/scankind/directive/scansetloc yields on the characters.  Flow A, two observations:
 (1) programs without violation: `cproc-qbe -E` with the H1 token dump; file and line of EVERY delivered token are compared;
 (2) programs ending in one violation item: plain `cproc-qbe`; the `file:line:col: error:` prefix of stderr is compared
     with the declarative location of the token the construct's diagnostic names.
gcc -E (__LINE__/__FILE__ substituted for tokens) audits the declarative side.
"""
import json, os, re, subprocess
import vlib, lexlib

PID = "C11"
ACTIONS = ["DirDefine", "Newline", "Token", "DirLine", "MacroID", "DirMarker", "DirInvalid", "DirDefineErr", "DirLineErr", "DirPragma",
           "DirNull", "MacroDROP"]
taken = {}


def load_cases(r):
    cases = []
    for v in r.vcases:
        c = json.loads(v)
        for a in c.pop("x", ()):
            taken[a] = taken.get(a, 0) + 1
        c["text"] = bytes(c["t"])
        cases.append(c)
    return cases


def loc4(rec):
    """(kind, spelling, file, line) from a spec record <<kind, spelling, file, b, d, col>>."""
    return (rec[0], rec[1], rec[2], rec[3] + rec[4])


def report(ctx, c, fired, matches_model, key_other, what, case):
    if fired and matches_model:
        for d in fired:
            ctx.violation("loc:dev:" + d, what + " — exactly as the model of the code with deviation %s predicts" % d, case)
    else:
        ctx.violation(key_other, what, case)


def check_dump(ctx, hooks, c, stats):
    rc, toks, err = lexlib.dump_tokens(hooks, c["text"])
    obs = [(k, s, f, ln) for k, s, sp, ln, col, f in toks if k != "TNEWLINE"]
    cols = [col for k, s, sp, ln, col, f in toks if k != "TNEWLINE"]
    exp = [loc4(r) for r in c["e"]]
    fired = sorted(c["f"])
    ctx.count(c["text"].decode("latin-1") + "|E", nontrivial=len(c["p"]) >= 1)
    stats["tokens"] += len(exp)
    if rc == 0 and obs == exp:
        if cols == [r[5] for r in c["e"]]:
            stats["col_agree"] += 1
        else:
            stats["col_differ"] += 1
        if c["m"] and not fired:
            stats["model_wrong"].append(c["text"].decode("latin-1"))
        return True
    model = [loc4(r) for r in c["m"]] if c["m"] else exp
    case = {"items": c["p"], "text": c["text"].decode("latin-1"), "rc": rc, "stderr": err[-300:], "expected_tokens": [list(e) for e in exp],
            "first_difference": next(({"expected": e, "observed": o} for e, o in zip(exp, obs) if e != o), {"expected_tokens": len(exp), "observed_tokens": len(obs)}),
            "fired": fired}
    report(ctx, c, fired, rc == 0 and obs == model, "loc:token" if rc == 0 else "loc:rejected",
           "location (file, line) of a token in the -E token dump differs from the presumed location", case)
    return False


def check_diag(ctx, plain, c, stats):
    rc, out, err = vlib.cproc(plain, c["text"])
    first = err.split("\n", 1)[0]
    m = lexlib.DIAG.match(first)
    exp = (c["ee"][2], c["ee"][3] + c["ee"][4])
    fired = sorted(c["f"])
    ctx.count(c["text"].decode("latin-1") + "|" + c["v"], nontrivial=True)
    case = {"items": c["p"], "violation": c["v"], "text": c["text"].decode("latin-1"), "rc": rc, "stderr_first_line": first,
            "expected": "%s:%d" % exp, "named_token": c["ee"][:2], "fired": fired}
    if rc != 1 or not m:
        ctx.violation("loc:diag:no-diagnostic:" + c["v"], "violation item did not produce `file:line:col: error:` with exit status 1", case)
        return False
    obs = (m.group(1), int(m.group(2)))
    if obs == exp:
        stats["col_agree" if int(m.group(3)) == c["ee"][5] else "col_differ"] += 1
        if c["me"] and (c["me"][2], c["me"][3] + c["me"][4]) != exp and not fired:
            stats["model_wrong"].append(c["text"].decode("latin-1"))
        return True
    me = (c["me"][2], c["me"][3] + c["me"][4]) if c["me"] else None
    report(ctx, c, fired, obs == me, "loc:diag:" + c["v"], "diagnostic names %s:%d, the offending token is at %s:%d" % (obs + exp), case)
    return False


def audit_gcc(ctx, cases, limit):
    """Spec audit: v -> __LINE__, int -> __FILE__, then `gcc -E -P -`: the printed numbers / names must be the declarative ones."""
    sel = [c for c in cases if c["v"] == "" and all(r[3] + r[4] <= 2147483647 for r in c["e"])]
    if len(sel) > limit:
        sel = ctx.rng.sample(sel, limit)

    def one(c):
        txt = c["text"].replace(b"v", b"__LINE__").replace(b"int", b"__FILE__").replace(b"in\\\nt", b"__FI\\\nLE__")
        p = subprocess.run(["gcc", "-std=c11", "-E", "-P", "-w", "-"], input=txt, stdout=subprocess.PIPE, stderr=subprocess.PIPE, timeout=60)
        if p.returncode != 0:
            return c, None, p.stderr.decode("latin-1")[-200:]
        got = p.stdout.decode("latin-1").replace(";", " ; ").split()
        want = []
        for r in c["e"]:
            if r[0] == "TINT":
                want.append('"%s"' % r[2])
            elif r[0] == "TIDENT" and r[1] == "v":
                want.append(str(r[3] + r[4]))
            else:
                want.append(r[1])
        return c, got == want, {"gcc": got, "spec": want}

    res = vlib.pmap(one, sel)
    skipped = [r for r in res if r[1] is None]
    bad = [r for r in res if r[1] is False]
    ctx.cov["audit"] = {"programs_audited_with_gcc": len(sel) - len(skipped), "gcc_refused": len(skipped),
                        "gcc_refused_example": skipped[0][2] if skipped else "", "disagreements": len(bad)}
    if bad:
        raise vlib.MachineryError("SPEC-AUDIT: Loc.tla's declarative lines disagree with gcc -E: %s"
                                  % json.dumps([{"text": c["text"].decode("latin-1"), "d": d} for c, _, d in bad[:2]])[:1500])


def run(ctx):
    quick = ctx.quick
    ctx.cov["rule"] = ("TLC (Loc.tla) enumerates every layout program of <= N items (N = 2 quick, 3 thorough) over 28 item kinds (declaration; splice between / "
                       "inside tokens, double splice, splice first on a line; block comment over 2 / 3 lines; // comment, // comment continued by a splice; "
                       "generated block comments = every text over {*, /, a, new-line, backslash} of <= 5 (quick) / 6 (thorough) characters after the opener that ends at its first "
                       "star-slash once splices are removed, leading a line or between two tokens, alone / next to a declaration line (thorough: also #line 7, splice-first line), without and with an undeclared identifier on the next line; "
                       "1 / 2 blank lines; #pragma; null directive; ID( over 3 lines, ID newline (; DROP(..\\newline); #line 1 / 7 / 2147483647 / 010; "
                       "#line 7 \"f.c\" / \"f\" / \"f.c.h\" / \"<std\" and #line 7 \"\" (names that are prefixes / extensions of one another and of the input name); # 7 \"g.h\" 1 3; # 2147483647 \"g.h\" 1 3; # 1 \"g.h\") each alone and followed by each of 9 violation items, plus random "
                       "programs of 4..7 items; every program is run: -E token dump (all tokens' file:line) or compile (stderr prefix). non-trivial = at least one item")
    hooks = lexlib.private_build(ctx, "hooks")
    plain = lexlib.private_build(ctx, "plain")
    kwfile, _ = lexlib.kw_table_file(ctx)
    devs = lexlib.known_devs(PID)
    env = {"KWTABLE": kwfile}
    tier = "quick" if quick else "thorough"
    try:
        nsim = 80 if quick else 1500
        jobs = {"refine": ("MC_Loc_refine_%s.cfg" % tier, {}, {}),
                "gen": ("MC_Loc_%s.cfg" % tier, {"Devs": lexlib.tla_set(devs)}, {"heap": "4g"}),
                "sim": ("MC_Loc_sim.cfg", {"Devs": lexlib.tla_set(devs)}, {"simulate": nsim, "depth": 9}),
                # generated block comments: every text over {*, /, a, new-line, backslash} of <= MaxCmt characters after the opener
                # whose first star-slash (after splice removal) is its end, leading a line / between two tokens
                "refine_cmt": ("MC_Loc_refine_cmt_%s.cfg" % tier, {}, {}),
                "gen_cmt": ("MC_Loc_cmt_%s.cfg" % tier, {"Devs": lexlib.tla_set(devs)}, {"heap": "4g"})}

        def tlc_job(name):
            base, subst, kw = jobs[name]
            cfg = lexlib.write_cfg(ctx, base, base, subst) if subst else base
            return name, ctx.tlc("Loc", cfg, workers=5 if quick else 6, env=env, timeout=3000, **kw)

        runs = dict(vlib.pmap(tlc_job, list(jobs), workers=len(jobs)))
        for name, r in runs.items():
            if r.rc != 0:
                raise vlib.MachineryError("model %s rejected (rc=%d):\n%s" % (jobs[name][0], r.rc, r.out[-4000:]))
        ctx.cov["refinement"] = {"cfg": jobs["refine"][0], "distinct_states": runs["refine"].distinct, "holds": True,
                                 "statement": "with no deviation switched on the machine gives every token (incl. directive tokens and new-lines) the declarative file, line and column"}
        ctx.cov["refinement_generated_comments"] = {"cfg": jobs["refine_cmt"][0], "distinct_states": runs["refine_cmt"].distinct, "holds": True}
        cases = load_cases(runs["gen"])
        seen = {c["text"] + c["v"].encode() for c in cases}
        for c in load_cases(runs["sim"]):
            k = c["text"] + c["v"].encode()
            if k not in seen:
                seen.add(k)
                cases.append(c)
        ccases = load_cases(runs["gen_cmt"])
        ctx.cov["generated_comments"] = {"cfg": jobs["gen_cmt"][0], "comment_texts": len({bytes(c["c"]) for c in ccases if c["c"]}),
                                         "with_new_line_inside": len({bytes(c["c"]) for c in ccases if 10 in c["c"]}),
                                         "programs": sum(1 for c in ccases if c["c"])}
        for c in ccases:
            k = c["text"] + c["v"].encode()
            if k not in seen:
                seen.add(k)
                cases.append(c)
        if not cases:
            raise vlib.MachineryError("no VCASE from Loc.tla")
        stats = {"tokens": 0, "col_agree": 0, "col_differ": 0, "model_wrong": []}
        dumps = [c for c in cases if c["v"] == ""]
        diags = [c for c in cases if c["v"] != ""]
        ok1 = sum(vlib.pmap(lambda c: check_dump(ctx, hooks, c, stats), dumps))
        ok2 = sum(vlib.pmap(lambda c: check_diag(ctx, plain, c, stats), diags))
        ctx.validated(len(cases))
        ctx.cov["dump_programs"] = {"n": len(dumps), "agree": ok1, "tokens_compared": stats["tokens"]}
        ctx.cov["diagnostic_programs"] = {"n": len(diags), "agree": ok2}
        ctx.cov["column(informational, not part of C11)"] = {"programs_all_columns_as_modelled": stats["col_agree"], "differ": stats["col_differ"]}
        if stats["model_wrong"]:
            raise vlib.MachineryError("Loc.tla machine disagrees with the declarative location and with the binary, no deviation named: %r" % stats["model_wrong"][:2])
        audit_gcc(ctx, cases, 1500 if quick else 12000)
        for c in (dumps[len(dumps) // 2], diags[len(diags) // 3]):
            ctx.sample({"items": c["p"], "violation": c["v"], "text": c["text"].decode("latin-1"),
                        "expected": [list(loc4(r)) for r in c["e"]] if not c["v"] else "%s:%d names %s" % (c["ee"][2], c["ee"][3] + c["ee"][4], c["ee"][1])})
        ctx.cov["actions_taken(programs)"] = dict(taken)
        untaken = [a for a in ACTIONS if not taken.get(a)]
        if untaken:
            raise vlib.MachineryError("machine branches never taken: %s" % untaken)
        ctx.cov["deviations_on"] = sorted(devs)
        ctx.cov["exhaustive"] = True
    finally:
        lexlib.cleanup_cfgs(ctx)


def replay(ctx, path):
    """Re-run one stored case: prints the declarative expectation and what the current binary reports."""
    d = json.load(open(path))
    c = d["case"]
    text = c["text"].encode("latin-1")
    if "violation" in c:
        rc, out, err = vlib.cproc(lexlib.private_build(ctx, "plain"), text)
        first = err.split("\n", 1)[0]
        print("items %s + %s\nexpected %s (token %s)\nobserved rc=%d %s" % (c["items"], c["violation"], c["expected"], c["named_token"], rc, first))
        m = lexlib.DIAG.match(first)
        return 0 if rc == 1 and m and "%s:%s" % (m.group(1), m.group(2)) == c["expected"] else 1
    rc, toks, err = lexlib.dump_tokens(lexlib.private_build(ctx, "hooks"), text)
    obs = [[k, s, f, ln] for k, s, sp, ln, col, f in toks if k != "TNEWLINE"]
    print("items %s\nexpected %s\nobserved rc=%d %s %s" % (c["items"], c.get("expected_tokens"), rc, obs, err.strip()))
    return 0 if rc == 0 and obs == c.get("expected_tokens") else 1
