"""C15 — a switch transfers control to exactly the matching case.
Flow A: Tree.tla's state graph (all insertion histories up to MaxN over a 10-key
universe, reduced by VIEW to distinct tree shapes) replayed transition by
transition into /repo/tree.c through harness/ctree.c.
"""
import json, os, subprocess
import vlib

# scaled carrier (8 bits, class w = low 4 bits)  ->  real 64-bit keys; preserves unsigned order of
# the full value and of the low half.
REAL = {0: 0, 1: 1, 7: 2**31 - 1, 8: 2**31, 15: 2**32 - 1, 16: 2**32, 127: 2**63 - 1, 128: 2**63,
        248: 0xFFFFFFFF80000000, 255: 2**64 - 1}


def shape_to_text(shape):
    out = []
    i = 0
    while i < len(shape):
        if shape[i] == -1:
            out.append("-")
            i += 1
        else:
            out.append(str(REAL[shape[i]]))
            out.append(str(shape[i + 1]))
            i += 2
    return " ".join(out)


def tree_direct(ctx):
    exe = vlib.cc_link([os.path.join(vlib.VERIF, "harness/ctree.c"), os.path.join(vlib.REPO, "tree.c")], ctx.path("ctree"),
                       extra=["-fsanitize=address,undefined", "-fno-sanitize-recover=undefined"])
    cfg = "MC_Tree_quick.cfg" if ctx.quick else "MC_Tree_thorough.cfg"
    r = ctx.tlc_must_pass("Tree", cfg, workers=16, coverage=False, timeout=1500)
    # the new-flag property needs the full history in the state (no VIEW): separate small design-level run
    ctx.tlc_must_pass("Tree", "MC_Tree_hist.cfg", workers=16, timeout=900, collect=None)
    cases = [json.loads(v) for v in r.vcases]
    if len(cases) != r.distinct:
        raise vlib.MachineryError("expected one VCASE per distinct state: %d vs %d" % (len(cases), r.distinct))
    lines, expect = [], []
    for c in cases:
        h = [REAL[k] for k in c["hist"]]
        if h:
            lines.append(" ".join(map(str, h)))
            expect.append((c, None, "%s %s" % ("?", shape_to_text(c["shape"]))))
        for s in c["succ"]:
            lines.append(" ".join(map(str, h + [REAL[s["k"]]])))
            expect.append((c, s, "%d %s" % (1 if s["new"] else 0, shape_to_text(s["shape"]))))
    p = subprocess.run([exe], input="\n".join(lines) + "\n", stdout=subprocess.PIPE, stderr=subprocess.PIPE, text=True,
                       env=dict(os.environ, ASAN_OPTIONS="detect_leaks=0"), timeout=600)
    got = p.stdout.splitlines()
    if p.returncode != 0 or len(got) != len(lines):
        ctx.violation("tree:crash", "tree.c harness died rc=%s: %s" % (p.returncode, p.stderr[-600:]), {"lines": len(lines), "got": len(got)})
        return
    for (c, s, exp), g, inp in zip(expect, got, lines):
        ctx.count(inp, nontrivial=(s is not None and len(c["hist"]) >= 2))
        if exp.startswith("?"):
            ok = g.split(" ", 1)[1] == exp.split(" ", 1)[1]
        else:
            ok = g == exp
        if not ok:
            ctx.violation("tree:shape", "tree.c state after history differs from Tree.tla",
                          {"history": inp, "expected": exp, "observed": g})
    ctx.validated(len(cases))
    ctx.sample({"history(real keys)": lines[len(lines) // 2], "expected '<new> preorder(key height)'": expect[len(lines) // 2][2]})
    ctx.cov["exhaustive"] = True


def run(ctx):
    ctx.cov["rule"] = ("TLC enumerates every insertion history of <= MaxN keys (duplicates allowed) over a 10-key universe "
                       "containing 0,1,2^31-1,2^31,2^32-1,2^32,2^63-1,2^63,INT_MIN sign-extended,2^64-1; states are reduced "
                       "by VIEW to distinct tree shapes; every (shape,key) transition is replayed into tree.c and the full "
                       "shape (keys, stored heights, new flag) compared. non-trivial = history of >= 2 keys followed by an insertion")
    tree_direct(ctx)
    import c15_switch
    objdir = vlib.build("plain")
    runtime = ctx.path("rt.c")
    open(runtime, "w").write('#include <stdio.h>\nvoid obs(long long v) { printf("%lld\\n", v); }\n')
    c15_switch.run_switches(ctx, objdir, runtime, lambda t: t == "x86_64-sysv")
    c15_switch.run_duplicates(ctx, objdir)
    # duplicate case constants / duplicate default must be rejected
    for src, what in (("void f(int v){switch(v){case 1:;case 1:;}}", "dup-case"), ("void f(int v){switch(v){default:;default:;}}", "dup-default"),
                      ("void f(unsigned char v){switch(v){case -1:;case 0xffffffff:;}}", "dup-case-after-conversion"),
                      ("void f(long v){switch(v){case 0x100000000:;case 0x100000000:;}}", "dup-case-64")):
        rc, out, err = vlib.cproc(objdir, src)
        ctx.count("dup:" + what)
        if rc != 1 or "error" not in err:
            ctx.violation("switch:%s-accepted" % what, "duplicate label not diagnosed: rc=%s" % rc, {"source": src})


def replay(ctx, path):
    """tree:shape cases: feed the recorded key history to the real tree.c again and compare with the shape Tree.tla gave."""
    rec = json.load(open(path))
    case = rec.get("case", {})
    if "history" not in case:
        print("replay: only tree:shape cases can be replayed on their own (key %s); switch cases are re-run by the quick tier" % rec.get("key"))
        return 2
    exe = vlib.cc_link([os.path.join(vlib.VERIF, "harness/ctree.c"), os.path.join(vlib.REPO, "tree.c")], ctx.path("ctree"),
                       extra=["-fsanitize=address,undefined", "-fno-sanitize-recover=undefined"])
    p = subprocess.run([exe], input=case["history"] + "\n", stdout=subprocess.PIPE, stderr=subprocess.PIPE, text=True,
                       env=dict(os.environ, ASAN_OPTIONS="detect_leaks=0"), timeout=60)
    got = p.stdout.strip()
    exp = case["expected"]
    print("history:  " + case["history"])
    print("expected: " + exp)
    print("observed: " + (got or "rc=%s %s" % (p.returncode, p.stderr[-300:])))
    ok = (got.split(" ", 1)[1:] == exp.split(" ", 1)[1:]) if exp.startswith("?") else got == exp
    print("verdict:  " + ("agrees with Tree.tla" if ok else "differs from Tree.tla"))
    return 0 if ok else 1
