"""C06 — object layout equals the platform ABI.

Oracle: spec/Layout.tla.
 * design level: TLC checks that the transcription of decl.c:addmember/tagspec (accumulator over
   size/align/bits/pack/flexible; enum min/max loop) refines the declarative ABI layout
   - for member sequences of EVERY length (one-step simulation from every reachable accumulator state, VIEW),
   - for every full history up to length 2 (quick) / 3 (thorough), every prefix, both per-target variants,
     with the deviations of the shipped code off (must refine everywhere) and on (must refine outside the
     syntactic classes named by DevApplies).
 * flow A: type terms enumerated (all aggregates of <= 2 members over the member universe) and simulated
   (nested <= 4 deep) by TLC, expectations printed by TLC, rendered to C, compiled by the real cproc-qbe for
   the three targets; sizeof/_Alignof/offsetof read from an emitted `unsigned long v[]`, bit positions from
   the data image of `T x = {.bf = -1}`.  Enums the same way (underlying type: size, signedness, compatible type).
 * audit: the same numbers as _Static_asserts / record-layout dumps through clang --target (3 targets) and gcc
   (host, incl. run-time images).  Spec vs reference disagreement => MachineryError, never a VIOLATION.
 * flow B: H4 member/tagend events of the -DCPROC_VERIF build on /repo/test/*.c and on the generated inputs are
   validated step by step by spec/Trace_Layout.tla (implementation-shaped step AND declarative step).
"""
import json, os, re, glob, collections, threading
import vlib, ilparse
import layoutlib as L

BATCH = 120
LOCK = threading.RLock()


# --------------------------------------------------------------------------------------------------
# all TLC runs that do not depend on each other, in parallel
def tlc_phase(ctx):
    tier = "quick" if ctx.quick else "thorough"
    design = ["MC_Layout_view_noraise_%s.cfg" % tier, "MC_Layout_view_raise_%s.cfg" % tier,
              "MC_Layout_fixed_noraise_%s.cfg" % tier, "MC_Layout_fixed_raise_%s.cfg" % tier,
              "MC_Layout_cur_raise_%s.cfg" % tier,
              "MC_Layout_enum_sc_%s.cfg" % tier, "MC_Layout_enum_uc_%s.cfg" % tier]
    if not ctx.quick:
        design.append("MC_Layout_cur_noraise_thorough.cfg")
    ntr = int(os.environ.get("VERIF_C06_TRACES", "100" if ctx.quick else "800"))
    nen = 150 if ctx.quick else 2000
    jobs = [(c, {}) for c in design]
    jobs += [("MC_Layout_emit.cfg", {}),
             ("MC_Layout_gen.cfg", {"simulate": ntr, "depth": 60}),
             ("MC_Layout_huge_%s.cfg" % tier, {}),
             ("MC_Layout_enum_cur_sc_%s.cfg" % tier, {}), ("MC_Layout_enum_cur_uc_%s.cfg" % tier, {}),
             ("MC_Layout_enum_gen_sc.cfg", {"simulate": nen, "depth": 8}), ("MC_Layout_enum_gen_uc.cfg", {"simulate": nen, "depth": 8})]
    w = 3 if ctx.quick else 5

    def one(job):
        c, kw = job
        r = L.tlc_cached(ctx, "Layout", c, workers=w, timeout=7200, heap="2g" if ctx.quick else "4g", **kw)
        if not r.ok:
            raise vlib.MachineryError("model %s rejected / generator failed (rc=%s):\n%s" % (c, r.rc, r.out[-4000:]))
        return c, r
    res = dict(vlib.pmap(one, jobs, workers=5 if ctx.quick else 3))
    ctx.cov["design"] = {c: {"distinct": res[c].distinct, "generated": res[c].states, "wall_s": round(res[c].wall, 1)} for c in design}
    # vacuity (TLC's -coverage is unusably slow on this module): every action left its trace in the emitted behaviours
    ems = [m for v in res["MC_Layout_emit.cfg"].vcases for m in json.loads(v)["t"]["ms"]]
    taken = set()
    if any(m["w"] == -1 and m["nm"] for m in ems):
        taken.add("AddPlain")
    if any(m["w"] != -1 for m in ems):
        taken.add("AddBitfield")
    if any(m["w"] == -1 and not m["nm"] for m in ems):
        taken.add("AddAnonymous")
    if ems:
        taken.add("Finish")
    if res["MC_Layout_enum_cur_sc_%s.cfg" % tier].vcases:
        taken |= {"AddEnumerator", "FinishEnum"}
    if res["MC_Layout_gen.cfg"].vcases:
        taken |= {"Begin", "Pick"}
    need = {"AddPlain", "AddBitfield", "AddAnonymous", "Finish", "AddEnumerator", "FinishEnum", "Begin", "Pick"}
    if not need <= taken:
        raise vlib.MachineryError("vacuity: actions never taken: %s" % sorted(need - taken))
    ctx.cov["actions_taken"] = sorted(taken)
    return res


# --------------------------------------------------------------------------------------------------
# flow A, aggregates
def emit_cases(ctx, res):
    """type terms + expectations from TLC: exhaustive small aggregates, simulated nested ones"""
    cases = [json.loads(v) for v in res["MC_Layout_emit.cfg"].vcases]
    ctx.cov["exhaustive_cases"] = len(cases)
    terms = list(dict.fromkeys(res["MC_Layout_gen.cfg"].vcases))
    inp = ctx.path("layout_in.ndjson")
    with open(inp, "w") as f:
        f.write("\n".join(terms) + "\n")
    e = L.tlc_cached(ctx, "Layout", "MC_Layout_eval.cfg", workers=12, env={"LAYOUT_IN": inp}, timeout=7200)
    if not e.ok:
        raise vlib.MachineryError("evaluation run rejected:\n%s" % e.out[-3000:])
    ev = [json.loads(v) for v in e.vcases]
    if len(ev) != len(terms):
        raise vlib.MachineryError("eval run returned %d of %d cases" % (len(ev), len(terms)))
    cases += ev
    ctx.cov["generated_cases"] = len(ev)
    lim = int(os.environ.get("VERIF_C06_LIMIT", "0"))
    if lim:
        ctx.rng.shuffle(cases)
        cases = cases[:lim]
    return cases


class Item:
    """one aggregate of a batch: rendering + which observations are made"""

    def __init__(self, k, case, rng, images=True):
        self.k, self.case = k, case
        t = case["t"]
        self.cp = L.Rendered(t, "T%d" % k, "m%d_" % k, packed=rng.choice(L.PACKED_SPELL), alignas=rng.choice(["_Alignas", "alignas"]),
                             align_by_type=rng.random() < 0.3)
        self.au = L.Rendered(t, "T%d" % k, "m%d_" % k)
        nodes = case["exp0"]["nodes"]
        self.plain = []     # (node index, designator)
        self.bf = []
        for i, nd in enumerate(nodes):
            d = self.cp.desig(nd["p"])
            if d is None:
                continue
            if nd["w"] == -1:
                self.plain.append((i, d))
            elif images:            # no object (hence no bit-field image) of a type of 4 GiB and more
                self.bf.append((i, d))

    def proj(self, summ):
        """comparable projection of a TLC summary"""
        nd = summ["nodes"]
        return (summ["size"], summ["align"], tuple(nd[i]["off"] for i, _ in self.plain),
                tuple((8 * nd[i]["off"] + nd[i]["bo"], nd[i]["w"]) for i, _ in self.bf))

    def cproc_src(self):
        ct = self.cp.ctype
        vals = ["sizeof(%s)" % ct, "_Alignof(%s)" % ct] + ["__builtin_offsetof(%s, %s)" % (ct, d[1:]) for _, d in self.plain]
        s = [self.cp.text, "unsigned long v%d[] = {%s};" % (self.k, ", ".join(vals))]
        for j, (_, d) in enumerate(self.bf):
            s.append("%s x%d_%d = {%s = -1};" % (ct, self.k, j, d))
        return "\n".join(s) + "\n"

    def audit_src(self, summ, runtime=False):
        ct = self.au.ctype
        s = [self.au.text]
        A = lambda what, cond: s.append('_Static_assert(%s, "A:%d:%s");' % (cond, self.k, what))
        A("size", "sizeof(%s) == %d" % (ct, summ["size"]))
        A("align", "_Alignof(%s) == %d" % (ct, summ["align"]))
        for i, d in self.plain:
            A("off%d" % i, "__builtin_offsetof(%s, %s) == %d" % (ct, d[1:], summ["nodes"][i]["off"]))
        return "\n".join(s) + "\n"

    def observe(self, data):
        """projection of what cproc emitted, or a string describing a malformed observation"""
        v = data.get("v%d" % self.k)
        if v is None:
            return "no v array"
        vals = L.longs(v)
        if len(vals) != 2 + len(self.plain):
            return "v array has %d values" % len(vals)
        bits = []
        for j in range(len(self.bf)):
            d = data.get("x%d_%d" % (self.k, j))
            if d is None:
                return "no image"
            if any(it["k"] == "z" and it["n"] > (1 << 20) for it in d["items"]):
                return "object image of absurd size"
            img, rel = ilparse.data_image(d)
            sb = L.set_bits(img)
            run = (sb[0], len(sb)) if sb and sb == list(range(sb[0], sb[0] + len(sb))) else ("scattered", tuple(sb))
            if len(img) != vals[0] or d["align"] != vals[1]:
                run = ("object", len(img), d["align"])      # image length / alignment of the object disagree with sizeof/_Alignof
            bits.append(run)
        return (vals[0], vals[1], tuple(vals[2:]), tuple(bits))


def first_diff(a, b):
    names = ["sizeof", "alignof", "offsetof", "bitpos"]
    for n, x, y in zip(names, a, b):
        if x != y:
            return n
    return "shape"


def replay_batch(ctx, objdir, items, stats):
    src = "".join(it.cproc_src() for it in items)
    for target in vlib.TARGETS:
        rc, out, err = vlib.cproc(objdir, src, target, timeout=120)
        if rc != 0:
            if len(items) > 1:      # isolate
                for it in items:
                    replay_batch_one(ctx, objdir, it, target, stats)
                continue
            replay_batch_one(ctx, objdir, items[0], target, stats)
            continue
        data = ilparse.data_by_name(L.parse_il(out))
        for it in items:
            judge(ctx, it, target, it.observe(data), stats)


def replay_batch_one(ctx, objdir, it, target, stats):
    rc, out, err = vlib.cproc(objdir, it.cproc_src(), target, timeout=60)
    if rc != 0:
        key = "layout:%s:%s" % (target, "crash" if rc < 0 else "rejected")
        stats["viol"] += 1
        with LOCK:
                ctx.violation(key, "cproc does not compile a valid type definition (rc=%s): %s" % (rc, err.strip()[:300]),
                              {"target": target, "source": it.cproc_src(), "type": it.case["t"]})
        return
    judge(ctx, it, target, it.observe(ilparse.data_by_name(L.parse_il(out))), stats)


def judge(ctx, it, target, obs, stats):
    with LOCK:
        _judge(ctx, it, target, obs, stats)


def _judge(ctx, it, target, obs, stats):
    r = L.RAISE[target]
    exp = it.proj(L.pick(it.case, "exp", r))
    depth, nbf, nmem = L.term_stats(it.case["t"])
    ctx.count(target + vlib.sha(vlib.canon(it.case["t"])), nontrivial=(nmem >= 2))
    stats["eval"] += 1
    if obs == exp:
        return
    mod = it.proj(L.pick(it.case, "mod", r))
    devs = L.pick(it.case, "devs", r)
    info = {"target": target, "source": it.cproc_src(), "expected(size,align,offsets,bit runs)": exp, "observed": obs,
            "model_with_deviations": mod, "deviations": devs, "type": it.case["t"]}
    stats["viol"] += 1
    if obs == mod and devs:
        for d in devs:
            ctx.violation("layout:%s:%s" % (target, d),
                          "layout differs from the ABI exactly as deviation %s of the model predicts" % d, info)
    else:
        what = obs if isinstance(obs, str) else first_diff(obs, exp)
        ctx.violation("layout:%s:unexplained:%s" % (target, what), "cproc's layout differs from Layout.tla (%s)" % what, info)


def audit_batch(ctx, items):
    """spec vs reference compilers; any disagreement is a defect of the spec or of the generator"""
    problems = []
    tags = {it.au.tag for it in items}
    for target in vlib.TARGETS + [None]:
        r = L.RAISE[target] if target else False
        src = "".join(it.audit_src(L.pick(it.case, "exp", r)) for it in items)
        failed, other, out = L.audit_asserts(src, target)
        name = target or "gcc-host"
        if other:
            problems.append("%s rejects generated source: %s" % (name, other[:3]))
        for f in failed:
            problems.append("%s disagrees with Layout.tla on %s" % (name, f))
        if target:
            bf = L.clang_bitfields(out, tags)
            for it in items:
                e = L.pick(it.case, "exp", r)
                seen = bf.get(it.au.tag, {})
                for i, d in it.bf:
                    nd = e["nodes"][i]
                    if any(x < 0 for x in nd["p"]):
                        continue
                    nm = d.split(".")[-1]
                    want = (8 * nd["off"] + nd["bo"], nd["w"])
                    if seen.get(nm) != want:
                        problems.append("%s bit-field %s of T%d: clang %s, Layout.tla %s" % (name, nm, it.k, seen.get(nm), want))
    # gcc run-time images (host = x86_64): every bit-field node, also below arrays
    body = []
    for it in items:
        for j, (i, d) in enumerate(it.bf):
            body.append('{ %s x; memset(&x, 0, sizeof x); x%s = -1; dump("%d:%d", &x, sizeof x); }' % (it.au.ctype, d, it.k, j))
    if body:
        prog = ("#include <stdio.h>\n#include <string.h>\n" + "".join(it.au.text + "\n" for it in items) +
                "static void dump(const char *id, void *p, unsigned long n) { printf(\"%s \", id); for (unsigned long i = 0; i < n; i++) "
                "printf(\"%02x\", ((unsigned char *)p)[i]); printf(\"\\n\"); }\nint main(void) {\n" + "\n".join(body) + "\nreturn 0; }\n")
        exe = ctx.path("img%d" % items[0].k)
        rc, out, err = L.run_cc(["gcc", "-std=gnu2x", "-w", "-O0", "-x", "c", "-", "-o", exe], prog)
        if rc != 0:
            problems.append("gcc cannot build the image program: %s" % err[:400])
        else:
            rc, out, err = vlib.run([exe], timeout=60)
            got = dict(l.split() for l in out.decode().splitlines())
            os.unlink(exe)
            for it in items:
                e = it.case["exp0"]
                for j, (i, d) in enumerate(it.bf):
                    nd = e["nodes"][i]
                    img = bytes.fromhex(got.get("%d:%d" % (it.k, j), ""))
                    sb = L.set_bits(img)
                    want = list(range(8 * nd["off"] + nd["bo"], 8 * nd["off"] + nd["bo"] + nd["w"]))
                    if sb != want or len(img) != e["size"]:
                        problems.append("gcc image of T%d%s: bits %s size %d, Layout.tla bits %s size %d" % (
                            it.k, d, sb[:3] + sb[-1:], len(img), want[:3] + want[-1:], e["size"]))
    return problems


def flow_a_aggregates(ctx, objdir, cases):
    stats = collections.Counter()
    items = [Item(k, c, ctx.rng) for k, c in enumerate(cases)]
    batches = [items[i:i + BATCH] for i in range(0, len(items), BATCH)]
    probs = vlib.pmap(lambda b: audit_batch(ctx, b), batches, workers=12)
    flat = [p for ps in probs for p in ps]
    if flat:
        raise vlib.MachineryError("SPEC-AUDIT: %d disagreements between Layout.tla and gcc/clang, e.g.\n  %s" % (len(flat), "\n  ".join(flat[:12])))
    ctx.cov["audited_cases"] = len(items)
    vlib.pmap(lambda b: replay_batch(ctx, objdir, b, stats), batches, workers=12)
    ctx.validated(len(items))
    deep = [it for it in items if L.term_stats(it.case["t"])[0] >= 3]
    for it in (deep[:2] + items[len(items) // 2:len(items) // 2 + 1]):
        ctx.sample({"source": it.cproc_src()[:700], "expected x86_64 (size, align, offsets, bit runs)": it.proj(it.case["exp0"])})
    ctx.cov["aggregate_evaluations"] = stats["eval"]
    ctx.cov["depth_histogram"] = dict(collections.Counter(L.term_stats(it.case["t"])[0] for it in items))
    return batches


# --------------------------------------------------------------------------------------------------
# flow A, aggregates of 4 GiB and more (Layout.tla "huge": layouts at stretch 0 and 64 bytes, affine in between)
HUGE_D = [2**32 - 64, 2**32, 2**33, 2**40]


def _resolve(c):
    """the four summaries of a Case with the `same` placeholders filled in"""
    e0 = c["exp0"]
    e1 = e0 if "same" in c["exp1"] else c["exp1"]
    m0 = e0 if "same" in c["mod0"] else c["mod0"]
    m1 = e1 if "same" in c["mod1"] else c["mod1"]
    return {"exp0": e0, "exp1": e1, "mod0": m0, "mod1": m1}


def _affine(a, b, steps):
    return a + (b - a) * steps


def _stretch_term(t, d):
    if t["k"] == "sc":
        return t
    if t["k"] == "arr":
        if t.get("st"):
            return {"k": "arr", "of": t["of"], "n": t["n"] + d // {"char": 1, "short": 2, "long": 8}[t["of"]["n"]]}
        return dict(t, of=_stretch_term(t["of"], d))
    return dict(t, ms=[dict(m, t=_stretch_term(m["t"], d)) for m in t["ms"]])


def huge_cases(vcases):
    out = []
    for v in vcases:
        h = json.loads(v)
        r0, r1 = _resolve(h["c0"]), _resolve(h["c1"])
        for D in HUGE_D:
            steps = D // 64
            case = {"k": "su", "t": _stretch_term(h["t"], D), "devs0": sorted(set(h["c0"]["devs0"]) | set(h["c1"]["devs0"])),
                    "devs1": sorted(set(h["c0"]["devs1"]) | set(h["c1"]["devs1"]))}
            for key in r0:
                a, b = r0[key], r1[key]
                case[key] = {"size": _affine(a["size"], b["size"], steps), "align": a["align"],
                             "nodes": [{"p": [_affine(x, y, steps) for x, y in zip(na["p"], nb["p"])], "off": _affine(na["off"], nb["off"], steps),
                                        "bo": na["bo"], "w": na["w"]} for na, nb in zip(a["nodes"], b["nodes"])]}
            out.append(case)
    return out


def flow_a_huge(ctx, objdir, res):
    tier = "quick" if ctx.quick else "thorough"
    cases = huge_cases(res["MC_Layout_huge_%s.cfg" % tier].vcases)
    if not ctx.quick and len(cases) > 6000:
        ctx.rng.shuffle(cases)
        cases = cases[:6000]
    stats = collections.Counter()
    items = [Item(10**6 + k, c, ctx.rng, images=False) for k, c in enumerate(cases)]
    batches = [items[i:i + BATCH] for i in range(0, len(items), BATCH)]
    flat = [p for ps in vlib.pmap(lambda b: audit_batch(ctx, b), batches, workers=12) for p in ps]
    if flat:
        raise vlib.MachineryError("SPEC-AUDIT (huge types): %d disagreements between Layout.tla's affine extrapolation and gcc/clang, e.g.\n  %s" % (len(flat), "\n  ".join(flat[:10])))
    vlib.pmap(lambda b: replay_batch(ctx, objdir, b, stats), batches, workers=12)
    ctx.validated(len(items))
    ctx.cov["huge_cases"] = len(items)
    ctx.cov["huge_evaluations"] = stats["eval"]
    ctx.sample({"source (>= 4 GiB)": items[len(items) // 2].cproc_src()[:400], "expected x86_64": items[len(items) // 2].proj(items[len(items) // 2].case["exp0"])})


# --------------------------------------------------------------------------------------------------
# flow A, enums
E_ANCHORS = {0: 0, 4: 2**7, 8: 2**8, 16: 2**15, 32: 2**16, 64: 2**31, 128: 2**32, 2048: 2**63, 4096: 2**64,
             -4: -2**7, -16: -2**15, -64: -2**31, -2048: -2**63}
E_CANDS = ["int", "uint", "long", "ulong", "llong", "ullong"]


def real_value(v):
    for a, A in E_ANCHORS.items():
        if abs(v - a) <= 1:
            return A + (v - a)
    raise vlib.MachineryError("enum value %d is not next to an anchor" % v)


def literal(e):
    v = real_value(e["v"])
    if v < 0:
        return "(-%d - 1)" % (-v - 1)
    return "%d%s" % (v, "u" if e["u"] else "")


def enum_src(k, c):
    fixed = "" if c["fixed"] == "none" else " : " + L.SC_C[c["fixed"]]
    es = ", ".join("e%d_%d%s" % (k, i, " = " + literal(e) if e["x"] else "") for i, e in enumerate(c["es"]))
    return "enum E%d%s { %s };\n" % (k, fixed, es)


def enum_exprs(k):
    t = "enum E%d" % k
    return ["sizeof(%s)" % t, "_Alignof(%s)" % t, "(%s)-1 < 0" % t] + ["__builtin_types_compatible_p(%s, %s)" % (t, L.SC_C[x]) for x in E_CANDS]


def enum_expected(c):
    e = c["exp"]
    return [e["size"], e["size"], 1 if e["signed"] else 0] + [1 if x == e["base"] else 0 for x in E_CANDS]


def gcc_applicable(c):
    """gcc 12 predates C23: no fixed underlying types, and an implicit enumerator beyond INT_MAX is an error there"""
    if c["fixed"] != "none":
        return False
    prev = -1
    for e in c["es"]:
        v = real_value(e["v"]) if e["x"] else prev + 1
        if not e["x"] and v > 2**31 - 1:
            return False
        prev = v
    return True


def flow_a_enums(ctx, objdir, res):
    tier = "quick" if ctx.quick else "thorough"
    total = 0
    for cs, targets in ((True, ["x86_64-sysv"]), (False, ["aarch64", "riscv64"])):
        tag = "sc" if cs else "uc"
        cases = [json.loads(v) for v in res["MC_Layout_enum_cur_%s_%s.cfg" % (tag, tier)].vcases]
        cases += [json.loads(v) for v in dict.fromkeys(res["MC_Layout_enum_gen_%s.cfg" % tag].vcases)]
        if ctx.quick and len(cases) > 5000:
            keep = [c for c in cases if c["devs"] or c["fixed"] in ("char", "uchar", "none")]
            rest = [c for c in cases if not (c["devs"] or c["fixed"] in ("char", "uchar", "none"))]
            ctx.rng.shuffle(rest)
            cases = (keep + rest)[:5000]
        seen, uniq = set(), []
        for c in cases:
            key = vlib.canon([c["fixed"], c["es"]])
            if key not in seen:
                seen.add(key)
                uniq.append(c)
        cases = uniq
        batches = [list(enumerate(cases))[i:i + 250] for i in range(0, len(cases), 250)]

        def audit(b):
            probs = []
            for target in targets + ([None] if cs else []):
                src = ""
                for k, c in b:
                    if target is None and not gcc_applicable(c):
                        continue
                    src += enum_src(k, c)
                    for j, (x, want) in enumerate(zip(enum_exprs(k), enum_expected(c))):
                        src += '_Static_assert((%s) == %d, "A:%d:%d");\n' % (x, want, k, j)
                failed, other, _ = L.audit_asserts(src, target)
                if other:
                    probs.append("%s rejects enum source: %s" % (target or "gcc", other[:2]))
                probs += ["%s disagrees with Layout.tla (EnumBase) on %s: %s" % (target or "gcc", f, enum_src(int(f.split(":")[1]), dict(b)[int(f.split(":")[1])]).strip()) for f in failed]
            return probs
        flat = [p for ps in vlib.pmap(audit, batches, workers=8) for p in ps]
        if flat:
            raise vlib.MachineryError("SPEC-AUDIT (enum): %d disagreements, e.g.\n  %s" % (len(flat), "\n  ".join(flat[:10])))

        def replay(b):
            with LOCK:
                replay_locked(b)

        def replay_locked(b):
            for target in targets:
                src = "".join(enum_src(k, c) + "unsigned long w%d[] = {%s};\n" % (k, ", ".join(enum_exprs(k))) for k, c in b)
                rc, out, err = vlib.cproc(objdir, src, target, timeout=60)
                datas = None
                if rc == 0:
                    datas = ilparse.data_by_name(L.parse_il(out))
                for k, c in b:
                    ctx.count("enum" + target + vlib.canon([c["fixed"], c["es"]]), nontrivial=len(c["es"]) >= 2 or c["fixed"] != "none")
                    one = enum_src(k, c) + "unsigned long w%d[] = {%s};\n" % (k, ", ".join(enum_exprs(k)))
                    if datas is None:
                        rc1, out1, err1 = vlib.cproc(objdir, one, target, timeout=30)
                        d = ilparse.data_by_name(L.parse_il(out1)) if rc1 == 0 else None
                    else:
                        rc1, err1, d = 0, "", datas
                    info = {"target": target, "source": one, "expected [size, align, signed, compat int/uint/long/ulong/llong/ullong]": enum_expected(c),
                            "model_with_deviations": c["mod"], "deviations": c["devs"]}
                    if rc1 != 0:
                        info["observed"] = "rc=%s %s" % (rc1, err1.strip()[:200])
                        if c["devs"] and "same" not in c["mod"] and not c["mod"]["ok"] and rc1 > 0:
                            for dv in c["devs"]:
                                ctx.violation("enum:%s:%s" % (target, dv), "valid enum rejected as deviation %s predicts" % dv, info)
                        else:
                            ctx.violation("enum:%s:%s" % (target, "crash" if rc1 < 0 else "rejected"), "valid enum definition not compiled", info)
                        continue
                    got = L.longs(d["w%d" % k])
                    if got != enum_expected(c):
                        info["observed"] = got
                        ctx.violation("enum:%s:unexplained:%s" % (target, "size" if got[:2] != enum_expected(c)[:2] else "signedness" if got[2] != enum_expected(c)[2] else "compatible-type"),
                                      "underlying type of enum differs from Layout.tla EnumBase", info)
        vlib.pmap(replay, batches, workers=8)
        total += len(cases)
        if cs:
            ctx.sample({"enum source": enum_src(0, cases[len(cases) // 3]).strip(), "expected": enum_expected(cases[len(cases) // 3])})
    ctx.cov["enum_cases"] = total
    ctx.validated(total)


# --------------------------------------------------------------------------------------------------
# constructs cproc documents as unsupported: they must be diagnosed, never silently laid out differently
UNSUPPORTED = [
    ("aligned-attribute-member", "struct S { char c; int x __attribute__((aligned(8))); }; unsigned long v = sizeof(struct S);", 16),
    ("aligned-attribute-type", "struct __attribute__((aligned(16))) S { char c; }; unsigned long v = sizeof(struct S);", 16),
    ("packed-bitfield", "struct __attribute__((packed)) S { char c; int x:7; }; unsigned long v = sizeof(struct S);", 2),
    ("packed-union", "union __attribute__((packed)) U { char c; int x; }; unsigned long v = sizeof(union U);", 4),
    ("packed-after-brace", "struct S { char c; int x; } __attribute__((packed)); unsigned long v = sizeof(struct S);", 5),
]


def unsupported_probes(ctx, objdir):
    res = {}
    for name, src, want in UNSUPPORTED:
        for target in vlib.TARGETS:
            rc, out, err = vlib.cproc(objdir, src, target)
            ctx.count("unsupported:" + name + target, nontrivial=False)
            if rc > 0 and err.strip():
                res[name] = "diagnosed"
                continue
            info = {"target": target, "source": src, "rc": rc, "stderr": err[:200]}
            if rc != 0:
                ctx.violation("layout:%s:unsupported-crash:%s" % (target, name), "no clean diagnostic for unsupported construct", info)
                continue
            v = L.longs(ilparse.data_by_name(L.parse_il(out))["v"])
            res[name] = "accepted"
            if v != [want]:
                info["observed"] = v
                info["expected"] = want
                ctx.violation("layout:%s:unsupported-silently-wrong:%s" % (target, name), "attribute accepted but without its ABI effect", info)
    ctx.cov["unsupported_constructs"] = res


# --------------------------------------------------------------------------------------------------
# flow B
R_ANCH = sorted((abs(A), abs(a)) for a, A in E_ANCHORS.items() if a >= 0)


def compress(x):
    """monotone, anchor preserving map of a 64-bit magnitude onto the scaled carrier of Layout.tla"""
    lo = None
    for A, a in R_ANCH:
        if abs(x - A) <= 1:
            return a + (x - A)
        if A < x:
            lo = a
    return lo + 2


BOOLS = ("un", "pk", "mflex", "named", "hasm", "flex0", "flex")


def convert_trace(lines, sid_map, skipped):
    out = []
    for ln in lines:
        try:
            ev = json.loads(ln)
        except ValueError:
            continue
        if ev.get("e") not in ("member", "tagend"):
            continue
        ev["sid"] = sid_map.setdefault(ev["sid"], len(sid_map) + 1)
        if ev["e"] == "member":
            if any(ev[f] >= 2**27 for f in ("msize", "size0", "size", "off")) or ev["width"] > 64:
                skipped[0] += 1
                continue
            for b in BOOLS:
                ev[b] = bool(ev[b])
            ev.pop("mint", None)
        elif ev["kind"] == "enum":
            ev["fixed"] = bool(ev["fixed"])
            ev["min"] = compress(int(ev["min"], 16))
            ev["max"] = compress(int(ev["max"], 16))
            ev.pop("signed", None)
        else:
            if ev["size"] >= 2**27:
                skipped[0] += 1
                continue
            ev["pk"] = bool(ev["pk"])
        out.append(ev)
    return out


def flow_b(ctx, batches):
    hooks = vlib.build("hooks")
    inputs = []      # (target, path or None, source or None)
    for p in sorted(glob.glob(os.path.join(vlib.REPO, "test", "*.c"))):
        m = re.search(r"\+([a-z0-9_-]+)\.c$", p)
        inputs.append((m.group(1) if m and m.group(1) in vlib.TARGETS else "x86_64-sysv", p, None))
    # cproc's own sources (cc.h's structs and the system headers they pull in), preprocessed by the host cpp
    own = sorted(glob.glob(os.path.join(vlib.REPO, "*.c")))
    if ctx.quick:
        own = [p for p in own if os.path.basename(p) in ("decl.c", "qbe.c", "driver.c")]
    for p in own:
        rc, out, err = vlib.run(["cpp", "-P", "-U__GNUC__", "-U__GNUC_MINOR__", "-D__STDC_NO_ATOMICS__", "-D__STDC_NO_COMPLEX__", "-U__SIZEOF_INT128__",
                                 "-U__PIC__", "-D__extension__=", "-I", vlib.REPO, p], timeout=60)
        if rc == 0:
            inputs.append(("x86_64-sysv", None, out.decode("utf-8", "replace")))
    nown = len(inputs)
    nb = 6 if ctx.quick else 60
    step = max(1, len(batches) // nb)
    for b in batches[::step][:nb]:
        src = "".join(it.cproc_src() for it in b)
        for t in vlib.TARGETS:
            inputs.append((t, None, src))
    # the enum loop on some fixed inputs with wide values
    inputs.append(("x86_64-sysv", None, "enum A { a = -1, b = 0x80000000 }; enum B { c = 0x100000000, d }; enum C { e = -0x80000001l, f };"
                                        "enum D { g = 0x7fffffff, h }; enum F : unsigned short { i = 1, j }; enum G { k = 0xffffffffffffffff };\n"))
    events = {False: [], True: []}
    skipped = [0]
    nexec = 0

    def run(i_inp):
        i, (target, path, src) = i_inp
        tr = ctx.path("tr%d.ndjson" % i)
        rc, out, err = vlib.cproc(hooks, src, target, trace=tr, path=path, timeout=120)
        lines = open(tr).read().splitlines() if os.path.exists(tr) else []
        if os.path.exists(tr):
            os.unlink(tr)
        return target, rc, lines
    for target, rc, lines in vlib.pmap(run, list(enumerate(inputs)), workers=12):
        ev = convert_trace(lines, {}, skipped)
        if ev:
            events[L.RAISE[target]] += ev + [{"e": "Reset"}]
            nexec += 1
    total = 0
    for r, cfg in ((False, "Trace_Layout.cfg"), (True, "Trace_Layout_raise.cfg")):
        evs = events[r]
        if not evs:
            continue
        chunks, cur = [], []          # chunks end at a Reset: an execution is never split
        for e in evs:
            cur.append(e)
            if e["e"] == "Reset" and len(cur) >= 30000:
                chunks.append(cur)
                cur = []
        if cur:
            chunks.append(cur)
        for ci, ch in enumerate(chunks):
            # keep chunks self-contained: start after a Reset
            tp = ctx.path("layout_trace_%d_%d.ndjson" % (r, ci))
            with open(tp, "w") as f:
                for e in ch:
                    f.write(json.dumps(e) + "\n")
            res = ctx.tlc("Trace_Layout", cfg, workers=1, env={"TRACE": tp}, timeout=2400, heap="4g")
            if res.rc != 0:
                rej = [l for l in res.out.splitlines() if "REJECT" in l]
                kind = "unknown"
                if rej:
                    try:
                        evj = json.loads(rej[0][rej[0].index("{"):].rstrip('"').replace('\\"', '"'))["event"]
                        kind = "addmember-step" if evj.get("e") == "member" else "tagend-" + str(evj.get("kind"))
                    except (ValueError, KeyError):
                        pass
                ctx.violation("trace:" + kind,
                              "an H4 event of the real decl.c is not a step of Layout.tla's accumulator / declarative layout",
                              {"raise": r, "reject": rej[:1], "tlc": res.out[-1500:]})
            total += len(ch)
    ctx.cov["trace_events_validated"] = total
    ctx.cov["trace_executions"] = nexec
    ctx.cov["trace_events_skipped_out_of_range"] = skipped[0]
    ctx.validated(nexec)


# --------------------------------------------------------------------------------------------------
def run(ctx):
    ctx.cov["rule"] = (
        "aggregates: TLC enumerates every struct/union (struct also packed) of <= 2 members (thorough: 3, sampled) over the member "
        "universe {char short int long double char[3] struct{char,int}, _Alignas variants, anonymous struct/union, flexible int[], "
        "bit-fields of char/short/int/long x 14 widths x named/unnamed} and simulates nested aggregates (depth <= 4, arrays, all "
        "scalar types, 19 widths, _Alignas 1..64); each is compiled for the three targets and sizeof/_Alignof/every offsetof/every "
        "bit-field image compared with TLC's numbers. enums: every enumerator list of <= 2 (thorough 3) over values next to the "
        "bounds of char/short/int/long (+ implicit successors, u suffix), plain and 11 fixed underlying types, plus simulated lists "
        "of <= 6. non-trivial = aggregate with >= 2 members / enum with >= 2 enumerators or fixed type; counted per target")
    objdir = vlib.build("plain")
    res = tlc_phase(ctx)
    cases = emit_cases(ctx, res)
    batches = flow_a_aggregates(ctx, objdir, cases)
    flow_a_huge(ctx, objdir, res)
    flow_a_enums(ctx, objdir, res)
    unsupported_probes(ctx, objdir)
    flow_b(ctx, batches)
    ctx.assumptions += [
        "reference layouts: clang 14 --target={x86_64,aarch64,riscv64}-linux-gnu and gcc 12 (host) are the platform compilers",
        "aligned attribute, packed bit-fields, packed unions are rejected by cproc with a diagnostic and therefore not laid out",
        "long double members only through sizeof/offsetof (no code generation)",
    ]


def replay(ctx, path):
    rec = json.load(open(path))
    case = rec["case"]
    objdir = vlib.build("plain")
    rc, out, err = vlib.cproc(objdir, case["source"], case["target"])
    print("key      :", rec["key"])
    print("target   :", case["target"])
    print("source   :\n" + case["source"])
    print("expected :", case.get("expected(size,align,offsets,bit runs)") or case.get("expected [size, align, signed, compat int/uint/long/ulong/llong/ullong]"))
    print("cproc rc :", rc, err.strip()[:300])
    print(out[:3000])
    return 0
