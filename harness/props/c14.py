"""C14 — character and string literals denote the standard-mandated values.

Oracle: spec/Lit.tla.  TLC checks that the implementation-shaped model with every deviation
switched off refines the declarative Decl() on exhaustive case families, and emits for every
case (exhaustive families, then random literals under -simulate) a VCASE with the literal's source
bytes, Decl's verdict (element type, size, count, image bytes | reject | unspecified) and the
verdict of the model with the known deviations on.  Flow A: each case is rendered to C, compiled by
the real cproc-qbe for its target, the data definitions decoded with ilparse and compared.
gcc (host) and clang --target audit Decl itself; a disagreement is a MachineryError.

Python here is glue: rendering bytes, running compilers, comparing projections.  It holds no
encoder/decoder; every expected value comes out of TLC.
"""
import json, os, re, subprocess
import vlib, ilparse

CTYPE = {"char": "char", "uchar": "unsigned char", "ushort": "unsigned short", "uint": "unsigned int", "int": "int"}
# _Generic probe: association index -> spec type name (0 = none of them)
PROBE = ["char", "uchar", "ushort", "uint", "int", "schar", "short", "long", "ulong", "llong", "ullong"]
PROBE_C = ["char", "unsigned char", "unsigned short", "unsigned int", "int", "signed char", "short", "long",
           "unsigned long", "long long", "unsigned long long"]
DEFAULT_T = {"": "char", "u8": "char", "u": "unsigned short", "U": "unsigned int", "L": None}
WCHAR_DECL = {"x86_64-sysv": "int", "aarch64": "unsigned int", "riscv64": "int"}   # only used to *declare* the array of a rejected/unspecified case


def lit_bytes(case):
    q = b'"' if case["ctx"] == "str" else b"'"
    return b" ".join(p["pfx"].encode() + q + bytes(p["body"]) + q for p in case["parts"])


def result_prefix(case):
    for p in case["parts"]:
        if p["pfx"]:
            return p["pfx"]
    return ""


def render(case, k):
    """C declarations observing one case; k makes the names unique inside a translation unit."""
    lit = lit_bytes(case)
    d = case["decl"]
    if case["ctx"] == "str":
        if d["o"] in ("ok", "okrej"):
            t = CTYPE[sorted(d["tys"])[0]]
        else:
            t = DEFAULT_T[result_prefix(case)] or WCHAR_DECL[case["targ"]]
        t = t.encode()
        alen, stor = case.get("alen", -1), case.get("stor", "static")
        dim = b"" if alen < 0 else b"%d" % alen
        gen = b", ".join(("%s*:%d" % (c, i + 1)).encode() for i, c in enumerate(PROBE_C))
        probes = b"unsigned long m%d = sizeof %s;\nint g%d = _Generic(%s, %s, default:0);\n" % (k, lit, k, lit, gen)
        if stor == "auto":       # automatic object: observed through the stores of the function that initialises it
            return b"void f%d(void) { %s s[%s] = %s; }\n" % (k, t, dim, lit) + probes
        if stor == "member":     # array member followed by another member of the same element type
            return (b"struct { %s a[%s]; %s b; } s%d = { %s, %d };\nunsigned long n%d = sizeof s%d;\n"
                    % (t, dim, t, k, lit, MEMBER_VAL, k, k)) + probes
        return b"%s s%d[%s] = %s;\nunsigned long n%d = sizeof s%d;\n" % (t, k, dim, lit, k, k) + probes
    gen = b", ".join(("%s:%d" % (c, i + 1)).encode() for i, c in enumerate(PROBE_C))
    return (b"long long v%d = %s;\nint c%d = %s;\nint g%d = _Generic(%s, %s, default:0);\n" % (k, lit, k, lit, k, lit, gen))


MEMBER_VAL = 90          # Lit.tla: MemberVal (only rendered; the expected image comes from TLC)
_STORE = {"storeb": 1, "storeh": 2, "storew": 4, "storel": 8}


def auto_image(fn):
    """Bytes an initialising function writes into its single stack object: alloc / add base,const / store const,addr only.
    Returns (alloc size, list of bytes with None where nothing was stored)."""
    base, size, addr, img = None, None, {}, None
    for b in fn["blocks"]:
        if b["phi"]:
            raise KeyError("phi")
        for i in b["insts"]:
            op, a = i["op"], i.get("args", [])
            if op in ("alloc4", "alloc8", "alloc16"):
                if base is not None or a[0]["t"] != "int":
                    raise KeyError("second alloc")
                base, size = i["res"], a[0]["v"]
                addr[base] = 0
                img = [None] * size
            elif op == "add" and a[0]["t"] == "tmp" and a[0]["n"] in addr and a[1]["t"] == "int":
                addr[i["res"]] = addr[a[0]["n"]] + a[1]["v"]
            elif op in _STORE and a[0]["t"] == "int" and a[1]["t"] == "tmp" and a[1]["n"] in addr:
                off, w = addr[a[1]["n"]], _STORE[op]
                if off + w > size:
                    raise KeyError("store outside the object at %d" % off)
                img[off:off + w] = list((a[0]["v"] & ((1 << 8 * w) - 1)).to_bytes(w, "little"))
            else:
                raise KeyError("unexpected instruction %s" % op)
    if img is None:
        raise KeyError("no alloc")
    return size, img


def _num(img):
    return int.from_bytes(bytes(img), "little")


def project(case, k, data, funcs=None):
    """Observed projection of case k from the parsed data definitions, in the shape of Decl's "ok" record."""
    def img(name):
        if name not in data:
            raise KeyError(name)
        b, rel = ilparse.data_image(data[name])
        if rel:
            raise vlib.MachineryError("unexpected relocation in %s" % name)
        return b
    g = _num(img("g%d" % k))
    ty = PROBE[g - 1] if 1 <= g <= len(PROBE) else "?"
    if case["ctx"] == "str":
        m = _num(img("m%d" % k))
        if case.get("stor") == "auto":
            n, s = auto_image(funcs["f%d" % k])
        else:
            s = img("s%d" % k)
            n = _num(img("n%d" % k))
        return {"o": "ok", "ty": ty, "bytes": s, "sizeof_obj": n, "sizeof_lit": m}
    v = img("v%d" % k)
    c = img("c%d" % k)
    return {"o": "ok", "ty": ty, "bytes": v, "int_bytes": c}


def _parse(out):
    mod = ilparse.parse(out)
    return ilparse.data_by_name(mod), {f["name"]: f for f in mod["funcs"]}


def same_as(obs, exp, case):
    """Does the observed projection equal an expected "ok" record of the spec (decl or impl)?"""
    if obs["o"] != "ok" or exp["o"] != "ok":
        return obs["o"] == exp["o"]
    if obs["ty"] not in exp["tys"] or obs["bytes"] != exp["bytes"]:
        return False
    if case["ctx"] == "str":
        return obs["sizeof_obj"] == exp["osize"] == len(obs["bytes"]) and obs["sizeof_lit"] == exp["n"] * exp["size"]
    return obs["int_bytes"] == exp["bytes"][:4]


def conforms(obs, d, case):
    """Conforms() of Lit.tla applied to the observed projection."""
    if obs["o"] not in ("ok", "reject"):
        return False                      # crash / timeout / malformed output is never allowed
    if d["o"] == "unspec":
        return True
    if d["o"] == "weak":
        return obs["o"] == "reject" or all(b == 0 for b in obs["bytes"][d["size"]:])
    if d["o"] == "reject":
        return obs["o"] == "reject"
    if d["o"] == "okrej":
        return obs["o"] == "reject" or same_as(obs, dict(d, o="ok"), case)
    return same_as(obs, d, case)


def classify(obs, d):
    if obs["o"] not in ("ok", "reject"):
        return "crash"
    if d["o"] == "reject":
        return "accepted-invalid-" + d.get("why", "").split("-")[0]
    if obs["o"] == "reject":
        return "rejected-valid"
    if d["o"] == "weak":
        return "value-outside-type"
    if obs["ty"] in d["tys"] and (obs.get("sizeof_obj") != d.get("osize", obs.get("sizeof_obj")) or len(obs["bytes"]) != len(d["bytes"])):
        return "wrong-object-size"
    if obs["ty"] not in d["tys"]:
        return "wrong-type"
    return "wrong-value"


def run_single(obj, case):
    rc, out, err = vlib.cproc(obj, render(case, 0), case["targ"])
    return _single_result(case, rc, out, err)


def _single_result(case, rc, out, err):
    if rc == 0:
        try:
            data, funcs = _parse(out)
            return project(case, 0, data, funcs)
        except (ilparse.ILSyntaxError, KeyError) as ex:
            return {"o": "malformed-output", "detail": str(ex)[:200]}
    if rc == 1 and "error:" in err:
        return {"o": "reject", "diag": err.strip().splitlines()[0][:160]}
    return {"o": "crash", "rc": rc, "stderr": err.strip()[-200:]}


_bulk_seq = [0]


def run_singles_bulk(ctx, obj, cases, shards=16):
    """One cproc-qbe process per case (a rejected case ends the compilation), driven by shell loops: spawning tens of
    thousands of processes from Python threads is several times slower.  Same binary, same stdin protocol as vlib.cproc."""
    _bulk_seq[0] += 1
    d = ctx.path("singles%d" % _bulk_seq[0])
    os.makedirs(d)
    for k, c in enumerate(cases):
        with open(os.path.join(d, "%d.c" % k), "wb") as f:
            f.write(render(c, 0))
    lists = [[] for _ in range(shards)]
    for k, c in enumerate(cases):
        lists[k % shards].append("%d %s\n" % (k, c["targ"]))
    script = ('cd "$1" || exit 9\nwhile read k t; do "$2" -t "$t" < $k.c > $k.out 2> $k.err; echo $? > $k.rc; done < "$3"\n')
    spath = os.path.join(d, "loop.sh")
    with open(spath, "w") as f:
        f.write(script)

    def shard(i):
        lp = os.path.join(d, "list%d" % i)
        with open(lp, "w") as f:
            f.write("".join(lists[i]))
        env = dict(os.environ)
        env.pop("CPROC_VERIF_TRACE", None)
        env.pop("CPROC_VERIF_TOKDUMP", None)
        vlib.run(["sh", spath, d, os.path.join(obj, "cproc-qbe"), lp], timeout=900, env=env)
    vlib.pmap(shard, range(shards), workers=shards)
    res = []
    for k, c in enumerate(cases):
        try:
            rc = int(open(os.path.join(d, "%d.rc" % k)).read())
            out = open(os.path.join(d, "%d.out" % k), "rb").read().decode("utf-8", "surrogateescape")
            err = open(os.path.join(d, "%d.err" % k), "rb").read().decode("utf-8", "replace")
        except (OSError, ValueError):
            res.append(run_single(obj, c))          # shard was cut short (hang): observe this one with a timeout
            continue
        if rc >= 128:
            rc = -(rc - 128)
        res.append(_single_result(c, rc, out, err))
    import shutil
    shutil.rmtree(d, ignore_errors=True)
    return res


def run_batch(obj, targ, batch):
    """batch: list of cases all expected to compile. Returns list of observed projections."""
    src = b"".join(render(c, k) for k, c in enumerate(batch))
    rc, out, err = vlib.cproc(obj, src, targ, timeout=60)
    if rc == 0:
        try:
            data, funcs = _parse(out)
            return [project(c, k, data, funcs) for k, c in enumerate(batch)]
        except (ilparse.ILSyntaxError, KeyError):
            pass
    return [run_single(obj, c) for c in batch]


def observe_all(ctx, obj, cases, batch_size=120):
    """Observed projection for every case (same order)."""
    obs = [None] * len(cases)
    jobs, singles = [], []
    by_t = {}
    for i, c in enumerate(cases):
        if c["decl"]["o"] == "ok" and c["impl"]["o"] == "ok":
            by_t.setdefault(c["targ"], []).append(i)
        else:
            singles.append(i)
    if ctx.quick:
        # quick tier: a not-accepted literal whose verdicts are the same on every target is replayed on x86_64-sysv always and
        # on the other two targets for one literal in three (TLC still checks all of them; thorough replays all)
        same = {}
        for i in singles:
            c = cases[i]
            same.setdefault((c["ctx"], lit_bytes(c)), set()).add(vlib.canon([c["decl"], c["impl"]]))
        singles = [i for i in singles if cases[i]["targ"] == vlib.TARGETS[0] or len(same[(cases[i]["ctx"], lit_bytes(cases[i]))]) > 1
                   or int(vlib.sha(lit_bytes(cases[i])), 16) % 3 == 0]
    for t, idx in by_t.items():
        for a in range(0, len(idx), batch_size):
            jobs.append((t, idx[a:a + batch_size]))
    for (t, idx), res in zip(jobs, vlib.pmap(lambda j: run_batch(obj, j[0], [cases[i] for i in j[1]]), jobs, workers=16)):
        for i, o in zip(idx, res):
            obs[i] = o
    for i, o in zip(singles, run_singles_bulk(ctx, obj, [cases[i] for i in singles])):
        obs[i] = o
    return obs


def target_probe(ctx, obj):
    """targ.c's per-target facts observed directly ((char)-1 < 0, signedness and size of the type of L'a'), next to their
    indirect observation through '\\xff' and L'\\xffffffff' (which was blind to char signedness before fix 1ef9a15).
    Expected values are the spec's CharSigned/WcharSigned as recovered from its verdicts on '\\xFF' and L'\\xFFFFFFFF'."""
    src = b"int cs = (char)-1 < 0;\nint ws = (typeof(L'a'))-1 < 0;\nint wz = sizeof(L'a');\n"
    for t in vlib.TARGETS:
        rc, out, err = vlib.cproc(obj, src, t)
        got = None
        if rc == 0:
            data = ilparse.data_by_name(ilparse.parse(out))
            got = {k: _num(ilparse.data_image(data[k])[0]) for k in ("cs", "ws", "wz")}
        exp = {"cs": int(_CHAR_SIGNED[t]), "ws": int(_WCHAR_SIGNED[t]), "wz": 4}
        ctx.count("targ-probe-" + t)
        if got != exp:
            ctx.violation("targ:%s:char-wchar-signedness" % t, "target %s: expected %s observed %s" % (t, exp, got),
                          {"targ": t, "source": src.decode(), "expected": exp, "observed": got})


def sanitizer_pass(ctx, cases, obs):
    """The accepted cases once more through the ASan+UBSan build (stringconcat sizes its buffer from strlen of the tokens;
    decodechar/utf8dec read ahead): the projection must be the same and no sanitizer report may appear."""
    san = private_build(ctx, "asan")
    idx = [i for i, c in enumerate(cases) if c["decl"]["o"] == "ok" and c["impl"]["o"] == "ok" and obs[i] and obs[i]["o"] == "ok"]
    if ctx.quick:
        idx = idx[::2]                     # quick tier: every other accepted case
    by_t = {}
    for i in idx:
        by_t.setdefault(cases[i]["targ"], []).append(i)
    jobs = [(t, ix[a:a + 400]) for t, ix in by_t.items() for a in range(0, len(ix), 400)]
    n = 0
    for (t, ix), res in zip(jobs, vlib.pmap(lambda j: run_batch(san, j[0], [cases[i] for i in j[1]]), jobs, workers=8)):
        for i, o in zip(ix, res):
            n += 1
            if o != obs[i]:
                c = cases[i]
                ctx.violation("lit:%s:%s:sanitizer" % (c["ctx"], result_prefix(c) or "plain"),
                              "sanitizer build disagrees on %r (%s): %s" % (lit_bytes(c), c["targ"], json.dumps(o)[:300]), case_view(c, o))
    ctx.cov["sanitizer_cases"] = ctx.cov.get("sanitizer_cases", 0) + n


def case_key(c):
    return (c["ctx"], c["targ"], lit_bytes(c), c.get("alen", -1), c.get("stor", "static"))


def nontrivial(case):
    return (case["decl"]["o"] != "ok" or len(case["parts"]) > 1 or case.get("alen", -1) >= 0 or
            any(b >= 0x80 or b == 92 for p in case["parts"] for b in p["body"]))


def case_view(case, obs=None):
    v = {"ctx": case["ctx"], "targ": case["targ"], "source": lit_bytes(case).decode("latin-1"),
         "source_bytes": list(lit_bytes(case)), "expected": case["decl"], "model_with_deviations": case["impl"],
         "fired": case["fired"], "parts": case["parts"], "alen": case.get("alen", -1), "stor": case.get("stor", "static"),
         "rendered": render(case, 0).decode("latin-1")}
    if obs is not None:
        v["observed"] = obs
    return v


def judge(ctx, cases, obs, stats):
    for c, o in zip(cases, obs):
        if o is None:
            stats["not-replayed(quick)"] = stats.get("not-replayed(quick)", 0) + 1
            continue
        ctx.count(vlib.sha(repr(case_key(c))), nontrivial=nontrivial(c))
        stats[c["decl"]["o"]] = stats.get(c["decl"]["o"], 0) + 1
        if conforms(o, c["decl"], c):
            continue
        pfx = result_prefix(c)
        explained = (o["o"] == "crash" and o.get("rc") == -6 and c["impl"]["o"] == "abort") or \
                    (o["o"] in ("ok", "reject") and c["impl"]["o"] in ("ok", "reject") and same_as(o, c["impl"], c))
        what = "%s %s on %s: expected %s, observed %s" % (
            c["ctx"], lit_bytes(c).decode("latin-1").encode("unicode_escape").decode(), c["targ"],
            json.dumps(c["decl"])[:200], json.dumps(o)[:200])
        if explained and c["fired"]:
            for dev in sorted(c["fired"]):
                stats["dev:" + dev] = stats.get("dev:" + dev, 0) + 1
                ctx.violation("dev:" + dev, what, case_view(c, o))
        else:
            key = "lit:%s:%s:%s" % (c["ctx"] if c.get("alen", -1) < 0 else "arrayinit-" + c.get("stor", "static"),
                                    pfx or "plain", classify(o, c["decl"]))
            if not explained:
                key += ":unmodelled"
            ctx.violation(key, what, case_view(c, o))


# --------------------------------------------------------------------------------------------
# Audit of the declarative side against gcc (host) and clang --target.  Never a VIOLATION.
CLANG_T = {"x86_64-sysv": "x86_64-linux-gnu", "aarch64": "aarch64-linux-gnu", "riscv64": "riscv64-linux-gnu"}
GEN_STR = ", ".join("%s*:%d" % (c, i + 1) for i, c in enumerate(PROBE_C)).encode()
GEN_CHR = ", ".join("%s:%d" % (c, i + 1) for i, c in enumerate(PROBE_C)).encode()


def _signed(bs):
    return int.from_bytes(bytes(bs), "little", signed=True)


def _tyids(d):
    return [PROBE.index(t) + 1 for t in d["tys"]]


def gcc_dump(ctx, cases, tag):
    """Compile+run one host program printing size/type/bytes of every (ok) case. Returns {k: (g, bytes)} or None if gcc rejects."""
    signed = CharSignedFlag(cases[0]["targ"])
    src = [b"#include <stdio.h>\n"]
    for k, c in enumerate(cases):
        lit = lit_bytes(c)
        if c["ctx"] == "str":
            t = CTYPE[c["decl"]["tys"][0]].encode()
            dim = b"" if c.get("alen", -1) < 0 else b"%d" % c["alen"]
            if c.get("stor") == "member":
                src.append(b"static const struct { %s a[%s]; %s b; } s%d[1] = { { %s, %d } };\n" % (t, dim, t, k, lit, MEMBER_VAL))
            else:                                   # automatic objects have the same value as static ones (6.7.9)
                src.append(b"static const %s s%d[%s] = %s;\n" % (t, k, dim, lit))
        else:
            src.append(b"static const long long s%d[1] = { %s };\n" % (k, lit))
    src.append(b"static const struct { const void *p; unsigned long n; int g; } tab[] = {\n")
    for k, c in enumerate(cases):
        gen = GEN_STR if c["ctx"] == "str" else GEN_CHR
        src.append(b"{ s%d, sizeof s%d, _Generic(%s, %s, default:0) },\n" % (k, k, lit_bytes(c), gen))
    src.append(b"};\nint main(void) { for (unsigned i = 0; i < sizeof tab / sizeof tab[0]; ++i) { printf(\"%u %d \", i, tab[i].g);"
               b" for (unsigned long j = 0; j < tab[i].n; ++j) printf(\"%02x\", ((const unsigned char *)tab[i].p)[j]); printf(\"\\n\"); } return 0; }\n")
    cpath, exe = ctx.path("aud_%s.c" % tag), ctx.path("aud_%s" % tag)
    with open(cpath, "wb") as f:
        f.write(b"".join(src))
    rc, out, err = vlib.run(["gcc", "-std=c2x", "-pedantic-errors", "-w", "-O0", signed, "-o", exe, cpath], timeout=600)
    if rc != 0:
        return None, err.decode("latin-1")
    rc, out, err = vlib.run([exe], timeout=120)
    if rc != 0:
        raise vlib.MachineryError("gcc audit program failed rc=%s" % rc)
    res = {}
    for ln in out.decode().splitlines():
        k, g, hx = (ln.split(" ") + [""])[:3]
        res[int(k)] = (int(g), list(bytes.fromhex(hx)))
    return res, ""


def CharSignedFlag(targ):
    # which gcc switch reproduces the target's plain-char signedness (read from the spec's own verdicts, see audit_targets)
    return "-fsigned-char" if _CHAR_SIGNED[targ] else "-funsigned-char"


_CHAR_SIGNED = {}
_WCHAR_SIGNED = {}


def audit_targets(ctx, cases):
    """Target facts as the *spec* states them, recovered from its verdicts ('\xff' and L'\xffffffff'), audited with clang."""
    for c in cases:
        if c["ctx"] == "chr" and c["decl"]["o"] == "ok":
            body, pfx = bytes(c["parts"][0]["body"]), c["parts"][0]["pfx"]
            if pfx == "" and body == b"\\xFF":
                _CHAR_SIGNED[c["targ"]] = _signed(c["decl"]["bytes"]) < 0
            if pfx == "L" and body == b"\\xFFFFFFFF":
                _WCHAR_SIGNED[c["targ"]] = _signed(c["decl"]["bytes"]) < 0
    for t in vlib.TARGETS:
        if t not in _CHAR_SIGNED or t not in _WCHAR_SIGNED:
            raise vlib.MachineryError("exhaustive families lack the signedness probes for %s" % t)
        src = ("_Static_assert(((char)-1 < 0) == %d, \"char\");\n_Static_assert(((__WCHAR_TYPE__)-1 < 0) == %d, \"wchar\");\n"
               "_Static_assert(sizeof(__WCHAR_TYPE__) == 4 && sizeof(__CHAR16_TYPE__) == 2 && sizeof(__CHAR32_TYPE__) == 4, \"sizes\");\n"
               "_Static_assert(_Generic((__CHAR16_TYPE__)0, unsigned short:1, default:0) && _Generic((__CHAR32_TYPE__)0, unsigned int:1, default:0), \"types\");\n"
               % (_CHAR_SIGNED[t], _WCHAR_SIGNED[t]))
        rc, out, err = vlib.run(["clang", "--target=" + CLANG_T[t], "-std=c11", "-fsyntax-only", "-x", "c", "-"], stdin=src.encode())
        if rc != 0:
            raise vlib.MachineryError("SPEC-AUDIT: Lit.tla target facts for %s disagree with clang: %s" % (t, err.decode()[:400]))


def audit_ok_gcc(ctx, cases):
    groups = {}
    seen = set()
    for c in cases:
        if c["decl"]["o"] != "ok":
            continue
        rp = result_prefix(c)
        if rp == "L" and not _WCHAR_SIGNED[c["targ"]]:
            continue                                   # host gcc's wchar_t is signed: left to clang --target
        flag = CharSignedFlag(c["targ"])
        key = (flag, c["ctx"], lit_bytes(c), c.get("alen", -1), c.get("stor", "static") == "member")
        if key in seen:
            continue
        seen.add(key)
        groups.setdefault(flag, []).append(c)
    jobs = []
    for flag, cs in groups.items():
        for a in range(0, len(cs), 2500):
            jobs.append(cs[a:a + 2500])
    n = 0

    def do(args):
        i, chunk = args
        return gcc_dump(ctx, chunk, "g%d" % i)
    for chunk, (res, err) in zip(jobs, vlib.pmap(do, list(enumerate(jobs)), workers=8)):
        if res is None:
            raise vlib.MachineryError("SPEC-AUDIT: gcc rejects a literal Lit.tla accepts:\n" + err[:1500])
        for k, c in enumerate(chunk):
            g, bs = res[k]
            d = c["decl"]
            if g not in _tyids(d) or bs != d["bytes"]:
                raise vlib.MachineryError("SPEC-AUDIT: gcc disagrees with Lit.tla on %r (%s): gcc type#%d bytes %s, spec %s" % (
                    lit_bytes(c), c["targ"], g, bs, json.dumps(d)))
            n += 1
    return n


def audit_ok_clang(ctx, cases):
    by_t = {}
    for c in cases:
        if c["decl"]["o"] != "ok":
            continue
        if c["ctx"] == "chr" and c["parts"][0]["pfx"] == "u8":
            continue                                   # clang 14 has no u8 character constants
        by_t.setdefault(c["targ"], []).append(c)
    jobs = []
    for t, cs in by_t.items():
        for a in range(0, len(cs), 4000):
            jobs.append((t, cs[a:a + 4000]))

    def do(job):
        t, cs = job
        src = []
        for k, c in enumerate(cs):
            d = c["decl"]
            lit = lit_bytes(c)
            ids = b" || ".join(b"_Generic(%s, %s, default:0) == %d" % (lit, GEN_STR if c["ctx"] == "str" else GEN_CHR, i) for i in _tyids(d))
            if c["ctx"] == "str":
                src.append(b"_Static_assert(sizeof(%s) == %d && (%s), \"case%d\");\n" % (lit, d["n"] * d["size"], ids, k))
            else:
                src.append(b"_Static_assert((long long)(%s) == %dLL && (%s), \"case%d\");\n" % (lit, _signed(d["bytes"]), ids, k))
        rc, out, err = vlib.run(["clang", "--target=" + CLANG_T[t], "-std=c2x", "-fsyntax-only", "-w", "-ferror-limit=20", "-x", "c", "-"],
                                stdin=b"".join(src), timeout=600)
        return rc, err.decode("latin-1")
    n = 0
    for (t, cs), (rc, err) in zip(jobs, vlib.pmap(do, jobs, workers=8)):
        if rc != 0:
            m = re.search(r'"case(\d+)"', err)
            bad = cs[int(m.group(1))] if m else None
            raise vlib.MachineryError("SPEC-AUDIT: clang --target=%s disagrees with Lit.tla on %r: spec %s\n%s" % (
                CLANG_T[t], lit_bytes(bad) if bad else None, json.dumps(bad["decl"]) if bad else None, err[:800]))
        n += len(cs)
    return n


# classes of Decl-rejected literals on which a reference compiler is *not* an authority, with the reason
def audit_exception(c, who):
    why = c["decl"].get("why")
    rp = result_prefix(c)
    if why == "utf8-beyond" and who == "gcc":
        return "gcc's reader still implements the 31-bit UTF-8 of RFC 2279 and accepts values above U+10FFFF"
    if why in ("utf8", "utf8-beyond") and (rp in ("", "u8") or who == "clang"):
        # neither C11 nor gcc/clang constrain malformed UTF-8 in narrow literals (bytes are copied; clang only warns, also in
        # wide strings where it substitutes); the *property* demands rejection.  gcc does reject it in u/U/L literals.
        return "malformed UTF-8 is passed through by the reference compiler"
    if c["ctx"] == "chr" and c["parts"][0]["pfx"] == "u8" and who == "clang":
        return "clang 14 has no u8 character constants"
    return None


def audit_reject(ctx, cases, limit):
    pool, seen = [], set()
    for c in cases:
        if c["decl"]["o"] != "reject":
            continue
        key = (c["ctx"], lit_bytes(c))
        if key in seen:
            continue
        seen.add(key)
        pool.append(c)
    if len(pool) > limit:
        # stratified: keep every (why, ctx, prefix) class represented
        by = {}
        for c in pool:
            by.setdefault((c["decl"]["why"], c["ctx"], result_prefix(c)), []).append(c)
        pick = []
        per = max(1, limit // len(by))
        for k in sorted(by):
            ctx.rng.shuffle(by[k])
            pick += by[k][:per]
        pool = pick
    jobs = [(c, who) for c in pool for who in ("gcc", "clang") if not audit_exception(c, who)]

    def do(job):
        c, who = job
        src = render(c, 0)
        if who == "gcc":
            cmd = ["gcc", "-std=c2x", "-pedantic-errors", "-fsyntax-only", "-x", "c", "-"]
        else:
            cmd = ["clang", "--target=" + CLANG_T[c["targ"]], "-std=c2x", "-pedantic-errors", "-fsyntax-only", "-x", "c", "-"]
        rc, out, err = vlib.run(cmd, stdin=src, timeout=60)
        return rc
    for (c, who), rc in zip(jobs, vlib.pmap(do, jobs, workers=16)):
        if rc == 0:
            raise vlib.MachineryError("SPEC-AUDIT: %s accepts %r which Lit.tla rejects (%s)" % (who, lit_bytes(c), c["decl"]["why"]))
    return len(jobs)


def audit(ctx, cases, reject_limit):
    a = ctx.cov.setdefault("audit", {"gcc_ok_cases": 0, "clang_ok_cases": 0, "reject_runs": 0})
    a["gcc_ok_cases"] += audit_ok_gcc(ctx, cases)
    a["clang_ok_cases"] += audit_ok_clang(ctx, cases)
    a["reject_runs"] += audit_reject(ctx, cases, reject_limit)


def load_cases(r):
    cases = [json.loads(v) for v in r.vcases]
    for c in cases:
        for rec in (c["decl"], c["impl"]):
            if "tys" in rec:
                rec["tys"] = sorted(rec["tys"])
        c["fired"] = sorted(c["fired"])
    return cases


# --------------------------------------------------------------------------------------------
# Several literals in one translation unit, used as expressions (string pool of decl.c stringdecl).
POSITIONS = ("init", "ret", "arg")


def pool_render(group, rot):
    """group: accepted single-literal str cases of one target.  Literal i is used as a file-scope pointer initializer, a
    returned value or a call argument (rotating), so each is materialised as an anonymous static object."""
    src = [b"void h(const void *);\n"]
    for i, c in enumerate(group):
        lit, pos = lit_bytes(c), POSITIONS[(i + rot) % 3]
        if pos == "init":
            src.append(b"const void *p%d = %s;\n" % (i, lit))
        elif pos == "ret":
            src.append(b"const void *r%d(void) { return %s; }\n" % (i, lit))
        else:
            src.append(b"void a%d(void) { h(%s); }\n" % (i, lit))
    return b"".join(src)


def pool_observe(obj, targ, group, rot):
    """For every literal of the group: the bytes of the data definition reached through the symbol its expression evaluates to."""
    rc, out, err = vlib.cproc(obj, pool_render(group, rot), targ, timeout=60)
    if rc != 0:
        o = {"o": "reject", "diag": err.strip()[:160]} if rc == 1 and "error:" in err else {"o": "crash", "rc": rc, "stderr": err.strip()[-200:]}
        return [o] * len(group)
    try:
        data, funcs = _parse(out)
    except ilparse.ILSyntaxError as ex:
        return [{"o": "malformed-output", "detail": str(ex)[:200]}] * len(group)
    res = []
    for i, c in enumerate(group):
        pos = POSITIONS[(i + rot) % 3]
        try:
            if pos == "init":
                b, rel = ilparse.data_image(data["p%d" % i])
                if len(rel) != 1 or rel[0][0] != 0 or rel[0][3] != 0:
                    raise KeyError("pointer initializer is not one plain address: %r" % (rel,))
                sym = rel[0][2]
            else:
                fn = funcs[("r%d" if pos == "ret" else "a%d") % i]
                insts = [x for blk in fn["blocks"] for x in blk["insts"]]
                jumps = [blk["jump"] for blk in fn["blocks"] if blk["jump"]]
                if pos == "ret":
                    v = jumps[-1]["arg"] if len(jumps) == 1 and not insts else None
                else:
                    v = insts[0]["cargs"][0]["val"] if len(insts) == 1 and insts[0]["op"] == "call" and len(insts[0]["cargs"]) == 1 else None
                if not v or v["t"] != "glob":
                    raise KeyError("literal does not evaluate to the address of an object")
                sym = v["n"]
            b, rel = ilparse.data_image(data[sym])
            if rel:
                raise KeyError("relocation in string data")
            res.append({"o": "ok", "pos": pos, "sym": sym, "bytes": b})
        except (KeyError, IndexError, TypeError) as ex:
            res.append({"o": "malformed-output", "pos": pos, "detail": str(ex)[:200]})
    return res


def pool_groups(ctx, cases, exhaustive):
    """Glue only: which already-judged literals share a translation unit.  Exhaustive family "pool": per (target, prefix,
    element count) every ordered pair and one unit with all of them plus the first one again (identical literals may share
    an object); per (target, body) all five prefixes together.  Random literals: consecutive triples per target."""
    ok = [c for c in cases if c["ctx"] == "str" and len(c["parts"]) == 1 and c.get("alen", -1) < 0
          and c["decl"]["o"] == "ok" and c["impl"]["o"] == "ok" and c["impl"]["bytes"] == c["decl"]["bytes"]]
    groups = []
    if exhaustive:
        ok = [c for c in ok if c.get("fam") == "pool"]
        cls, bod = {}, {}
        for c in ok:
            cls.setdefault((c["targ"], c["parts"][0]["pfx"], c["decl"]["n"]), []).append(c)
            bod.setdefault((c["targ"], tuple(c["parts"][0]["body"])), []).append(c)
        for k in sorted(cls):
            m = cls[k]
            for a in m:
                for b in m:
                    if a is not b:
                        groups.append([a, b])
            if len(m) >= 2:
                groups.append((m + [m[0]])[:4] if len(m) < 4 else m[:3] + [m[0]])
                if len(m) > 3:
                    groups.append(m[-3:] + [m[-1]])
        for k in sorted(bod):
            groups.append(bod[k])
    else:
        by_t = {}
        for c in ok:
            by_t.setdefault(c["targ"], []).append(c)
        for t in sorted(by_t):
            m = by_t[t]
            groups += [m[a:a + 3] for a in range(0, len(m) - 1, 3)]
    return [(g, i % 3) for i, g in enumerate(groups) if len(g) >= 2]


def pool_pass(ctx, obj, cases, stats, exhaustive):
    groups = pool_groups(ctx, cases, exhaustive)
    n = 0
    for (g, rot), res in zip(groups, vlib.pmap(lambda j: pool_observe(obj, j[0][0]["targ"], j[0], j[1]), groups, workers=16)):
        for i, (c, o) in enumerate(zip(g, res)):
            n += 1
            ctx.count(vlib.sha(repr(("pool", rot, i, [case_key(x) for x in g]))), nontrivial=True)
            if o["o"] == "ok" and o["bytes"] == c["decl"]["bytes"]:
                continue
            cl = "wrong-value" if o["o"] == "ok" else "rejected-valid" if o["o"] == "reject" else "crash"
            unit = pool_render(g, rot).decode("latin-1")
            ctx.violation("lit:pool-%s:%s:%s" % (POSITIONS[(i + rot) % 3], result_prefix(c) or "plain", cl),
                          "literal %d of %s on %s: expected units %s, observed %s" % (
                              i, unit.encode("unicode_escape").decode()[:300], c["targ"], c["decl"]["bytes"], json.dumps(o)[:200]),
                          dict(case_view(c), pool_unit=unit, pool_index=i, observed=o))
    stats["pool-literals"] = stats.get("pool-literals", 0) + n
    ctx.cov["pool_units"] = ctx.cov.get("pool_units", 0) + len(groups)
    ctx.validated(n)
    return n


FAMILIES = ["byte", "utf8", "oct", "hex", "esc", "cat", "arr", "pool"]
WHYS = ["utf8", "utf8-beyond", "escape", "escape-range", "prefix-mix", "delimiter", "newline", "empty", "cp-range",
        "nul-or-cr-in-source", "wide-prefix-mix", "escape-in-unprefixed-part", "multi-char", "multibyte-plain", "ucn-not-modelled"]
NCHUNKS = len(FAMILIES) * 3 * 5


def spec_devs(cfg):
    txt = open(os.path.join(vlib.SPEC, cfg)).read()      # os.path.join keeps an absolute cfg path
    return re.findall(r'"(\w+)"', re.search(r"Devs\s*=\s*\{([^}]*)\}", txt).group(1))


def vacuity_guard(ctx, cases, cfg):
    """-coverage is unusable on this spec (three orders of magnitude slower), so non-vacuity is established from the emitted
    behaviours: every chunk of every family was enumerated, every verdict class and reject reason occurs, and every deviation
    that is switched on changes the model's answer somewhere in the exhaustive families."""
    chunks = {(c["fam"], c["targ"], c["parts"][0]["pfx"]) for c in cases}
    missing = [(f, t, p) for f in FAMILIES for t in vlib.TARGETS for p in ("", "u8", "u", "U", "L") if (f, t, p) not in chunks]
    whys = {c["decl"].get("why") for c in cases}
    fired = {d for c in cases for d in c["fired"]}
    lacking = [w for w in WHYS if w not in whys] + [d for d in spec_devs(cfg) if d not in fired]
    kinds = {c["decl"]["o"] for c in cases}
    if missing or lacking or kinds != {"ok", "okrej", "reject", "unspec", "weak"}:
        raise vlib.MachineryError("vacuity guard: chunks never enumerated %s, classes never produced %s, verdicts %s" % (missing[:5], lacking, kinds))
    ctx.cov["untaken_actions"] = []
    ctx.cov["classes_seen"] = sorted(w for w in whys if w)


def private_build(ctx, flavour="plain"):
    """vlib.build's cache entry is evicted when somebody else rebuilds after /repo changed; keep our own copy of the binary."""
    import shutil
    for attempt in range(3):
        src = vlib.build(flavour)
        d = ctx.path("bin-" + flavour)
        os.makedirs(d, exist_ok=True)
        try:
            shutil.copy2(os.path.join(src, "cproc-qbe"), os.path.join(d, "cproc-qbe"))
            return d
        except OSError:
            continue
    raise vlib.MachineryError("could not obtain a build of cproc-qbe")


def run(ctx):
    obj = private_build(ctx)
    ctx.cov["rule"] = (
        "TLC enumerates Lit.tla's case families (all 256 single-byte constants/strings, boundary code points +-1 in every "
        "UTF-8 length incl. overlong/truncated/bad-continuation forms, octal escapes of 1-3 digits x followers 0 7 8 9 a, hex "
        "escapes of 1-12 digits x followers g G, simple and invalid escapes, all prefix pairs/triples in concatenations) x 5 "
        "prefixes x 3 targets, then random literals (-simulate); each case compiled by the real cproc-qbe and its data compared "
        "with Decl(). non-trivial = not accepted-plain-ASCII (has escape, non-ASCII byte, several parts or a non-ok verdict)")
    stats = {}
    cfg = "MC_Lit_quick.cfg" if ctx.quick else "MC_Lit_thorough.cfg"
    simcfg = "MC_Lit_sim.cfg"
    if "VERIF_C14_DEVS" in os.environ:
        # override the set of deviations switched on (comma separated, empty = none): what the check demands once the
        # corresponding defects are repaired.  Used to validate proposed patches on a scratch copy (VERIF_REPO).
        devs = [d for d in os.environ["VERIF_C14_DEVS"].split(",") if d]
        def derive(name):
            txt = open(os.path.join(vlib.SPEC, name)).read()
            txt = re.sub(r"Devs\s*=\s*\{[^}]*\}", "Devs = {%s}" % ", ".join('"%s"' % d for d in devs), txt)
            out = ctx.path(name)
            open(out, "w").write(txt)
            return out
        cfg, simcfg = derive(cfg), derive(simcfg)
    r = ctx.tlc_must_pass("Lit", cfg, workers=8 if ctx.quick else 16, timeout=1500)
    cases = load_cases(r)
    if len(cases) != r.distinct - NCHUNKS:
        raise vlib.MachineryError("expected one VCASE per case state: %d vs %d" % (len(cases), r.distinct - NCHUNKS))
    vacuity_guard(ctx, cases, cfg)
    audit_targets(ctx, cases)
    audit(ctx, cases, 400 if ctx.quick else 6000)
    target_probe(ctx, obj)
    obs = observe_all(ctx, obj, cases)
    judge(ctx, cases, obs, stats)
    sanitizer_pass(ctx, cases, obs)
    if pool_pass(ctx, obj, cases, stats, True) < 300:
        raise vlib.MachineryError("pool family: too few literals were grouped into multi-literal translation units")
    ctx.validated(sum(1 for o in obs if o is not None))
    for c, o in [x for x in zip(cases, obs) if x[1] is not None][::len(cases) // 5 + 1]:
        ctx.sample({"source": lit_bytes(c).decode("latin-1"), "targ": c["targ"], "expected": c["decl"], "observed": o})
    ctx.cov["exhaustive"] = True

    # random literals: TLC -simulate drives Lit.tla's generator (Mode = "sim").  Simulation workers of one TLC share the
    # random stream, so parallelism comes from several single-worker TLC processes with different seeds.
    procs, traces = (2, 10) if ctx.quick else (12, 50)
    seeds = [(ctx.seed * 1000 + i) & 0x7FFFFFFF for i in range(procs)]
    runs = vlib.pmap(lambda sd: ctx.tlc("Lit", simcfg, workers=1, simulate=traces, depth=51, seed=sd, timeout=1200), seeds, workers=8)
    rnd, seen = [], set()
    for r2 in runs:
        if not r2.ok:
            raise vlib.MachineryError("Lit.tla simulation rejected its own model (rc=%d):\n%s" % (r2.rc, r2.out[-3000:]))
        for c in load_cases(r2):
            key = case_key(c)
            if key not in seen:
                seen.add(key)
                rnd.append(c)
    if len(rnd) < 1000:
        raise vlib.MachineryError("random generator produced only %d distinct literals" % len(rnd))
    audit(ctx, rnd, 200 if ctx.quick else 3000)
    obs2 = observe_all(ctx, obj, rnd)
    judge(ctx, rnd, obs2, stats)
    sanitizer_pass(ctx, rnd, obs2)
    pool_pass(ctx, obj, rnd, stats, False)
    ctx.validated(sum(1 for o in obs2 if o is not None))
    ctx.cov["random_literals"] = len(rnd)
    for c, o in list(zip(rnd, obs2))[::len(rnd) // 2 + 1]:
        ctx.sample({"source": lit_bytes(c).decode("latin-1"), "targ": c["targ"], "expected": c["decl"], "observed": o})
    ctx.cov["verdicts"] = stats


def replay(ctx, path):
    rec = json.load(open(path))
    case = rec["case"]
    c = {"ctx": case["ctx"], "targ": case["targ"], "parts": case["parts"], "alen": case.get("alen", -1),
         "stor": case.get("stor", "static"), "decl": case["expected"],
         "impl": case["model_with_deviations"], "fired": case["fired"]}
    obj = private_build(ctx)
    o = run_single(obj, c)
    print("source  :", lit_bytes(c))
    print("expected:", json.dumps(c["decl"]))
    print("model   :", json.dumps(c["impl"]), "fired", c["fired"])
    print("observed:", json.dumps(o))
    return 0 if conforms(o, c["decl"], c) else 1
