"""C14 — character and string literals denote the standard-mandated values.

Oracle: spec/Lit.tla.  TLC checks that the implementation-shaped model with every deviation
switched off refines the declarative Decl() on exhaustive case families, and emits for every
case (exhaustive families, then random literals under -simulate) a VCASE with the literal's source
bytes, Decl's verdict (element type, size, count, image bytes | reject | unspecified) and the
verdict of the model with the known deviations on.  Flow A: each case is rendered to C, compiled by
the real cproc-qbe for its target, the data definitions decoded with ilparse and compared.
gcc (host) and clang --target audit Decl itself; a disagreement is a MachineryError.

Python here is glue: rendering bytes, running compilers, comparing projections.  It holds no
encoder/decoder; every expected value comes out of TLC.
"""
import json, os, re, subprocess
import vlib, ilparse

CTYPE = {"char": "char", "uchar": "unsigned char", "ushort": "unsigned short", "uint": "unsigned int", "int": "int"}
# _Generic probe: association index -> spec type name (0 = none of them)
PROBE = ["char", "uchar", "ushort", "uint", "int", "schar", "short", "long", "ulong", "llong", "ullong"]
PROBE_C = ["char", "unsigned char", "unsigned short", "unsigned int", "int", "signed char", "short", "long",
           "unsigned long", "long long", "unsigned long long"]
DEFAULT_T = {"": "char", "u8": "char", "u": "unsigned short", "U": "unsigned int", "L": None}
WCHAR_DECL = {"x86_64-sysv": "int", "aarch64": "unsigned int", "riscv64": "int"}   # only used to *declare* the array of a rejected/unspecified case


def lit_bytes(case):
    q = b'"' if case["ctx"] == "str" else b"'"
    return b" ".join(p["pfx"].encode() + q + bytes(p["body"]) + q for p in case["parts"])


def result_prefix(case):
    for p in case["parts"]:
        if p["pfx"]:
            return p["pfx"]
    return ""


def render(case, k):
    """C declarations observing one case; k makes the names unique inside a translation unit."""
    lit = lit_bytes(case)
    d = case["decl"]
    if case["ctx"] == "str":
        if d["o"] == "ok":
            t = CTYPE[sorted(d["tys"])[0]]
        else:
            t = DEFAULT_T[result_prefix(case)] or WCHAR_DECL[case["targ"]]
        gen = b", ".join(("%s*:%d" % (c, i + 1)).encode() for i, c in enumerate(PROBE_C))
        return (b"%s s%d[] = %s;\nunsigned long n%d = sizeof s%d;\nunsigned long m%d = sizeof %s;\n"
                b"int g%d = _Generic(%s, %s, default:0);\n" % (t.encode(), k, lit, k, k, k, lit, k, lit, gen))
    gen = b", ".join(("%s:%d" % (c, i + 1)).encode() for i, c in enumerate(PROBE_C))
    return (b"long long v%d = %s;\nint c%d = %s;\nint g%d = _Generic(%s, %s, default:0);\n" % (k, lit, k, lit, k, lit, gen))


def _num(img):
    return int.from_bytes(bytes(img), "little")


def project(case, k, data):
    """Observed projection of case k from the parsed data definitions, in the shape of Decl's "ok" record."""
    def img(name):
        if name not in data:
            raise KeyError(name)
        b, rel = ilparse.data_image(data[name])
        if rel:
            raise vlib.MachineryError("unexpected relocation in %s" % name)
        return b
    g = _num(img("g%d" % k))
    ty = PROBE[g - 1] if 1 <= g <= len(PROBE) else "?"
    if case["ctx"] == "str":
        s = img("s%d" % k)
        n = _num(img("n%d" % k))
        m = _num(img("m%d" % k))
        return {"o": "ok", "ty": ty, "bytes": s, "sizeof_obj": n, "sizeof_lit": m}
    v = img("v%d" % k)
    c = img("c%d" % k)
    return {"o": "ok", "ty": ty, "bytes": v, "int_bytes": c}


def same_as(obs, exp, case):
    """Does the observed projection equal an expected "ok" record of the spec (decl or impl)?"""
    if obs["o"] != "ok" or exp["o"] != "ok":
        return obs["o"] == exp["o"]
    if obs["ty"] not in exp["tys"] or obs["bytes"] != exp["bytes"]:
        return False
    if case["ctx"] == "str":
        return obs["sizeof_obj"] == exp["n"] * exp["size"] and obs["sizeof_lit"] == exp["n"] * exp["size"]
    return obs["int_bytes"] == exp["bytes"][:4]


def conforms(obs, d, case):
    """Conforms() of Lit.tla applied to the observed projection."""
    if obs["o"] not in ("ok", "reject"):
        return False                      # crash / timeout / malformed output is never allowed
    if d["o"] == "unspec":
        return True
    if d["o"] == "weak":
        return obs["o"] == "reject" or all(b == 0 for b in obs["bytes"][d["size"]:])
    if d["o"] == "reject":
        return obs["o"] == "reject"
    return same_as(obs, d, case)


def classify(obs, d):
    if obs["o"] not in ("ok", "reject"):
        return "crash"
    if d["o"] == "reject":
        return "accepted-invalid-" + d.get("why", "")
    if obs["o"] == "reject":
        return "rejected-valid"
    if d["o"] == "weak":
        return "value-outside-type"
    if obs["ty"] not in d["tys"]:
        return "wrong-type"
    return "wrong-value"


def run_single(obj, case):
    rc, out, err = vlib.cproc(obj, render(case, 0), case["targ"])
    if rc == 0:
        try:
            mod = ilparse.parse(out)
            return project(case, 0, ilparse.data_by_name(mod))
        except (ilparse.ILSyntaxError, KeyError) as ex:
            return {"o": "malformed-output", "detail": str(ex)[:200]}
    if rc == 1 and "error:" in err:
        return {"o": "reject", "diag": err.strip().splitlines()[0][:160] if err.strip() else ""}
    return {"o": "crash", "rc": rc, "stderr": err.strip()[-200:]}


def run_batch(obj, targ, batch):
    """batch: list of cases all expected to compile. Returns list of observed projections."""
    src = b"".join(render(c, k) for k, c in enumerate(batch))
    rc, out, err = vlib.cproc(obj, src, targ, timeout=60)
    if rc == 0:
        try:
            data = ilparse.data_by_name(ilparse.parse(out))
            return [project(c, k, data) for k, c in enumerate(batch)]
        except (ilparse.ILSyntaxError, KeyError):
            pass
    return [run_single(obj, c) for c in batch]


def observe_all(obj, cases, batch_size=120):
    """Observed projection for every case (same order)."""
    obs = [None] * len(cases)
    jobs = []
    by_t = {}
    for i, c in enumerate(cases):
        if c["decl"]["o"] == "ok" and c["impl"]["o"] == "ok":
            by_t.setdefault(c["targ"], []).append(i)
        else:
            jobs.append(("single", [i]))
    for t, idx in by_t.items():
        for a in range(0, len(idx), batch_size):
            jobs.append((t, idx[a:a + batch_size]))

    def do(job):
        kind, idx = job
        if kind == "single":
            return [run_single(obj, cases[idx[0]])]
        return run_batch(obj, kind, [cases[i] for i in idx])
    for (kind, idx), res in zip(jobs, vlib.pmap(do, jobs, workers=16)):
        for i, o in zip(idx, res):
            obs[i] = o
    return obs


def nontrivial(case):
    return (case["decl"]["o"] != "ok" or len(case["parts"]) > 1 or
            any(b >= 0x80 or b == 92 for p in case["parts"] for b in p["body"]))


def case_view(case, obs=None):
    v = {"ctx": case["ctx"], "targ": case["targ"], "source": lit_bytes(case).decode("latin-1"),
         "source_bytes": list(lit_bytes(case)), "expected": case["decl"], "model_with_deviations": case["impl"],
         "fired": case["fired"], "parts": case["parts"]}
    if obs is not None:
        v["observed"] = obs
    return v


def judge(ctx, cases, obs, stats):
    for c, o in zip(cases, obs):
        ctx.count(vlib.sha(lit_bytes(c) + c["targ"].encode() + c["ctx"].encode()), nontrivial=nontrivial(c))
        stats[c["decl"]["o"]] = stats.get(c["decl"]["o"], 0) + 1
        if conforms(o, c["decl"], c):
            continue
        pfx = result_prefix(c)
        explained = (o["o"] == "crash" and o.get("rc") == -6 and c["impl"]["o"] == "abort") or \
                    (o["o"] in ("ok", "reject") and c["impl"]["o"] in ("ok", "reject") and same_as(o, c["impl"], c))
        what = "%s %s on %s: expected %s, observed %s" % (
            c["ctx"], lit_bytes(c).decode("latin-1").encode("unicode_escape").decode(), c["targ"],
            json.dumps(c["decl"])[:200], json.dumps(o)[:200])
        if explained and c["fired"]:
            for dev in sorted(c["fired"]):
                stats["dev:" + dev] = stats.get("dev:" + dev, 0) + 1
                ctx.violation("dev:" + dev, what, case_view(c, o))
        else:
            key = "lit:%s:%s:%s" % (c["ctx"], pfx or "plain", classify(o, c["decl"]))
            if not explained:
                key += ":unmodelled"
            ctx.violation(key, what, case_view(c, o))


def load_cases(r):
    cases = [json.loads(v) for v in r.vcases]
    for c in cases:
        for rec in (c["decl"], c["impl"]):
            if "tys" in rec:
                rec["tys"] = sorted(rec["tys"])
        c["fired"] = sorted(c["fired"])
    return cases


def run(ctx):
    obj = vlib.build("plain")
    ctx.cov["rule"] = (
        "TLC enumerates Lit.tla's case families (all 256 single-byte constants/strings, boundary code points +-1 in every "
        "UTF-8 length incl. overlong/truncated/bad-continuation forms, octal escapes of 1-3 digits x followers 0 7 8 9 a, hex "
        "escapes of 1-12 digits x followers g G, simple and invalid escapes, all prefix pairs/triples in concatenations) x 5 "
        "prefixes x 3 targets, then random literals (-simulate); each case compiled by the real cproc-qbe and its data compared "
        "with Decl(). non-trivial = not accepted-plain-ASCII (has escape, non-ASCII byte, several parts or a non-ok verdict)")
    stats = {}
    cfg = "MC_Lit_quick.cfg" if ctx.quick else "MC_Lit_thorough.cfg"
    r = ctx.tlc_must_pass("Lit", cfg, workers=8 if ctx.quick else 16, timeout=1500)
    cases = load_cases(r)
    if len(cases) != r.distinct - 90:
        raise vlib.MachineryError("expected one VCASE per case state: %d vs %d" % (len(cases), r.distinct - 90))
    obs = observe_all(obj, cases)
    judge(ctx, cases, obs, stats)
    ctx.validated(len(cases))
    for c, o in list(zip(cases, obs))[::len(cases) // 5 + 1]:
        ctx.sample({"source": lit_bytes(c).decode("latin-1"), "targ": c["targ"], "expected": c["decl"], "observed": o})
    ctx.cov["verdicts"] = stats
    ctx.cov["exhaustive"] = True


def replay(ctx, path):
    rec = json.load(open(path))
    case = rec["case"]
    c = {"ctx": case["ctx"], "targ": case["targ"], "parts": case["parts"], "decl": case["expected"],
         "impl": case["model_with_deviations"], "fired": case["fired"]}
    obj = vlib.build("plain")
    o = run_single(obj, c)
    print("source  :", lit_bytes(c))
    print("expected:", json.dumps(c["decl"]))
    print("model   :", json.dumps(c["impl"]), "fired", c["fired"])
    print("observed:", json.dumps(o))
    return 0 if conforms(o, c["decl"], c) else 1
