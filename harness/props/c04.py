"""C04 - constant expressions fold to the value run-time evaluation would give, in every folding context.

spec/CArith.tla is the oracle:
  ConstEval (declarative C11 value/type of an arithmetic constant expression) and FoldModel (expr.c tree
  construction + eval.c folding on the 64-bit carrier, with the confirmed defects as named deviations).
design : TLC checks FoldModel (deviations off) => ConstEval over ALL operand values at scaled widths
         (MC_CArith_scaled*.cfg), NeverTraps included; each deviation alone must be exhibited as a counterexample
         (MC_CArith_dev_*.cfg); spec/WordTest.tla checks Word.tla.
flow A : TLC enumerates boundary cases at real widths (MC_CArith_real_*.cfg); each VCASE carries ConstEval's
         value/type and FoldModel's prediction (deviations on) for E and for the wrappers the contexts put around
         it.  Every case is rendered into every folding context (static / thread initializer, array bound,
         enumerator, case label, bit-field width, _Alignas, _Static_assert accepted and its negation rejected,
         constant condition of ?:, _Generic type) and compiled by the real cproc-qbe; the same expression with its
         operands passed as function arguments is executed through harness/il2c.py (run-time half).
audit  : gcc and clang evaluate the same _Static_asserts; disagreement with the spec => MachineryError.
flow B : hook H2 fold events from compiling /repo/test/*.c and every rendered unit, de-duplicated, judged by
         spec/Trace_Fold.tla.
Python renders, runs and compares projections; expected values come from TLC.
"""
import json, os, re, struct, subprocess, glob, collections
import vlib, ilparse, il2c

CT = {"bool": "_Bool", "char": "char", "schar": "signed char", "uchar": "unsigned char", "short": "short",
      "ushort": "unsigned short", "int": "int", "uint": "unsigned int", "long": "long", "ulong": "unsigned long",
      "llong": "long long", "ullong": "unsigned long long", "float": "float", "double": "double"}
GEN_ORDER = ["bool", "char", "schar", "uchar", "short", "ushort", "int", "uint", "long", "ulong", "llong", "ullong", "float", "double"]
GENERIC = ", ".join("%s: %d" % (CT[t], i + 1) for i, t in enumerate(GEN_ORDER)) + ", default: 0"
SUFFIX = {"int": "", "uint": "U", "long": "L", "ulong": "UL", "llong": "LL", "ullong": "ULL"}
LITBITS = {"int": 32, "long": 64, "llong": 64}
DEVS = ["LogicalReturnsOperand", "BoolCastTruncates", "FloatToUnsignedRejectsNeg", "FloatCondNotFolded",
        "UnevaluatedOperandFolded", "NoDivisionGuard", "CondSameTypeNoPromotion", "BareAddressMinusRejected", "SwapReassocClobbers"]
# Deviations whose defect has been repaired in /repo by a `fix:` commit: the implementation-shaped model then runs
# with that deviation switched off and the check demands the correct behaviour (README "Genuine defects").
# Development override: VERIF_C04_FIXED=Name,Name|all
FIXED = ["CondSameTypeNoPromotion",       # /repo ba99903
         "LogicalReturnsOperand",         # /repo 25f22ce
         "UnevaluatedOperandFolded",      # /repo 25f22ce (same hunk)
         "BoolCastTruncates",             # /repo 7730c0b
         "FloatToUnsignedRejectsNeg",     # /repo eb1de9a
         "FloatCondNotFolded",            # /repo 849e093
         "NoDivisionGuard",               # /repo 737afb8 (NaN range tests: 10582f3)
         "BareAddressMinusRejected"]      # /repo 95fba0e
# (SwapReassocClobbers: never switched on in a committed configuration, see notes)


def fixed_devs():
    e = os.environ.get("VERIF_C04_FIXED")
    if e is None:
        return list(FIXED)
    return list(DEVS) if e == "all" else [x for x in e.split(",") if x]


def cfg_for(ctx, cfg):
    """the committed configuration with the repaired deviations switched off (absolute path usable by TLC)"""
    fx = fixed_devs()
    if not fx:
        return cfg
    text = open(os.path.join(vlib.SPEC, cfg)).read()
    fam = os.environ.get("VERIF_C04_FAMILIES")          # development knob: restrict the case families of a flow A configuration
    if fam and "Inv_Emit" in text:
        text = re.sub(r"Families = \{[^}]*\}", "Families = {%s}" % ", ".join('"%s"' % x for x in fam.split(",")), text)
    for d in fx:
        text, n = re.subn(r"Dev_%s = TRUE" % d, "Dev_%s = FALSE" % d, text)
    out = ctx.path("fixed_" + cfg)
    with open(out, "w") as f:
        f.write(text)
    return out


ICE_CONTEXTS = ("array", "array_neg", "enum", "case", "casedup", "bitfield", "alignas", "sa_eq", "sa_ne", "sa_direct")
NEGATIVE = ("sa_ne", "casedup", "array_neg")          # contexts that must be rejected: one compilation each


# ---------------------------------------------------------------------------------------------
# rendering
def u64(b):
    return int.from_bytes(bytes(b), "little")


def as_int(t, b):
    """python integer of a typed carrier (sign-extended for signed types; only ulong/ullong use bit 63 as value)"""
    v = u64(b)
    if v >> 63 and t not in ("ulong", "ullong"):
        v -= 1 << 64
    return v


def int_literal(t, x):
    base = t if t in SUFFIX else "int"
    suf = SUFFIX[base]
    if x >= 0:
        s = "%d%s" % (x, suf)
    elif base in LITBITS and x == -(1 << (LITBITS[base] - 1)):
        s = "(-%d%s-1)" % (-x - 1, suf)
    else:
        s = "(-%d%s)" % (-x, suf)
    return s if base == t else "((%s)%s)" % (CT[t], s)


def flt_py(v):
    m = u64(v["m"])
    if m >> 63:
        m -= 1 << 64
    return m, v["e"]


def flt_literal(t, v):
    m, e = flt_py(v)
    s = "0x%xp%d%s" % (abs(m), e, "f" if t == "float" else "")
    return "(-%s)" % s if m < 0 else s


def flit_text(e):
    """spelling of a floating constant whose exact value m * 2^e need not be representable in its type:
    decimal digits (integral values) or normalised hexadecimal 0x1.<fraction>p<exponent>, suffix f for float"""
    m, ex = flt_py(e["v"])
    a = abs(m)
    suf = "f" if e["t"] == "float" else ""
    if e["sp"] == "dec":
        s = "%d.0%s" % (a << ex, suf)
    else:
        n = a.bit_length()
        pad = -(n - 1) % 4
        frac = ("%0*x" % ((n - 1 + pad) // 4, (a - (1 << (n - 1))) << pad)) if n > 1 else ""
        s = "0x1%s%sp%d%s" % ("." if frac else "", frac, ex + n - 1, suf)
    return "(-%s)" % s if m < 0 else s


def literal(t, v):
    return flt_literal(t, v) if t in ("float", "double") else int_literal(t, as_int(t, v))


def enum_name(x):
    return "EC_%s%d" % ("m" if x < 0 else "", abs(x))


def render(e, params=None, pre=None):
    """C text of an expression; with params (a list) every literal operand becomes a parameter p<i> and is
    recorded; pre (a list) collects the declarations the text needs (enum constants, offsetof structs, arrays)"""
    k = e["k"]
    if k == "leaf":
        ty = CT[e["ty"]]
        if e["src"] == "sizeof":
            return "sizeof(%s)" % ty
        if e["src"] == "alignof":
            return "_Alignof(%s)" % ty
        if e["src"] == "offsetof":
            if pre is not None:
                pre.append("struct OS_%s { char c; %s m; };" % (e["ty"], ty))
            return "__builtin_offsetof(struct OS_%s, m)" % e["ty"]
        x = as_int(e["t"], e["v"])
        if pre is not None:
            pre.append("enum { %s = %s };" % (enum_name(x), int_literal("int", x)))
        return enum_name(x)
    if k == "flit":
        return flit_text(e)           # also at run time: the constant itself is the subject
    if k == "chain":                  # operators WITHOUT parentheses; unary / cast operands lose their outer pair too
        xs = []
        for x in e["xs"]:
            t = render(x, params, pre)
            xs.append(t[1:-1] if x["k"] in ("un", "cast") else t)
        return " ".join(a + " " + b for a, b in zip(xs, e["ops"])) + " " + xs[-1]
    if k == "ucond":
        return "%s ? %s : %s" % (render(e["c"], params, pre), render(e["a"], params, pre), render(e["b"], params, pre))
    if k == "num":
        x = u64(e["v"])
        suf = e["suf"].upper() if x & 1 else e["suf"]
        if e["b"] == 2:
            return "%s%s%s" % ("0B" if x & 2 else "0b", bin(x)[2:], suf)
        return ("%d%s" if e["b"] == 10 else "0%o%s" if e["b"] == 8 else "0x%x%s") % (x, suf)
    if k == "sym":
        return "arr_%s" % e["et"]
    if k == "mem":
        return "&st_%s.m" % e["et"]
    if k == "pcast":
        ty = "long" if e["to"] == "long" else "char *" if e["to"] == "charp" else "enum EN" if e["to"] == "enum" else CT[e["to"]]
        return "((%s)%s)" % (ty, render(e["p"], params, pre))
    if k == "idx":
        return "&arr_%s[%s]" % (e["et"], render(e["a"], params, pre))
    if k == "padd":
        pp, cc = render(e["p"], params, pre), render(e["c"], params, pre)
        return "(%s + %s)" % (cc, pp) if e["sw"] else "(%s %s %s)" % (pp, e["op"], cc)
    if k == "lit":
        if params is None:
            return literal(e["t"], e["v"])
        params.append(e)
        return "p%d" % (len(params) - 1)
    if k == "cast":
        return "((%s)%s)" % (CT[e["t"]], render(e["a"], params, pre))
    if k == "un":
        return "(%s%s)" % (e["op"], render(e["a"], params, pre))
    if k == "bin":
        return "(%s %s %s)" % (render(e["l"], params, pre), e["op"], render(e["r"], params, pre))
    if k == "cond":
        return "(%s ? %s : %s)" % (render(e["c"], params, pre), render(e["a"], params, pre), render(e["b"], params, pre))
    raise vlib.MachineryError("bad expression node %r" % (e,))


def set_elem(e, et):
    """address expressions: tell every sym/idx node which array it names"""
    if e["k"] in ("sym", "idx", "mem"):
        e["et"] = et
    for f in ("p",):
        if f in e and isinstance(e[f], dict):
            set_elem(e[f], et)


def shape(e):
    k = e["k"]
    if k == "lit":
        return e["t"]
    if k == "leaf":
        return "%s(%s)" % (e["src"], e["ty"])
    if k == "num":
        return "num%d%s" % (e["b"], e["suf"])
    if k == "flit":
        return "flit:%s:%s" % (e["t"], e["sp"])
    if k == "chain":
        return "chain[%s]" % " ".join(shape(x) + " " + o for x, o in zip(e["xs"], e["ops"] + [""])).strip()
    if k == "sym":
        return "arr"
    if k == "mem":
        return "&st.m"
    if k == "pcast":
        return "(%s)%s" % (e["to"], shape(e["p"]))
    if k == "idx":
        return "&arr[%s]" % shape(e["a"])
    if k == "padd":
        return "(%s%s%s)" % (shape(e["p"]), e["op"], shape(e["c"]))
    if k == "cast":
        return "(%s)%s" % (e["t"], shape(e["a"]))
    if k == "un":
        return "%s%s" % (e["op"], shape(e["a"]))
    if k == "bin":
        return "(%s%s%s)" % (shape(e["l"]), e["op"], shape(e["r"]))
    return "(%s?%s:%s)" % (shape(e["c"]), shape(e["a"]), shape(e["b"]))


def ops_of(e):
    k = e["k"]
    if k in ("lit", "sym", "mem"):
        return []
    if k == "pcast":
        return ["(%s)" % e["to"]] + ops_of(e["p"])
    if k in ("leaf", "num", "flit"):
        return [k]
    if k == "chain":
        return ["chain"] + list(e["ops"]) + [o for x in e["xs"] for o in ops_of(x)]
    if k == "idx":
        return ["&[]"] + ops_of(e["a"])
    if k == "padd":
        return ["p" + e["op"]] + ops_of(e["p"]) + ops_of(e["c"])
    if k == "cast":
        return ["cast"] + ops_of(e["a"])
    if k == "un":
        return ["u" + e["op"]] + ops_of(e["a"])
    if k == "bin":
        return [e["op"]] + ops_of(e["l"]) + ops_of(e["r"])
    return ["?:"] + ops_of(e["c"]) + ops_of(e["a"]) + ops_of(e["b"])


def image(r):
    """bytes of the object a constant of type r.t / value r.v occupies"""
    if r["t"] in ("float", "double"):
        m, e = flt_py(r["v"])
        x = float(m) * 2.0 ** e if abs(e) < 1000 else float(m) * 2.0 ** (e // 2) * 2.0 ** (e - e // 2)
        return list(struct.pack("<f" if r["t"] == "float" else "<d", x))
    return list(r["v"][:r["z"]])


# ---------------------------------------------------------------------------------------------
# projection of a (spec- or model-shaped) result onto the observation each context allows
# result r: {"st": ok|ub|inexact|trap|error|unspec, "c": 0|1 (constant?), "t", "z", "v", "dv"}
ANY, REJECT, CRASH = ("any",), ("reject",), ("crash",)


def basic(r):
    if r["st"] == "trap":
        return CRASH
    if r["st"] == "error":
        return REJECT
    if r["st"] != "ok":
        return ANY
    return None


def is_intk(r):
    return r["c"] == 1 and r["t"] not in ("float", "double")


def project(ctx, c, which):
    """expected observation of context ctx for case c under which in {'s' (ConstEval), 'm' (FoldModel)}"""
    if ctx.startswith("addr") and c["s"].get("nar"):
        return REJECT
    if ctx in ("addr", "addr_thread"):
        r = c[which]
        if r["st"] == "ok":
            return ("reloc", "%s_%s" % (r["sym"], c["et"]), u64(r["v"]))
        return {"trap": CRASH, "error": REJECT}.get(r["st"], ANY)
    if ctx in ("static", "thread"):
        r = c["s"] if which == "s" else c["ma"]
        return basic(r) or (("data", image(r)) if r["c"] else REJECT)
    if ctx == "generic":
        return ("type", c["s"]["t"] if which == "s" else c["mt"])
    if ctx in ("enum", "case", "casedup", "sa_direct") or (ctx in ("bitfield", "alignas") and c["direct"][ctx]):
        r = c["s"] if which == "s" else c["m"]
        b = basic(r)
        if b:
            return b
        if not is_intk(r):
            return REJECT                     # intconstexpr: "not an integer constant expression"
        if ctx == "enum":
            return ("value", u64(r["v"]))
        if ctx == "case":           # the constant the comparison ladder tests the controlling value against
            return ("case", 8 * c["ptz"], u64(r["v"]) & ((1 << (8 * c["ptz"])) - 1))
        if ctx == "sa_direct":
            return ("accept",) if u64(r["v"]) != 0 else REJECT
        if ctx == "casedup":
            return REJECT if r["v"] == c["s"]["v"] else ("accept",)
        x = u64(r["v"])
        if ctx == "bitfield":
            return ("value", (1 << x) - 1) if 1 <= x <= 32 else REJECT
        return ("value", max(x, 1)) if x & (x - 1) == 0 and x < (1 << 31) else REJECT
    if ctx in ("array", "array_neg", "sa_eq", "bitfield", "alignas"):
        r = c["seq"] if which == "s" else c["meq"]
        b = basic(r)
        if b:
            return b
        if not is_intk(r):
            return REJECT if ctx != "array" else ANY
        truth = u64(r["v"]) != 0
        if ctx in ("array", "sa_eq"):
            return ("accept",) if truth else REJECT
        if ctx == "array_neg":
            return REJECT if truth else ("accept",)
        if ctx == "bitfield":
            return ("value", (1 << (5 if truth else 9)) - 1)
        return ("value", 16 if truth else 32)
    if ctx == "sa_ne":
        r = c["sne"] if which == "s" else c["mne"]
        b = basic(r)
        if b:
            return b
        if not is_intk(r):
            return REJECT
        return ("accept",) if u64(r["v"]) != 0 else REJECT
    if ctx == "condsel":
        r = c["ssel"] if which == "s" else c["msel"]
        return basic(r) or (("data", image(r)) if r["c"] else REJECT)
    raise vlib.MachineryError("unknown context " + ctx)


def devs_of(ctx, c):
    if ctx.startswith("addr"):
        return sorted(c["m"]["dv"])
    key = {"static": "ma", "thread": "ma", "generic": "m", "enum": "m", "case": "m", "casedup": "m", "sa_direct": "m", "sa_ne": "mne",
           "condsel": "msel"}.get(ctx)
    if key is None:
        key = "m" if ctx in ("bitfield", "alignas") and c["direct"][ctx] else "meq"
    dv = set(c[key]["dv"])
    if ctx == "generic" and c["mt"] != c["s"]["t"]:
        dv |= set(c["m"]["dv"]) | {"CondSameTypeNoPromotion"}
    return sorted(dv)


# ---------------------------------------------------------------------------------------------
# one case -> declarations for each context
def prepare(c, i):
    s = c["s"]
    c["i"] = i
    pre = []
    if c["f"] == "addr":
        set_elem(c["e"], c["et"])
        pre.append("%s arr_%s[%d];" % (CT[c["et"]], c["et"], c["an"]))
        pre.append("struct ST_%s { char c; %s m; } st_%s;" % (c["et"], CT[c["et"]], c["et"]))
        pre.append("enum EN { EN_A };")
        c["DT"] = {"elem": CT[c["et"]] + " *", "long": "long ", "charp": "char *", "enum": "enum EN "}.get(c["dt"]) or CT[c["dt"]] + " "
        c["E"] = render(c["e"], None, pre)
        c["pre"] = pre
        c["ice"] = True
        return c
    c["E"] = render(c["e"], None, pre)
    c["pre"] = pre
    c["T"] = CT[s["t"]]
    c["isint"] = s["t"] not in ("float", "double")
    if s["st"] == "ok":
        c["V"] = literal(s["t"], s["v"])
        x = u64(s["v"]) if c["isint"] else None
        c["direct"] = {"bitfield": c["isint"] and 1 <= x <= 32,
                       "alignas": c["isint"] and x < 8192 and x & (x - 1) == 0}
    return c


def prelude(cs):
    seen, out = set(), []
    for c in cs:
        for ln in c["pre"]:
            if ln not in seen:
                seen.add(ln)
                out.append(ln)
    return "".join(x + "\n" for x in out)


def contexts_of(c):
    if c["f"] == "addr":
        if c["s"].get("nar"):
            return ["addr", "addr_thread", "addr_member", "addr_enum", "addr_sa", "addr_arr", "addr_case"]
        return ["addr", "addr_thread"]
    ctxs = ["static", "thread", "array", "sa_eq", "sa_ne", "condsel", "generic"]
    if c["isint"]:
        ctxs += ["enum", "case", "casedup", "bitfield", "alignas", "sa_direct"]
    if c["i"] % 8 == 0:
        ctxs.append("array_neg")
    return ctxs


def decl(ctx, c):
    """C text of context ctx for case c (names carry the case index)"""
    i, E = c["i"], c["E"]
    if ctx == "addr":
        return "%sq%d = %s;" % (c["DT"], i, E)
    if ctx == "addr_thread":
        return "_Thread_local %su%d = %s;" % (c["DT"], i, E)
    if ctx == "addr_member":
        return "struct { char tag; %slo; char end; } w%d = { 1, %s, 2 };" % (c["DT"], i, E)
    if ctx == "addr_enum":
        return "enum { y%d = %s };" % (i, E)
    if ctx == "addr_sa":
        return "_Static_assert(%s, \"x%d\");" % (E, i)
    if ctx == "addr_arr":
        return "char z%d[%s];" % (i, E)
    if ctx == "addr_case":
        return "int c%d(int x) { switch (x) { case %s: return 1; } return 0; }" % (i, E)
    T = c["T"]
    V = c.get("V")
    if ctx == "static":
        return "%s v%d = %s;" % (T, i, E)
    if ctx == "thread":
        return "_Thread_local %s t%d = %s;" % (T, i, E)
    if ctx == "array":
        return "char a%d[(%s) == %s ? 1 : -1];" % (i, E, V)
    if ctx == "array_neg":
        return "char n%d[(%s) == %s ? -1 : 1];" % (i, E, V)
    if ctx == "sa_direct":
        return "_Static_assert(%s, \"d%d\");" % (E, i)
    if ctx == "enum":
        return "enum { k%d = %s }; unsigned long long e%d = k%d;" % (i, E, i, i)
    if ctx == "case":
        return "int f%d(%s x) { switch (x) { case %s: return 1; } return 0; }" % (i, CT[c["pt"]], E)
    if ctx == "casedup":
        return "int d%d(%s x) { switch (x) { case %s: return 1; case %s: return 2; } return 0; }" % (i, CT[c["pt"]], E, V)
    if ctx == "bitfield":
        w = E if c["direct"]["bitfield"] else "(%s) == %s ? 5 : 9" % (E, V)
        return "struct { unsigned b : %s; } b%d = { -1 };" % (w, i)
    if ctx == "alignas":
        a = E if c["direct"]["alignas"] else "(%s) == %s ? 16 : 32" % (E, V)
        return "_Alignas(%s) char l%d = 1;" % (a, i)
    if ctx == "sa_eq":
        return "_Static_assert((%s) == %s, \"eq%d\");" % (E, V, i)
    if ctx == "sa_ne":
        return "_Static_assert((%s) != %s, \"ne%d\");" % (E, V, i)
    if ctx == "condsel":
        return "int s%d = (%s) ? 1 : 2;" % (i, E)
    if ctx == "generic":
        return "int g%d = _Generic((%s), %s);" % (i, E, GENERIC)
    raise vlib.MachineryError(ctx)


NAME = {"addr": "q", "addr_thread": "u", "addr_member": "w", "static": "v", "thread": "t", "array": "a", "enum": "e", "bitfield": "b", "alignas": "l", "condsel": "s", "generic": "g"}


def observe(ctx, c, rc, mod, err):
    """observation of one context from a finished compilation (mod = parsed IL or None)"""
    if rc < 0:
        return CRASH if rc != -999 else ("hang",)
    if rc != 0:
        return REJECT
    if ctx == "case":
        for f in mod["funcs"]:
            if f["name"] == "f%d" % c["i"]:
                for b in f["blocks"]:
                    for ins in b["insts"]:
                        if ins["op"] in ("ceqw", "ceql") and len(ins["args"]) == 2 and ins["args"][1]["t"] == "int":
                            w = 32 if ins["op"] == "ceqw" else 64
                            return ("case", w, ins["args"][1]["v"] & ((1 << w) - 1))
        return ("no-ladder",)
    if ctx in ("casedup", "sa_eq", "sa_ne", "sa_direct", "array_neg", "addr_enum", "addr_sa", "addr_arr", "addr_case"):
        return ("accept",)
    d = mod["byname"].get("%s%d" % (NAME[ctx], c["i"]))
    if d is None:
        return ("missing",)
    total = sum(it["n"] for it in d["items"] if it["k"] == "z")
    if total > 4096:
        return ("size", total)
    img, rel = ilparse.data_image(d)
    if ctx in ("addr", "addr_thread", "addr_member") and c["s"].get("nar"):
        return ("object", len(img), max([r[1] for r in rel] + [0]))          # bytes emitted, widest relocation
    if ctx in ("addr", "addr_thread"):
        if d["thread"] != (ctx == "addr_thread") or len(rel) != 1 or len(img) != 8:
            return ("bad-data", len(img), len(rel))
        return ("reloc", rel[0][2], rel[0][3] % (1 << 64))
    if rel:
        return ("reloc",)
    if ctx == "static":
        return ("data", img) if not d["thread"] else ("thread-flag",)
    if ctx == "thread":
        return ("data", img) if d["thread"] else ("thread-flag",)
    if ctx == "condsel":
        return ("data", img)
    if ctx == "array":
        return ("accept",) if len(img) == 1 else ("size", len(img))
    if ctx == "enum":
        return ("value", int.from_bytes(bytes(img), "little"))
    if ctx == "bitfield":
        return ("value", int.from_bytes(bytes(img), "little"))
    if ctx == "alignas":
        return ("value", d["align"])
    if ctx == "generic":
        g = int.from_bytes(bytes(img), "little")
        return ("type", GEN_ORDER[g - 1] if 1 <= g <= len(GEN_ORDER) else "?")
    raise vlib.MachineryError(ctx)


def parse_il(out):
    mod = ilparse.parse(out)
    mod["byname"] = ilparse.data_by_name(mod)
    return mod


class Runner:
    def __init__(self, ctx, objdir, target, tracedir=None):
        self.ctx, self.objdir, self.target = ctx, objdir, target
        self.tracedir = tracedir
        self.nrun = 0
        self.batchno = 0
        self.traces = []

    def compile(self, src, trace=False):
        self.nrun += 1
        tr = None
        if self.tracedir:
            tr = os.path.join(self.tracedir, "t%d.%d.ndjson" % (os.getpid(), self.nrun))
            self.traces.append(tr)
        rc, out, err = vlib.cproc(self.objdir, src, self.target, trace=tr, timeout=60)
        mod = None
        if rc == 0:
            try:
                mod = parse_il(out)
            except ilparse.ILSyntaxError as ex:
                return rc, None, "IL syntax: %s" % ex
        return rc, mod, err


def compile_many(runner, sources, need_out=True, chunk=120):
    """many small compilations through a few shell loops (python's per-process overhead dominates otherwise);
    returns [(rc, parsed IL or None, stderr)] with rc < 0 for a signal, -999 for a timeout"""
    if not sources:
        return []
    runner.batchno += 1
    base = os.path.join(runner.ctx.path("many"), "%s.%d" % (runner.target, runner.batchno))
    os.makedirs(base, exist_ok=True)
    for k, src in enumerate(sources):
        with open(os.path.join(base, "%d.c" % k), "w") as f:
            f.write(src)
    exe = os.path.join(runner.objdir, "cproc-qbe")
    script = ('for k in "$@"; do timeout 60 %s -t %s %s/$k.c >%s 2>%s/$k.err; echo $? >%s/$k.rc; done'
              % (exe, runner.target, base, ("%s/$k.out" % base) if need_out else "/dev/null", base, base))
    idx = list(range(len(sources)))

    def go(part):
        env = dict(os.environ)
        if runner.tracedir:
            tr = os.path.join(runner.tracedir, "m%d.%d.%d.ndjson" % (os.getpid(), runner.batchno, part[0]))
            runner.traces.append(tr)
            env["CPROC_VERIF_TRACE"] = tr
        subprocess.run(["sh", "-c", script, "sh"] + [str(k) for k in part], env=env, stdout=subprocess.DEVNULL, stderr=subprocess.DEVNULL)
    vlib.pmap(go, [idx[i:i + chunk] for i in range(0, len(idx), chunk)], workers=14)
    res = []
    for k in idx:
        try:
            rc = int(open(os.path.join(base, "%d.rc" % k)).read().strip())
        except (OSError, ValueError):
            raise vlib.MachineryError("compile_many: no exit status for %s/%d.c" % (base, k))
        err = open(os.path.join(base, "%d.err" % k), errors="replace").read()
        rc = -999 if rc == 124 else -(rc - 128) if rc > 128 else rc
        mod = None
        if rc == 0 and need_out:
            try:
                mod = parse_il(open(os.path.join(base, "%d.out" % k), errors="surrogateescape").read())
            except ilparse.ILSyntaxError as ex:
                err = "IL syntax: %s" % ex
        res.append((rc, mod, err))
    runner.nrun += len(sources)
    import shutil
    shutil.rmtree(base, ignore_errors=True)
    return res


# ---------------------------------------------------------------------------------------------
def judge(ctx, c, cx, obs, tag):
    """compare one observation with the spec; attribute a mismatch to the deviations the model predicts"""
    exp = project(cx, c, "s")
    key = "%s|%s|%s" % (tag, cx, c["E"])
    nontriv = len(ops_of(c["e"])) >= 1
    ctx.count(key, nontrivial=nontriv)
    if c["f"] == "addr" and c["s"].get("nar"):
        # (T)address with T narrower than a pointer: may be refused; if accepted the object keeps T's size (no 8-byte
        # item in a narrower slot) and the compiler never dies
        z = c["s"]["z"]
        size = 3 * z if cx == "addr_member" else z
        if obs == REJECT or obs == ("accept",) or (obs[0] == "object" and obs[1] == size and obs[2] <= z):
            return True
        ctx.violation("fold:narrowaddr:%s:%s" % (cx, c["dt"]),
                      "`%s`: an address cast to a %d-byte integer type must be refused or leave a %d-byte object; observed %s"
                      % (decl(cx, c), z, size, obs),
                      {"context": cx, "source": prelude([c]) + decl(cx, c), "target": tag, "observed": list(obs), "object_size": size})
        return False
    if c["f"] == "addr" and c["s"].get("ext") and obs == REJECT:
        return True      # an address converted to an integer: accepting it as a constant is an extension (6.6p10)
    if not c["ice"] and cx in ICE_CONTEXTS and obs == REJECT:
        return True      # 6.6p6: not an integer constant expression; acceptance is an extension, rejection is allowed
    if obs[0] == "data" and c["s"]["t"] in ("float", "double") and obs[1] and obs[1][-1] == 0x80 and not any(obs[1][:-1]):
        obs = ("data", [0] * len(obs[1]))      # -0.0: the sign of a zero result is outside the (exact rational) model
    if obs == exp:
        return True
    pred = project(cx, c, "m")
    dv = devs_of(cx, c)
    case = {"context": cx, "source": prelude([c]) + decl(cx, c), "target": tag, "expected": list(exp), "observed": list(obs),
            "model_predicts": list(pred), "deviations": dv, "shape": shape(c["e"])}
    # the fold handed to the context is already wrong because of a named deviation; how the context reacts to
    # the wrong constant (e.g. decl.c accepting a bit-field width of 2^64-1) is not C04's subject
    if dv and (pred == obs or pred == ANY or pred != exp):
        for d in dv:
            ctx.violation("fold:dev=%s" % d, "cproc folds `%s` differently from C11 (context %s): expected %s, observed %s"
                          % (c["E"], cx, exp, obs), case)
        return False
    ctx.violation("fold:%s:%s:%s" % (cx, c["f"], ",".join(ops_of(c["e"]))),
                  "context %s: `%s` expected %s observed %s (model predicted %s)" % (cx, decl(cx, c), exp, obs, pred), case)
    return False


def run_cases(ctx, runner, cases, tag, batch=40):
    """flow A, compile-time half: positive contexts batched, a failing batch is split down to single contexts"""
    clean, solo = [], []
    for c in cases:
        if c["s"]["st"] != "ok":
            continue
        if c["f"] == "addr":
            deviating = bool(c["m"]["dv"]) or c["m"]["st"] != "ok"
        else:
            deviating = any(c[k]["dv"] for k in ("m", "ma", "meq", "mne", "msel")) or c["mt"] != c["s"]["t"]
        (solo if deviating else clean).append(c)
    positive = lambda c: [x for x in contexts_of(c) if x not in NEGATIVE and not (x == "sa_direct" and project(x, c, "s") == REJECT)]
    negative = lambda c: [x for x in contexts_of(c) if x not in positive(c)]

    def unit(cs):
        return prelude(cs) + "\n".join(decl(cx, c) for c in cs for cx in positive(c)) + "\n"

    singles = []          # (case, context) pairs that get a compilation of their own

    def do_batch(cs):
        rc, mod, err = runner.compile(unit(cs), trace=True)
        if rc == 0 and mod is not None:
            for c in cs:
                for cx in positive(c):
                    judge(ctx, c, cx, observe(cx, c, 0, mod, err), tag)
            return
        if len(cs) > 1:
            h = len(cs) // 2
            do_batch(cs[:h])
            do_batch(cs[h:])
            return
        singles.extend((cs[0], cx) for cx in positive(cs[0]))

    batches = [clean[i:i + batch] for i in range(0, len(clean), batch)]
    vlib.pmap(do_batch, batches, workers=12)
    # cases on which a named deviation fires: the whole unit first; when that is refused (as predicted for most of
    # them) the contexts that pin the folded value down are compiled one by one
    core = ("static", "sa_eq", "condsel", "generic", "enum", "addr")
    solo_res = compile_many(runner, [unit([c]) for c in solo])
    for c, (rc, mod, err) in zip(solo, solo_res):
        if rc == 0 and mod is not None:
            for cx in positive(c):
                judge(ctx, c, cx, observe(cx, c, 0, mod, err), tag)
        else:
            singles.extend((c, cx) for cx in positive(c) if cx in core or c["s"].get("nar"))
    # contexts that must be rejected: one compilation each (guards against a vacuous always-accept)
    singles += [(c, cx) for c in clean for cx in negative(c) if cx != "casedup" or c["i"] % 4 == 1 or not ctx.quick]
    singles += [(c, cx) for c in solo for cx in negative(c) if cx == "sa_ne"]
    results = compile_many(runner, [prelude([c]) + decl(cx, c) + "\n" for c, cx in singles])
    for (c, cx), (rc, mod, err) in zip(singles, results):
        judge(ctx, c, cx, observe(cx, c, rc, mod, err), tag)
    ctx.validated(len(clean) + len(solo))
    return clean, solo


def run_undefined(ctx, runner, cases, tag):
    """cases without a prescribed value (division by zero, overflow, ...): the compiler must not die"""
    und = [c for c in cases if c["s"]["st"] == "ub"]

    srcs = [prelude([c]) + (decl("addr", c) if c["f"] == "addr" else "%s v%d = %s;" % (c["T"], c["i"], c["E"])) + "\n" for c in und]
    for c, src, (rc, mod, err) in zip(und, srcs, compile_many(runner, srcs, need_out=False)):
        ctx.count("%s|nocrash|%s" % (tag, c["E"]), nontrivial=True)
        if rc >= 0:
            continue
        mm = c["m"] if c["f"] == "addr" else c["ma"]
        dv = sorted(set(mm["dv"]))
        case = {"source": src, "rc": rc, "model": mm["st"], "deviations": dv}
        if mm["st"] == "trap" and dv:
            for d in dv:
                ctx.violation("fold:dev=%s" % d, "cproc-qbe dies with signal %d folding `%s`" % (-rc, c["E"]), case)
        else:
            ctx.violation("fold:crash:%s" % ",".join(ops_of(c["e"])), "cproc-qbe dies (rc %d) on `%s`" % (rc, src.strip()), case)
    return len(und)


def run_casect(ctx, runner, cases, tag, charsigned):
    """case labels under controlling expressions of every integer type: the ladder constant is the case constant
    converted to the PROMOTED controlling type (6.8.4.2p5); labels are duplicates iff equal after that conversion.
    Expected values and the duplicate verdict come from TLC (EmitCT); gcc and clang audit both."""
    if not cases:
        return
    srcs, owner, seen = [], [], set()
    for k, c in enumerate(cases):
        c["i"] = k
        T, A, B = CT[c["ct"]], render(c["e"]), render(c["e2"])
        if (c["ct"], A) not in seen:
            seen.add((c["ct"], A))
            srcs.append("int f%d(%s x) { switch (x) { case %s: return 1; } return 0; }\n" % (k, T, A))
            owner.append((c, "single"))
        srcs.append("int d%d(%s x) { switch (x) { case %s: return 1; case %s: return 2; } return 0; }\n" % (k, T, A, B))
        owner.append((c, "pair"))
    # audit of the spec
    audit_lines = []
    for c, what in owner:
        PT, A, B = CT[c["pct"]], render(c["e"]), render(c["e2"])
        if what == "single":
            audit_lines.append("_Static_assert((%s)(%s) == %s, \"v\");" % (PT, A, int_literal(c["pct"], as_int(c["pct"], c["s"]["v"]))))
        else:
            audit_lines.append("int d%d(%s x) { switch (x) { case %s: return 1; case %s: return 2; } return 0; }" % (c["i"], CT[c["ct"]], A, B))
    src = ctx.path("audit_casect_%s.c" % tag)
    with open(src, "w") as f:
        f.write("\n".join(audit_lines) + "\n")
    sc = "-fsigned-char" if charsigned else "-funsigned-char"
    for name, cmd in (("gcc", ["gcc", "-std=c11", "-fsyntax-only", "-w", "-fmax-errors=0", sc, src]),
                      ("clang", ["clang", "-std=c11", "-fsyntax-only", "-w", "-ferror-limit=0", "--target=x86_64-linux-gnu", sc, src])):
        p = subprocess.run(cmd, stdout=subprocess.PIPE, stderr=subprocess.STDOUT, text=True, timeout=300)
        errs = {}
        for ln in p.stdout.split("\n"):
            m = re.match(r".*?:(\d+):\d+: error: (.*)", ln)
            if m:
                errs.setdefault(int(m.group(1)), m.group(2))
        for n, (c, what) in enumerate(owner):
            msg = errs.get(n + 1)
            want = what == "pair" and c["dup"]
            if (msg is not None) != want or (msg is not None and "duplicate case" not in msg):
                raise vlib.MachineryError("SPEC-AUDIT casect: %s on `%s`: %s (spec: %s)" % (name, audit_lines[n], msg, "duplicate" if want else "accepted"))
        ctx.cov.setdefault("audit", {})["%s_casect_%s" % (name, tag)] = {"asserts": len(owner), "agreed": len(owner)}
    res = compile_many(runner, srcs)
    for (c, what), src1, (rc, mod, err) in zip(owner, srcs, res):
        ctx.count("%s|case_ct|%s|%s" % (tag, what, src1.strip()), nontrivial=True)
        if what == "single":
            exp = ("case", 8 * c["ptz"], u64(c["s"]["v"]) & ((1 << (8 * c["ptz"])) - 1))
            obs = observe("case", c, rc, mod, err)
        else:
            exp = REJECT if c["dup"] else ("accept",)
            obs = CRASH if rc < 0 and rc != -999 else ("hang",) if rc == -999 else REJECT if rc != 0 else ("accept",)
        if obs != exp:
            ctx.violation("fold:case_ct:%s:%s" % (c["ct"], what),
                          "`%s`: the case constant converted to the promoted controlling type %s: expected %s observed %s"
                          % (src1.strip(), CT[c["pct"]], exp, obs),
                          {"context": "case_ct", "source": src1, "target": tag, "expected": list(exp), "observed": list(obs)})
    ctx.validated(len(cases))
    ctx.cov.setdefault("flowA", {}).setdefault("casect_" + tag, len(owner))


# ---------------------------------------------------------------------------------------------
# run-time half
def run_runtime(ctx, objdir, cases, tag, per=150):
    ok = [c for c in cases if c["s"]["st"] == "ok" and not c["s"].get("nar")]     # (T)address truncates at run time: no prescribed value
    groups = [ok[i:i + per] for i in range(0, len(ok), per)]

    def build(gi_cs):
        gi, cs = gi_cs
        lines = ["int printf(const char *, ...);",
                 "unsigned long long dbits(double d) { union { double d; unsigned long long u; } x; x.d = d; return x.u; }",
                 "unsigned long long fbits(float f) { union { float f; unsigned u; } x; x.f = f; return x.u; }"]
        calls = []
        lines.append(prelude(cs))
        for c in cs:
            if c["f"] == "addr":
                lines.append("long r%d(void) { return (long)%s - (long)&%s_%s; }" % (c["i"], c["E"], c["s"]["sym"], c["et"]))
                calls.append('\tprintf("%%d %%llx\\n", %d, (unsigned long long)r%d());' % (c["i"], c["i"]))
                continue
            ps = []
            body = render(c["e"], ps)
            plist = ", ".join("%s p%d" % (CT[p["t"]], k) for k, p in enumerate(ps)) or "void"
            lines.append("%s r%d(%s) { return %s; }" % (c["T"], c["i"], plist, body))
            args = ", ".join(literal(p["t"], p["v"]) for p in ps)
            call = "r%d(%s)" % (c["i"], args)
            t = c["s"]["t"]
            conv = "dbits(%s)" % call if t == "double" else "fbits(%s)" % call if t == "float" else "(unsigned long long)%s" % call
            calls.append('\tprintf("%%d %%llx\\n", %d, %s);' % (c["i"], conv))
        lines.append("int main(void) {\n" + "\n".join(calls) + "\n\treturn 0;\n}")
        src = "\n".join(lines) + "\n"
        rc, out, err = vlib.cproc(objdir, src, "x86_64-sysv", timeout=120)
        if rc != 0:
            return cs, None, "cproc rc=%d: %s" % (rc, err[-400:]), src
        wd = ctx.path("rt%d" % gi)
        os.makedirs(wd, exist_ok=True)
        try:
            exe = il2c.build_native(out, wd, name="rt", sanitize=False)
        except (il2c.Unsupported, ilparse.ILSyntaxError, RuntimeError) as ex:
            return cs, None, "il2c: %s" % str(ex)[-600:], src
        rrc, rout, rerr = il2c.run_native(exe, timeout=60)
        if rrc != 0:
            return cs, None, "native rc=%d %s" % (rrc, rerr[-300:]), src
        got = {}
        for ln in rout.split("\n"):
            if ln:
                a, b = ln.split()
                got[int(a)] = int(b, 16)
        return cs, got, None, src

    n = 0
    results = vlib.pmap(build, list(enumerate(groups)), workers=6)
    retry = []
    done = []
    for cs, got, problem, src in results:
        if got is None:
            retry += [(100000 + c["i"], [c]) for c in cs]      # split a failing group into single functions
        else:
            done.append((cs, got))
    skipped = 0
    for cs, got, problem, src in vlib.pmap(build, retry, workers=6):
        if got is not None:
            done.append((cs, got))
        elif problem.startswith("cproc"):
            c = cs[0]
            ctx.violation("runtime:cannot-compile:%s:%s" % (c["f"], ",".join(ops_of(c["e"]))),
                          "cproc-qbe fails on a function evaluating `%s` at run time: %s" % (c["E"], problem), {"source": src})
        else:
            skipped += 1
            ctx.cov.setdefault("runtime_skipped", []).append(problem[:200]) if skipped <= 3 else None
    ctx.cov["runtime_skipped_n"] = ctx.cov.get("runtime_skipped_n", 0) + skipped
    for cs, got in done:
        for c in cs:
            s = c["s"]
            if c["f"] == "addr":
                s = dict(s, t="long", z=8)
            exp = int.from_bytes(bytes(image(s)), "little")
            if s["t"] not in ("float", "double"):
                exp = u64(s["v"])           # (unsigned long long) of the typed result
            obs = got.get(c["i"])
            if s["t"] in ("float", "double") and obs == 1 << (8 * s["z"] - 1):
                obs = 0                     # -0.0, see judge()
            ctx.count("%s|runtime|%s" % (tag, c["E"]), nontrivial=True)
            n += 1
            if obs != exp:
                ctx.violation("runtime:%s:%s" % (c["f"], ",".join(ops_of(c["e"]))),
                              "run-time value of `%s` (operands as arguments) is %#x, C11 value %#x" % (c["E"], obs if obs is not None else -1, exp),
                              {"expr": c["E"], "shape": shape(c["e"]), "expected": exp, "observed": obs})
    return n


# ---------------------------------------------------------------------------------------------
# audit of the spec by gcc and clang
def audit(ctx, cases, charsigned):
    ok = [c for c in cases if c["s"]["st"] == "ok" and c["f"] != "addr"]
    lines, owner = [], []
    pre = prelude(ok).replace("\n", " ")       # one line, so that line numbers map to assertions
    for c in ok:
        lines.append("_Static_assert((%s) == %s, \"v\");" % (c["E"], c["V"]))
        owner.append((c, "value"))
        lines.append("_Static_assert(_Generic((%s), %s: 1, default: 0), \"t\");" % (c["E"], c["T"]))
        owner.append((c, "type"))
    lines.append("_Static_assert((1 + 2) == 4, \"canary\");")      # must be reported: the audit itself is alive
    src = ctx.path("audit_%d.c" % (1 if charsigned else 0))
    lines = [pre] + lines
    owner = [None] + owner
    with open(src, "w") as f:
        f.write("\n".join(lines) + "\n")
    cmds = {"gcc": ["gcc", "-std=c11", "-fsyntax-only", "-w", "-fmax-errors=0", "-fsigned-char" if charsigned else "-funsigned-char", src],
            "clang": ["clang", "-std=c11", "-fsyntax-only", "-w", "-ferror-limit=0", "--target=x86_64-linux-gnu",
                      "-fsigned-char" if charsigned else "-funsigned-char", src]}
    bad = []
    n = 0
    for name, cmd in cmds.items():
        p = subprocess.run(cmd, stdout=subprocess.PIPE, stderr=subprocess.STDOUT, text=True, timeout=900)
        failed = set()
        other = set()
        for ln in p.stdout.split("\n"):
            m = re.match(r".*?:(\d+):\d+: error: (.*)", ln)
            if not m:
                continue
            (failed if "static assertion failed" in m.group(2) or "static_assert failed" in m.group(2) else other).add(int(m.group(1)))
        if len(owner) + 1 not in failed or 1 in failed or 1 in other:
            raise vlib.MachineryError("audit: %s did not report the canary assertion (rc=%s): %s" % (name, p.returncode, p.stdout[-500:]))
        failed.discard(len(owner) + 1)
        for ln in sorted(failed):
            c, what = owner[ln - 1]
            bad.append("%s disagrees with the spec on the %s of `%s` (spec: %s %s)" % (name, what, c["E"], c["T"], c["V"]))
        n += len(owner) - len(failed) - len(other)
        ctx.cov.setdefault("audit", {})["%s_%s" % (name, "schar" if charsigned else "uchar")] = {
            "asserts": len(owner), "agreed": len(owner) - len(failed) - len(other), "not_applicable": len(other)}
    if bad:
        raise vlib.MachineryError("SPEC-AUDIT: %d disagreements, e.g.\n%s" % (len(bad), "\n".join(bad[:12])))
    return n


# ---------------------------------------------------------------------------------------------
# flow B
def collect_events(paths):
    seen = {}
    total = 0
    for p in paths:
        try:
            f = open(p, errors="replace")
        except OSError:
            continue
        with f:
            for ln in f:
                if '"e":"fold"' not in ln:
                    continue
                total += 1
                j = json.loads(ln)
                k = (j["fn"], j["op"], j["lkind"], j["lsize"], j["lsigned"], j["kind"], j["size"], j["signed"], j["l"], j["r"], j["res"])
                seen.setdefault(k, 0)
                seen[k] += 1
        os.unlink(p)
    return seen, total


def hexbytes(h):
    v = int(h, 16)
    return [(v >> (8 * k)) & 0xff for k in range(8)]


def validate_events(ctx, seen, total, charsigned=True):
    evs = []
    for i, k in enumerate(sorted(seen)):
        evs.append({"i": i, "fn": k[0], "op": k[1], "lkind": k[2], "lsize": k[3], "lsigned": k[4], "kind": k[5], "size": k[6],
                    "signed": k[7], "l": hexbytes(k[8]), "r": hexbytes(k[9]), "res": hexbytes(k[10])})
    if not evs:
        raise vlib.MachineryError("flow B: no fold event recorded (hook H2 missing from the build?)")
    chunk = 60
    chunks = [evs[i:i + chunk] for i in range(0, len(evs), chunk)]
    ng = min(24, len(chunks))
    groups = [chunks[g::ng] for g in range(ng)]
    path = ctx.path("foldtrace.json")
    with open(path, "w") as f:
        json.dump(groups, f)
    verdicts = []
    judged = [0]

    def on_line(payload):
        j = json.loads(payload)
        judged[0] += j["n"]
        verdicts.extend(j["v"])
    r = ctx.tlc("Trace_Fold", cfg_for(ctx, "MC_Trace_Fold.cfg"), workers=8, env={"TRACE": path}, timeout=2400, heap="3g", on_line=on_line)
    if not r.ok:
        raise vlib.MachineryError("Trace_Fold did not finish (rc=%s):\n%s" % (r.rc, r.out[-3000:]))
    if judged[0] != len(evs):
        raise vlib.MachineryError("Trace_Fold judged %d of %d events" % (judged[0], len(evs)))
    keys = sorted(seen)
    cls = collections.Counter()
    for v in verdicts:
        cls[v["cls"]] += 1
        k = keys[v["i"]]
        ev = dict(zip(("fn", "op", "lkind", "lsize", "lsigned", "kind", "size", "signed", "l", "r", "res"), k))
        if v["cls"] == "dev":
            for d in v["dv"]:
                ctx.violation("trace:dev=%s" % d, "fold event differs from C11: %s" % ev, ev)
        elif v["cls"].startswith("bad"):
            ctx.violation("trace:%s:%s:%s" % (v["cls"], ev["fn"], ev["op"]), "fold event rejected by Trace_Fold (%s): %s" % (v["cls"], ev), ev)
    cls["ok"] = len(evs) - len(verdicts)
    ctx.cov["flowB"] = {"events_recorded": total, "distinct_events": len(evs), "verdicts": dict(cls)}
    ctx.validated(len(evs))
    for k in keys[:1]:
        ctx.sample({"fold event": dict(zip(("fn", "op", "lkind", "lsize", "lsigned", "kind", "size", "signed", "l", "r", "res"), k))})
    return len(evs)


def trace_corpus(ctx, objdir, tracedir):
    paths = []
    files = sorted(glob.glob(os.path.join(vlib.REPO, "test", "*.c")))

    def one(p):
        tr = os.path.join(tracedir, "corpus.%s.ndjson" % os.path.basename(p))
        vlib.cproc(objdir, None, "x86_64-sysv", path=p, trace=tr, timeout=60)
        return tr
    return vlib.pmap(one, files, workers=8), len(files)


# ---------------------------------------------------------------------------------------------
def model_checking(ctx):
    """design level: scaled exhaustive refinement, each deviation exhibited, Word self-test"""
    cfgs = ["MC_CArith_scaled.cfg"] + ([] if ctx.quick else ["MC_CArith_scaled_uchar.cfg"])
    ncases = 0
    for cfg in cfgs:
        r = ctx.tlc("CArithMC", cfg, workers=8, timeout=3000, collect="NCASE ", heap="3g")
        if not r.ok:
            raise vlib.MachineryError("FoldModel (deviations off) does not refine ConstEval (%s):\n%s" % (cfg, r.out[-4000:]))
        ncases += sum(int(x) for x in r.vcases)
    ctx.cov["scaled_cases_checked"] = ncases
    ctx.count(n=ncases)
    exhibited = {}
    for d in DEVS:
        r = ctx.tlc("CArithMC", "MC_CArith_dev_%s.cfg" % d, workers=2, timeout=900, heap="1g")
        if r.rc != 12 or '"CEX"' not in r.out:
            raise vlib.MachineryError("deviation %s is not exhibited by TLC as a counterexample (rc=%s)" % (d, r.rc))
        i = r.out.index('"CEX"')
        exhibited[d] = re.sub(r"\s+", " ", r.out[i - 3:i + 700])[:500]
    ctx.cov["deviation_counterexamples"] = exhibited
    r = ctx.tlc("CArithMC", "MC_CArith_sanity.cfg", workers=2, timeout=600, heap="1g")
    if r.rc != 12:
        raise vlib.MachineryError("sanity: the scaled space has no undefined/inexact case (vacuity)")
    if not ctx.quick:
        ctx.tlc_must_pass("WordTest", "MC_WordTest.cfg", workers=8, timeout=1800)


def flow_a(ctx, objdir, tracedir, cfg, charsigned, targets, runtime=True):
    raw = []
    with Timer(ctx, "flowA_generate"):
        r = ctx.tlc("CArithMC", cfg_for(ctx, cfg), workers=8, timeout=3000, heap="3g", on_line=raw.append)
    if not r.ok:
        raise vlib.MachineryError("case generation failed (%s):\n%s" % (cfg, r.out[-3000:]))
    cases = []
    seen = set()
    ctcases = []
    for ln in raw:
        c = json.loads(ln)
        if c["f"] == "casect":
            ctcases.append(c)
            continue
        k = vlib.canon(c["e"])
        if k in seen:
            continue
        seen.add(k)
        cases.append(prepare(c, len(cases)))
    st = collections.Counter(c["s"]["st"] for c in cases)
    ctx.cov.setdefault("flowA", {})[cfg] = {"cases": len(cases), "status": dict(st), "families": dict(collections.Counter(c["f"] for c in cases))}
    with Timer(ctx, "audit"):
        naud = audit(ctx, cases, charsigned)
    traces = []
    for tg in targets:
        runner = Runner(ctx, objdir, tg, tracedir)
        with Timer(ctx, "flowA_contexts"):
            run_cases(ctx, runner, cases, tg)
            run_undefined(ctx, runner, cases, tg)
            run_casect(ctx, runner, ctcases, tg, charsigned)
        traces += runner.traces
        ctx.cov["flowA"][cfg]["compilations_" + tg] = runner.nrun
    if runtime:
        with Timer(ctx, "flowA_runtime"):
            run_runtime(ctx, objdir, cases, "x86_64-sysv")
    for c in cases[len(cases) // 3:len(cases) // 3 + 2]:
        if c["s"]["st"] == "ok" and c["f"] != "addr":
            ctx.sample({"E": c["E"], "type": c["T"], "value": c["V"], "contexts": [decl(x, c) for x in contexts_of(c)][:4]})
    return traces


def private_build(ctx):
    """cproc-qbe of the tree under test, with hooks, in this run's scratch directory.  The shared cache evicts an
    objdir as soon as somebody edits /repo (and a mutant build would evict everybody else's), so the unchanged
    tree is copied out of the cache and any other tree (VERIF_REPO) is built privately."""
    import shutil
    objdir = ctx.path("obj")
    os.makedirs(objdir, exist_ok=True)
    if os.path.realpath(vlib.REPO) == "/repo":
        for attempt in range(3):
            try:
                shutil.copy2(os.path.join(vlib.build("hooks"), "cproc-qbe"), os.path.join(objdir, "cproc-qbe"))
                return objdir
            except OSError:
                continue
    cc, cflags, ldflags = vlib.BUILD_FLAVOURS["hooks"]
    p = subprocess.run(["make", "-s", "-j8", "-C", vlib.REPO, "objdir=" + objdir, "CC=" + cc, "CFLAGS=" + cflags, "LDFLAGS=" + ldflags],
                       stdout=subprocess.PIPE, stderr=subprocess.STDOUT, text=True)
    if p.returncode != 0 or not os.path.exists(os.path.join(objdir, "cproc-qbe")):
        raise vlib.MachineryError("build of %s failed:\n%s" % (vlib.REPO, p.stdout[-3000:]))
    return objdir


class Timer:
    def __init__(self, ctx, name):
        self.ctx, self.name = ctx, name

    def __enter__(self):
        import time
        self.t0 = time.time()

    def __exit__(self, *a):
        import time
        self.ctx.cov.setdefault("timing_s", {})[self.name] = round(self.ctx.cov.get("timing_s", {}).get(self.name, 0) + time.time() - self.t0, 1)


def run(ctx):
    ctx.cov["rule"] = ("design: FoldModel=>ConstEval on every operator x type pair x value pair at scaled widths (evaluations count the "
                       "scaled cases); flow A: boundary-value cases at real widths (families binsame/binmix/fbin/un/cast/cond/unev/nest) x "
                       "12 contexts + run-time execution; one evaluation = one (target, context, expression) observation; non-trivial = "
                       "the expression has at least one operator; flow B: distinct H2 fold events judged by Trace_Fold")
    parts = set(os.environ.get("VERIF_C04_PARTS", "mc,flowa,flowb").split(","))       # development knob
    if "mc" in parts:
        with Timer(ctx, "model_checking"):
            model_checking(ctx)
    objdir = private_build(ctx)
    tracedir = ctx.path("traces")
    os.makedirs(tracedir, exist_ok=True)
    traces, ncorpus = trace_corpus(ctx, objdir, tracedir)
    if ctx.quick:
        traces += flow_a(ctx, objdir, tracedir, "MC_CArith_real_quick.cfg", True, ["x86_64-sysv"])
    else:
        traces += flow_a(ctx, objdir, tracedir, "MC_CArith_real_thorough.cfg", True, ["x86_64-sysv"])
        traces += flow_a(ctx, objdir, tracedir, "MC_CArith_real_quick_uchar.cfg", False, ["aarch64", "riscv64"], runtime=False)
    if "flowb" not in parts:
        return
    with Timer(ctx, "flowB"):
        seen, total = collect_events(traces)
        validate_events(ctx, seen, total)
    ctx.cov["flowB"]["corpus_files"] = ncorpus


def replay(ctx, path):
    """re-run one stored case: compile its source with the tree under test, print expected / observed"""
    j = json.load(open(path))
    case = j["case"]
    src = case.get("source")
    print("key      :", j["key"])
    print("what     :", j["what"])
    if not src:
        print("(no source stored for this kind of finding: %s)" % sorted(case))
        return 2
    objdir = private_build(ctx)
    rc, out, err = vlib.cproc(objdir, src + "\n", case.get("target") or "x86_64-sysv", timeout=60)
    print("source   :", src)
    print("expected :", case.get("expected"))
    print("recorded :", case.get("observed"))
    print("now      : rc=%d stdout=%r stderr=%r" % (rc, out[-300:], err[-300:]))
    return 0
