"""C19 — the compiler proper is memory-safe, terminating and exits only 0, 1 or 2; failures of its own
I/O are reported with a non-zero status.

Four parts (DESIGN.md §5 C19):
 (1) Proc.tla   exit protocol + own-I/O faults; every scenario TLC enumerates is rendered to a real
                invocation (harness/failwrite.c injects write/read faults with ptrace; /dev/full, closed
                descriptors, RLIMIT_FSIZE, directories are real kernel faults) and status, write(2) log
                and sink bytes are compared with the terminal state TLC printed.              [flow A]
 (2) Bounds.tla capacity mechanisms; TLC generates the boundary inputs and predicts {0,1}.  [flow A]
 (3) Skip.tla   delimiter-skipping loops over streams cut by EOF at every position.        [flow A]
 (4) volume     spec-described mutations of /repo/test/*.c on the ASan+UBSan build — observation only.
Python renders and compares; every expected value comes out of TLC.
"""
import collections, glob, json, os, re, signal, subprocess, time
import vlib

HERE = os.path.dirname(os.path.abspath(__file__))
HARN = os.path.dirname(HERE)

# The shared "asan" flavour also enables -fsanitize=pointer-overflow, whose "applying zero offset to null pointer"
# check fires in emitfunc for most valid programs and hides everything after it; the volume target leaves that
# one check out (the sites it names are reported separately from the unmutated corpus on the full "asan" build).
vlib.BUILD_FLAVOURS.setdefault("asan19", (
    "clang", "-std=c11 -O1 -g -fsanitize=address,undefined -fno-sanitize=pointer-overflow -fno-sanitize-recover=undefined -fno-omit-frame-pointer",
    "-fsanitize=address,undefined"))

SAN_ENV = {
    "ASAN_OPTIONS": "detect_leaks=0:abort_on_error=0:exitcode=99:allocator_may_return_null=1:detect_stack_use_after_return=0:handle_abort=1",
    "UBSAN_OPTIONS": "print_stacktrace=1:halt_on_error=1:exitcode=98",
}


def base_env():
    e = dict(os.environ)
    e.update(SAN_ENV)
    for k in ("CPROC_VERIF_TRACE", "CPROC_VERIF_TOKDUMP", "LD_PRELOAD"):
        e.pop(k, None)
    return e


# --------------------------------------------------------------------------------------------------
# crash signatures: kind + top in-repo frame (file:function).  Never line numbers (they move).
_REPO_SRCS = None


def repo_srcs():
    global _REPO_SRCS
    if _REPO_SRCS is None:
        _REPO_SRCS = {os.path.basename(p) for p in glob.glob(os.path.join(vlib.REPO, "*.c"))}
    return _REPO_SRCS


_FRAME = re.compile(r"#\d+ 0x[0-9a-f]+ in (\w+) (?:\S*/)?(\w+\.c)(?::\d+)?")
_UBSAN = [
    ("division by zero", "div-by-zero"),
    ("cannot be represented in type", "overflow"),
    ("signed integer overflow", "overflow"),
    ("applying zero offset to null pointer", "null-plus-zero"),
    ("applying non-zero offset", "null-plus-offset"),
    ("member access within null pointer", "null-member"),
    ("member access within misaligned address", "wild-member"),
    ("member access within address", "wild-member"),
    ("load of null pointer", "null-load"),
    ("store to null pointer", "null-store"),
    ("load of misaligned address", "wild-load"),
    ("store to misaligned address", "wild-store"),
    ("out of bounds for type", "index-oob"),
    ("shift exponent", "shift"),
    ("left shift of", "shift"),
    ("nan is outside the range of representable values", "float-cast-nan"),
    ("outside the range of representable values", "float-cast"),
    ("not a valid value for type", "invalid-value-load"),
    ("null pointer passed as argument", "nonnull-arg"),
    ("negation of", "overflow"),
    ("pointer index expression", "pointer-overflow"),
    ("addition of unsigned offset", "pointer-overflow"),
    ("subtraction of unsigned offset", "pointer-overflow"),
    ("variable length array bound", "vla-bound"),
    ("execution reached an unreachable", "unreachable"),
]
_SIGNAMES = {int(getattr(signal, n)): n for n in dir(signal) if n.startswith("SIG") and not n.startswith("SIG_")}
_SIGNAMES[6] = "SIGABRT"


def top_frame(err):
    for m in _FRAME.finditer(err):
        if m.group(2) in repo_srcs():
            return "%s:%s" % (m.group(2), m.group(1))
    return "?"


_PLUMBING = {"scan.c", "pp.c", "util.c", "map.c", "token.c"}


def hang_frame(err):
    """Stack printed by ASan's SIGABRT handler after a timeout: the innermost frame outside the token plumbing."""
    frames = [(m.group(2), m.group(1)) for m in _FRAME.finditer(err) if m.group(2) in repo_srcs()]
    for f, fn in frames:
        # token plumbing and the leaf printers of qbe.c have no loop of their own that could spin: blame their caller
        if f not in _PLUMBING and not re.match(r"emit(?!func$|data$|tentativedefns$)", fn):
            return "%s:%s" % (f, fn)
    return "%s:%s" % frames[0] if frames else "?"


def crash_signature(rc, err):
    """None if the run ended like the property demands (status 0/1/2, no sanitizer report)."""
    if rc == -999:
        return "hang:" + hang_frame(err)
    m = re.search(r"(\w+\.c):\d+: (?:[^\n:]*?[ *])?(\w+)(?:\([^\n]*)?: Assertion `([^\n]*)' failed", err)
    if m:
        return "assert:%s:%s:%s" % (m.group(1), m.group(2), re.sub(r"[^A-Za-z0-9]+", "-", m.group(3)).strip("-")[:40])
    if "runtime error:" in err:
        msg = err[err.index("runtime error:") + 14:].split("\n", 1)[0]
        kind = next((k for pat, k in _UBSAN if pat in msg), None)
        if kind is None:
            kind = re.sub(r"[^a-z]+", "-", re.sub(r"0x[0-9a-f]+|-?\d+|'[^']*'", "", msg).lower()).strip("-")[:40]
        return "ubsan:%s:%s" % (kind, top_frame(err))
    if "ERROR: AddressSanitizer" in err:
        m = re.search(r"AddressSanitizer: ([\w-]+)", err)
        kind = m.group(1) if m else "?"
        sig = "asan:%s:%s" % (kind, top_frame(err))
        if "freed by thread" in err:     # use-after-free / double free: the root cause is the free site
            sig += ":freed=" + top_frame(err[err.index("freed by thread"):])
        return sig
    if rc < 0:
        return "crash:%s" % _SIGNAMES.get(-rc, "SIG%d" % -rc)
    if rc not in (0, 1, 2):
        return "exit:%d" % rc
    return None


class Bins:
    def __init__(self, ctx):
        # private copies: the shared build cache evicts a flavour when /repo changes (other checks add hooks while we run)
        import shutil
        for name, flavour in (("asan", "asan"), ("plain", "plain"), ("san", "asan19")):
            dst = ctx.path("cproc-qbe." + name)
            for attempt in range(3):
                try:
                    shutil.copy2(os.path.join(vlib.build(flavour), "cproc-qbe"), dst)
                    break
                except OSError:
                    if attempt == 2:
                        raise vlib.MachineryError("build of flavour %s vanished while copying" % flavour)
                    time.sleep(1)
            setattr(self, name, dst)
        self.failwrite = ctx.path("failwrite")
        p = subprocess.run(["gcc", "-O1", "-Wall", "-o", self.failwrite, os.path.join(HARN, "failwrite.c")],
                           stdout=subprocess.PIPE, stderr=subprocess.STDOUT, text=True)
        if p.returncode != 0:
            raise vlib.MachineryError("failwrite.c does not build:\n" + p.stdout)


_TICK = os.sysconf("SC_CLK_TCK")


def cpu_seconds(pid):
    try:
        f = open("/proc/%d/stat" % pid).read().rsplit(")", 1)[1].split()
        return (int(f[11]) + int(f[12])) / _TICK       # utime + stime
    except (OSError, IndexError, ValueError):
        return 0.0


def run_cc(exe, data=None, args=(), timeout=10, cwd=None):
    """Run the compiler proper on bytes given on stdin. Returns (rc, stdout bytes, stderr str); rc = -999 on timeout.
    The limit is on the *CPU time* the process has used (a starved process on a loaded machine is not a hang); wall
    clock is capped at 40x the limit. On timeout the process gets SIGABRT first so that the sanitizer runtime prints
    where it was."""
    # stdout is not observed here (a cyclic block list makes emitfunc print forever: never buffer it).
    # stdin comes from an anonymous memory file, not a pipe: Popen.communicate() cannot resume feeding a pipe after a
    # TimeoutExpired (the retry must not pass input again), which blocks the child forever on inputs > 64 KB.
    fd = os.memfd_create("c19-input")
    try:
        os.write(fd, data if data is not None else b"") if data else None
        os.lseek(fd, 0, os.SEEK_SET)
        p = subprocess.Popen([exe] + list(args), stdin=fd, stdout=subprocess.DEVNULL, stderr=subprocess.PIPE, env=base_env(), cwd=cwd)
    finally:
        os.close(fd)
    t0 = time.time()
    while True:
        try:
            out, err = p.communicate(timeout=1.0)
            rc = p.returncode
            break
        except subprocess.TimeoutExpired:
            if cpu_seconds(p.pid) < timeout and time.time() - t0 < 40 * timeout:
                continue
            p.send_signal(signal.SIGABRT)
            try:
                out, err = p.communicate(timeout=60)
            except subprocess.TimeoutExpired:
                p.kill()
                out, err = p.communicate()
            rc = -999
            break
    return rc, out, (err or b"").decode("utf-8", "replace")


# ==================================================================================================
# (1) Proc.tla
# ==================================================================================================
PB = 4                 # B of MC_Proc_*.cfg
REALB = 4096           # stdio buffer of the host libc for files and pipes (audited on every run)
FRAC = {0: 0, 1: 1, 2: 2048, 3: 4095}
LINE = b"a" * 63 + b"\n"


def real(n):
    q, f = divmod(n, PB)
    return REALB * q + FRAC[f]


def prog_text(mode, nbytes, diag):
    """Source whose fault-free output has exactly nbytes bytes (audited); None if not expressible."""
    if mode == "E":
        q, r = divmod(nbytes, 64)
        body = LINE * q + b"a" * r      # -E prints identifier lines unchanged (a lone leading newline is swallowed)
        return body + (b' "\n' if diag else b"")
    # compile mode: `int NAME = 1;` prints 33 + len(NAME) bytes
    q, r = divmod(nbytes, 64)
    sizes = [64] * q
    if r:
        if sizes:
            sizes[-1] += r
        elif r >= 35:
            sizes = [r]
        else:
            return None
    src = []
    for i, sz in enumerate(sizes):
        name = ("v%d_" % i).ljust(sz - 33, "a")
        src.append("int %s = 1;\n" % name)
    return "".join(src).encode() + (b"@\n" if diag else b"")


def split_two(text):
    lines = text.split(b"\n")
    h = len(lines) // 2
    a = b"\n".join(lines[:h]) + (b"\n" if h else b"")
    return a, text[len(a):]


def expected_wlog(e):
    """Map TLC's write log (model units, stream offsets) to real byte counts; stops after the first failure
    (after a failed flush stdio also drops the rest of the item in progress: later chunk sizes are libc detail)."""
    out, p = [], 0
    for req, res in e["wlog"]:
        rreq = real(p + req) - real(p)
        if res < 0:
            out.append((rreq, -1))
            return out, True
        rres = real(p + res) - real(p)
        out.append((rreq, rres))
        p += res
    return out, False


def render_proc(ctx, bins, scn, variant, mode, exe, idx):
    """Build argv/stdin/stdout/fault options of one invocation. Returns dict or None (not expressible)."""
    d = ctx.path("proc%d" % idx)
    os.makedirs(d, exist_ok=True)
    sink = os.path.join(d, "sink")
    log = os.path.join(d, "fw.log")
    fw = [bins.failwrite, "-l", log]
    argv = [exe]
    stdin_path, stdout_path, close_out, close_in = None, sink, False, False
    n = scn["n"]
    if scn["ink"] == "readerr":
        text = LINE * (64 * n)
    else:
        text = prog_text(mode, real(n), scn["prog"] == "diag")
        if text is None:
            return None
    if mode == "E":
        argv.append("-E")
    if scn["args"] == "badopt":
        argv.append("-Z")
    elif scn["args"] == "noarg":
        argv.append("-o" if variant == "o" else "-t")
    elif scn["args"] == "badtarget":
        argv += ["-t", "no-such-target"]
    # output
    if scn["outk"] == "obad":
        argv += ["-o", os.path.join(d, "nodir", "x") if variant == "enoent" else d]
    elif scn["outk"] == "ofile":
        if scn["sink"] == "allfail":
            argv += ["-o", "/dev/full"]
        else:
            argv += ["-o", sink]
        stdout_path = os.path.join(d, "unused-stdout")
    else:
        if scn["sink"] == "allfail":
            if variant == "closed":
                close_out = True
            else:
                stdout_path = "/dev/full"
    if scn["sink"] == "failk":
        fw += ["-k", str(scn["k"]), "-m", "fail", "-e", "5" if variant == "eio" else "28"]
    elif scn["sink"] == "limit":
        fw += ["-L", str(real(scn["k"]))]
    # input
    src = os.path.join(d, "in.c")
    if scn["args"] != "noarg":
        if scn["ink"] == "stdin":
            open(src, "wb").write(text)
            stdin_path = src
        elif scn["ink"] == "file":
            open(src, "wb").write(text)
            argv.append(src)
        elif scn["ink"] == "two":
            a, b = split_two(text)
            open(src, "wb").write(a)
            open(os.path.join(d, "in2.c"), "wb").write(b)
            argv += [src, os.path.join(d, "in2.c")]
        elif scn["ink"] == "missing":
            argv.append(os.path.join(d, "enoent.c") if variant != "notdir" else os.path.join(src, "x.c"))
            open(src, "wb").write(b"")
        elif scn["ink"] == "two2missing":
            open(src, "wb").write(text)
            argv += [src, os.path.join(d, "enoent.c")]
        elif scn["ink"] == "readerr":
            if variant == "dir":
                argv.append(d)
            elif variant == "stdin-dir":
                stdin_path = d
            elif variant == "stdin-closed":
                close_in = True
            elif variant == "stdin-inject":
                open(src, "wb").write(text)
                stdin_path = src
                fw += ["-r", "0", "-j", str(scn["r"])]
            else:
                open(src, "wb").write(text)
                argv.append(src)
                fw += ["-R", src, "-j", str(scn["r"])]
    return {"dir": d, "argv": argv, "fw": fw, "stdin": stdin_path, "stdout": stdout_path, "close_out": close_out,
            "close_in": close_in, "sink": sink if scn["sink"] != "allfail" and scn["outk"] != "obad" else None,
            "log": log, "text": text}


def exec_proc(r, short_bytes=None):
    fw = list(r["fw"])
    if short_bytes is not None:
        fw += ["-k", str(short_bytes[0]), "-m", "short", "-b", str(short_bytes[1])]
    cmd = fw + ["--"] + r["argv"]
    fin = open(r["stdin"], "rb") if r["stdin"] and not os.path.isdir(r["stdin"]) else None
    if r["stdin"] and os.path.isdir(r["stdin"]):
        fin = os.open(r["stdin"], os.O_RDONLY | os.O_DIRECTORY)
    fout = open(r["stdout"], "wb") if not r["close_out"] else None

    def pre():
        if r["close_out"]:
            os.close(1)
        if r["close_in"]:
            os.close(0)
    try:
        p = subprocess.Popen(cmd, stdin=fin if fin is not None else subprocess.DEVNULL, stdout=fout, stderr=subprocess.PIPE,
                             env=base_env(), preexec_fn=pre if (r["close_out"] or r["close_in"]) else None)
        try:
            _, err = p.communicate(timeout=600)      # nothing here is expected to spin; generous for loaded machines
            rc = p.returncode
        except subprocess.TimeoutExpired:
            p.kill()
            _, err = p.communicate()
            rc = -999
    finally:
        if fout:
            fout.close()
        if isinstance(fin, int):
            os.close(fin)
        elif fin:
            fin.close()
    wl, rl, status = [], [], None
    if os.path.exists(r["log"]):
        for ln in open(r["log"]):
            f = ln.split()
            if f[0] == "W":
                wl.append((int(f[1]), int(f[2]) if int(f[2]) >= 0 else -1))
            elif f[0] == "R":
                rl.append((int(f[1]), int(f[2])))
            elif f[0] == "X":
                status = int(f[1])
            elif f[0] == "S":
                status = -int(f[1])
    if rc == -999:
        status = -999
    if status is None:
        raise vlib.MachineryError("failwrite gave no status (rc=%s): %s" % (rc, err[-400:]))
    sinkbytes = None
    if r["sink"] and os.path.exists(r["sink"]):
        sinkbytes = open(r["sink"], "rb").read()
    return {"status": status, "wlog": wl, "rlog": rl, "stderr": err.decode("utf-8", "replace"), "sink": sinkbytes}


def proc_matches(e, obs, ref_out, chunks=True):
    """Does the observation equal the terminal state e of Proc.tla?  Returns None or a short reason.
    chunks=False: the descriptor cannot be fstat'ed (closed), libc then picks another buffer size, so only the
    status, the presence of a message and "every write failed" are compared."""
    if obs["status"] != e["exit"]:
        return "status %s, specified %s" % (obs["status"], e["exit"])
    if e["exit"] != 0 and not obs["stderr"].strip():
        return "non-zero status without a message on stderr"
    if "read" in e["iofail"] and e["exit"] != 0:
        return None     # how much was printed before the read error is diagnosed is not prescribed (the token in flight is lost)
    if not chunks:
        if any(x[1] >= 0 for x in obs["wlog"]) or bool(obs["wlog"]) != bool(e["wlog"]):
            return "write(2) log %s, specified: %s" % (obs["wlog"][:8], "every write fails" if e["wlog"] else "no write")
        return None
    ew, cut = expected_wlog(e)
    ow = obs["wlog"][:len(ew)] if cut else obs["wlog"]
    if ow != ew:
        return "write(2) log %s, specified %s%s" % (obs["wlog"][:8], ew[:8], " then unconstrained" if cut else "")
    if obs["sink"] is not None:
        acc = sum(x[1] for x in obs["wlog"] if x[1] > 0)
        if len(obs["sink"]) != acc:
            return "sink holds %d bytes, write(2) results add up to %d" % (len(obs["sink"]), acc)
        if not cut:
            if len(obs["sink"]) != real(e["accepted"]):
                return "sink holds %d bytes, specified %d" % (len(obs["sink"]), real(e["accepted"]))
            if ref_out is not None and obs["sink"] != ref_out[:len(obs["sink"])]:
                return "sink content is not the program's output"
    return None


def scn_key(s):
    return "%(args)s/%(outk)s/%(sink)s:%(k)d/%(ink)s:%(r)d/%(prog)s/%(n)d" % s


def variants_of(scn):
    if scn["args"] == "noarg":
        return ["t", "o"]
    if scn["outk"] == "obad":
        return ["enoent", "isdir"]
    if scn["sink"] == "allfail" and scn["outk"] == "stdout":
        return ["devfull", "closed"] if scn["ink"] == "stdin" else ["devfull"]
    if scn["sink"] == "failk":
        return ["enospc", "eio"] if scn["k"] <= 2 else ["enospc"]
    if scn["ink"] == "missing":
        return ["enoent", "notdir"]
    if scn["ink"] == "readerr":
        v = ["inject", "stdin-inject"]
        if scn["n"] == 0 and scn["r"] == 1:
            v += ["dir", "stdin-dir", "stdin-closed"]
        return v
    return [""]


class Models:
    """All TLC runs of the check, started together (JVM start-up dominates the small models)."""

    def __init__(self, ctx):
        from concurrent.futures import ThreadPoolExecutor
        tier = "quick" if ctx.quick else "thorough"
        self.ex = ThreadPoolExecutor(max_workers=4)
        must = ctx.tlc_must_pass
        self.f = {
            "proc_spec": self.ex.submit(must, "Proc", "MC_Proc_spec_%s.cfg" % tier, workers=2, coverage=True, timeout=900),
            "skip_spec": self.ex.submit(must, "Skip", "MC_Skip_spec_%s.cfg" % tier, workers=4, coverage=ctx.quick, timeout=1500),
            "skip_live": self.ex.submit(ctx.tlc, "Skip", "MC_Skip_live.cfg", workers=1, timeout=600),
            "bounds": self.ex.submit(must, "Bounds", "MC_Bounds_%s.cfg" % tier, workers=2, coverage=ctx.quick, timeout=1500),
        }

    def get(self, name):
        return self.f[name].result()

    def close(self):
        self.ex.shutdown(wait=True)


def part_proc(ctx, bins, models):
    spec = models.get("proc_spec")
    ctx.check_coverage(spec)
    # Dev_ReadErrIsEOF is switched off since /repo 0b97f88: the only configuration is the one the property demands
    # (set the constant to TRUE in a copy of the cfg to get the shipped-before-the-fix behaviour back).
    want = {scn_key(json.loads(v)["scn"]): json.loads(v) for v in spec.vcases}
    have = want
    if len(want) != len(spec.vcases):
        raise vlib.MachineryError("Proc.tla: scenarios are not unique")
    jobs = []
    for key in sorted(want):
        scn = want[key]["scn"]
        for variant in variants_of(scn):
            for mode in (("E", "c") if scn["ink"] != "readerr" else ("E",)):
                jobs.append((key, variant, mode))
    if ctx.quick:
        # all fault scenarios in -E mode; compile mode for a deterministic third
        jobs = [j for i, j in enumerate(jobs) if j[2] == "E" or i % 3 == 0]
    refs = {}

    def one(ij):
        i, (key, variant, mode) = ij
        e, im = want[key], have[key]
        scn = e["scn"]
        res = []
        for build, exe in (("asan", bins.asan), ("plain", bins.plain)):
            r = render_proc(ctx, bins, scn, variant, mode, exe, i)
            if r is None:
                return None
            short = None
            if scn["sink"] == "shortk":
                ew, _ = expected_wlog(e)
                if scn["k"] <= len(ew) and ew[scn["k"] - 1][1] != ew[scn["k"] - 1][0]:
                    short = (scn["k"], ew[scn["k"] - 1][1])
                else:
                    short = (scn["k"], 1 << 30)   # the model says this call cannot be cut (1 byte or no such call)
            obs = exec_proc(r, short)
            sig = crash_signature(obs["status"], obs["stderr"])
            res.append((build, obs, sig, r))
            if sig is None:
                break
        return key, variant, mode, res

    results = vlib.pmap(one, list(enumerate(jobs)), workers=16)
    nrun = 0
    # fault-free runs give the reference output of each (mode, n, prog, ink-class)
    for item in results:
        if item is None:
            continue
        key, variant, mode, res = item
        e = want[key]
        scn = e["scn"]
        build, obs, sig, r = res[-1]
        if scn["sink"] == "good" and scn["args"] == "ok" and scn["ink"] in ("stdin", "file") and sig is None and obs["sink"] is not None:
            refs[(mode, scn["n"], scn["prog"])] = obs["sink"]
            if len(obs["sink"]) != real(scn["n"]) and obs["status"] == e["exit"]:
                raise vlib.MachineryError("size audit: program for %d bytes printed %d (mode %s)" % (real(scn["n"]), len(obs["sink"]), mode))
    for item in results:
        if item is None:
            continue
        key, variant, mode, res = item
        e, im = want[key], have[key]
        scn = e["scn"]
        nrun += 1
        nontrivial = scn["sink"] != "good" or scn["ink"] not in ("stdin", "file") or scn["args"] != "ok" or scn["outk"] == "obad"
        ctx.count("proc/%s/%s/%s" % (key, variant, mode), nontrivial=nontrivial)
        case = {"part": "proc", "scenario": scn, "variant": variant, "mode": mode, "spec_state": e, "impl_state": im}
        for build, obs, sig, r in res:
            if sig is not None:
                ctx.violation("%s" % sig, "sanitizer report / abnormal end in an exit-protocol scenario",
                              dict(case, build=build, argv=r["argv"][1:], stderr=obs["stderr"][-1500:]))
        build, obs, sig, r = res[-1]
        if sig is not None:
            continue
        ref = refs.get((mode, scn["n"], scn["prog"])) if scn["ink"] != "readerr" else r["text"]
        chunks = variant != "closed"
        why = proc_matches(e, obs, ref, chunks)
        if why is None:
            continue
        case.update(build=build, argv=r["argv"][1:], fault=r["fw"][3:], specified={k: e[k] for k in ("exit", "wlog", "accepted", "iofail")},
                    observed={"status": obs["status"], "wlog": obs["wlog"][:10], "stderr": obs["stderr"][-300:]})
        if im["dev"] and proc_matches(im, obs, ref, chunks) is None:
            ctx.violation("io:read-error-as-eof", "a failing read(2) of the input is taken for end of file: status %s, required %s"
                          % (obs["status"], e["exit"]), case)
        else:
            ctx.violation("proc:%s/%s/%s:%s/%s:want=%s:got=%s" % (scn["args"], scn["outk"], scn["sink"], scn["ink"], scn["prog"], e["exit"], obs["status"]),
                          "exit protocol differs from Proc.tla: " + why, case)
    ctx.validated(nrun)
    ctx.sample({"part": "Proc", "scenario": want[sorted(want)[len(want) // 2]]})
    ctx.cov["proc"] = {"scenarios": len(want), "invocations": nrun}


# ==================================================================================================
# shared: run one source text on the sanitized build and classify
# ==================================================================================================
def allowance(nbytes):
    return 10 + nbytes // 2000       # CPU seconds: 10 s + size-proportional allowance (DESIGN.md C19); 220 KB of nested
                                     # else-if needs ~5 s of CPU on an idle machine and several times that under memory pressure


def observe(exe, data, args=(), timeout=None):
    """-> (cls, sig, stderr) with cls in {0, 1, 2, "hang", "crash"}"""
    rc, out, err = run_cc(exe, data, args, timeout=timeout or allowance(len(data)))
    sig = crash_signature(rc, err)
    if sig is None:
        return rc, None, err
    if sig.startswith("hang:"):
        return "hang", sig, err
    return "crash", sig, err


def clang_accepts(data, std="c2x"):
    p = subprocess.run(["clang", "-std=" + std, "-fsyntax-only", "-fbracket-depth=100000", "-w", "-x", "c", "-"], input=data,
                       stdout=subprocess.PIPE, stderr=subprocess.PIPE)
    return p.returncode == 0


def gcc_accepts(data, std="c2x"):
    p = subprocess.run(["gcc", "-std=" + std, "-fsyntax-only", "-w", "-x", "c", "-"], input=data, stdout=subprocess.PIPE, stderr=subprocess.PIPE)
    return p.returncode == 0


def audit_class(data, cls_ok):
    """Spec audit against the two reference front ends. A class "valid" needs both to accept; a class "must be
    diagnosed" needs at least one to reject (clang recovers silently from an unbalanced `[[a( ( )]]`, gcc does not).
    Returns None if the references support the specification's class, else a description."""
    c, g = clang_accepts(data), gcc_accepts(data)
    if cls_ok and not (c and g):
        return "specified valid, rejected by %s" % ("clang" if not c else "gcc")
    if not cls_ok and c and g:
        return "specified invalid, accepted by clang and gcc"
    return None


# ==================================================================================================
# (3) Skip.tla
# ==================================================================================================
def dsel(key, m):
    """deterministic 1-in-m selection (Python's hash() is salted per process)"""
    return int(vlib.sha(repr(key))[:8], 16) % m == 0


def part_skip(ctx, bins, models):
    spec = models.get("skip_spec")
    if ctx.quick:
        ctx.check_coverage(spec)
    live = models.get("skip_live")
    if live.rc != 13 or "Stuttering" not in live.out:
        raise vlib.MachineryError("Skip.tla: with the deviation on TLC must report the non-terminating attribute loop (rc=%s)" % live.rc)
    want = {}
    for v in spec.vcases:
        c = json.loads(v)
        want[(c["loop"], tuple(c["stream"]))] = c
    # Dev_AttrSkipNoEOF is switched off since /repo f3e22e6: no stream is predicted to hang any more; MC_Skip_live.cfg keeps
    # the deviation on only to show that the liveness property can fail (vacuity guard, checked above).
    hang = set()
    if len(want) != len(spec.vcases):
        raise vlib.MachineryError("Skip.tla: unexpected enumeration (%d cases)" % len(want))
    jobs = []
    for key in sorted(want):
        c = want[key]
        nt = len(c["tail"])
        if c["shape"] == "closedend":
            cuts = range(nt + 1)
        elif c["shape"] == "closedearly":
            cuts = [nt]
        else:
            cuts = [0] if (key in hang and not ctx.quick) else [0, nt]
        if key in hang and len(key[1]) > 3 and not dsel(key, 4):
            continue          # each predicted hang costs its whole CPU limit: all short ones, a quarter of the long ones
        for cut in cuts:
            jobs.append((key, cut))

    def one(job):
        key, cut = job
        c = want[key]
        text = (c["text"] + "".join(c["tail"][:cut])).encode()
        cls = c["class"][cut]
        # spec audit: where the class is certain a reference front end must agree with the grammar-level classification
        audit = None
        if cls in ("ok", "diag") and (ctx.quick or dsel(key, 4)):
            audit = audit_class(text, cls == "ok")
        obs, sig, err = observe(bins.san, text, timeout=2 if key in hang else 10)
        return key, cut, text, cls, audit, obs, sig, err

    res = vlib.pmap(one, jobs, workers=16)
    n = 0
    for key, cut, text, cls, audit, obs, sig, err in res:
        c = want[key]
        if audit is not None:
            raise vlib.MachineryError("SPEC-AUDIT Skip.tla: %s: %r" % (audit, text))
        n += 1
        ctx.count("skip/%s/%s/%d" % (key[0], "".join(key[1]), cut), nontrivial=c["shape"] != "closedend" or cut < len(c["tail"]))
        case = {"part": "skip", "loop": key[0], "stream": list(key[1]), "cut": cut, "source": text.decode(), "class": cls, "shape": c["shape"]}
        if obs == "crash":
            ctx.violation(sig, "sanitizer report / abnormal end on a Skip.tla stream", dict(case, stderr=err[-1500:]))
            continue
        got = {0: "ok", 1: "diag"}.get(obs, obs)
        if got == "hang":
            if key in hang:
                ctx.violation("skip:parseattr-eof", "attribute argument skipping never terminates when the input ends first", case)
            else:
                ctx.violation("skip:%s:%s:%s" % (sig, key[0], c["shape"]), "loop does not terminate within the time limit", case)
        elif got not in ("ok", "diag") or (cls != "any" and got != cls):
            ctx.violation("skip:%s:%s:want=%s:got=%s" % (key[0], c["shape"], cls, got), "outcome class differs from Skip.tla", dict(case, stderr=err[-400:]))
    ctx.validated(n)
    ctx.sample({"part": "Skip", "case": {k: want[sorted(want)[7]][k] for k in ("loop", "stream", "text", "class")}})
    ctx.cov["skip"] = {"streams": len(want), "predicted_hangs": len(hang), "inputs": n}


# ==================================================================================================
# (2) Bounds.tla
# ==================================================================================================
def render_bound(fam, n, raw=None):
    """-> (source bytes, args) ; glue only: what a family name means as C text."""
    if fam == "utf8":
        # raw: the byte sequence chosen by Bounds.tla (U8Seqs); n = (kind * 5 + prefix) * 4 + context
        ctxt, pfx, k = n % 4, [b"", b"L", b"u8", b"u", b"U"][(n // 4) % 5], n // 20
        other = [b"u", b"u8", b"L", b"U", b""][(n // 4) % 5]           # a different prefix for the adjacent literal
        body = bytes(raw)
        lit = pfx + (b"'" + body + b"'" if k == 0 else b'"' + body + b'"')
        if ctxt == 0:
            return (b"int c = " if k == 0 else b"const void *s = ") + lit + b";\n", []
        if ctxt == 1:
            return b"int f(void) { return " + (lit if k == 0 else b"sizeof " + lit + b" + (" + lit + b")[0]") + b" != 0; }\n", []
        if ctxt == 2:
            return (b"static_assert(sizeof(" + lit + b") > 0, \"m\");\n" if k == 0 else b"static_assert(0, " + lit + b");\n"), []
        return b"const void *s = " + lit + b" " + other + b'"b" ' + lit + b";\n", []
    A = lambda k: "a" * k
    if fam == "ident":
        return "int %s;\n" % A(n), []
    if fam == "string":
        return 'char *v = "%s";\n' % A(n), []
    if fam == "escstring":
        return 'char *v = "%s";\n' % ("\\n" * n), []
    if fam == "ppnumber":
        return "1" * n + "\n", ["-E"]
    if fam == "floatconst":
        return "double v = 1.%s;\n" % ("0" * max(n - 2, 0)), []
    if fam == "comment":
        return "/*%s*/ int v;\n" % A(n), []
    if fam == "stringize":
        return "#define S(x) #x\nchar *v = S(%s);\n" % A(n), []
    if fam == "macrobody":
        return "#define M %s\nM\n" % " ".join(["1"] * n), ["-E"]
    if fam == "macrochain":
        return "#define A0 1\n" + "".join("#define A%d A%d\n" % (i, i - 1) for i in range(1, n + 1)) + "int v = A%d;\n" % n, []
    if fam == "macroargtoks":
        return "#define F(x) x\nF(%s)\n" % " ".join(["1"] * n), ["-E"]
    if fam == "callargs":
        return "int f(int, ...); int g(void) { return f(%s); }\n" % ", ".join(["1"] * n), []
    if fam == "strconcat":
        return "char *v = %s;\n" % " ".join(['"a"'] * n), []
    if fam == "peeknl":
        return "#define F(x) x\nint v = F%s(1);\n" % ("\n" * n), []
    if fam == "initlist":
        return "int a[] = {%s};\n" % ", ".join(["1"] * n), []
    if fam == "params":
        return "#define F(%s) 0\nint v = F(%s);\n" % (", ".join("p%d" % i for i in range(n)), ", ".join(["1"] * n)), []
    if fam == "braces":
        return "int a%s = %s1%s;\n" % ("[1]" * n, "{" * n, "}" * n), []
    if fam == "idxdesig":
        return "int a%s = {%s = 1};\n" % ("[1]" * n, "[0]" * n), []
    if fam == "implicit":
        return "int a%s = {1};\n" % ("[1]" * n), []
    if fam in ("memdesig", "structbraces"):
        s = "int x;"
        for _ in range(n):
            s = "struct { %s } a;" % s
        decl = s[:-2]
        if fam == "memdesig":
            return "%sv = {%s.x = 1};\n" % (decl, ".a" * (n - 1)), []
        return "%sv = %s1%s;\n" % (decl, "{" * n, "}" * n), []
    if fam == "desc_ident":
        return "int a %s;\n" % A(n - 13), []
    if fam == "desc_number":
        return "int a %s;\n" % ("1" * (n - 9)), []
    if fam == "desc_string":
        return 'int a "%s";\n' % A(n - 9), []
    if fam == "escape":
        b, k, pfx = n % 256, (n // 256) % 2, ["", "L", "u8", "u", "U"][n // 512]
        body = b"\\" + bytes([b]) + (b"41" if b == 120 else b"")       # \x needs its hex digits
        if k == 0:
            return b"int c = " + pfx.encode() + b"'" + body + b"';\n", []
        return b"const void *s = " + pfx.encode() + b'"' + body + b'";\n', []
    if fam == "arity":
        e, na, body, v, np_ = n % 2, (n // 2) % 8, (n // 16) % 3, (n // 48) % 2, n // 96
        named = ["p%d" % i for i in range(np_)]
        params = named + (["..."] if v else [])
        use = named + (["__VA_ARGS__"] if v else [])
        text = [" ".join(use), " ".join("#" + u for u in use), "0"][body] or "0"
        first = ", ".join(["1"] * np_ + (["+ 2", "3"] if v else []))
        second = ", ".join([("" if e else "1")] * na)
        return "#define F(%s) %s\nF(%s) F(%s)\n" % (", ".join(params), text, first, second), ["-E"]
    if fam == "attr":
        pos, r = n % 9, n // 9
        syn, r = r % 2, r // 2
        a, r = r % 4, r // 4
        pre, r = r % 4, r // 4
        sp, nm = r % 2, r // 2
        name = attr_names()[nm]
        if sp:
            name = "__%s__" % name
        spec = ["", "gnu::", "__gnu__::"][pre] + name + ["", "(8)", "(3)", "()"][a]
        at = "[[%s]]" % spec if syn == 0 else "__attribute__((%s))" % spec
        return ["%s int x;", "int x %s;", "struct s { %s char c; int d; };", "struct %s s { char c; };", "int f(void) { %s; return 0; }",
                "int f(void) { %s int y = 0; return y; }", "int f(%s int p);", "enum e { A %s = 1 };", "int * %s p;"][pos] % at + "\n", []
    if fam == "objhash":
        body = OBJHASH_BODIES[n // 8]
        use = ["M", "M M", "ID(M)", "XSTR(M)", "ID(ID(M) M)", "STR(M)", "M(1)", "ID(\nM\n)"][n % 8]
        return ("#define ID(x) x\n#define STR(x) #x\n#define XSTR(x) STR(x)\n#define M %s\n%s\n" % (body, use)), ["-E"]
    if fam == "guard":
        return GUARDS[n - 1] + "\n", []
    if fam == "margs":
        np_, rest = divmod(n, 100)
        na, v = divmod(rest, 2)
        params = ["p%d" % i for i in range(np_ - v)] + (["..."] if v else [])
        if v and np_ == 0:
            params = []
        args = ", ".join(["1"] * na)
        return "#define F(%s) 0\nint v = F(%s);\n" % (", ".join(params), args), []
    d = n
    if fam == "parens":
        return "int v = %s1%s;\n" % ("(" * d, ")" * d), []
    if fam == "blocks":
        return "void f(void) { %s%s }\n" % ("{" * d, "}" * d), []
    if fam == "declparens":
        return "int %sx%s;\n" % ("(" * d, ")" * d), []
    if fam == "pointers":
        return "int %sx;\n" % ("*" * d), []
    if fam == "unaryneg":
        return "int v = %s1;\n" % ("- " * d), []
    if fam == "lognot":
        return "int v = %s1;\n" % ("!" * d), []
    if fam == "dims":
        return "int a%s;\n" % ("[1]" * d), []
    if fam == "elseif":
        return "int f(int x) { %sreturn 0; }\n" % ("if (x) return 1; else " * d), []
    if fam == "ifnest":
        return "int f(int x) { %sreturn 1; return 0; }\n" % ("if (x) " * d), []
    if fam == "structnest":
        return "%sint x;%s\n" % ("struct { " * d, " } a;" * d), []
    if fam == "casts":
        return "int v = %s1;\n" % ("(int)" * d), []
    if fam == "sizeofs":
        return "unsigned long v = %s1;\n" % ("sizeof " * d), []
    if fam == "ternary":
        return "int v = %s0;\n" % ("1 ? 1 : " * d), []
    if fam == "subscripts":
        return "int a[1]; int f(void) { return %s0%s; }\n" % ("a[" * d, "]" * d), []
    if fam == "calls":
        return "int f(int); int g(void) { return %s0%s; }\n" % ("f(" * d, ")" * d), []
    raise vlib.MachineryError("Bounds.tla: unknown family %s" % fam)


# range-guard probes (property anchors: eval.c float->int range checks, decl.c array size overflow, alignment and
# enumerator range checks); Bounds.tla's NGuard must equal the length of this list
GUARDS = [
    "int x = (int)1e30;", "unsigned u = (unsigned)1e30;", "long long x = (long long)-1e30;", "unsigned long long u = (unsigned long long)-1.0;",
    "int x = (int)9223372036854775808.0;", "unsigned long long u = (unsigned long long)18446744073709551616.0;",
    "long long x = (long long)-9223372036854775808.0;", "unsigned char c = (unsigned char)1e10;",
    "char a[0x7fffffffffffffff][16];", "int a[0xffffffffffffffff];", "int a[-1];", "char a[1ull << 63][2];",
    "_Alignas(3) int x;", "_Alignas(0x100000000) int x;", "enum e { A = 0x7fffffffffffffff, B };", "enum e { A = 0xffffffffffffffff, B };",
]

# replacement lists of object-like macros in which # / ## are ordinary tokens (6.10.3.2 applies to function-like macros only);
# Bounds.tla's NObjHash must equal the length of this list and HashHash the indices (1-based) of the bodies with ##
OBJHASH_BODIES = ["#", "# x", "# see x", "x #", "# #", "# define", "#x #y", "( # )", "##", "x ## y", "## x"]

def attr_names():
    """attribute (and prefix) names attr.c compares against, read from the source at run time, plus one unknown name"""
    src = open(os.path.join(vlib.REPO, "attr.c")).read()
    return sorted(set(re.findall(r'strcmp\(name, "(\w+)"\)', src))) + ["frobnicate"]


DEPTH_FAMS = {"parens", "blocks", "declparens", "pointers", "unaryneg", "dims", "elseif", "structnest", "casts", "sizeofs", "ternary",
              "lognot", "subscripts", "calls", "ifnest"}


def part_bounds(ctx, bins, models):
    r = models.get("bounds")
    if ctx.quick:
        ctx.check_coverage(r)
    if len(r.vcases) != 1:
        raise vlib.MachineryError("Bounds.tla: expected one VCASE line with the case set")
    cases = json.loads(r.vcases[0])["cases"]
    if sum(1 for c in cases if c["fam"] == "objhash") != 8 * len(OBJHASH_BODIES):
        raise vlib.MachineryError("Bounds.tla NObjHash differs from the harness' list of replacement lists")
    if max(c["n"] for c in cases if c["fam"] == "attr") // 576 + 1 != len(attr_names()):
        raise vlib.MachineryError("Bounds.tla NAttrName (%d) differs from the names found in attr.c (%s)" % (max(c["n"] for c in cases if c["fam"] == "attr") // 576 + 1, attr_names()))
    if sum(1 for c in cases if c["fam"] == "guard") != len(GUARDS):
        raise vlib.MachineryError("Bounds.tla NGuard differs from the harness' guard probe list")

    def one(c):
        src, args = render_bound(c["fam"], c["n"], c.get("bytes"))
        data = src if isinstance(src, bytes) else src.encode()
        # instrumented frames are ~3x larger: beyond depth 1000 the plain build is the target (stack exhaustion of the
        # sanitized build is an artefact of the instrumentation, not of the compiler)
        deep = c["fam"] in DEPTH_FAMS and c["n"] > 1000
        exe = bins.plain if deep else bins.san
        audit = None
        if c["class"] in (0, 1) and len(data) < 20000 and not (c["fam"] in DEPTH_FAMS and c["n"] > 100) and "-E" not in args \
                and not (c["fam"] == "escape" and c["n"] // 512 == 2 and (c["n"] // 256) % 2 == 0):   # clang 14 has no u8 character constants
            if c["class"] == 0 or c["fam"].startswith("desc_") or c["fam"] == "margs":
                audit = audit_class(data, c["class"] == 0)
        obs, sig, err = observe(exe, data, args)
        if c["fam"] == "utf8" and obs in (0, 1):
            # the decoder's verdict must not depend on the build: assertions are compiled into both, ASan's allocator is not
            o2, s2, e2 = observe(bins.plain, data, args)
            if o2 != obs:
                obs, sig, err = (o2, s2, e2) if o2 not in (0, 1) else ("crash", "bounds:utf8:plain-differs:%s-vs-%s" % (obs, o2), e2)
        if c["fam"] == "arity" and obs in (0, 1):
            o2, s2, e2 = observe(bins.plain, data, args)     # stale heap contents differ between the two allocators
            if o2 not in (0, 1) or o2 != obs:
                obs, sig, err = (o2, s2, e2) if o2 not in (0, 1) else ("crash", "bounds:arity:plain-differs:%s-vs-%s" % (obs, o2), e2)
        return c, data, args, audit, obs, sig, err, deep

    res = vlib.pmap(one, cases, workers=16)
    n = 0
    for c, data, args, audit, obs, sig, err, deep in res:
        if audit is not None:
            raise vlib.MachineryError("SPEC-AUDIT Bounds.tla: %s(%d) class %d: %s" % (c["fam"], c["n"], c["class"], audit))
        n += 1
        ctx.count("bounds/%s/%d/%s" % (c["fam"], c["n"], bytes(c.get("bytes", [])).hex()), nontrivial=True)
        case = {"part": "bounds", "family": c["fam"], "n": c["n"], "class": c["class"], "held": c["held"], "args": args, "build": "plain" if deep else "asan+ubsan",
                "source": data[:300].decode("latin-1") + ("..." if len(data) > 300 else "")}
        if "bytes" in c:
            case["bytes"] = c["bytes"]
        if obs in ("crash", "hang"):
            ctx.violation(sig, "sanitizer report / abnormal end / timeout on a boundary input of Bounds.tla",
                          dict(case, stderr=err[-1500:]))
            continue
        if c["class"] != 2 and obs != c["class"]:
            ctx.violation("bounds:%s:n=%d:want=%d:got=%s" % (c["fam"], c["n"], c["class"], obs), "outcome class differs from Bounds.tla", dict(case, stderr=err[-400:]))
            continue
        if c["held"] >= 0:
            m = re.search(r", saw (.*)$", err.strip().split("\n")[-1])
            got = len(m.group(1).encode()) if m else -1
            if got != c["held"]:
                ctx.violation("bounds:%s:n=%d:held=%d:got=%d" % (c["fam"], c["n"], c["held"], got),
                              "token description in the diagnostic has %d bytes, Bounds.tla says the 64-byte buffer holds %d" % (got, c["held"]),
                              dict(case, stderr=err[-400:]))
    ctx.validated(n)
    ctx.sample({"part": "Bounds", "case": cases[len(cases) // 3]})
    ctx.cov["bounds"] = {"boundary_inputs": n, "families": len({c["fam"] for c in cases})}


# ==================================================================================================
# (4) observation at volume (not decided by a model)
# ==================================================================================================
# failing inputs of DESIGN.md §8 marked C19 and crashes reported by other checks (C02 pool, C05), reduced
SEEDS = [
    ("fixed-737afb8-div-zero", b"int x = 1/0;\n", []),
    ("fixed-737afb8-mod-zero", b"int x = 5 % 0;\n", []),
    ("fixed-737afb8-llong-min-div", b"long long y = (-9223372036854775807LL - 1) / -1;\n", []),
    ("fixed-737afb8-llong-min-mod", b"long long y = (-9223372036854775807LL - 1) % -1;\n", []),
    ("fixed-737afb8-unevaluated-div", b"int x = 1 || (1 / 0);\n", []),
    ("fixed-10582f3-nan-to-int", b"int x = (int)(0.0 / 0.0);\n", []),
    ("fixed-4efa8f7-va-arg-without-type", b"void f(__builtin_va_list ap) { __builtin_va_arg(ap, ); }\n", []),
    ("fixed-4efa8f7-va-arg-without-type-value", b"int f(__builtin_va_list ap) { return __builtin_va_arg(ap, ); }\n", []),
    ("fixed-4efa8f7-offsetof-without-type", b"int x = __builtin_offsetof(, x);\n", []),
    ("fixed-4544836-anon-member-designator", b"struct A { struct { int q; char r; }; int t; }; struct A o = {.q = 1, 2, 3};\n", []),
    ("union-reinit", b"union U { int a; struct { short p; char c; int a; } p; }; union U obj = {70000, .p = {1000, 1, .a = 5}};\n", []),
    ("fixed-24ff3f5-keyword-macro-twice", b"#define T int\nT a; T b;\n", []),
    ("fixed-499abfa-undef-during-args", b"#define f(x) x\nf(\n#undef f\n1)\n", ["-E"]),
    ("fixed-ff1537e-types-compatible-nontype", b"int v = __builtin_types_compatible_p(int, 1);\n", []),
    ("fixed-3a3e772-builtin-as-value", b"float x = __builtin_inff;\n", []),
    ("fixed-3a3e772-builtin-as-statement", b"int main(void) { __builtin_expect; }\n", []),
    ("fixed-f3e22e6-attr-eof", b"[[foo(", []),
    ("fixed-f3e22e6-gnuattr-eof", b"__attribute__((foo(", []),
    ("fixed-3b44cfa-nullptr-in-function", b"int f(void) { nullptr; return 0; }\n", []),
    ("fixed-3b44cfa-nullptr-condition", b"int f(void) { return nullptr ? 1 : 0; }\n", []),
    ("fixed-7de8952-cast-to-incomplete-enum", b"void f(void) { (enum e)1.5; }\n", []),
    ("fixed-7de8952-cast-to-incomplete-enum-const", b"int x = (enum e)1;\n", []),
    ("fixed-7de8952-object-of-incomplete-enum", b"enum e v;\n", []),
    ("fixed-7de8952-parameter-of-incomplete-enum", b"void g(enum e x) {}\n", []),
    ("fixed-7de8952-enum-without-tag-cast", b"int main() { (enum)1 < 0; }\n", []),
    ("fixed-7de8952-enum-without-tag-parameter", b"int main(enum) { (char)0 < (unsigned)256; }\n", []),
    ("fixed-7de8952-enum-forward-then-defined", b"enum e; enum e { A }; enum e v = A;\n", []),
    ("fixed-46ba986-named-void-parameter", b"void f(void voiddefault) {\n", []),
    ("fixed-46ba986-void-then-ellipsis", b"void g1(void, ...); void f() { g1(0); }\n", []),
    ("fixed-ba7af91-incomplete-struct-parameter", b"struct s; void f(struct s x) {}\n", []),
    ("fixed-ba7af91-fixed-enum-forward-parameter", b"enum E : long; void g(enum E x) {}\n", []),
    ("fixed-3fd6171-definition-without-function-declarator", b"int f(); typeof(f) f {\n", []),
    ("fixed-550242f-va-list-initializer-aarch64", b"__builtin_va_list a, b = __builtin_va_copy(a, b);\n", ["-t", "aarch64"]),
    ("fixed-550242f-va-list-initializer-scalar", b"__builtin_va_list b = 1;\n", []),
    ("fixed-550242f-va-list-initializer-braces", b"void f(void) { __builtin_va_list b = {0}; }\n", ["-t", "aarch64"]),
    ("fixed-315a5b4-deref-string-file-scope", b"char s = *\"abc\";\n", []),
    ("fixed-315a5b4-deref-string-block-scope", b"void f(void) { char s = *\"abc\"; }\n", []),
    ("fixed-315a5b4-deref-string-value", b"int f(void) { return *\"abc\" + *L\"x\"; }\n", []),
    ("zero-length-local-array", b"void f(void) { int a[0]; }\n", []),
    ("zero-size-struct-assign", b"struct S { int a[0]; }; void f(void) { struct S x, y; x = y; }\n", []),
    ("union-two-designators", b"union U { int a; char b; } u = {.a = 1, .b = 2};\n", []),
    ("deep-parens-30000", b"int v = " + b"(" * 30000 + b"1" + b")" * 30000 + b";\n", []),
    ("fixed-51bc936-bitfield-width-sentinel", b"struct S { int : -1ull; int a; } s; int f(void) { return s.a; }\n", []),
    ("fixed-51bc936-bitfield-width-sentinel-named", b"struct S { int x : -1ull; } s;\n", []),
    # regression inputs of defects repaired by fix: commits in /repo (must stay quiet)
    ("fixed-328642d-enum-fixed-type-then-definition", b"enum E : long; enum E { A, B }; enum E x = B;\n", []),
    ("fixed-328642d-enum-definition-adds-fixed-type", b"enum E; enum E : long { A, B };\n", []),
    ("fixed-0429f13-swap-reassoc-clobber", b"int a[4]; long p = 2 + (long)&a[1];\n", []),
    ("fixed-4ba409c-expandfunc-uaf", b"#define f(a) a\n#define t(a) a\nt(t(f)x)\n", ["-E"]),
    ("fixed-f515711-duplicate-label", b"void f(void) { x: x: ; }\n", []),
    ("fixed-c5b7a53-bitand-pointer", b"int x[1], y = 0 & x;\n", []),
    ("fixed-060fc54-void-condition", b"int i; void p; int main(void) { if (i ? 1 : 0) p ? 1 : 0; }\n", []),
    ("fixed-d052c7b-macro-name-last-in-argument", b"#define f()\n#define m(a) a\nm(f)\n", ["-E"]),
    ("fixed-0c3a06d-nul-in-string", b"char s[] = \"ab\x00\";\n", []),
    ("fixed-6739228-backslash-nul-escape", b"char *s = \"\\\x00\";\n", []),
]


def byte_mutants(ctx, files, n):
    vals = [0, 255, 0x80, 0xC0, ord('"'), ord("'"), ord("\\"), ord("("), ord(")"), ord("{"), ord("}"), ord("["), ord("#"), ord("\n"), ord("/"), ord("*")]
    out = []
    for i in range(n):
        p, targ, mode = files[ctx.rng.randrange(len(files))]
        b = bytearray(open(p, "rb").read())
        if not b:
            continue
        k = ctx.rng.choice(["set", "del", "ins", "dup"])
        q = ctx.rng.randrange(len(b))
        v = ctx.rng.choice(vals) if ctx.rng.random() < 0.7 else ctx.rng.randrange(256)
        if k == "set":
            b[q] = v
        elif k == "del":
            del b[q]
        elif k == "ins":
            b.insert(q, v)
        else:
            b[q:q] = b[q:q + ctx.rng.randrange(1, 9)]
        out.append((bytes(b), targ, mode, {"file": os.path.basename(p), "byte": k, "at": q, "val": v}))
    return out


def truncations(files, stride, phase):
    import mutate
    out, j = [], 0
    for p, targ, mode in files:
        text = open(p, errors="surrogateescape").read()
        toks = mutate.tokenize(text)
        pos = 0
        for t in toks:
            pos += len(t)
            if t.isspace():
                continue
            j += 1
            if j % stride == phase % stride:
                out.append((text[:pos].encode("utf-8", "surrogateescape"), targ, mode, {"file": os.path.basename(p), "truncate_after_byte": pos}))
    return out


SWEEP_BASE = ("struct s { int a : 3 ; char b [ 2 ] ; } ; enum { A = 1 } ; typedef int T ; static T g ( struct s * p , ... ) { "
              "int i = 0 , * q = & i ; char c = 'x' ; const char * m = \"s\" ; for ( ; i < 2 ; ++ i ) switch ( p -> a ) { case A : "
              "return sizeof ( T ) ; default : break ; } if ( ! * q ) goto out ; c = ( char ) ( i ? 1.5 : - 2 ) ; out : "
              "return p -> b [ 1 ] + c + * m ; }").split(" ")


def sweep_alphabet():
    """every keyword and punctuator spelling of /repo/token.c plus a few literal shapes"""
    src = open(os.path.join(vlib.REPO, "token.c")).read()
    body = src[src.index("const char *tokstr[]"):]
    body = body[:body.index("};")]
    toks = re.findall(r'\[T\w+\]\s*=\s*"((?:[^"\\]|\\.)*)"', body)
    toks = [t.replace('\\"', '"').replace("\\\\", "\\") for t in toks]
    return sorted(set(toks)) + ["x", "0", "1.5", "'c'", '"s"', "u8\"s\"", "L'x'", "0x", "1e", "..", "@", "\\", "__builtin_va_list", "__builtin_offsetof", "[[", "]]"]


def token_sweep(quick):
    """Exhaustive single-token perturbation of one compact program: every token replaced by (thorough: also preceded by)
    every keyword/punctuator/literal shape."""
    out = []
    alpha = sweep_alphabet()
    for i in range(len(SWEEP_BASE)):
        for a in alpha:
            if quick and not dsel((i, a), 6):
                continue
            t = list(SWEEP_BASE)
            t[i] = a
            out.append((" ".join(t).encode() + b"\n", "x86_64-sysv", "c", {"sweep": "replace", "at": i, "by": a}))
            if not quick:
                t = list(SWEEP_BASE)
                t.insert(i, a)
                out.append((" ".join(t).encode() + b"\n", "x86_64-sysv", "c", {"sweep": "insert", "at": i, "by": a}))
        t = list(SWEEP_BASE)
        del t[i]
        out.append((" ".join(t).encode() + b"\n", "x86_64-sysv", "c", {"sweep": "delete", "at": i}))
    return out


def part_volume(ctx, bins):
    import mutate
    files = mutate.corpus()
    q = ctx.quick
    inputs = []          # (bytes, target, mode, descr, origin)
    for name, src, args in SEEDS:
        if not name.startswith("deep-"):     # beyond depth 10^3 the plain build is the target (see Bounds)
            inputs.append((src, args[args.index("-t") + 1] if "-t" in args else "x86_64-sysv", "E" if "-E" in args else "c", {"seed": name}, "seed"))
    for p, targ, mode in files:
        inputs.append((open(p, "rb").read(), targ, mode, {"file": os.path.basename(p)}, "corpus"))
    for src, targ, mode, d in mutate.generate(ctx, 1500 if q else 45000, 2):
        inputs.append((src.encode("utf-8", "surrogateescape"), targ, mode, d, "MutateTok"))
    for src, targ, mode, d in byte_mutants(ctx, files, 800 if q else 25000):
        inputs.append((src, targ, mode, d, "MutateByte"))
    for src, targ, mode, d in truncations(files, 4 if q else 1, ctx.seed):
        inputs.append((src, targ, mode, d, "Truncate"))
    inputs.append((" ".join(SWEEP_BASE).encode() + b"\n", "x86_64-sysv", "c", {"sweep": "base"}, "TokSweep"))
    for src, targ, mode, d in token_sweep(q):
        inputs.append((src, targ, mode, d, "TokSweep"))
    # -E and compile mode are different code paths: corpus-derived inputs run in the mode the corpus file is tested in,
    # and a fifth of them also in the other one
    jobs = []
    for i, (src, targ, mode, d, origin) in enumerate(inputs):
        jobs.append((src, targ, mode, d, origin))
        if origin != "seed" and i % 5 == 0:
            jobs.append((src, targ, "c" if mode == "E" else "E", d, origin))

    def one(job):
        src, targ, mode, d, origin = job
        args = ["-t", targ] + (["-E"] if mode == "E" else [])
        obs, sig, err = observe(bins.san, src, args)
        return obs, sig, err

    res = vlib.pmap(one, jobs, workers=16)
    by_origin = collections.Counter()
    sigs = collections.Counter()
    # how the §8 inputs end on the plain build (what a user sees: the terminating signal)
    for name, src, args in SEEDS:
        rc, out, err = run_cc(bins.plain, src, args)
        sig = crash_signature(rc, err)
        by_origin["seed/plain"] += 1
        ctx.count("plain-seed/" + name, nontrivial=True)
        if sig is not None:
            key = sig + ":seed=" + name
            sigs[key] += 1
            ctx.violation(key, "abnormal end of the plain build on a known failing input", {"part": "volume", "origin": "seed/plain", "descr": {"seed": name},
                          "target": "x86_64-sysv", "mode": "E" if "-E" in args else "c", "source": src.decode(), "stderr": err[-600:]})
    for (src, targ, mode, d, origin), (obs, sig, err) in zip(jobs, res):
        by_origin[origin] += 1
        ctx.count(vlib.sha(src) + mode + targ, nontrivial=origin != "corpus")
        if obs in (0, 1):
            continue
        key = sig if obs in ("crash", "hang") else "exit:%s" % obs
        if origin == "seed":
            key += ":seed=" + d["seed"]
        sigs[key] += 1
        ctx.violation(key, "sanitizer report / abnormal end / timeout on a %s input" % origin,
                      {"part": "volume", "origin": origin, "descr": d, "target": targ, "mode": mode, "source": src.decode("utf-8", "surrogateescape"), "stderr": err[-2500:]})
    # the check the volume target leaves out: pointer-overflow ("applying zero offset to null pointer") on the unmutated corpus
    full = os.path.join(vlib.build("asan"), "cproc-qbe")

    def one_full(f):
        p, targ, mode = f
        src = open(p, "rb").read()
        return observe(full, src, ["-t", targ] + (["-E"] if mode == "E" else []))
    for (p, targ, mode), (obs, sig, err) in zip(files, vlib.pmap(one_full, files, workers=16)):
        by_origin["corpus/full-ubsan"] += 1
        ctx.count("full/" + p, nontrivial=False)
        if obs not in (0, 1):
            sigs[sig] += 1
            ctx.violation(sig or "exit:%s" % obs, "sanitizer report on an unmutated regression test", {"file": os.path.basename(p), "target": targ, "mode": mode, "stderr": err[-2500:]})
    # valgrind memcheck on the plain build for a sample (uninitialised reads are invisible to ASan/UBSan)
    vg = [j for i, j in enumerate(jobs) if j[4] != "seed" and i % (150 if q else 300) == 7][: 40 if q else 400]

    # inputs whose only symptom is an uninitialised read (invisible to ASan/UBSan): always under memcheck
    vg += [(b"enum x A = 1;\n", "x86_64-sysv", "c", {"seed": "object-of-incomplete-enum"}, "seed"),
           (b"enum e v;\n", "x86_64-sysv", "c", {"seed": "object-of-incomplete-enum-2"}, "seed")]

    def one_vg(job):
        src, targ, mode, d, origin = job
        cmd = ["valgrind", "-q", "--error-exitcode=97", "--track-origins=no", bins.plain, "-t", targ] + (["-E"] if mode == "E" else [])
        rc, out, err = vlib.run(cmd, stdin=src, timeout=120, env=base_env())
        return rc, err.decode("utf-8", "replace")
    for job, (rc, err) in zip(vg, vlib.pmap(one_vg, vg, workers=16)):
        by_origin["valgrind"] += 1
        ctx.count("vg/" + vlib.sha(job[0]), nontrivial=False)
        if rc == 127 or "valgrind:" in err.split("\n", 1)[0]:
            raise vlib.MachineryError("valgrind did not start: " + err[:300])
        # invalid accesses and aborts of the same inputs are reported by the sanitized run above; memcheck is here for
        # what the sanitizers cannot see: use of uninitialised values
        m = re.search(r"==\d+== ((?:Conditional jump|Use of uninitialised|Syscall param)[^\n]*)\n(?:==\d+==\s+(?:at|by) [^\n]*\n)*?==\d+==\s+(?:at|by) 0x[0-9A-F]+: (\w+) \((\w+\.c):\d+\)", err)
        if not m:
            continue
        key = "valgrind:uninitialised:%s:%s" % (m.group(3), m.group(2))
        sigs[key] += 1
        ctx.violation(key, "valgrind memcheck report / abnormal end on the plain build",
                      {"origin": job[4], "descr": job[3], "target": job[1], "mode": job[2], "source": job[0].decode("utf-8", "surrogateescape"), "stderr": err[-2500:]})
    ctx.cov["volume"] = {"inputs_by_origin": dict(by_origin), "abnormal_by_signature": dict(sigs)}
    ctx.sample({"part": "volume", "example": jobs[len(jobs) // 2][3]})


# ==================================================================================================
def run(ctx):
    ctx.level = "fault_enumeration"
    bins = Bins(ctx)
    ctx.cov["rule"] = ("(1) every scenario of Proc.tla (argv class x output kind x sink/fault schedule x input kind x program class x "
                       "output size around multiples of the stdio buffer) rendered to a real invocation; non-trivial = a fault, an "
                       "error path or a non-default descriptor is involved.")
    models = Models(ctx)
    try:
        t0 = time.time()
        part_proc(ctx, bins, models)
        t1 = time.time()
        part_skip(ctx, bins, models)
        t2 = time.time()
        part_bounds(ctx, bins, models)
        t3 = time.time()
        part_volume(ctx, bins)
        ctx.cov["part_wall_s"] = {"proc": round(t1 - t0, 1), "skip": round(t2 - t1, 1), "bounds": round(t3 - t2, 1), "volume": round(time.time() - t3, 1)}
    finally:
        models.close()


def replay(ctx, path):
    """Re-run exactly the stored case; prints what the specification demands and what the binary does now.
    Exit 1 if the stored violation key reproduces, 0 if not."""
    rec = json.load(open(path))
    case, key = rec["case"], rec["key"]
    bins = Bins(ctx)
    part = case.get("part")
    print("replay %s  key=%s" % (path, key))
    if part == "proc":
        e, im, scn = case["spec_state"], case["impl_state"], case["scenario"]
        got_key = None
        for build, exe in (("asan", bins.asan), ("plain", bins.plain)):
            r = render_proc(ctx, bins, scn, case["variant"], case["mode"], exe, 0)
            short = None
            if scn["sink"] == "shortk":
                ew, _ = expected_wlog(e)
                short = (scn["k"], ew[scn["k"] - 1][1]) if scn["k"] <= len(ew) and ew[scn["k"] - 1][1] != ew[scn["k"] - 1][0] else (scn["k"], 1 << 30)
            obs = exec_proc(r, short)
            sig = crash_signature(obs["status"], obs["stderr"])
            print(" build=%s argv=%s fault=%s" % (build, r["argv"][1:], r["fw"][3:]))
            print("  specified: exit=%s write log (model units)=%s accepted=%s" % (e["exit"], e["wlog"], e["accepted"]))
            print("  observed : status=%s write log (bytes)=%s stderr=%r" % (obs["status"], obs["wlog"][:10], obs["stderr"][-300:]))
            if sig:
                got_key = got_key or sig
                continue
            why = proc_matches(e, obs, r["text"] if scn["ink"] == "readerr" else None, case["variant"] != "closed")
            if why and not got_key:
                got_key = "io:read-error-as-eof" if im["dev"] and proc_matches(im, obs, None, case["variant"] != "closed") is None else "proc:" + why
            break
        print(" -> %s" % (got_key or "conforms"))
        return 1 if got_key and (got_key == key or key.startswith("proc:") and got_key.startswith("proc:")) else 0
    if part == "bounds":
        src, args = render_bound(case["family"], case["n"], case.get("bytes"))
        data, want = (src if isinstance(src, bytes) else src.encode()), {0: "status 0", 1: "status 1", 2: "status 0 or 1"}[case["class"]]
        exe = bins.plain if case["build"] == "plain" else bins.san
    elif part == "skip":
        data, args, want, exe = case["source"].encode(), [], {"ok": "status 0", "diag": "status 1", "any": "status 0 or 1"}[case["class"]], bins.san
    else:
        data = case["source"].encode("utf-8", "surrogateescape")
        args = ["-t", case.get("target", "x86_64-sysv")] + (["-E"] if case.get("mode") == "E" else [])
        want, exe = "status 0 or 1, no sanitizer report", bins.san
        if key.startswith("ubsan:null-plus-zero"):
            exe = os.path.join(vlib.build("asan"), "cproc-qbe")
    obs, sig, err = observe(exe, data, args)
    print(" specified: %s, termination within %d s" % (want, allowance(len(data))))
    print(" observed : %s %s" % (obs, sig or ""))
    print(" stderr   : %s" % err[-1200:])
    again = sig == key or (sig is None and key.startswith(("skip:", "bounds:")) and not want.endswith({0: "0", 1: "1"}.get(obs, "?")) and "or" not in want)
    if key == "skip:parseattr-eof" and obs == "hang":
        again = True
    return 1 if again else 0
