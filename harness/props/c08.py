"""C08 — calls interoperate with platform-compiled code, STRUCTURAL form only:
the parameter/return classes and the aggregate `type` descriptions cproc hands to the backend describe,
field for field, the same layout and register classes as the C declarations.
(The dynamic clause — mixed executables with gcc-built callers/callees — is NOT claimed: there is no qbe here.)

Oracle: spec/Abi.tla (EXTENDS Layout.tla).
 * design level: on C06's bounded member universe, the model of qbe.c:emittype (Descr) yields a descriptor
   that is ABI-equivalent to the C type (size, alignment, SysV eightbyte classes / AAPCS64 HFA / RISC-V
   flattening derived from the field lists) for every aggregate outside the named problem classes.
 * flow C: TLC generates aggregates (Layout "gen", <= 64 bytes) and signatures over them (Abi "sig": <= 12
   parameters, scalar/aggregate/array parameters, variadic with <= 4 promoted arguments).  Each signature is
   rendered as a definition and a call site, compiled by the real cproc-qbe for the three targets, the IL's
   `type` definitions, `function` header and `call` operands parsed with ilparse.  Classes are compared with
   TLC's PClass/VClass; every emitted descriptor is handed back to TLC (Abi "judge") together with its C type
   term and judged there.
 * audit: TLC's classification of the C side is compared with how clang lowers `void f(T)` in LLVM IR for
   the three targets (and sizeof/_Alignof via C06).  Disagreement => MachineryError.
"""
import json, os, re, collections, threading
import vlib, ilparse
import layoutlib as L

LOCK = threading.RLock()
EXEMPT_AUDIT = {"unnamed-bitfield", "alignas-member", "packed", "layout-deviation", "flexible", "long-double"}


def contains(t, pred):
    if pred(t):
        return True
    if t["k"] == "arr":
        return contains(t["of"], pred)
    if t["k"] == "su":
        return any(contains(m["t"], pred) for m in t["ms"])
    return False


# --------------------------------------------------------------------------------------------------
def tlc_inputs(ctx):
    tier = "quick" if ctx.quick else "thorough"
    ntr = int(os.environ.get("VERIF_C08_TRACES", "80" if ctx.quick else "1200"))

    def design(_):
        r = L.tlc_cached(ctx, "Abi", "MC_Abi_mc_%s.cfg" % tier, workers=4 if ctx.quick else 8, timeout=7200, heap="2g" if ctx.quick else "4g")
        if not r.ok:
            raise vlib.MachineryError("design-level model Abi/MC_Abi_mc_%s.cfg rejected:\n%s" % (tier, r.out[-4000:]))
        return r

    def gen(_):
        # mostly aggregates cproc claims to describe (no _Alignas members, not packed); a fifth from the full generator
        out = []
        for cfg, n in (("MC_Abi_gen.cfg", ntr), ("MC_Abi_gen_full.cfg", max(5, ntr // 5))):
            g = L.tlc_cached(ctx, "Layout", cfg, workers=4, simulate=n, depth=50, timeout=2400)
            if not g.ok:
                raise vlib.MachineryError("aggregate generator failed: %s" % g.out[-2000:])
            out += g.vcases
        return out
    def scan(_):
        r = L.tlc_cached(ctx, "Layout", "MC_Abi_scan.cfg", workers=2, timeout=1200)
        if not r.ok:
            raise vlib.MachineryError("scan-family enumeration failed: %s" % r.out[-2000:])
        return r
    d, g, sc = vlib.pmap(lambda f: f(None), [design, gen, scan], workers=3)
    ctx.cov["design"] = {"cfg": "MC_Abi_mc_%s.cfg" % tier, "distinct": d.distinct, "generated": d.states, "wall_s": round(d.wall, 1)}
    terms = [json.loads(v) for v in dict.fromkeys(g)]
    # cproc cannot describe long double at all (qbetype() is fatal) and flexible structs are not passed by value here
    pool = [t for t in terms if not contains(t, lambda x: x["k"] == "sc" and x["n"] == "ldouble")
            and not contains(t, lambda x: x["k"] == "arr" and x["n"] == 0)]
    ctx.cov["aggregates_generated"] = len(terms)
    ctx.cov["aggregates_usable"] = len(pool)
    # every struct of <= 3 members over {char, int, char[3], bit-fields char:3 short:3 int:3 long:3 long:33}: emittype's unit scan
    fam = [json.loads(v) for v in sc.vcases]
    ctx.cov["scan_family"] = len(fam)
    pool += fam
    inp = ctx.path("abi_in.ndjson")
    with open(inp, "w") as f:
        for t in pool:
            f.write(json.dumps(t) + "\n")
    nsig = int(os.environ.get("VERIF_C08_SIGTRACES", "40" if ctx.quick else "600"))
    s = L.tlc_cached(ctx, "Abi", "MC_Abi_sig.cfg", workers=4, simulate=nsig, depth=120, env={"ABI_IN": inp}, timeout=2400)
    if not s.ok:
        raise vlib.MachineryError("signature generator failed: %s" % s.out[-2000:])
    sigs = [json.loads(v) for v in dict.fromkeys(s.vcases)]
    lim = int(os.environ.get("VERIF_C08_LIMIT", "1000" if ctx.quick else "20000"))
    # make sure every usable aggregate is used at least once: add one trivial signature per unused aggregate? no — TLC
    # generated the signatures; we only cap their number
    if len(sigs) > lim:
        ctx.rng.shuffle(sigs)
        sigs = sigs[:lim]
    # plus `A f(A a)`, `void f(A)` (unnamed, first use) and `A f(void)` (return only) for every aggregate (TLC "ident" mode)
    idn = L.tlc_cached(ctx, "Abi", "MC_Abi_ident.cfg", workers=4, env={"ABI_IN": inp}, timeout=1200)
    if not idn.ok or len(idn.vcases) != 3 * len(pool) + 27 + 6:
        raise vlib.MachineryError("ident run failed: %s" % idn.out[-2000:])
    sigs += [json.loads(v) for v in idn.vcases]
    return pool, sigs


# --------------------------------------------------------------------------------------------------
def ref_c(p, k, role, j):
    """C spelling of a parameter reference: (type text with %s for the declarator, extern object name)"""
    if p["k"] == "sc":
        return L.SC_C[p["n"]] + " %s", "g_%s" % p["n"]
    if p["k"] == "arr":
        return L.SC_C[p["n"]] + " %s[4]", "ga_%s" % p["n"]
    if p["k"] == "valist":
        return "__builtin_va_list %s", "g_valist"
    return "struct_or_union A%d %%s" % p["i"], "gA%d" % p["i"]


class SigTU:
    """one translation unit holding a batch of signatures"""

    def __init__(self, pool, sigs, base):
        self.pool, self.sigs, self.base = pool, sigs, base
        used = set()
        for s in sigs:
            for p in [s["ret"]] + s["ps"] + s["xs"]:
                if p["k"] == "agg":
                    used.add(p["i"])
        self.used = sorted(used)
        self.kw = {i: ("union" if pool[i - 1]["un"] else "struct") for i in self.used}

    def tname(self, p, decl, tag=None):
        t, obj = ref_c(p, 0, 0, 0)
        if p["k"] == "agg":
            t = t.replace("struct_or_union", self.kw[p["i"]])
            if tag:
                t, obj = t.replace("A%d " % p["i"], tag + " "), "g" + tag
        return (t % decl).rstrip(), obj

    def fresh(self, out, i, tag):
        """a copy of aggregate i under its own tag: its first by-value use is whatever comes next"""
        out.append(L.Rendered(self.pool[i - 1], tag, "m%s_" % tag).text)
        out.append("extern %s %s g%s;" % (self.kw[i], tag, tag))

    def source(self):
        out = []
        for i in self.used:
            r = L.Rendered(self.pool[i - 1], "A%d" % i, "m%d_" % i)
            out.append(r.text)
            out.append("extern %s A%d gA%d;" % (self.kw[i], i, i))
        for n in sorted(L.SC_C):
            if n != "ldouble":
                out.append("extern %s;" % ((L.SC_C[n] + " %s") % ("g_" + n)))
        for n in ("char", "int", "double"):
            out.append("extern %s ga_%s[4];" % (L.SC_C[n], n))
        out.append("extern __builtin_va_list g_valist;")
        for k, s in enumerate(self.sigs, self.base):
            # an unnamed aggregate parameter gets its own copy of the type, so that this definition is the first by-value
            # use of the type in the unit; likewise the aggregate of the "u"/"r" identity signatures
            tags = {}
            for j, p in enumerate(s["ps"]):
                if p["k"] == "agg" and (not p.get("nm", True) or s.get("fresh")):
                    tags[j] = "A%dx%dx%d" % (p["i"], k, j)
                    self.fresh(out, p["i"], tags[j])
            rtag = None
            if s["ret"]["k"] == "agg" and s.get("fresh") == "r":
                rtag = "A%dx%dxr" % (s["ret"]["i"], k)
                self.fresh(out, s["ret"]["i"], rtag)
            params = [self.tname(p, "a%d" % j if p.get("nm", True) else "", tags.get(j))[0] for j, p in enumerate(s["ps"])]
            plist = ", ".join(params) if params else "void"
            if s["va"]:
                plist = plist + ", ..." if params else "..."
            if s["ret"]["k"] == "void":
                rt, body = "void", ""
            else:
                rt, robj = self.tname(s["ret"], "", rtag)
                body = "return %s;" % robj
            out.append("%s f%d(%s) { %s }" % (rt, k, plist, body))
            args = [self.tname(p, "", tags.get(j))[1] for j, p in enumerate(s["ps"])] + [self.tname(p, "")[1] for p in s["xs"]]
            out.append("void c%d(void) { f%d(%s); }" % (k, k, ", ".join(args)))
            if any(s["rext"].values()):
                # the sub-word result used directly as a controlling expression, once per context of Abi.tla CtrlContexts
                call = "f%d(%s)" % (k, ", ".join(args))
                forms = {"if": "if (%s) x = 1;", "while": "while (%s) x = 2;", "for": "for (; %s;) x = 3;", "do": "do x = 4; while (%s);",
                         "cond": "x = %s ? 5 : 6;", "not": "x = !%s;", "and": "x = %s && x;", "or": "x = %s || x;"}
                out.append("int e%d(void) { int x = 0; %s return x; }" % (k, " ".join(forms[c] % call for c in s["ctxs"])))
            # the same call through a pointer to the function
            out.append("void d%d(void) { typeof(f%d) *fp = f%d; fp(%s); }" % (k, k, k, ", ".join(args)))
        return "\n".join(out) + "\n"


def qterm(tdef, types):
    if tdef["kind"] == "opaque":
        return {"k": "opaque", "align": tdef["align"], "size": tdef["size"]}
    alts = []
    for alt in tdef["alts"]:
        fs = []
        for f in alt:
            if f["cls"].startswith(":"):
                fs.append({"c": ":", "t": qterm(types[f["cls"]], types), "n": f["count"]})
            else:
                fs.append({"c": f["cls"], "n": f["count"]})
        alts.append(fs)
    return {"k": tdef["kind"], "alts": alts}


_RE_AGG = re.compile(r"^:A(\d+)(?:x\d+x(?:\d+|r))?\.\d+$")
_RE_VAL = re.compile(r"^:va_list\.\d+$")


def cls_norm(c):
    if c is None:
        return []
    m = _RE_AGG.match(c)
    if m:
        return [":", int(m.group(1))]
    if _RE_VAL.match(c):
        return [":", "va_list"]
    return [c]


def expect(s, which, target):
    """TLC's expected classes with the target dependent va_list class filled in (Abi.tla VaListClass)"""
    return [s["valist"][target] if c == ["valist"] else c for c in s[which]]


def check_tu(ctx, objdir, tu, descrs, stats):
    src = tu.source()
    for target in vlib.TARGETS:
        rc, out, err = vlib.cproc(objdir, src, target, timeout=120)
        if rc != 0:
            with LOCK:
                stats["rejected"] += 1
                ctx.violation("sig:%s:%s" % (target, "crash" if rc < 0 else "rejected"), "cproc does not compile generated signatures: %s" % err.strip()[:300],
                              {"target": target, "source": src})
            continue
        mod = L.parse_il(out)
        types = {t["name"]: t for t in mod["types"]}
        funcs = {f["name"]: f for f in mod["funcs"]}
        with LOCK:
            for t in mod["types"]:
                m = _RE_AGG.match(t["name"])
                if m:
                    i = int(m.group(1))
                    descrs.setdefault((i, target), qterm(t, types))
                elif _RE_VAL.match(t["name"]):
                    descrs.setdefault((0, target), qterm(t, types))
            for k, s in enumerate(tu.sigs, tu.base):
                judge_sig(ctx, target, k, s, funcs, src, stats)


def judge_sig(ctx, target, k, s, funcs, src, stats):
    stats["sig_evals"] += 1
    ctx.count("sig" + target + vlib.canon([s["ret"], s["ps"], s["xs"], s["va"]]), nontrivial=len(s["ps"]) >= 1)
    f = funcs.get("f%d" % k)
    c = funcs.get("c%d" % k)
    pcls, xcls = expect(s, "pcls", target), expect(s, "xcls", target)
    info = {"target": target, "signature": {x: s[x] for x in ("ret", "ps", "xs", "va")},
            "expected": {"ret": s["rcls"], "params": pcls, "extra": xcls, "marker": s["marker"]}}
    if f is None or c is None:
        ctx.violation("sig:%s:missing-function" % target, "definition or caller missing from the IL", dict(info, source=src[-1500:]))
        return
    # definition
    got = {"ret": cls_norm(f["ret"]), "params": [cls_norm(p["cls"]) for p in f["params"]], "variadic": f["variadic"]}
    if got["ret"] != s["rcls"] or got["params"] != pcls or got["variadic"] != s["va"]:
        what = "ret" if got["ret"] != s["rcls"] else "variadic" if got["variadic"] != s["va"] else "param"
        ctx.violation("sig:%s:definition:%s" % (target, what), "function header classes differ from Abi.tla PClass", dict(info, observed=got))
    # call site
    calls = [i for b in c["blocks"] for i in b["insts"] if i["op"] == "call" and i["callee"].get("n") == "f%d" % k]
    dfn = funcs.get("d%d" % k)
    pcalls = [i for b in dfn["blocks"] for i in b["insts"] if i["op"] == "call" and i["callee"].get("t") == "tmp"] if dfn else []
    if len(calls) != 1 or len(pcalls) != 1:
        ctx.violation("sig:%s:call-missing" % target, "no call instruction for the generated direct / indirect call", info)
        return
    for via, call in (("", calls[0]), ("indirect-", pcalls[0])):
        judge_call(ctx, target, s, call, via, info, pcls, xcls)
    need = s["rext"][target]
    if need:
        e = funcs.get("e%d" % k)
        res = [i["res"] for b in (e["blocks"] if e else []) for i in b["insts"] if i["op"] == "call" and i["callee"].get("n") == "f%d" % k]
        if len(res) != len(s["ctxs"]):
            ctx.violation("sig:%s:call-missing" % target, "calls in controlling contexts missing", info)
            return
        bits = 8 if need.endswith("b") else 16
        for b in e["blocks"]:
            uses = [(i["op"], i["args"]) for i in b["insts"] if i["op"] != "call"] + ([("jnz/ret", [b["jump"]["arg"]])] if b["jump"] and b["jump"].get("arg") else [])
            if b["phi"]:
                uses += [("phi", [v for _, v in b["phi"]["srcs"]])]
            for op, args in uses:
                for a in args:
                    if a and a.get("t") == "tmp" and a["n"] in res:
                        masked = op == "and" and any(x.get("t") == "int" and x["v"] == (1 << bits) - 1 for x in args)
                        if op != need and not masked:
                            ctx.violation("sig:%s:subword-result-used-unextended:%s" % (target, s["ret"]["n"]),
                                          "the result of a call returning a %d-bit type is used as a word (%s) without %s" % (bits, op, need),
                                          dict(info, required=need, used_by=op))


def judge_call(ctx, target, s, call, via, info, pcls, xcls):
    args, marker = [], -1
    for a in call["cargs"]:
        if a.get("variadic"):
            marker = len(args)
        else:
            args.append(cls_norm(a["cls"]))
    got = {"ret": cls_norm(call["cls"]) if call["res"] else [], "args": args, "marker": marker}
    want_args = pcls + xcls
    if got["ret"] == s["rcls"] and got["args"] == want_args and got["marker"] == s["marker"]:
        return
    info["observed_call"] = got
    if got["ret"] == s["rcls"] and got["args"] == want_args and s["va"] and not s["xs"] and marker == -1:
        if target not in s["marker0"]:
            return          # ABI-equivalent on this target (Abi.tla SigCase.marker0)
        ctx.violation("sig:%s:variadic-call-without-variable-arguments-lacks-marker" % target,
                      "call of a variadic function with no variable arguments has no `...` marker", info)
        return
    what = "ret" if got["ret"] != s["rcls"] else "marker" if got["args"] == want_args else "arg"
    ctx.violation("sig:%s:%scall:%s" % (target, via, what), "call operand classes differ from Abi.tla PClass/VClass", info)


# --------------------------------------------------------------------------------------------------
def judge_descriptors(ctx, pool, descrs, valist_t):
    pool = pool + [valist_t]          # index 0 (= -1 + 1 from the end) is the aarch64 va_list
    recs = [{"i": i, "tg": tg, "t": pool[i - 1] if i else valist_t, "q": q} for (i, tg), q in sorted(descrs.items())]
    # self-test of the judge (negative indices): fabricated descriptors for struct { float; float; }
    sc = lambda n: {"t": {"k": "sc", "n": n}, "nm": True, "w": -1, "al": 0}
    ff = {"k": "su", "un": False, "pk": False, "ms": [sc("float"), sc("float")]}
    fab = [(-1, {"k": "struct", "alts": [[{"c": "s", "n": 2}]]}, True),                       # different spelling, same ABI
           (-2, {"k": "struct", "alts": [[{"c": "s", "n": 1}, {"c": "s", "n": 1}]]}, True),
           (-3, {"k": "struct", "alts": [[{"c": "w", "n": 2}]]}, False),                      # register class changed
           (-4, {"k": "struct", "alts": [[{"c": "s", "n": 1}]]}, False),                      # a field lost
           (-5, {"k": "union", "alts": [[{"c": "s", "n": 1}], [{"c": "s", "n": 1}]]}, False)]
    for i, q, _ in fab:
        recs += [{"i": i, "tg": tg, "t": ff, "q": q} for tg in vlib.TARGETS]
    inp = ctx.path("abi_judge.ndjson")
    with open(inp, "w") as f:
        for r in recs:
            f.write(json.dumps(r) + "\n")
    r = ctx.tlc_must_pass("Abi", "MC_Abi_judge.cfg", workers=12, env={"ABI_IN": inp}, timeout=7200)
    verd = [json.loads(v) for v in r.vcases]
    if len(verd) != len(recs):
        raise vlib.MachineryError("judge run returned %d of %d verdicts" % (len(verd), len(recs)))
    ctx.cov["judge_selftest"] = "5 fabricated descriptors x 3 targets: 2 equivalent spellings accepted, 3 ABI-changing ones rejected"
    hist = collections.Counter()
    want = {i: w for i, _, w in fab}
    bad = [v for v in verd if v["i"] < 0 and v["equiv"] != want[v["i"]]]
    if bad or sum(1 for v in verd if v["i"] < 0) != 3 * len(fab):
        raise vlib.MachineryError("judge self-test failed: %s" % bad[:3])
    verd = [v for v in verd if v["i"] >= 0]
    for v in verd:
        ctx.count("descr%s%d" % (v["tg"], v["i"]), nontrivial=True)
        cl = sorted(v["classes"])
        hist["equiv" if v["equiv"] else "not-equiv"] += 1
        if v["equiv"] and v["same"]:
            hist["field-for-field"] += 1
        if not v["asmodel"]:
            hist["differs-from-emittype-model"] += 1
            if v["i"]:
                ctx.cov.setdefault("model_differences", []).append({"target": v["tg"], "type": L.Rendered(pool[v["i"] - 1], "A", "m").text,
                                                                    "descriptor": descrs[(v["i"], v["tg"])]})
        if v["equiv"]:
            continue
        why = "size" if v["csize"] != v["qsize"] else "align" if v["calign"] != v["qalign"] else "class"
        info = {"target": v["tg"], "type": pool[v["i"] - 1], "source": L.Rendered(pool[v["i"] - 1], "A", "m").text,
                "descriptor": descrs[(v["i"], v["tg"])], "verdict": v}
        if cl and v["asmodel"]:
            ctx.violation("descr:%s:%s:%s" % (v["tg"], "+".join(cl), why),
                          "descriptor is not ABI-equivalent to the C type; explained by the emittype model on problem class %s" % cl, info)
        else:
            ctx.violation("descr:%s:unexplained:%s" % (v["tg"], why), "descriptor is not ABI-equivalent to the C type (%s)" % why, info)
    ctx.cov["descriptor_verdicts"] = dict(hist)
    ctx.validated(len(verd))
    return verd


# --------------------------------------------------------------------------------------------------
# audit of Classify against clang's lowering
_RE_DEF = re.compile(r"^define [^@]*@q(\d+)\((.*)\)", re.M)


def norm_ir(target, params):
    ps = [p.strip() for p in params.split(",") if p.strip()] if params.strip() else []
    ps = [re.sub(r"\s+(noundef|%\S+)", "", p).strip() for p in ps]
    ps = [re.sub(r"\s+%\S+$", "", p) for p in ps]
    if any("byval" in p for p in ps):
        return ["mem"]
    if len(ps) == 1 and re.match(r"^%(struct|union)\.[\w.]+\*$", ps[0]):
        return ["mem"]
    ps = ["i64" if p.endswith("*") else p for p in ps]          # a pointer member passed as a value
    if target == "x86_64-sysv":
        out = []
        for p in ps:
            if p in ("float", "double") or p.startswith("<"):
                out.append("sse")
            elif re.match(r"^i\d+$", p):
                out.append("int")
            else:
                return None
        return out
    isz = lambda p: max(1, int(p[1:]) // 8)
    if target == "aarch64":
        if len(ps) != 1:
            return None
        p = ps[0]
        m = re.match(r"^\[(\d+) x (float|double)\]$", p)
        if m:
            return ["hfa", 4 if m.group(2) == "float" else 8, int(m.group(1))]
        if p in ("float", "double"):
            return ["hfa", 4 if p == "float" else 8, 1]
        if re.match(r"^i\d+$", p):
            return ["int", 2, True] if p == "i128" else ["int", 1, False]
        if p == "[2 x i64]":
            return ["int", 2, False]
        return None
    # riscv64
    if any(p in ("float", "double") for p in ps):
        kinds, sizes = [], []
        for p in ps:
            if p in ("float", "double"):
                kinds.append("f")
                sizes.append(4 if p == "float" else 8)
            elif re.match(r"^i\d+$", p):
                kinds.append("i")
                sizes.append(isz(p))
            else:
                return None
        return ["flat"] + kinds + sizes
    if len(ps) == 1 and re.match(r"^i\d+$", ps[0]):
        return ["int", 2, True] if ps[0] == "i128" else ["int", 1, False]
    if ps == ["[2 x i64]"]:
        return ["int", 2, False]
    return None


def audit_classify(ctx, pool, verd):
    byt = collections.defaultdict(list)
    for v in verd:
        byt[v["tg"]].append(v)
    problems, checked, skipped = [], 0, 0
    for target, vs in byt.items():
        src = []
        for v in vs:
            r = L.Rendered(pool[v["i"] - 1], "A%d" % v["i"], "m%d_" % v["i"])
            src.append(r.text)
            src.append("void q%d(%s A%d p) { }" % (v["i"], r.kw, v["i"]))
            src.append('_Static_assert(sizeof(%s A%d) == %d && _Alignof(%s A%d) == %d, "A:%d:sizealign");' % (r.kw, v["i"], v["csize"], r.kw, v["i"], v["calign"], v["i"]))
        rc, out, err = L.run_cc(["clang", "--target=" + L.CLANG_TRIPLE[target], "-std=c2x", "-w", "-ferror-limit=0", "-S", "-emit-llvm", "-O0", "-o", "-", "-x", "c", "-"], "\n".join(src) + "\n")
        if rc != 0:
            problems.append("clang %s: %s" % (target, err[:600]))
            continue
        lowered = {int(m.group(1)): m.group(2) for m in _RE_DEF.finditer(out)}
        for v in vs:
            got = norm_ir(target, lowered.get(v["i"], "?"))
            exempt = set(v["classes"]) & EXEMPT_AUDIT
            want = v["ccls"]
            if got is None or exempt:
                skipped += 1
                continue
            checked += 1
            if got != want:
                problems.append("%s A%d: clang lowers to %s (%s), Abi.tla Classify says %s; type %s" % (
                    target, v["i"], got, lowered.get(v["i"]), want, L.Rendered(pool[v["i"] - 1], "A", "m").text))
    if problems:
        raise vlib.MachineryError("SPEC-AUDIT (Abi.tla Classify / sizes vs clang): %d disagreements, e.g.\n  %s" % (len(problems), "\n  ".join(problems[:10])))
    ctx.cov["classification_audited"] = checked
    ctx.cov["classification_audit_skipped"] = skipped


# --------------------------------------------------------------------------------------------------
def run(ctx):
    ctx.cov["rule"] = (
        "TLC simulates aggregates (Layout.tla generator: structs/unions/packed, nesting <= 3, arrays, bit-fields, _Alignas, "
        "anonymous members, <= 64 bytes) and signatures over them (Abi.tla 'sig': 0..12 parameters from 15 scalar types, "
        "generated aggregates and array parameters, void/scalar/aggregate return, variadic with 0..4 promoted arguments); each "
        "signature is compiled as definition + call site for 3 targets. evaluations = signatures x targets (header and call "
        "operand classes) + descriptors x targets judged by TLC. non-trivial = signature with >= 1 parameter / any descriptor")
    objdir = vlib.build("plain")
    pool, sigs = tlc_inputs(ctx)
    if not sigs:
        raise vlib.MachineryError("no signatures generated")
    ctx.cov["signatures"] = len(sigs)
    B = 25
    tus = [SigTU(pool, sigs[i:i + B], i) for i in range(0, len(sigs), B)]
    descrs, stats = {}, collections.Counter()
    vlib.pmap(lambda tu: check_tu(ctx, objdir, tu, descrs, stats), tus, workers=12)
    ctx.validated(len(sigs))
    ctx.cov["signature_evaluations"] = stats["sig_evals"]
    ctx.cov["aggregates_described"] = len({i for i, _ in descrs})
    verd = judge_descriptors(ctx, pool, descrs, sigs[0]["valist_t"])
    audit_classify(ctx, pool, [v for v in verd if v["i"]])
    s = sigs[len(sigs) // 2]
    ctx.sample({"signature": {x: s[x] for x in ("ret", "ps", "xs", "va")}, "expected classes": {x: s[x] for x in ("rcls", "pcls", "xcls", "marker")}})
    ctx.sample({"source": tus[0].source()[-900:]})
    ctx.assumptions += [
        "dynamic clause (mixed executables with gcc-built code) NOT claimed: no qbe backend in the sandbox; whether QBE maps a correct descriptor to the right registers is outside /repo",
        "sub-word integer parameters are class w; their extension is a property of the values (C01), not of the class",
        "long double and flexible-array aggregates excluded (cproc cannot describe long double at all)",
        "classification model audited against clang 14's LLVM IR lowering of `void f(T)` for the three targets",
    ]


def replay(ctx, path):
    rec = json.load(open(path))
    case = rec["case"]
    print("key     :", rec["key"])
    print("what    :", rec["what"])
    objdir = vlib.build("plain")
    if "source" in case and "descriptor" in case:
        src = case["source"] + "\n%s f(%s p) { return p; }\n" % (case["source"].split("{")[0].strip(), case["source"].split("{")[0].strip())
        rc, out, err = vlib.cproc(objdir, src, case["target"])
        print("target  :", case["target"])
        print("source  :", src)
        print("cproc   :", rc, err.strip()[:200])
        print("\n".join(l for l in out.splitlines() if l.startswith("type")))
        print("verdict :", json.dumps(case["verdict"]))
    else:
        print(json.dumps(case, indent=1)[:4000])
    return 0
