"""C03 - every successful compilation yields a well-formed backend IL module.

flow C : every IL cproc-qbe prints with status 0 is parsed (ilparse, strict) and judged by TLC with
         spec/QbeWF.tla: named obligations per function / per module, DefDominatesUse as a state machine
         (one initial state per function).  Inputs: /repo/test/*.c x their targets (and the stored .qbe
         files: audit of the instruction table), cproc's own sources after cpp, programs generated from
         spec/WfGen.tla (-simulate), token-level mutants from spec/Mutate.tla that still exit 0, and the
         functions rendered from EmitModel behaviours.
design : spec/EmitModel.tla (block/jump bookkeeping of qbe.c under arbitrary front-end call sequences):
         invariants with the deviations off; with a deviation on TLC finds the malformed functions.
flow A : every statement-level EmitModel behaviour is rendered to C and replayed: the emitted block
         skeleton must equal the model's, and the model's failing obligations must be QbeWF's.
process: spec/QbeWF.tla ProcClause on observations (exit status, stderr, parse, newline, injected write
         failures: /dev/full, closed stdout, RLIMIT_FSIZE at several sizes).
Python renders, runs, parses and compares; every verdict comes from TLC.
"""
import glob, json, os, re, subprocess, time
import vlib, ilparse, c03lib

CPP = ["cpp", "-U__GNUC__", "-U__GNUC_MINOR__", "-D__STDC_NO_ATOMICS__", "-D__STDC_NO_COMPLEX__", "-U__SIZEOF_INT128__",
       "-U__PIC__", "-D__extension__="]
SELFTEST = os.path.join(vlib.VERIF, "harness", "c03_selftest")


# ----------------------------------------------------------------------------------------------
# running the compiler, collecting observations
class Unit:
    __slots__ = ("id", "kind", "src", "target", "rc", "il", "err", "mod", "parse_err", "known", "meta")

    def __init__(self, uid, kind, src, target, meta=None):
        self.id, self.kind, self.src, self.target, self.meta = uid, kind, src, target, meta or {}
        self.rc = self.il = self.err = self.mod = self.parse_err = None
        self.known = {}


def run_capped(cmd, data, timeout=20, cap=64 << 20, env=None):
    """like vlib.run, but never holds more than `cap` bytes of stdout: the duplicate-label defect makes emitfunc print
    for ever, and a captured pipe would eat the machine.  Returns (rc, stdout, stderr); rc -998 = output cap hit."""
    import threading
    p = subprocess.Popen(cmd, stdin=subprocess.PIPE, stdout=subprocess.PIPE, stderr=subprocess.PIPE, env=env)
    err = []

    def feed():
        try:
            p.stdin.write(data)
            p.stdin.close()
        except OSError:
            pass

    def drain():
        n = 0
        while True:
            b = p.stderr.read(65536)
            if not b:
                break
            if n < (1 << 20):
                err.append(b)
            n += len(b)
    th = [threading.Thread(target=feed, daemon=True), threading.Thread(target=drain, daemon=True)]
    for t in th:
        t.start()
    timer = threading.Timer(timeout, p.kill)
    timer.start()
    t0 = time.time()
    out, n, capped = [], 0, False
    try:
        while True:
            b = p.stdout.read(1 << 16)
            if not b:
                break
            out.append(b)
            n += len(b)
            if n > cap:
                capped = True
                p.kill()
                break
        p.wait()
    finally:
        timer.cancel()
        try:
            p.kill()
        except OSError:
            pass
    for t in th:
        t.join(2)
    rc = p.returncode
    if capped:
        rc = -998
    elif rc == -9 and time.time() - t0 >= timeout - 0.5:
        rc = -999
    return rc, b"".join(out), b"".join(err)


def cproc_capped(objdir, src, target, trace=None, timeout=20):
    e = dict(os.environ)
    e.pop("CPROC_VERIF_TRACE", None)
    e.pop("CPROC_VERIF_TOKDUMP", None)
    if trace:
        e["CPROC_VERIF_TRACE"] = trace
    data = src.encode("utf-8", "surrogateescape") if isinstance(src, str) else src
    rc, out, err = run_capped([os.path.join(objdir, "cproc-qbe"), "-t", target], data, timeout=timeout, env=e)
    return rc, out.decode("utf-8", "surrogateescape"), err.decode("utf-8", "replace")


def emitted_name(ev):
    return (".L%s.%d" % (ev["name"], ev["id"])) if ev["id"] else ev["name"]


def compile_unit(builds, u, tracedir):
    plain, hooks = builds
    u.rc, u.il, u.err = cproc_capped(plain, u.src, u.target, timeout=20)
    if u.rc != 0:
        return u
    try:
        u.mod = ilparse.parse(u.il)
    except ilparse.ILSyntaxError as ex:
        u.parse_err = str(ex)
        return u
    except RecursionError as ex:
        u.parse_err = "parser recursion: %s" % ex
        return u
    if hooks and u.mod["data"]:
        tr = os.path.join(tracedir, "t%s.nd" % vlib.sha(u.id)[:16])
        rc2, il2, _ = cproc_capped(hooks, u.src, u.target, timeout=20, trace=tr)
        if rc2 == 0 and il2 == u.il and os.path.exists(tr):
            seen = {}
            for ln in open(tr, errors="replace"):
                if '"e":"data"' not in ln:
                    continue
                try:
                    ev = json.loads(ln)
                except ValueError:
                    continue
                if not ev.get("full"):
                    continue
                nm = emitted_name(ev)
                seen.setdefault(nm, []).append((ev["size"], max(ev["align"], ev["talign"])))
            # a name defined twice (C09's thread-local finding) cannot be matched by name: leave unknown
            u.known = {k: v[0] for k, v in seen.items() if len(v) == 1}
        elif rc2 != 0 or il2 != u.il:
            u.meta["hook_mismatch"] = True
        try:
            os.unlink(tr)
        except OSError:
            pass
    return u


# ----------------------------------------------------------------------------------------------
# classification of a failed obligation into a finding key (glue: looks at names only)

INTERNAL = re.compile(r"^(start|body|dead|if_true|if_false|if_join|switch_\w+|while_\w+|do_\w+|for_\w+|logic_\w+|cond_\w+)$")


def detail_of(ob, at, u, fname):
    f0 = next((g for g in u.mod["funcs"] if g["name"] == fname), None) if u.mod else None
    if f0 and f0["blocks"] and f0["blocks"][0]["jump"] is not None and f0["blocks"][0]["label"].startswith("start."):
        # @start never carries a terminator in cproc's output (it falls through into @body) unless the length expression
        # of a variably modified parameter ended it; the allocs hoisted into it afterwards then land in a @dead block
        return "start-block-terminated"
    if ob == "JumpsTargetExisting":
        base = at[0].rsplit(".", 1)[0] if at else ""
        src = u.src if isinstance(u.src, str) else ""
        ndef = len(re.findall(r"(?<![\w?])%s\s*:(?!:)" % re.escape(base), src)) if base else 0
        ngoto = len(re.findall(r"\bgoto\s+%s\b" % re.escape(base), src)) if base else 0
        if base and ngoto and ndef == 0:
            return "undefined-goto-label"
        if base and ndef >= 2:
            return "duplicate-label"
        # the blocks cut out of the ->next chain by a second funclabel() of a user label are the ones missing
        f = next((g for g in u.mod["funcs"] if g["name"] == fname), None)
        for b in (f["blocks"] if f else []):
            lb = b["label"].rsplit(".", 1)[0]
            if not INTERNAL.match(lb) and len(re.findall(r"(?<![\w?])%s\s*:(?!:)" % re.escape(lb), src)) >= 2:
                return "duplicate-label"
        return "missing-block"
    if ob == "PhiSourcesArePreds":
        # the phi names a source block that is already closed by a terminator leading elsewhere
        # (funcjnz/funcjmp are no-ops on a terminated block, but phi.blk[] records f->end regardless)
        f = next((g for g in u.mod["funcs"] if g["name"] == fname), None)
        kinds = set()
        if f:
            blocks = {b["label"]: b for b in f["blocks"]}
            for a in at:
                b = blocks.get(a)
                if not (b and b["phi"]):
                    return "other"
                bad = [lab for lab, _ in b["phi"]["srcs"] if lab in blocks and blocks[lab]["jump"]
                       and a not in blocks[lab]["jump"]["targets"]]
                if not bad:
                    return "other"
                kinds |= {blocks[lab]["jump"]["k"] for lab in bad}
        if kinds == {"hlt"}:
            return "phi-source-terminated-by-hlt"
        if kinds and kinds <= {"ret", "jmp", "jnz", "hlt"}:
            return "phi-source-terminated-by-jump"
        return "other"
    if ob == "DefDominatesUse":
        # a variably modified typedef whose size temporary is computed lazily at its first use instead of where the
        # typedef is reached (the type object, and with it the cached size value, is shared by all its users)
        src = u.src if isinstance(u.src, str) else ""
        if re.search(r"typedef\s[^;{}]*\[[^\]]*[A-Za-z_][^\]]*\]", src):
            return "vm-typedef-size-lazy"
        return ""
    if ob == "NamesDefinedOnce":
        dup = [d for d in u.mod["data"] if d["name"] in at]
        if dup and len(dup) == sum(1 for n in at for d in u.mod["data"] if d["name"] == n) and all(d["thread"] for d in dup) \
                and not any(f["name"] in at for f in u.mod["funcs"]):
            return "thread-local-redeclared"
        return ""
    if ob == "InstrClassOK":
        ops = ",".join(sorted(at)[:3])
        # C10's open finding R_array_size_zero: a zero-length array type is accepted, its size 0 is taken for "variable"
        # (u.array.size == NULL) and `sizeof` yields no value: the consuming instruction is printed with one operand
        f = next((g for g in u.mod["funcs"] if g["name"] == fname), None)
        src = u.src if isinstance(u.src, str) else ""
        two = {"add", "sub", "mul", "div", "udiv", "rem", "urem", "and", "or", "xor", "shl", "shr", "sar"}
        short = {i["op"] for b in (f["blocks"] if f else []) for i in b["insts"]
                 if (i["op"] in two or i["op"].startswith("c") and i["op"] != "call" and i["op"] != "cast" and i["op"] != "copy") and len(i["args"]) == 1}
        if short and set(at) <= short and re.search(r"\[\s*0\s*\]", src) and "sizeof" in src:
            return ops + ":sizeof-zero-length-array"
        return ops
    return ""


UNPROTO = re.compile(r"\(\s*\)|\(\s*\*\s*\)")


# ----------------------------------------------------------------------------------------------
class Judge:
    """Collects modules, runs QbeWF in TLC over the whole batch, turns verdict lines into violations."""

    def __init__(self, ctx):
        self.ctx = ctx
        self.units = {}
        self.by_text = {}
        self.lines = []
        self.obs = []
        self.obs_meta = {}
        self.expected = 0
        self.excluded = {"call_unprototyped": 0, "data_big": 0, "dup_text": 0}

    def add(self, u):
        ctx = self.ctx
        nontriv = u.rc == 0 and u.mod is not None and bool(u.mod["funcs"] or u.mod["data"])
        ctx.count("%s|%s" % (u.target, vlib.sha(u.src if isinstance(u.src, str) else repr(u.src))), nontrivial=nontriv)
        self.obs.append({"id": u.id, "rc": u.rc if u.rc is not None else -1, "errlen": len(u.err or ""),
                         "parses": u.rc == 0 and u.mod is not None, "outlen": len(u.il or ""),
                         "endsnl": (u.il or "").endswith("\n"), "fault": "none"})
        if u.rc != 0:
            return
        if u.mod is None:
            ctx.violation("wf:Parse:%s" % re.sub(r"[^a-z ]", "", (u.parse_err or "").lower())[:40].strip().replace(" ", "-"),
                          "exit 0 but the output is not in QBE's grammar: %s" % u.parse_err,
                          {"id": u.id, "kind": u.kind, "target": u.target, "source": u.src, "stdout_tail": (u.il or "")[-400:]})
            return
        sigs = u.meta.get("sigs")
        key = vlib.sha(u.il + "|" + vlib.canon(u.known) + ("|" + vlib.canon(sigs) if sigs else ""))
        if key in self.by_text:
            self.excluded["dup_text"] += 1
            return
        self.by_text[key] = u.id
        self.units[u.id] = u
        m = c03lib.module_to_tla(u.mod, u.id, u.known, sigs)
        self.excluded["data_big"] += sum(1 for d in m["data"] if d["big"])
        self.lines.append((c03lib.dumps(m), 1 + 2 * len(m["funcs"])))
        self.expected += 1 + 2 * len(m["funcs"])

    CHUNK = 12 << 20        # bytes of JSON per TLC run: TLC's value graph is ~50x the text, a full heap makes SerialGC thrash

    def run(self, workers=16, heap="4g", tag="batch", guard=True):
        ctx = self.ctx
        if not self.lines:
            return {}
        chunks, cur, size = [], [], 0
        for ln in self.lines:
            if cur and size + len(ln[0]) > self.CHUNK:
                chunks.append(cur)
                cur, size = [], 0
            cur.append(ln)
            size += len(ln[0])
        chunks.append(cur)
        verdicts = []
        for ci, chunk in enumerate(chunks):
            path = ctx.path("qbewf_%s_%d.ndjson" % (tag, ci))
            with open(path, "w") as f:
                f.write("\n".join(ln for ln, _ in chunk) + "\n")
            obs = self.obs[ci::len(chunks)] or [{"id": "(none)", "rc": 1, "errlen": 0, "parses": False, "outlen": 0, "endsnl": False, "fault": "none"}]
            opath = ctx.path("qbewf_%s_%d_obs.ndjson" % (tag, ci))
            with open(opath, "w") as f:
                f.write("\n".join(json.dumps(o) for o in obs) + "\n")
            r = ctx.tlc("QbeWF", "MC_QbeWF.cfg", workers=workers, heap=heap, timeout=2400, env={"QBEWF_MODS": path, "QBEWF_OBS": opath})
            if not r.ok:
                raise vlib.MachineryError("QbeWF machine rejected its own invariants (rc=%d):\n%s" % (r.rc, r.out[-4000:]))
            vs = [json.loads(v) for v in r.vcases]
            exp = sum(n for _, n in chunk)
            nproc = sum(1 for v in vs if v["k"] == "proc")
            if len(vs) - nproc != exp or nproc != 1:
                raise vlib.MachineryError("QbeWF chunk %d: expected %d verdict lines (+1 proc), got %d (+%d)" % (ci, exp, len(vs) - nproc, nproc))
            verdicts += vs
            os.unlink(path)
        ctx.cov["qbewf_runs"] = ctx.cov.get("qbewf_runs", 0) + len(chunks)
        if guard and {v["k"] for v in verdicts} != {"proc", "module", "static", "flow"}:
            raise vlib.MachineryError("vacuity guard: QbeWF verdict kinds %s" % sorted({v["k"] for v in verdicts}))
        self.ctx.cov["flow_sweeps_max"] = max([self.ctx.cov.get("flow_sweeps_max", 0)] + [v["n"] for v in verdicts if v["k"] == "flow"])
        if len(verdicts) - len(chunks) != self.expected:
            raise vlib.MachineryError("QbeWF: expected %d verdict lines, got %d" % (self.expected, len(verdicts) - len(chunks)))
        failed = {}
        for v in verdicts:
            if v["k"] == "proc":
                for x in v["failed"]:
                    for oid in x["at"]:
                        o = next(o for o in self.obs if o["id"] == oid)
                        ctx.violation("proc:%s:%s" % (x["ob"], o["fault"]), "process clause %s violated" % x["ob"],
                                      dict(o, **self.obs_meta.get(oid, {})))
                continue
            for x in v["failed"]:
                failed.setdefault(v["m"], []).append((v["f"], x["ob"], x["at"]))
        ctx.validated(len(self.units))
        self.report(failed)
        return failed

    def report(self, failed):
        ctx = self.ctx
        for mid, fs in failed.items():
            u = self.units[mid]
            for fname, ob, at in fs:
                if u.meta.get("emitcase"):
                    continue        # reported by the EmitModel replay with the deviation the model names
                if ob == "CallArgsMatchCallee" and u.kind in ("mutant", "tour") and UNPROTO.search(u.src):
                    self.excluded["call_unprototyped"] += 1
                    continue
                det = detail_of(ob, at, u, fname)
                if u.kind == "sig" and not det:     # the dimensions of the SigGen case (names only)
                    det = "sig-%s-%s%s" % (u.meta["layout"], "unnamed" if u.meta["nunnamed"] else "named", "-variadic" if u.meta["variadic"] else "")
                ctx.violation("wf:%s:%s" % (ob, det),
                              "exit 0 with malformed IL: obligation %s fails at %s in function $%s" % (ob, at, fname),
                              {"id": u.id, "kind": u.kind, "target": u.target, "function": fname, "obligation": ob, "at": at,
                               "source": u.src, "meta": {k: v for k, v in u.meta.items() if k != "cases"}})


# ----------------------------------------------------------------------------------------------
# inputs
def corpus_units():
    out = []
    for p in sorted(glob.glob(os.path.join(vlib.REPO, "test", "*.c"))):
        name = os.path.basename(p)[:-2]
        if not os.path.exists(p[:-2] + ".qbe"):
            continue
        targ = name.split("+")[1] if "+" in name else "x86_64-sysv"
        out.append(Unit("corpus:" + name, "corpus", open(p, errors="surrogateescape").read(), targ))
    return out


def own_units(targets):
    out = []
    for p in sorted(glob.glob(os.path.join(vlib.REPO, "*.c"))):
        pp = subprocess.run(CPP + ["-I", vlib.REPO, p], stdout=subprocess.PIPE, stderr=subprocess.PIPE, text=True)
        if pp.returncode != 0:
            raise vlib.MachineryError("cpp failed on %s: %s" % (p, pp.stderr[-500:]))
        for t in targets:
            out.append(Unit("own:%s@%s" % (os.path.basename(p), t), "own", pp.stdout, t))
    return out


PINNED = [   # the minimal failing input of every known finding (so that the finding is reported by every run until fixed)
    ("undefined-goto", "void f(void){ goto nolabel; }\n"),
    ("duplicate-label", "int x; void f(void){ l: x=1; if (x) goto l; l: x=2; }\n"),
    ("noreturn-arm", "_Noreturn void die(void); int f(int c){ return c ? (die(), 1) : 2; }\n"),
    ("dead-code-logic", "int f(int a){ return 1; if (0 && a) return 2; return 3; }\n"),
    # _Noreturn calls as the tail of the right operand of || / &&, as arms of ?: and in comma expressions
    ("noreturn-operand", "_Noreturn void die(const char *); _Noreturn int usage(void);\n"
                         "int last(int *p, int n) { ((p && n > 0) || (die(\"p\"), 0)); return p[n - 1]; }\n"
                         "int parse(int argc) { int ok; ok = argc > 1 && usage(); ok = ok || usage(); return ok ? usage() : (die(\"x\"), argc); }\n"
                         "int both(int a, double d) { return (a || (die(\"a\"), d)) && (a, usage()); }\n"),
    # variably modified typedef of an outer block, first used on one path, used again on a path bypassing it
    ("vm-typedef", "void g(int n, int c) { typedef int T[n]; if (c) { T a; a[0]=1; } else { T b; b[0]=2; } }\n"
                   "int h(int n, int m, int c) { typedef int T[n][m]; int r = 0; while (c--) { T a; a[0][0] = c; r += a[0][0]; } { T b; r += (int)sizeof b; } return r; }\n"
                   "int k(int n, int c, void *v) { typedef int (*P)[n]; switch (c) { case 1: { P q = v; return (int)sizeof *q; } default: { P r = v; return (*r)[0]; } } }\n"
                   "int l(int n, int m, int c, void *v) { typedef int (*P)[n][m]; for (int i = 0; i < c; i++) { P q = v; c -= (int)sizeof **q; } { P r = v; return (int)sizeof *r; } }\n"),
    # variably modified parameters whose length expressions contain control flow, with later block-scope declarations
    ("vm-param-control-flow", "int f(int n, int c, int (*p)[c ? n : 1]) { return sizeof(*p); }\n"
                              "int g(int n, int c, int (*p)[(n && c) + 1][(n || c) + 1]) { int loc = n; { int arr[3] = {1, 2, 3}; loc += arr[1]; } return (int)sizeof(*p) + loc; }\n"
                              "int h(int n, int c, int a[c ? n : 1][n]) { long t = 0; while (c--) { int z = c; t += z; } return (int)sizeof(a[0]) + (int)t; }\n"),
    # objects declared before their struct/union type is completed (DataAlign through the H6-lite events)
    ("tentative-before-completion", "struct S s; typedef struct T t; t u; union U v; static struct S w; int a[];\n"
                                    "struct S { long a; int b; }; struct T { double d; char c; }; union U { int i; double d; }; int a[3];\n"
                                    "extern struct S x; struct S x; _Alignas(16) char y[3]; _Thread_local long z; char *str = \"abc\";\n"
                                    "long use(void) { return w.a + u.c + v.i; }\n"),
    # C23 variadic functions without a named parameter: definitions, direct calls and calls through a pointer with 0-3
    # arguments of classes w, l, d, s (promoted) and aggregate; the marker is then the FIRST item of the argument list.
    # (Not in WfGen: gcc 12 / clang 14 reject `int f(...)` in C, so the generator's audit could not accept the programs.)
    ("variadic-no-named-parameter", 'typedef __builtin_va_list va_list;\nstruct S { int m; long n; };\nint v0(...);\nint v1(...) { va_list ap; int t; __builtin_va_start(ap); t = __builtin_va_arg(ap, int); __builtin_va_end(ap); return t; }\ndouble v2(...) { return 1.5; }\nint call0(int i, long l, double d, float f, struct S s, int (*fp)(...)) {\n\tint r = v0() + v0(i) + v0(l, d) + v0(d, i, l) + v0(f) + v0(s) + v0(s, i, d) + v1(i, d) + (int)v2(l);\n\tr += fp(i) + fp(d, l) + fp(s, f, i) + fp();\n\treturn r;\n}\n'),
    # objects that are emitted once however often they are used: __func__ evaluated 0/1/2/3 times (direct, as argument,
    # in nested blocks, sizeof only, in two functions), block-scope statics, string and compound literals used repeatedly
    ("emit-once-objects", "int puts(const char *);\n"
                          "int none(void) { return (int)sizeof __func__; }\n"
                          "int once(void) { return __func__[0]; }\n"
                          "int twice(int c) { if (c) { puts(__func__); } { { return __func__[1] + (int)sizeof __func__; } } }\n"
                          "int thrice(int c) { while (c--) puts(__func__); puts(\"lit\"); puts(\"lit\"); return __func__[0] + (c ? __func__[2] : 0); }\n"
                          "int stat(int c) { static int n; static const char *s = \"lit\"; n++; { static int n; n += c; } n++; return n + s[0] + (int[2]){1, c}[1] + (int[2]){1, c}[0]; }\n"),
    # C10's open finding (zero-length array types accepted) seen through C03: sizeof yields no value
    ("sizeof-zero-length-array", "long f(long x){ return x + sizeof(int[0]); }\n"),
    # wide arrays filled exactly by a wide literal (DataSize through the H6-lite sizes): top level, member, 2-D row
    ("wide-exact-fit", "unsigned short a[2] = u\"ab\"; unsigned b[1] = U\"a\"; struct { unsigned short s[2]; char c; } c = {u\"ab\", 1};\n"
                       "unsigned short d[2][2] = {u\"ab\", u\"c\"}; unsigned e[2][1] = {U\"a\", U\"b\"}; unsigned short f[3] = u\"ab\";\n"
                       "void g(void) { static unsigned short h[2] = u\"xy\"; }\n"),
]


def rejected_family():
    """Inputs the unchanged compiler rejects (status != 0 is fine for C03: the property only speaks when the status is 0,
    but a change that makes them accepted must then print well-formed IL).  One declaration per unit, because a
    diagnostic ends the whole unit: casts of address constants to narrower integer types in static initializers."""
    out = []
    pre = "int y; struct S { char c; int i; } s; enum E { A, B };\n"
    for ty in ("_Bool", "char", "short", "int", "unsigned", "enum E", "long", "unsigned char"):
        tn = ty.replace(" ", "_")
        out.append(("addrcast-scalar-" + tn, pre + "%s x = (%s)&y;\n" % (ty, ty)))
        out.append(("addrcast-member-" + tn, pre + "struct T { char tag; %s lo; char end; } t = {1, (%s)&s.i, 2};\n" % (ty, ty)))
        out.append(("addrcast-element-" + tn, pre + "%s a[3] = {1, (%s)&y, (%s)(&s.i + 1)};\n" % (ty, ty, ty)))
        out.append(("addrcast-static-" + tn, pre + "int f(void) { static %s x = (%s)&y; static struct { %s m; long n; } z = {(%s)&s, 3}; return (int)x + (int)z.n; }\n" % (ty, ty, ty, ty)))
    return out


def main_family():
    """`main` with a return type other than int whose last block is open (no implicit `ret 0` may appear: RetMatchesSig),
    falling off the end and with an early `return;` - one unit per variant, there is one main per program"""
    out = []
    for tn, ty, pre in (("void", "void", ""), ("double", "double", ""), ("float", "float", ""), ("long", "long", ""),
                        ("struct", "struct R", "struct R { long a; long b; long c; };\n"), ("int", "int", ""),
                        ("unsigned", "unsigned", ""), ("ptr", "char *", "")):
        out.append(("main-falloff-" + tn, pre + "int x;\n%s main(void) { x = 1; }\n" % ty))
        out.append(("main-early-" + tn, pre + "int x;\n%s main(int argc, char **argv) { if (argc) { x = 2; return%s; } while (x) x--; }\n" % (
            ty, "" if ty == "void" else " (%s){0}" % ty if ty == "struct R" else " 0")))
    return out


def pinned_units(targets):
    fam = PINNED + rejected_family() + main_family()
    return [Unit("pinned:%s@%s" % (n, t), "pinned", src, t) for n, src in fam for t in targets]


def tour_units(ctx, targets):
    """A slice of the one-edit neighbourhood (Mutate.tla, exhaustive) of harness/tour.c: most are rejected, every exit-0
    output is judged.  quick: every 8th neighbour (rotating with the seed); thorough: all of them."""
    import mutate
    path = os.path.join(vlib.VERIF, "harness", "tour.c")
    if not os.path.exists(path) or not hasattr(mutate, "neighbourhood"):
        return []
    nb = mutate.neighbourhood(ctx, path)
    step = 8 if ctx.quick else 1
    off = ctx.seed % step
    units = [Unit("tour:%d" % i, "tour", src, targets[0], {"mutation": descr}) for i, (src, descr) in enumerate(nb) if i % step == off]
    ctx.cov["tour_neighbourhood"] = len(nb)
    return units


def stored_qbe_audit(ctx, judge):
    """The 159 stored expectations must all be accepted: audits the validator's instruction table."""
    n = 0
    for p in sorted(glob.glob(os.path.join(vlib.REPO, "test", "*.qbe"))):
        u = Unit("stored:" + os.path.basename(p), "stored", "", "x86_64-sysv")
        u.rc, u.il, u.err = 0, open(p).read(), ""
        try:
            u.mod = ilparse.parse(u.il)
        except ilparse.ILSyntaxError as ex:
            raise vlib.MachineryError("stored %s is outside ilparse's grammar: %s" % (p, ex))
        u.src = "(stored expectation %s)" % os.path.basename(p)
        judge.add(u)
        n += 1
    return n


# ----------------------------------------------------------------------------------------------
# validator self-test: each obligation must reject its seeded malformed module (vacuity guard)
# the C signature of the functions $sigf / $sigv of the self-test modules SigMatchesC__*.il:
# `struct SA sigf(struct SA, int)` and `void sigv(double, ...)`
SELFTEST_SIGS = {"sigf": {"known": True, "rcls": "agg", "rtag": "SA", "pcls": ["agg", "w"], "ptag": ["SA", ""], "variadic": False},
                 "sigv": {"known": True, "rcls": "", "rtag": "", "pcls": ["d"], "ptag": [""], "variadic": True}}


def selftest(ctx):
    files = sorted(glob.glob(os.path.join(SELFTEST, "*.il")))
    lines = []
    for p in files:
        m = ilparse.parse(open(p).read())
        lines.append(c03lib.dumps(c03lib.module_to_tla(m, os.path.basename(p)[:-3], {"x": (8, 4)}, SELFTEST_SIGS)))
    path = ctx.path("selftest.ndjson")
    open(path, "w").write("\n".join(lines) + "\n")
    obs = [
        {"id": "ok", "rc": 0, "errlen": 0, "parses": True, "outlen": 10, "endsnl": True, "fault": "none"},
        {"id": "ok-fail", "rc": 1, "errlen": 10, "parses": False, "outlen": 3, "endsnl": False, "fault": "devfull"},
        {"id": "Exit0StderrEmpty", "rc": 0, "errlen": 5, "parses": True, "outlen": 10, "endsnl": True, "fault": "none"},
        {"id": "Exit0OutputParses", "rc": 0, "errlen": 0, "parses": False, "outlen": 10, "endsnl": True, "fault": "none"},
        {"id": "Exit0EndsInNewline", "rc": 0, "errlen": 0, "parses": True, "outlen": 10, "endsnl": False, "fault": "none"},
        {"id": "WriteFailureNotExit0", "rc": 0, "errlen": 0, "parses": True, "outlen": 10, "endsnl": True, "fault": "fsize"},
    ]
    opath = ctx.path("selftest_obs.ndjson")
    open(opath, "w").write("\n".join(json.dumps(o) for o in obs) + "\n")
    r = ctx.tlc("QbeWF", "MC_QbeWF_design.cfg", workers=4, env={"QBEWF_MODS": path, "QBEWF_OBS": opath}, timeout=600)
    if not r.ok:
        raise vlib.MachineryError("QbeWF design check (free worklist order, FlowIsDominance) failed:\n" + r.out[-4000:])
    got, gotp = {}, set()
    for v in r.vcases:
        v = json.loads(v)
        for x in v["failed"]:
            if v["k"] == "proc":
                gotp |= {(x["ob"], o) for o in x["at"]}
            else:
                got.setdefault(v["m"], set()).add(x["ob"])
    for p in files:
        k = os.path.basename(p)[:-3]
        exp = k.split("__")[0]
        want = set() if exp == "ok" else {exp}
        if got.get(k, set()) != want:
            raise vlib.MachineryError("QbeWF self-test %s: expected failing %s, TLC says %s" % (k, want, got.get(k)))
    wantp = {(o["id"], o["id"]) for o in obs if not o["id"].startswith("ok")}
    if gotp != wantp:
        raise vlib.MachineryError("ProcClause self-test: expected %s got %s" % (wantp, gotp))
    ctx.cov["selftest_modules"] = len(files)
    return len(files)


# ----------------------------------------------------------------------------------------------
# EmitModel: design check + flow A replay
def emit_render(case, fname):
    st = []
    for name, arg in case["hist"]:
        st.append({"inst": "x = 1;", "ret": "return;", "hlt": "die();", "goto": "goto %s;" % arg, "label": "%s: ;" % arg,
                   "ifgoto": "if (x) goto %s;" % arg,
                   "if": "if (x) {", "else": "} else {", "while": "while (x) {", "do": "do {", "for": "for (;%s;) {" % arg,
                   "switch": "switch (x) {", "case": "case 1: ;", "default": "default: ;", "break": "break;", "continue": "continue;",
                   "close": "} while (x);" if arg == "do" else "}"}[name])
    return "void %s(void) { %s }\n" % (fname, " ".join(st))


def skeleton_of(func):
    """projection of an emitted function onto what EmitModel predicts: ids relative to the first block"""
    def lid(name):
        return int(name.rsplit(".", 1)[1])
    base = lid(func["blocks"][0]["label"]) - 1
    out = []
    for b in func["blocks"]:
        j = b["jump"]
        out.append({"id": lid(b["label"]) - base, "jump": j["k"] if j else "none",
                    "tgt": [lid(t) - base for t in j["targets"]] if j else [], "ninst": len(b["insts"])})
    return out


PRE = "int x; _Noreturn void die(void);\n"


def emit_model(ctx, builds, judge):
    q = ctx.quick
    ctx.tlc_must_pass("EmitModel", "MC_EmitModel_design.cfg" if q else "MC_EmitModel_design_thorough.cfg", workers=8 if q else 16, timeout=1500)
    for cfg, inv in (("MC_EmitModel_devgoto.cfg", "JumpsTargetExisting"), ("MC_EmitModel_devlabel.cfg", None)):
        r = ctx.tlc("EmitModel", cfg, workers=4, timeout=600)
        if r.rc != 12:
            raise vlib.MachineryError("EmitModel with %s: TLC was expected to find a counterexample (rc=%s)" % (cfg, r.rc))
        if inv and ("Inv_" + inv) not in r.out:
            raise vlib.MachineryError("EmitModel %s: counterexample does not violate %s:\n%s" % (cfg, inv, r.out[-1500:]))
    r = ctx.tlc_must_pass("EmitModel", "MC_EmitModel_cases_quick.cfg" if q else "MC_EmitModel_cases_thorough.cfg",
                          workers=8 if q else 16, timeout=1500, heap="4g")
    cases = [json.loads(v) for v in r.vcases]
    if not cases:
        raise vlib.MachineryError("EmitModel produced no behaviours")
    kinds = {h[0] for c in cases for h in c["hist"]}
    if kinds != {"inst", "ret", "hlt", "goto", "label", "ifgoto"}:
        raise vlib.MachineryError("vacuity guard: EmitModel statement actions taken: %s" % sorted(kinds))
    # structured statements (deviations off: the invariants are checked on the way): exhaustive to 4 (5) calls, sampled to 8
    r = ctx.tlc_must_pass("EmitModel", "MC_EmitModel_struct_quick.cfg" if q else "MC_EmitModel_struct_thorough.cfg",
                          workers=8 if q else 16, timeout=1500, heap="4g")
    r2 = ctx.tlc_must_pass("EmitModel", "MC_EmitModel_struct_sim.cfg", workers=4, simulate=150 if q else 1500, depth=12, timeout=900)
    seen = set()
    scases = []
    for v in r.vcases + r2.vcases:
        if v not in seen:
            seen.add(v)
            scases.append(json.loads(v))
    skinds = {h[0] for c in scases for h in c["hist"]}
    want = {"if", "else", "while", "do", "for", "switch", "case", "default", "break", "continue", "close"}
    if not want <= skinds:
        raise vlib.MachineryError("vacuity guard: structured EmitModel actions never taken: %s" % sorted(want - skinds))
    if any(c["failing"] or c["dev"] for c in scases):
        raise vlib.MachineryError("EmitModel (deviations off) printed a malformed behaviour")
    ctx.cov["emit_struct_cases"] = len(scases)
    cases += scases
    if not any(c["dev"] == ["DevUndefinedGoto"] for c in cases) or not any(c["dev"] == ["DevDuplicateLabel"] for c in cases):
        raise vlib.MachineryError("vacuity guard: a deviation never fired in the EmitModel behaviours")
    div = [c for c in cases if "EmitTerminates" in c["failing"]]
    fin = [c for c in cases if "EmitTerminates" not in c["failing"]]
    plain = builds[0]
    # behaviours whose emission does not terminate: replayed one by one with an output cap
    ndiv = 0
    for c in div[:(12 if q else 60)]:
        src = PRE + emit_render(c, "f")
        p = subprocess.Popen([os.path.join(plain, "cproc-qbe")], stdin=subprocess.PIPE, stdout=subprocess.PIPE, stderr=subprocess.DEVNULL)
        try:
            p.stdin.write(src.encode())
            p.stdin.close()
            got = 0
            t0 = time.time()
            while got < (1 << 20) and time.time() - t0 < 10:
                chunk = p.stdout.read(65536)
                if not chunk:
                    break
                got += len(chunk)
        finally:
            p.kill()
            p.wait()
        if got >= (1 << 20):
            ndiv += 1           # as the model says: the ->next chain is cyclic, emitfunc prints for ever (never status 0)
        elif p.returncode == 0:
            ctx.violation("emit:skeleton:diverge-expected", "EmitModel predicts a non-terminating emission; binary exited 0",
                          {"hist": c["hist"], "source": src})
    ctx.cov["emit_divergent_replayed"] = ndiv
    # finite behaviours: batches of functions per translation unit.  Behaviours that use a deviation (programs that
    # violate C11 6.8.6.1p1 / 6.8.1p3) are compiled one per unit: a compiler that diagnoses them (the fix: commits
    # bebf93d, f515711 do) fails the whole unit, and whatever is still accepted is compared and judged like the rest.
    B = 150
    units = []
    fin.sort(key=lambda c: (not c["failing"], len(c["hist"])))
    devc = [c for c in fin if c["dev"]]
    good = [c for c in fin if not c["dev"]]
    for k in range(0, len(good), B):
        chunk = good[k:k + B]
        src = PRE + "".join(emit_render(c, "f%d" % i) for i, c in enumerate(chunk))
        units.append(Unit("emit:%d" % (k // B), "emitcase", src, "x86_64-sysv", {"emitcase": True, "cases": chunk}))
    step = 1 if len(devc) <= 6000 else len(devc) // 6000 + 1
    for k, c in enumerate(devc[::step]):
        units.append(Unit("emitdev:%d" % k, "emitcase", PRE + emit_render(c, "f0"), "x86_64-sysv", {"emitcase": True, "cases": [c]}))
    tr = ctx.path("tr")
    os.makedirs(tr, exist_ok=True)
    vlib.pmap(lambda u: compile_unit((plain, None), u, tr), units)
    rejected = diagnosed = 0
    out_units = []
    for u in units:
        chunk = u.meta["cases"]
        if u.rc != 0 or u.mod is None:
            if len(chunk) == 1:
                for c in chunk:
                    ctx.count("emit|" + vlib.canon(c["hist"]), nontrivial=False)
                    if c["dev"]:
                        diagnosed += 1
                    else:
                        rejected += 1
                continue
            for i, c in enumerate(chunk):       # a deviation-free behaviour was rejected: find out which
                v = Unit("%s/%d" % (u.id, i), "emitcase", PRE + emit_render(c, "f0"), "x86_64-sysv", {"emitcase": True, "cases": [c]})
                compile_unit((plain, None), v, tr)
                if v.rc != 0:
                    rejected += 1
                    ctx.count("emit|" + vlib.canon(c["hist"]), nontrivial=False)
                else:
                    emit_compare(ctx, v, judge)
                    out_units.append(v)
            continue
        emit_compare(ctx, u, judge)
        out_units.append(u)
    units = out_units
    ctx.cov["emit_deviation_behaviours_diagnosed"] = diagnosed
    if rejected > len(good) // 10:
        raise vlib.MachineryError("EmitModel replay is vacuous: %d of %d deviation-free behaviours were rejected" % (rejected, len(good)))
    ctx.cov["emit_cases"] = len(cases)
    ctx.cov["emit_rejected_valid"] = rejected
    return units


DEVKEY = {"DevUndefinedGoto": "undefined-goto-label", "DevDuplicateLabel": "duplicate-label"}


def emit_compare(ctx, u, judge):
    funcs = {f["name"]: f for f in u.mod["funcs"]}
    for i, c in enumerate(u.meta["cases"]):
        f = funcs.get("f%d" % i)
        hist = " ".join("%s(%s)" % (a, b) if b else a for a, b in c["hist"])
        ctx.count("emit|" + hist, nontrivial=len(c["hist"]) >= 2)
        if f is None:
            ctx.violation("emit:skeleton:function-missing", "no function emitted for an EmitModel behaviour", {"hist": c["hist"], "source": u.src})
            continue
        got = skeleton_of(f)
        if got != c["blocks"]:
            ctx.violation("emit:skeleton:%s" % ("+".join(sorted(c["dev"])) or "nodev"),
                          "emitted block skeleton differs from EmitModel's", {"hist": hist, "expected": c["blocks"], "observed": got})
            continue
        ctx.validated(1)
        c["_func"] = "f%d" % i
    # QbeWF judges every deviation behaviour the compiler still accepts, and every 4th batch (quick) / every 3rd batch
    # (thorough, 9x more behaviours) of the others.  The skeleton comparison above is done for all of them.
    bi = int(u.id.split(":")[1].split("/")[0])
    u.meta["judged"] = u.id.startswith("emitdev:") or ((bi % 4 == 0) if ctx.quick else (bi % 3 == 0))
    if u.meta["judged"]:
        judge.add(u)


def emit_crosscheck(ctx, units, failed):
    """EmitModel's failing obligations on a behaviour must be exactly QbeWF's on the IL the binary printed."""
    for u in units:
        if not u.meta.get("judged"):
            continue
        fl = {}
        for fname, ob, at in failed.get(u.id, []):
            fl.setdefault(fname, set()).add(ob)
        for c in u.meta["cases"]:
            fn = c.get("_func")
            if fn is None:
                continue
            model = set(c["failing"]) & {"JumpsTargetExisting", "BlocksTerminated", "LabelsUnique"}
            seen = fl.get(fn, set()) & {"JumpsTargetExisting", "BlocksTerminated", "LabelsUnique"}
            hist = " ".join("%s(%s)" % (a, b) if b else a for a, b in c["hist"])
            if model != seen:
                ctx.violation("emit:verdict-mismatch", "EmitModel and QbeWF disagree on the emitted function",
                              {"hist": hist, "model": sorted(model), "qbewf": sorted(seen)})
                continue
            extra = fl.get(fn, set()) - {"JumpsTargetExisting", "BlocksTerminated", "LabelsUnique"}
            for ob in sorted(extra):
                ctx.violation("wf:%s:emitcase" % ob, "obligation %s fails on an EmitModel behaviour" % ob, {"hist": hist})
            devs = "+".join(DEVKEY[d] for d in sorted(c["dev"])) or "nodev"
            for ob in sorted(set(c["failing"]) - {"EmitTerminates"}):
                pref = "wf" if ob in ("JumpsTargetExisting", "BlocksTerminated", "LabelsUnique") else "emit"
                ctx.violation("%s:%s:%s" % (pref, ob, devs), "exit 0 with malformed function (EmitModel deviation %s)" % devs,
                              {"hist": hist, "source": PRE + emit_render(c, "f"), "failing": c["failing"]})


# ----------------------------------------------------------------------------------------------
# process clause: injected write failures
def fault_cmds(ctx, exe, u, size):
    """[(fault, argv, arg)]: the output channel cannot take the whole (non-empty) output"""
    srcp, outp = ctx.path("fault_in.c"), ctx.path("fault_out.qbe")
    with open(srcp, "wb") as f:
        f.write(u.src.encode("utf-8", "surrogateescape"))
    runs = [("devfull", [exe, "-t", u.target, "-o", "/dev/full", srcp], None),
            ("closed", ["sh", "-c", 'exec "$0" -t "$1" "$2" >&-', exe, u.target, srcp], None)]
    for b in sorted({0, 1, (size // 512) // 2, max(0, (size - 1) // 512)}):
        if b * 512 < size:
            runs.append(("fsize", ["sh", "-c", 'trap "" XFSZ; ulimit -f %d; exec "$0" -t "$1" -o "$2" "$3"' % b, exe, u.target, outp, srcp], b))
    return runs, srcp, outp


def fault_runs(ctx, builds, judge, units):
    exe = os.path.join(builds[0], "cproc-qbe")
    pick = [u for u in units if u.rc == 0 and u.il and len(u.il) > 0]
    pick.sort(key=lambda u: len(u.il))
    sel = pick[:3] + pick[len(pick) // 2:len(pick) // 2 + 3] + pick[-4:] if ctx.quick else pick
    n = 0
    for u in sel:
        size = len(u.il.encode("utf-8", "surrogateescape"))
        runs, srcp, outp = fault_cmds(ctx, exe, u, size)
        for fault, cmd, arg in runs:
            try:
                os.unlink(outp)
            except OSError:
                pass
            rc, out, err = vlib.run(cmd, timeout=30)
            o = {"id": "%s!%s%s" % (u.id, fault, "" if arg is None else ":%d" % arg), "rc": rc, "errlen": 0, "parses": True,
                 "outlen": 0, "endsnl": True, "fault": fault}
            judge.obs.append(o)
            judge.obs_meta[o["id"]] = {"source": u.src, "target": u.target, "fault_arg": arg, "full_output_bytes": size}
            n += 1
            ctx.count(o["id"], nontrivial=True)
    # control: the same path without a fault must succeed and reproduce the output (the injection is the only difference)
    if sel:
        u = sel[0]
        _, srcp, outp = fault_cmds(ctx, exe, u, 1)
        rc, _, _ = vlib.run(["sh", "-c", 'trap "" XFSZ; ulimit -f 100000; exec "$0" -t "$1" -o "$2" "$3"', exe, u.target, outp, srcp], timeout=30)
        if rc != 0 or open(outp, errors="surrogateescape").read() != u.il:
            raise vlib.MachineryError("fault harness control run failed (rc=%s)" % rc)
    ctx.cov["fault_runs"] = n


# ----------------------------------------------------------------------------------------------
def private_builds(ctx):
    """the shared build cache keeps one entry per flavour and evicts on a new source hash: a concurrent check of a
    scratch copy (VERIF_REPO=...) would delete the binary under our feet, so work on private copies"""
    import shutil
    out = []
    for fl in ("plain", "hooks"):
        for attempt in range(3):
            try:
                src = vlib.build(fl)
                dst = ctx.path("bin-" + fl)
                os.makedirs(dst, exist_ok=True)
                shutil.copy2(os.path.join(src, "cproc-qbe"), os.path.join(dst, "cproc-qbe"))
                break
            except (OSError, vlib.MachineryError):
                if attempt == 2:
                    raise
                time.sleep(2)
        out.append(dst)
    return tuple(out)


def run(ctx):
    ctx.cov["rule"] = ("every IL printed with status 0 for: test/*.c x their targets, the stored .qbe files, cproc's 19 sources "
                       "(after cpp) x targets, WfGen.tla programs (TLC -simulate), Mutate.tla token mutants that still compile, "
                       "EmitModel behaviours; each judged by QbeWF.tla in TLC (one verdict per function and per module). "
                       "non-trivial = distinct (target, source) that exits 0 and defines at least one function or object")
    q = ctx.quick
    builds = private_builds(ctx)
    selftest(ctx)
    judge = Judge(ctx)
    stored_qbe_audit(ctx, judge)
    targets = ["x86_64-sysv"] if q else vlib.TARGETS
    units = corpus_units() + own_units(targets)
    if not q:
        # corpus on the other targets as well (the stored expectation exists for one target only)
        for u in corpus_units():
            for t in vlib.TARGETS:
                if t != u.target:
                    units.append(Unit(u.id + "@" + t, "corpus", u.src, t))
    units += pinned_units(targets)
    units += tour_units(ctx, targets)
    units += generated_units(ctx, targets)
    sigu = sig_units(ctx, targets)
    units += sigu
    units += mutant_units(ctx, targets)
    tr = ctx.path("tr")
    os.makedirs(tr, exist_ok=True)
    vlib.pmap(lambda u: compile_unit(builds, u, tr), units)
    bad_corpus = [u.id for u in units if u.kind in ("corpus", "own") and u.rc != 0 and u.id.count("@") == (1 if u.kind == "own" else 0)]
    if len(bad_corpus) > 3:
        raise vlib.MachineryError("corpus/own sources do not compile any more: %s" % bad_corpus[:5])
    nhm = sum(1 for u in units if u.meta.get("hook_mismatch"))
    if nhm:
        raise vlib.MachineryError("%d inputs: instrumented build prints different IL than the plain build" % nhm)
    for u in units:
        if u.kind == "gen" and u.rc == 0 and u.mod is not None:
            u.known.update(u.meta["gen_known"])        # WfGen's table is the oracle for the objects it declares
        judge.add(u)
    nsig0 = sum(1 for u in sigu if u.rc == 0 and u.mod is not None)
    if nsig0 < 0.98 * len(sigu):
        bad = next(u for u in sigu if u.rc != 0 or u.mod is None)
        raise vlib.MachineryError("SigGen programs stopped compiling (%d of %d exit 0); e.g. rc=%s %s\n%s" % (
            nsig0, len(sigu), bad.rc, (bad.err or "")[:300], bad.src[-400:]))
    ngen = [u for u in units if u.kind == "gen" and not u.meta["undef"]]
    if ngen and sum(1 for u in ngen if u.rc == 0) < 0.95 * len(ngen):
        bad = next(u for u in ngen if u.rc != 0)
        raise vlib.MachineryError("generated programs stopped compiling (%d of %d exit 0); e.g. rc=%s %s" % (
            sum(1 for u in ngen if u.rc == 0), len(ngen), bad.rc, (bad.err or "")[:300]))
    kinds = {}
    for u in units:
        k = kinds.setdefault(u.kind, {"inputs": 0, "exit0": 0})
        k["inputs"] += 1
        k["exit0"] += u.rc == 0
    ctx.cov["inputs"] = kinds
    eunits = emit_model(ctx, builds, judge)
    fault_runs(ctx, builds, judge, [u for u in units if u.kind == "corpus"])
    failed = judge.run(workers=16, heap="6g")
    emit_crosscheck(ctx, eunits, failed)
    ctx.cov["excluded"] = judge.excluded
    ctx.cov["modules_judged"] = len(judge.units)
    ctx.cov["data_defs_with_known_size"] = sum(len(u.known) for u in judge.units.values())
    for u in units:
        if u.rc == 0 and u.mod and u.kind in ("gen", "mutant"):
            ctx.sample({"kind": u.kind, "target": u.target, "meta": {k: v for k, v in u.meta.items() if k != "cases"},
                        "source_head": u.src[:300]}, limit=4)
    ctx.assumptions += [
        "ilparse.py (strict parser of the IL subset) and c03lib.py (name interning) are trusted glue",
        "QbeWF's instruction table is transcribed from the QBE IL reference and parse.c:typecheck; audited on the 159 stored .qbe files",
        "calls of functions not defined in the module cannot be matched against a signature",
        "C object size/alignment for DataSize comes from the H6-lite event of the -DCPROC_VERIF build (same IL text required) "
        "or from WfGen's table for generated globals",
    ]


PROLOGUE = """typedef __builtin_va_list va_list;
struct S { int m; long n; char c[3]; };
struct B { int bf : 3; unsigned ub : 5; int : 0; long lf : 33; };
union U { int i; double d; char c; };
struct O { struct S in; union U u; short h; };
_Noreturn void die(void);
_Noreturn int ndie(void);
int vx(int, ...);
/*HELPERS*/
/*GLOBALS*/
int fn(int p, long lp, double dp, struct S sp, int *pp) {
	int i = p, j = 0; unsigned u = p; char c = p; short sh = p; long l = lp; double d = dp; float fl = dp;
	int a[4] = {0}; struct S s = sp, s2 = sp; struct B b = {0}; int (*fp)(int) = fi; int n = (p & 3) + 1; int vla[n];
	struct O o = gso(p); union U un = {p}; static int st; _Alignas(32) int al = p; char str[8] = "ab";
	vla[0] = 0;
	/*BODY*/
	return i;
}
/*MAIN*/
"""
HELPER_DEFS = """int fi(int a) { return a + 1; }
double fd(double a) { return a * 2; }
struct S gs(int a) { struct S r = {a, a + 1, {1, 2, 3}}; return r; }
int vf(int n, ...) { va_list ap; int t = 0; __builtin_va_start(ap, n); while (n-- > 0) t += __builtin_va_arg(ap, int); t += (int)__builtin_va_arg(ap, double); __builtin_va_end(ap); return t; }
int vf2(int n, ...) { va_list ap; long t = n; __builtin_va_start(ap, n); t += __builtin_va_arg(ap, long); t += *__builtin_va_arg(ap, char *); t += (long)__builtin_va_arg(ap, double); __builtin_va_end(ap); return (int)t; }
int vg(double a, long b, ...) { va_list ap; int t; __builtin_va_start(ap, b); t = (int)a + (int)b + (int)__builtin_va_arg(ap, long); __builtin_va_end(ap); return t; }
int vh(float a, _Bool b, long c, ...) { va_list ap; int t; __builtin_va_start(ap, c); t = (int)a + b + (int)c + (int)__builtin_va_arg(ap, double); __builtin_va_end(ap); return t; }
int vz(int n, ...) { return n; }
int fstr(const char *a) { return a[0]; }
int fs(struct S a) { return a.m + a.c[1]; }
struct O gso(int a) { struct O r = {{a, 2, {1, 2, 3}}, {a}, 3}; return r; }
int fo(struct O a) { return a.in.m + a.h; }"""
HELPER_DECLS = "int fi(int); double fd(double); struct S gs(int); int vf(int, ...); int vf2(int, ...); int vg(double, long, ...); int vh(float, _Bool, long, ...); int vz(int, ...); int fstr(const char *); int fs(struct S); struct O gso(int); int fo(struct O);"
MAIN_DEF = "int main(void) { int z = 0; struct S s = gs(1); return fn(1, 2, 3.0, s, &z) + vf(2, 1, 2, 3.0) + vg(1, 2, 3L) + vh(1, 2, 3, 4.0) + vz(5); }"


def gen_render(c, full):
    """full: the helper functions are defined in the unit (CallArgsMatchCallee can then match the calls against
    their signatures); otherwise only declared, which keeps the judged module small"""
    g = "\n".join(x["decl"] for x in c["globs"]) + "\n" + c.get("vm", "")
    body = " ".join(t for t in c["toks"] if t)
    return (PROLOGUE.replace("/*HELPERS*/", HELPER_DEFS if full else HELPER_DECLS).replace("/*MAIN*/", MAIN_DEF if full else "")
            .replace("/*GLOBALS*/", g).replace("/*BODY*/", body))


def audit_globs(ctx, globs):
    """WfGen's size/alignment table against clang on the three targets (spec audit, never a VIOLATION)."""
    src = []
    for g in globs.values():
        src.append("%s _Static_assert(sizeof(%s) == %d, \"size %s\"); _Static_assert(__alignof__(%s) == %d, \"align %s\");" % (
            g["decl"], g["name"], g["size"], g["name"], g["name"], g["align"], g["name"]))
    p = ctx.path("globaudit.c")
    open(p, "w").write("\n".join(src) + "\n")
    for t in ("x86_64", "aarch64", "riscv64"):
        r = subprocess.run(["clang", "--target=%s-linux-gnu" % t, "-std=c11", "-fsyntax-only", "-w", p], stdout=subprocess.PIPE,
                           stderr=subprocess.STDOUT, text=True)
        if r.returncode != 0:
            raise vlib.MachineryError("SPEC-AUDIT: WfGen's global table disagrees with clang --target=%s:\n%s" % (t, r.stdout[-1500:]))


def generated_units(ctx, targets):
    q = ctx.quick
    units, globs, seen = [], {}, set()
    if True:
        # one -simulate run; a behaviour draws its category (plain / noret / undef) in Init from ModeMix
        r = ctx.tlc_must_pass("WfGen", "MC_WfGen.cfg", workers=4, simulate=70 if q else 145, depth=500, timeout=900)
        for v in r.vcases:
            if v in seen:
                continue
            seen.add(v)
            c = json.loads(v)
            cat = c["mode"]
            for g in c["globs"]:
                globs[g["name"]] = g
            src = gen_render(c, len(seen) % 4 == 0)
            meta = {"cat": cat, "undef": bool(c["undef"]), "steps": c["steps"], "nsw": c["nsw"], "ncase": c["ncase"],
                    "gen_known": {g["name"]: (g["size"], g["align"]) for g in c["globs"]}}
            # quick: x86_64 only; thorough: x86_64 and one of the two other targets in turn
            ts = targets if len(targets) == 1 else [targets[0], targets[1 + len(seen) % (len(targets) - 1)]]
            for t in ts:
                units.append(Unit("gen:%s:%s@%s" % (cat, vlib.sha(v)[:12], t), "gen", src, t, meta))
    audit_globs(ctx, globs)
    # audit of the generator against gcc: a program is valid C unless it leaves a goto label undefined
    def audit(u):
        p = subprocess.run(["gcc", "-std=c11", "-fsyntax-only", "-w", "-x", "c", "-"], input=u.src, stdout=subprocess.PIPE,
                           stderr=subprocess.STDOUT, text=True)
        return p.returncode, p.stdout
    cats = {u.meta["cat"] for u in units}
    if cats != {"plain", "noret", "undef"}:
        raise vlib.MachineryError("vacuity guard: WfGen categories drawn: %s" % sorted(cats))
    first = [u for u in units if u.target == targets[0]]
    for u, (rc, msg) in zip(first, vlib.pmap(audit, first)):
        if (rc != 0) != u.meta["undef"]:
            raise vlib.MachineryError("SPEC-AUDIT: gcc %s a WfGen program (undef=%s):\n%s\n%s" % (
                "rejects" if rc else "accepts", u.meta["undef"], msg[-800:], u.src[-1500:]))
    ctx.cov["generated_programs"] = len(first)
    return units


SIG_PROLOGUE = """struct SA { int a; char b[3]; };
struct SB { long a; long b; long c; };
union UA { long l; double d; char c[12]; };
struct SN { struct SI { short a; } in; double d; };
enum EN { E0, E1 };
extern int gi; extern char gc; extern unsigned short gh; extern long gl; extern char *gp; extern float gf; extern double gd;
extern struct SA gsa; extern struct SB gsb; extern union UA gua; extern struct SN gsn; extern enum EN gen; extern _Bool gb;
extern long sink;
"""


def sig_render(c):
    """one SigGen case -> one translation unit: the definition of sf (named / unnamed parameters as the case says) and a
    caller sc; layout dc = definition, caller; pcd = prototype, caller, definition"""
    va = ", ..." if c["variadic"] else ""
    proto = ", ".join(p["cty"] for p in c["ps"]) or "void"
    decl = ", ".join(p["cty"] + (" p%d" % i if p["named"] else "") for i, p in enumerate(c["ps"], 1)) or "void"
    body = "".join(" sink += (long)%s;" % p["use"].replace("#", "p%d" % i) for i, p in enumerate(c["ps"], 1) if p["named"])
    if c["ret"] != "void":
        body += " return %s;" % c["retarg"]
    defn = "%s sf(%s%s) {%s }\n" % (c["ret"], decl, va, body)
    call = "void sc(void) { %ssf(%s); }\n" % ("" if c["ret"] == "void" else "(void)", ", ".join([p["arg"] for p in c["ps"]] + c["vargs"]))
    if c["layout"] == "dc":
        return SIG_PROLOGUE + defn + call
    return SIG_PROLOGUE + "%s sf(%s%s);\n" % (c["ret"], proto, va) + call + defn


def sig_units(ctx, targets):
    """SigGen.tla, exhaustive: function definitions with named / unnamed parameters of every class that are called in
    the same unit; QbeWF judges header against the C signature (SigMatchesC) and call against header (CallArgsMatchCallee)"""
    cfgs = ["MC_SigGen_quick.cfg"] if ctx.quick else ["MC_SigGen_thorough.cfg", "MC_SigGen_three.cfg"]
    units, seen = [], set()
    for cfg in cfgs:
        r = ctx.tlc_must_pass("SigGen", cfg, workers=4, timeout=900, heap="4g")
        for v in r.vcases:
            if v in seen:
                continue
            seen.add(v)
            c = json.loads(v)
            src = sig_render(c)
            meta = {"sigs": {"sf": c["csig"], "sc": c["callersig"]}, "nunnamed": c["nunnamed"], "nagg": c["nagg"],
                    "variadic": c["variadic"], "layout": c["layout"], "nparams": len(c["ps"])}
            for t in targets:
                if t != targets[0] and len(seen) % 4:       # the other targets: every 4th case
                    continue
                units.append(Unit("sig:%s@%s" % (vlib.sha(v)[:12], t), "sig", src, t, meta))
    first = [u for u in units if u.target == targets[0]]
    # vacuity guard: every dimension is present
    if not (any(u.meta["nunnamed"] and u.meta["nagg"] for u in first) and any(u.meta["variadic"] for u in first)
            and {u.meta["layout"] for u in first} == {"dc", "pcd"} and {u.meta["nparams"] for u in first} >= {0, 1, 2}):
        raise vlib.MachineryError("vacuity guard: SigGen dimensions missing")
    # audit of the generator against gcc (C23: unnamed parameters in definitions): every program is valid C
    def audit(u):
        p = subprocess.run(["gcc", "-std=c2x", "-fsyntax-only", "-w", "-x", "c", "-"], input=u.src, stdout=subprocess.PIPE,
                           stderr=subprocess.STDOUT, text=True)
        return p.returncode, p.stdout
    step = 5 if ctx.quick else 11
    pick = first[ctx.seed % step::step]
    for u, (rc, msg) in zip(pick, vlib.pmap(audit, pick)):
        if rc != 0:
            raise vlib.MachineryError("SPEC-AUDIT: gcc -std=c2x rejects a SigGen program:\n%s\n%s" % (msg[-800:], u.src[-600:]))
    ctx.cov["sig_cases"] = len(first)
    ctx.cov["sig_cases_with_unnamed_aggregate"] = sum(1 for u in first if u.meta["nunnamed"] and u.meta["nagg"])
    return units


def mutant_units(ctx, targets):
    import mutate
    n = 3000 if ctx.quick else 20000
    units = []
    for i, (src, targ, mode, descr) in enumerate(mutate.generate(ctx, n, max_edits=1 if ctx.quick else 2)):
        if mode != "c":
            continue
        units.append(Unit("mut:%d:%s" % (i, descr["file"]), "mutant", src, targ, {"mutation": descr}))
    return units


def replay(ctx, path):
    case = json.load(open(path))["case"]
    src, target = case.get("source"), case.get("target", "x86_64-sysv")
    if not src:
        print("case has no source:", json.dumps(case)[:2000])
        return 2
    builds = private_builds(ctx)
    if case.get("fault", "none") != "none":
        u = Unit("replay", "replay", src, target)
        runs, _, _ = fault_cmds(ctx, os.path.join(builds[0], "cproc-qbe"), u, case.get("full_output_bytes", 1 << 20))
        bad = 0
        for fault, cmd, arg in runs:
            if fault == case["fault"] and arg == case.get("fault_arg"):
                rc, _, err = vlib.run(cmd, timeout=30)
                print("fault %s %s: exit status %s (required: not 0); stderr %r" % (fault, arg, rc, err[-200:]))
                bad += rc == 0
        return 1 if bad else 0
    u = Unit("replay", "replay", src, target)
    tr = ctx.path("tr")
    os.makedirs(tr, exist_ok=True)
    compile_unit(builds, u, tr)
    print("exit status %s; stderr %r" % (u.rc, (u.err or "")[:300]))
    if u.rc != 0:
        print("not status 0: C03 requires nothing")
        return 0
    print(u.il)
    judge = Judge(ctx)
    judge.add(u)
    failed = judge.run(workers=4, heap="2g", tag="replay", guard=False)
    print("QbeWF failing obligations:", json.dumps(failed, indent=1))
    return 1 if (failed or ctx.violations) else 0
