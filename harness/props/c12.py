"""C12 - macro definition and expansion follow C11 6.10.3 on the implemented subset.

spec/Macro.tla holds (1) the declarative expansion Ex/Permitted (Prosser hide sets, DR 268 as a
set of outcomes, Redefinable) and (2) PPModel, a transcription of pp.c whose departures from (1)
are named deviations (KnownDevs).

 design   TLC: PPModel with all deviations off refines Permitted on the BFS program spaces.
 flow A   TLC (BFS spaces with KnownDevs on, and -simulate random programs) emits VCASE
          {prog, mode, per (permitted outcomes), model (PPModel outcome), fired (deviations that
          fired)}.  The harness renders prog, runs the real cproc-qbe and compares
            mode E: token stream of `-E` (hook H1 dump): kinds + spellings,
            mode C: IL of P against IL of Render(permitted outcome)  (no hook).
          observed in per            -> held
          observed = model, fired!={} -> KNOWN-FINDING dev:<name> (the defect is algorithmic)
          a use-after-free deviation fired (outcome unpredictable) -> KNOWN-FINDING dev:<name>
          anything else               -> VIOLATION
 audit    gcc `cpp -P` re-tokenised by cproc's scanner must be a permitted outcome of every
          audited case, else MachineryError (the spec is wrong).
Python only renders token records to text, runs binaries and compares projections.
"""
import json, os, re, subprocess, collections
import vlib

WILD = {"ArgUseAfterFree", "KeywordFreesLit", "UndefFreesHeldBody"}
SECTION8 = ["PendingReuse", "PaintBody", "MacroequalSpace"]

QUICK = dict(ref=["peek", "t0", "redef", "redef2", "qp", "qh", "qn", "q3s", "q5s"], dev=["sec8", "t0", "redef", "redef2", "qp", "qh", "qn", "q1s", "q2s", "q3s", "q4s", "q5s"],
             simE=(6, 150), simC=(4, 120), audit=4000)
THOROUGH = dict(ref=["peek2", "t0", "redef", "redef2", "qp", "qh", "qnx", "q1", "q2", "q3", "q4", "q5s"], dev=["sec8", "t0", "redef", "redef2", "qp", "qh", "qnx", "q1", "q2", "q3", "q4", "q5s"],
                simE=(12, 600), simC=(8, 400), audit=30000)


# ---------------------------------------------------------------- rendering (glue)
def rtoks(ts):
    return "".join((" " if t["sp"] else "") + t["s"] for t in ts)


def render(prog):
    out = []
    for l in prog:
        if l["k"] == "text":
            out.append(rtoks(l["b"]))
        elif l["k"] == "undef":
            out.append("#undef " + l["n"])
        elif l["k"] == "nop":      # '#' + tokens, with the text the spec puts in front of '#' and behind the last token
            out.append(l["ps"][0] + "#" + rtoks(l["b"]) + l["ps"][1])
        else:
            ps = ",".join("..." if p == "__VA_ARGS__" else p for p in l["ps"])
            out.append("#define " + l["n"] + ("(" + ps + ")" if l["fn"] else "") + rtoks(l["b"]))
    return "\n".join(out) + "\n"


def render_out(toks):
    return " ".join(t["s"] for t in toks) + "\n"


_KN = None


def tok_class(t):
    global _KN
    if _KN is None:
        _KN = vlib.token_kinds()
    kn = _KN[t["kind"]]
    if kn == "TNEWLINE":
        return "nl"
    c = t["text"][:1]
    if kn in ("TIDENT",) or ((c.isalpha() or c == "_") and kn not in ("TSTRINGLIT", "TCHARCONST", "TNUMBER")):
        return "id"          # keywords are identifiers to the preprocessor
    return {"TNUMBER": "num", "TSTRINGLIT": "str", "TCHARCONST": "chr"}.get(kn, "p")


def tokens_of(objdir, src, trace=None):
    """token stream of `cproc-qbe -E` through the H1 dump: (status, [{k,s}]); trace: file for the H7 events"""
    rc, out, err = vlib.cproc(objdir, src, args=["-E"], tokdump=True, trace=trace)
    if rc == 1:
        return {"st": "error", "out": [], "err": err.strip()[:200]}
    if rc != 0:
        return {"st": "crash(%d)" % rc, "out": [], "err": err.strip()[:200]}
    toks = [{"k": tok_class(t), "s": t["text"]} for t in vlib.read_tokdump(out)]
    return {"st": "ok", "out": [t for t in toks if t["k"] != "nl"]}


def nosp(s):
    return s.replace(" ", "")


def conf(o, d):
    """observed outcome o is the outcome d (d's string tokens with x false are exact up to white space)"""
    if o["st"] != d["st"]:
        return False
    if d["st"] != "ok":
        return True
    if len(o["out"]) != len(d["out"]):
        return False
    for a, b in zip(o["out"], d["out"]):
        if a["k"] != b["k"]:
            return False
        if b.get("x", True):
            if a["s"] != b["s"]:
                return False
        elif nosp(a["s"]) != nosp(b["s"]):
            return False
    return True


def show(o):
    return o["st"] + ": " + " ".join(t["s"] for t in o["out"])


# ---------------------------------------------------------------- observation in mode C (IL)
def il_of(objdir, src):
    rc, out, err = vlib.cproc(objdir, src)
    if rc == 0:
        return ("il", out)
    if rc == 1:
        # the diagnostic without its location: equal token streams give the same first diagnostic
        return ("error", re.sub(r"^[^\n]*?:\d+:\d+: ", "", err.strip()))
    return ("crash(%d)" % rc, "")


def observe_C(objdir, c, objdir_hooks):
    """returns (matches_permitted, matches_model, observed summary)"""
    src = render(c["prog"])
    got = il_of(objdir, src)

    def same(d):
        if d["st"] == "error":
            if got[0] == "error" and "macro" not in got[1]:
                return None                  # an earlier diagnostic of the parser (ill-formed expanded line) masks the directive
            return got[0] == "error"
        if any(not t.get("x", True) for t in d["out"]):
            return None                      # spelling of a string only known up to white space: not decidable through IL
        ref = il_of(objdir, render_out(d["out"]))
        return ref == got
    if got[0].startswith("crash"):
        # the compiler proper died (assertion/signal).  If the preprocessor alone (-E) behaves as permitted the
        # death is in the parser/typing of an ill-typed line, not a C12 matter: not judged (counted, reported)
        o = tokens_of(objdir_hooks, src)
        if any(conf(o, d) for d in c["per"]):
            return "ccrash", False, {"st": got[0], "out": []}
    res = [same(d) for d in c["per"]]
    inper = True if any(r is True for r in res) else (None if any(r is None for r in res) else False)
    eqm = same(dict(c["model"], out=[dict(t, x=True) for t in c["model"]["out"]]))
    return inper, bool(eqm), {"st": got[0], "out": [], "il_sha": vlib.sha(got[1])[:12]}


# ---------------------------------------------------------------- text round trip of -E
def roundtrip_E(objs, src, o):
    """tokens of the unit == tokens of the text that plain `-E` prints for the unit.  None = holds."""
    rc, text, err = vlib.cproc(objs["plain"], src, args=["-E"])
    if rc != 0:
        return {"why": "plain -E exits %d while the token dump exits 0" % rc}
    o2 = tokens_of(objs["hooks"], text)
    if o2["st"] == o["st"] and [(t["k"], t["s"]) for t in o2["out"]] == [(t["k"], t["s"]) for t in o["out"]]:
        return None
    return {"why": "tokens of the -E text differ from the tokens of the unit", "text": text[:600], "unit": show(o)[:600], "retokenised": show(o2)[:600]}


def roundtrip_C(objs, src):
    """IL of the unit == IL of the text `-E` prints for it (compilable units).  None = holds."""
    rc, text, err = vlib.cproc(objs["plain"], src, args=["-E"])
    if rc != 0:
        return {"why": "-E exits %d on a unit that compiles" % rc}
    a, b = il_of(objs["plain"], src), il_of(objs["plain"], text)
    if a == b:
        return None
    return {"why": "IL of the -E text differs from the IL of the unit", "text": text[:600], "unit": a[0], "of_text": b[0] + " " + b[1][:200]}


# ---------------------------------------------------------------- judging one case
EXCL = "excluded(undefined by 6.10.3p11 / unterminated invocation / '(' lookahead over a directive)"


def observe(objs, c):
    """runs in a worker thread: returns (inper, eqm, observed)"""
    if c["tag"] == "excl":
        return None
    if c["mode"] == "E":
        src = render(c["prog"])
        o = tokens_of(objs["hooks"], src, trace=c.get("_trace"))
        inper = any(conf(o, d) for d in c["per"])
        eqm = conf(o, dict(c["model"], out=[dict(t, x=True) for t in c["model"]["out"]]))
        if o["st"] == "ok":
            o["rt"] = roundtrip_E(objs, src, o)
        return inper, eqm, o
    res = observe_C(objs["plain"], c, objs["hooks"])
    if res[2]["st"] == "il":
        res[2]["rt"] = roundtrip_C(objs, render(c["prog"]))
    return res


def judge(ctx, c, res, stats):
    if res is None:
        stats[EXCL] += 1
        return
    inper, eqm, o = res
    mode = c["mode"]
    src = render(c["prog"])
    if inper is None:
        stats["C:undecidable(string spelling known up to white space only, or an earlier parser diagnostic masks the expected one)"] += 1
        return
    if inper == "ccrash":
        stats["C:compiler proper aborted on the expanded text while -E conforms (not judged)"] += 1
        ctx.cov.setdefault("compiler_aborts_outside_pp", []).append(src) if len(ctx.cov.get("compiler_aborts_outside_pp", [])) < 3 else None
        return
    ctx.count(vlib.sha(mode + src), nontrivial=sum(c["np"]) > 0)
    fired = set(c["fired"])
    if "rt" in o:
        stats["text round trip:" + mode] += 1
        if o["rt"] is not None:
            # attributable to the pasting defect only while TextPaste is a known deviation and the model's text fails too
            if not c.get("textok", True):
                ctx.violation("dev:TextPaste", "-E text pastes tokens that replacement made adjacent", dict(o["rt"], source=src))
                stats["known:TextPaste"] += 1
            else:
                ctx.violation("text:roundtrip:" + mode, o["rt"]["why"], dict(o["rt"], source=src))
                stats["VIOLATION"] += 1
    if inper:
        stats["held:" + mode] += 1
        if c["tag"] == "dev":
            stats["model deviates, binary conforms (%s)" % "+".join(sorted(fired))] += 1
            if not (fired & WILD) and not eqm:
                # PPModel(KnownDevs) predicted a non-permitted outcome that the binary does not show: the transcription
                # (or a deviation disjunct) is inaccurate on this program
                ctx.cov.setdefault("model_inaccurate", []).append({"mode": mode, "source": src, "model": show(c["model"]),
                                                                   "fired": sorted(fired), "observed": show(o)})
        return
    case = {"mode": mode, "source": src, "permitted": [show(d) for d in c["per"]], "observed": (show(o) + " " + o.get("err", "")).strip(),
            "model(KnownDevs)": show(c["model"]), "fired": sorted(fired)}
    wild = fired & WILD
    if wild:
        for n in sorted(wild):
            ctx.violation("dev:" + n, "binary outcome not permitted; PPModel says freed memory is read", case)
        stats["known:" + "+".join(sorted(wild))] += 1
    elif eqm and fired:
        for n in sorted(fired):
            ctx.violation("dev:" + n, "binary = PPModel(KnownDevs) != Expand", case)
        stats["known:" + "+".join(sorted(fired))] += 1
    else:
        ctx.violation("expand:%s:%s" % (mode, "model-agrees-without-deviation" if eqm else "unexplained"),
                      "binary is neither a permitted outcome nor PPModel(KnownDevs)", case)
        stats["VIOLATION"] += 1


# ---------------------------------------------------------------- flow B: H7 events against Trace_PP.tla
def read_events(path):
    try:
        return [l for l in open(path).read().split("\n") if l.strip()]
    except OSError:
        return []


def trace_run(ctx, name, chunks, cfg="MC_Trace_PP.cfg"):
    """chunks: list of (label, [event lines], exited0).  True iff Trace_PP accepts the concatenation."""
    p = ctx.path(name + ".ndjson")
    with open(p, "w") as f:
        for _, evs, ok in chunks:
            for e in evs:
                f.write(e + "\n")
            if ok:
                f.write('{"e":"End"}\n')
            f.write('{"e":"Reset"}\n')
    r = _tlc(ctx, "Trace_PP", cfg, workers=1, env={"TRACE": p}, timeout=2400, heap="4g")
    return r.ok


def flow_b(ctx, objs, traced):
    """traced: list of (label, tracefile, exited0, stale).  Every execution must obey the hide discipline."""
    # the repository's own preprocessor tests
    for t in sorted(os.listdir(os.path.join(vlib.REPO, "test"))):
        if t.startswith("preprocess-") and t.endswith(".c"):
            tp = ctx.path("tr_" + t + ".nd")
            rc, _, _ = vlib.cproc(objs["hooks"], None, args=["-E"], trace=tp, path=os.path.join(vlib.REPO, "test", t))
            traced.append(("test/" + t, tp, rc == 0, False))
    chunks = [(lab, read_events(tp), ok) for lab, tp, ok, stale in traced if not stale]
    stale = [(lab, read_events(tp), ok) for lab, tp, ok, st in traced if st]
    nev = sum(len(c[1]) for c in chunks) + sum(len(c[1]) for c in stale)
    ctx.cov["flowB_executions"] = len(chunks) + len(stale)
    ctx.cov["flowB_events"] = nev
    if stale and not trace_run(ctx, "stale", stale, "MC_Trace_PP_stale.cfg"):
        ctx.violation("trace:discipline-stale", "H7 events rejected by Trace_PP even with the StaleDepth deviation", {"n": len(stale)})
    size = 400
    groups = [chunks[i:i + size] for i in range(0, len(chunks), size)]
    oks = vlib.pmap(lambda ig: trace_run(ctx, "grp%d" % ig[0], ig[1]), list(enumerate(groups)), workers=6)
    for g, ok in zip(groups, oks):
        if ok:
            ctx.validated(len(g))
            continue
        for i, ch in enumerate(g):          # locate the rejected execution(s)
            if not trace_run(ctx, "one%d" % i, [ch]):
                ctx.violation("trace:discipline", "H7 push/pop/args events of a real execution violate the hide discipline (Trace_PP.tla)",
                              {"input": ch[0], "events": ch[1][:60]})
            else:
                ctx.validated(1)
    # the binding is not vacuous: a corrupted pop must be rejected
    probe = [c for c in chunks if sum('"pop"' in e for e in c[1]) >= 2][:1]
    if probe:
        lab, evs, ok = probe[0]
        i = max(j for j, e in enumerate(evs) if '"pop"' in e)
        bad = list(evs)
        bad[i] = re.sub(r'"depth":(\d+)', lambda m: '"depth":%d' % (int(m.group(1)) + 1), bad[i])
        if trace_run(ctx, "corrupt", [(lab, bad, ok)]):
            raise vlib.MachineryError("Trace_PP accepted a corrupted pop event: flow B is vacuous")
        ctx.cov["flowB_negative_control"] = "corrupted pop depth rejected"


# ---------------------------------------------------------------- audit of the spec against gcc cpp
def audit_one(objdir, c):
    src = render(c["prog"])
    p = subprocess.run(["cpp", "-P", "-undef", "-std=c11", "-pedantic-errors", "-"], input=src.encode(), stdout=subprocess.PIPE,
                       stderr=subprocess.PIPE)
    if p.returncode != 0:
        o = {"st": "error", "out": [], "err": p.stderr.decode(errors="replace")[:300]}
    else:
        o = tokens_of(objdir, p.stdout.decode(errors="replace"))
    return any(conf(o, d) for d in c["per"]), o


def audit(ctx, objs, cases, limit):
    # forms the spec marks as extensions (gcc line markers `# 9 "g.c"`) are rejected by -pedantic-errors: not auditable
    det = [c for c in cases if c["tag"] != "excl" and c["mode"] == "E" and not any(l["k"] == "nop" and l["n"] == "ext" for l in c["prog"])]
    if len(det) > limit:
        det = ctx.rng.sample(det, limit)
    res = vlib.pmap(lambda c: audit_one(objs["hooks"], c), det, workers=16)
    bad = [(c, o) for c, (ok, o) in zip(det, res) if not ok]
    ctx.cov["audited_against_gcc_cpp"] = ctx.cov.get("audited_against_gcc_cpp", 0) + len(det)
    if bad:
        c, o = bad[0]
        raise vlib.MachineryError("SPEC-AUDIT: gcc cpp disagrees with Expand on %d of %d cases, e.g.\n%s\ncpp: %s\nspec: %s" % (
            len(bad), len(det), render(c["prog"]), show(o) + o.get("err", ""), [show(d) for d in c["per"]]))


# ---------------------------------------------------------------- TLC runs
import threading
_LOCK = threading.Lock()


def _tlc(ctx, *a, **kw):
    r = vlib.tlc(*a, **kw)
    with _LOCK:
        ctx.cov["states"] += r.distinct
        ctx.cov["transitions"] += r.states
        ctx.tlc_runs.append({"spec": a[0], "cfg": a[1], "rc": r.rc, "generated": r.states, "distinct": r.distinct,
                             "wall_s": round(r.wall, 1), "simulate": kw.get("simulate"), "seed": kw.get("seed")})
    return r


def run_ref(ctx, sp):
    r = _tlc(ctx, "Macro", "MC_Macro_%s.cfg" % sp, workers=3, timeout=2400)
    if not r.ok:
        raise vlib.MachineryError("design check: PPModel (deviations off) does not refine Expand on %s (rc=%s):\n%s" % (sp, r.rc, r.out[-4000:]))
    return r


def run_ref_unused(ctx, sp):
    return ctx.tlc_must_pass("Macro", "MC_Macro_%s.cfg" % sp, workers=3, timeout=2400)


def run_dev(ctx, sp):
    r = _tlc(ctx, "Macro", "MC_Macro_%s_dev.cfg" % sp, workers=3, timeout=2400)
    if not r.ok:
        raise vlib.MachineryError("PPModel(KnownDevs) run on %s failed rc=%s:\n%s" % (sp, r.rc, r.out[-3000:]))
    return [json.loads(v) for v in r.vcases]


def run_hist(ctx):
    # design record for the -E text: with the former rule (TextPaste) Inv_Text must fail on the pair family
    r = _tlc(ctx, "Macro", "MC_Macro_qp_textpaste.cfg", workers=2, timeout=1200)
    if r.rc != 12:
        raise vlib.MachineryError("deviation TextPaste does not violate Inv_Text on space qp (rc=%s): the disjunct is vacuous" % r.rc)
    # design record for the directive-local scanner state: a leaked PPNEWLINE must be a model-level difference
    r = _tlc(ctx, "Macro", "MC_Macro_qn_leak.cfg", workers=2, timeout=1200)
    if r.rc != 12:
        raise vlib.MachineryError("deviation NullDirLeak does not violate Inv_Newline on space qn (rc=%s): ppflags is not modelled" % r.rc)
    r = _tlc(ctx, "Macro", "MC_Macro_sec8_hist.cfg", workers=2, timeout=1200)
    if not r.ok:
        raise vlib.MachineryError("sec8_hist failed rc=%s:\n%s" % (r.rc, r.out[-3000:]))
    return [json.loads(v) for v in r.vcases]


def run_sim(ctx, cfg, seed, num):
    # TLC's simulation workers replay the same random choices, so one worker per process, one seed per process
    r = _tlc(ctx, "Macro", cfg, workers=1, simulate=num, depth=6000, seed=seed, timeout=2400, heap="1g")
    if not r.ok:
        raise vlib.MachineryError("simulation %s seed %d failed rc=%s:\n%s" % (cfg, seed, r.rc, r.out[-3000:]))
    return [json.loads(v) for v in r.vcases]


def get_objs():
    """builds are cached by vlib and evicted by age: (re)acquire them right before use and refresh their age"""
    objs = {"hooks": vlib.build("hooks"), "plain": vlib.build("plain")}
    for d in objs.values():
        try:
            os.utime(os.path.join(d, ".ok"))
        except OSError:
            pass
    return objs


def run(ctx):
    plan = QUICK if ctx.quick else THOROUGH
    get_objs()                       # fail early if the tree does not build
    ctx.cov["rule"] = ("BFS: every program of the spaces %s of Macro.tla (1-3 macro definitions with bodies over macro names, parameters, "
                       "'#param', parentheses, commas, literals x every source of bounded length incl. newlines and a directive "
                       "between text lines; #define/#undef histories of length<=3). Simulation: random programs of <=12 macros, 0-4 "
                       "parameters, variadic, '#', nested invocations split across lines, #undef/#define histories (mode E: free token "
                       "sequences, mode C: lines `int chkN = <constant expression>;`). One evaluation = one (program, mode) run through "
                       "the real cproc-qbe and compared with TLC's permitted outcomes; non-trivial = at least one macro expanded."
                       % plan["dev"])
    # design level: deviations off => refinement of the declarative definition
    jobs = [("hist", "sec8")] + [("ref", sp) for sp in plan["ref"]] + [("dev", sp) for sp in plan["dev"]]
    nE, numE = plan["simE"]
    nC, numC = plan["simC"]
    jobs += [("simE", ctx.seed * 1000 + i) for i in range(nE)] + [("simC", ctx.seed * 1000 + 500 + i) for i in range(nC)]

    def do(job):
        kind, arg = job
        if kind == "ref":
            run_ref(ctx, arg)
            return []
        if kind == "hist":
            return run_hist(ctx)
        if kind == "dev":
            return run_dev(ctx, arg)
        if kind == "simE":
            return run_sim(ctx, "MC_Macro_sim.cfg", arg, numE)
        return run_sim(ctx, "MC_Macro_simC.cfg", arg, numC)
    jobs.sort(key=lambda j: {"hist": 0, "ref": 0, "dev": 0, "simC": 1, "simE": 2}[j[0]])   # long jobs first
    results = vlib.pmap(do, jobs, workers=6)
    bfs_cases, sim_cases, hist_cases = [], [], []
    for (kind, arg), cs in zip(jobs, results):
        (hist_cases if kind == "hist" else bfs_cases if kind == "dev" else sim_cases).extend(cs)
    # design-level evidence: each defect of DESIGN.md section 8 (and each later one, repaired or not) is exhibited by
    # the model itself when its deviation disjunct is switched on (config sec8_hist: all disjuncts, documented inputs)
    cex = {}
    for c in hist_cases + bfs_cases:
        if c["tag"] == "dev" and len(c["fired"]) == 1 and c["fired"][0] not in cex:
            cex[c["fired"][0]] = {"source": render(c["prog"]), "PPModel": show(c["model"]), "permitted": [show(d) for d in c["per"]]}
    ctx.cov["design_counterexamples(PPModel with one deviation vs Expand)"] = cex
    missing = [d for d in SECTION8 if d not in cex]
    if missing:
        raise vlib.MachineryError("deviation disjunct(s) %s never change the model's outcome on the BFS spaces" % missing)
    # vacuity guard: every action of PPModel is taken by the emitted behaviours
    taken = set()
    for c in bfs_cases + sim_cases:
        taken |= set(c.get("acts", []))
    ctx.cov["actions_taken"] = sorted(taken)
    need = {"NextFetch", "NextAfter", "ExpandLookup", "ExpandPeek", "ExpandPush", "FuncStart", "FuncTok", "FuncAft", "FuncEndArg", "FuncFinish"}
    if need - taken:
        raise vlib.MachineryError("vacuity guard: PPModel actions never taken: %s" % sorted(need - taken))
    # flow A: replay
    objs = get_objs()
    seen = set()
    allc = []
    for c in bfs_cases + sim_cases:
        k = vlib.sha(c["mode"] + render(c["prog"]))
        if k not in seen:
            seen.add(k)
            allc.append(c)
    stats = collections.Counter()
    for i, c in enumerate(allc):
        if c["mode"] == "E" and c["tag"] != "excl":
            c["_trace"] = ctx.path("tr%d.nd" % i)
    results = vlib.pmap(lambda c: observe(objs, c), allc, workers=16)
    traced = []
    for c, res in zip(allc, results):
        judge(ctx, c, res, stats)
        if "_trace" in c and res is not None and not res[2]["st"].startswith("crash"):
            traced.append((render(c["prog"]), c["_trace"], res[2]["st"] == "ok", "StaleDepth" in c["fired"]))
    flow_b(ctx, objs, traced)
    ctx.validated(len(allc) - stats[EXCL])
    ctx.cov["outcomes"] = dict(sorted(stats.items()))
    ctx.cov["cases_from_bfs"] = len(bfs_cases)
    ctx.cov["cases_from_simulation"] = len(sim_cases)
    for c in allc[:: max(1, len(allc) // 5)][:5]:
        if c["tag"] != "excl":
            ctx.sample({"mode": c["mode"], "source": render(c["prog"]), "permitted": [show(d) for d in c["per"]]})
    bad = ctx.cov.get("model_inaccurate", [])
    if os.environ.get("C12_DUMP"):
        json.dump(bad, open(os.environ["C12_DUMP"], "w"), indent=1)
    ctx.cov["model_inaccurate_count"] = len(bad)
    ctx.cov["model_inaccurate"] = bad[:5]
    if any(not b["fired"] for b in bad):
        raise vlib.MachineryError("PPModel differs from Expand without a named deviation and the binary conforms: transcription error\n%s"
                                  % json.dumps([b for b in bad if not b["fired"]][:2], indent=1))
    # audit of the declarative half against gcc
    audit(ctx, objs, allc, plan["audit"])


def replay(ctx, path):
    rec = json.load(open(path))
    case = rec["case"]
    objs = {"hooks": vlib.build("hooks"), "plain": vlib.build("plain")}
    print("source:\n" + case["source"])
    print("permitted :", case["permitted"])
    print("PPModel   :", case["model(KnownDevs)"], "fired", case["fired"])
    if case["mode"] == "E":
        print("observed  :", show(tokens_of(objs["hooks"], case["source"])))
    else:
        print("observed  :", il_of(objs["plain"], case["source"])[0])
    return 0
