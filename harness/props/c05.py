"""C05 - every expression is given the type C11 assigns it; compatibility judgements agree with 6.2.7.

Oracle: spec/CTypes.tla (declarative C11 typing for the three LP64 targets) and spec/TypeModel.tla
(transcription of type.c / expr.c).  TLC (CTypesMC, CTypesCompatMC, CTypesExprGen) checks that the
repaired model refines the declarative rules and prints every enumerated case as a VCASE line with the
type C11 requires (`exp`), the type the model of the shipped code yields (`mod`) and the deviations
that fire.  This file only renders the cases to C probes whose answer is *data* in the emitted IL
(`int g = _Generic((E), T1:1, ...)`, sizeof, __builtin_types_compatible_p, pointer initialisation,
redeclaration), runs cproc-qbe, decodes with ilparse and compares with the observations TLC printed
for `exp`.  gcc (host) and clang --target (3 targets) audit the spec on the same probes through
_Static_assert; a disagreement there is a MachineryError, never a VIOLATION.
Flow B: H3 events of the hooks build on /repo/test/*.c validated by Trace_Types.tla.
"""
import collections, json, os, re, subprocess
import vlib, ilparse

CLANG_T = {"x86_64-sysv": "x86_64-linux-gnu", "aarch64": "aarch64-linux-gnu", "riscv64": "riscv64-linux-gnu"}

# ---- C spelling of the spec's type names (syntax only) ---------------------------------------------
SPELL = {"bool": "_Bool", "char": "char", "schar": "signed char", "uchar": "unsigned char", "short": "short",
         "ushort": "unsigned short", "int": "int", "uint": "unsigned", "long": "long", "ulong": "unsigned long",
         "llong": "long long", "ullong": "unsigned long long", "float": "float", "double": "double",
         "ldouble": "long double", "void": "void"}
# realisations of CTypes.EnumTags; that each has the compatible type CTypes.EnumBase says is itself probed/audited
ENUM_DEF = {
    "eu": "enum eu { EU_A, EU_B };", "eu2": "enum eu2 { EU2_A, EU2_B };",
    "es": "enum es { ES_A = -1, ES_B };", "es2": "enum es2 { ES2_A = -1, ES2_B };",
    "eul": "enum eul { EUL_A, EUL_B = 0x100000000 };", "eul2": "enum eul2 { EUL2_A, EUL2_B = 0x100000000 };",
    "el": "enum el { EL_A = -1, EL_B = 0x100000000 };",
    "efs": "enum efs : short { EFS_A = 0 };", "efuc": "enum efuc : unsigned char { EFUC_A = 0 };",
}
FIXED_ENUMS = ("efs", "efuc")


def spell(name):
    """C type name for a scalar type name of the spec ('uint', 'enum eu'); enums through their typedef."""
    if name.startswith("enum "):
        return "T_" + name[5:]
    return SPELL[name]


def ident(name):
    return name[5:] if name.startswith("enum ") else name


def operand(side, name, w):
    return "%s_%s" % (side, ident(name)) if not w else "s%s.%s_%d" % (side, ident(name), w)


class Prelude:
    """Declarations shared by all probes of a translation unit."""

    def __init__(self, table, fixed=True):
        self.table = table
        self.fixed = fixed
        self.bf = set()

    def text(self):
        L = []
        tags = sorted(self.table["enumbase"])
        for e in tags:
            if e in FIXED_ENUMS and not self.fixed:
                continue
            L.append(ENUM_DEF[e])
            L.append("typedef enum %s T_%s;" % (e, e))
        names = list(self.table["g1"]) + ["enum " + e for e in tags if self.fixed or e not in FIXED_ENUMS]
        for n in names:
            L.append("extern %s a_%s, b_%s;" % (spell(n), ident(n), ident(n)))
        L.append("extern int x_c;")
        mem = []
        for (n, w) in sorted(self.bf):
            if n.startswith("enum ") and n[5:] in FIXED_ENUMS and not self.fixed:
                continue
            mem.append("%s %s_%d:%d;" % (spell(n), ident(n), w, w))
        if mem:
            L.append("struct BFS { %s };" % " ".join(mem))
            L.append("extern struct BFS sa, sb;")
        return "\n".join(L) + "\n"


def uses_fixed(c):
    s = json.dumps(c)
    return any(("enum " + e) in s for e in FIXED_ENUMS)


# ---- probes ---------------------------------------------------------------------------------------------
class Probe:
    __slots__ = ("pid", "kind", "ctype", "expr", "want", "alt", "case", "etext", "may_reject")

    def __init__(self, pid, kind, ctype, expr, want, alt, case, etext, may_reject=False):
        self.pid, self.kind, self.ctype, self.expr, self.want, self.alt, self.case, self.etext = pid, kind, ctype, expr, want, alt, case, etext
        self.may_reject = may_reject

    def cproc_line(self, g2=""):
        if self.kind == "p":
            return self.expr.replace("@NAME@", "p%d" % self.pid)
        return "%s v%d = %s;" % (self.ctype, self.pid, self.expr.replace("@G2@", g2))

    def audit_line(self, g2=""):
        if self.kind == "p":
            return self.expr.replace("@NAME@", "p%d" % self.pid)
        return "_Static_assert((%s) == %d, \"v%d\");" % (self.expr.replace("@G2@", g2), self.want, self.pid)


class ProbeSet:
    def __init__(self, table):
        self.table = table
        self.obs = {o["name"]: o for o in table["obs"]}
        self.g1 = ", ".join("%s:%d" % (SPELL[n], i + 1) for i, n in enumerate(table["g1"]))
        self.probes = []
        self.exprs = 0

    def g2(self, fixed):
        return ", ".join("T_%s:%d" % (e, i + 1) for i, e in enumerate(self.table["g2"]) if fixed or e not in FIXED_ENUMS)

    def add_expr(self, case, etext, enums=False, deep=False, szrej=False, size=True):
        """All observations of the type of expression `etext` whose required type is case['exp']."""
        exp, mod = self.obs[case["exp"]], self.obs.get(case["mod"])
        self.exprs += 1

        def add(kind, ctype, expr, want, alt):
            self.probes.append(Probe(len(self.probes), kind, ctype, expr, want, alt, case, etext))
        add("g", "int", "_Generic((%s), %s, default:0)" % (etext, self.g1), exp["g1"], mod and mod["g1"])
        if size:
            add("z", "unsigned long", "sizeof(%s)" % etext, exp["size"], mod and mod["size"])
            self.probes[-1].may_reject = szrej      # model: shipped code refuses this operand (deviation SizeofSeesBitfield)
        if enums:
            add("h", "int", "_Generic((%s), @G2@, default:0)" % etext, exp["g2"], mod and mod["g2"])
            # one probe for all twin enums: sum of 2^i * compatible(typeof(E), twin_i)
            wexpr = " + ".join("%d * __builtin_types_compatible_p(__typeof__(%s), T_%s)" % (1 << i, etext, tw)
                               for i, tw in enumerate(self.table["twins"]))
            enc = lambda o: sum((1 << i) * int(b) for i, b in enumerate(o["tw"]))
            add("w", "int", wexpr, enc(exp), mod and enc(mod))
        if deep and case["exp"] == case["mod"]:
            add("c", "int", "__builtin_types_compatible_p(__typeof__(%s), %s)" % (etext, spell(case["exp"])), 1, 1)
            for n in exp["near"]:
                add("n", "int", "__builtin_types_compatible_p(__typeof__(%s), %s)" % (etext, SPELL[n]), 0, 0)
            add("p", None, "__typeof__(%s) *@NAME@ = (%s *)0;" % (etext, spell(case["exp"])), 0, 0)


def parse_data_values(il):
    """name -> little-endian integer value of every data definition of the module."""
    m = ilparse.parse(il)
    out = {}
    for d in m["data"]:
        b, rel = ilparse.data_image(d)
        out[d["name"]] = int.from_bytes(bytes(b), "little")
    return out


_ERRLINE = re.compile(r"^<stdin>:(\d+):\d+: error: (.*)$", re.M)


def run_cproc_tu(objdir, targ, prelude, probes, g2=""):
    """Compile one TU of probes; returns ({pid: value}, {pid: error message}).  A probe cproc rejects is
    recorded and removed, the rest is retried (the required outcome of every rendered probe is acceptance)."""
    npre = prelude.count("\n")
    live = list(probes)
    rejected = {}
    for _ in range(400):
        src = prelude + "\n".join(p.cproc_line(g2) for p in live) + "\n"
        rc, out, err = vlib.cproc(objdir, src, targ, timeout=120)
        if rc == 0:
            try:
                vals = parse_data_values(out)
            except ilparse.ILSyntaxError as ex:
                raise vlib.MachineryError("IL of a probe TU does not parse: %s" % ex)
            got = {}
            for p in live:
                nm = ("p%d" if p.kind == "p" else "v%d") % p.pid
                if nm in vals:
                    got[p.pid] = vals[nm]
                else:
                    rejected[p.pid] = "no data emitted"
            return got, rejected
        m = _ERRLINE.search(err)
        if rc < 0 or not m:
            # crash / assertion: bisect by halves is overkill here; attribute to the TU
            if len(live) == 1:
                rejected[live[0].pid] = "rc=%d %s" % (rc, err.strip()[-200:])
                return {}, rejected
            h = len(live) // 2
            g1, r1 = run_cproc_tu(objdir, targ, prelude, live[:h], g2)
            gb, r2 = run_cproc_tu(objdir, targ, prelude, live[h:], g2)
            g1.update(gb)
            rejected.update(r1)
            rejected.update(r2)
            return g1, rejected
        idx = int(m.group(1)) - npre - 1
        if not (0 <= idx < len(live)):
            raise vlib.MachineryError("cproc rejects the probe prelude for %s: %s" % (targ, err.strip()[:300]))
        rejected[live[idx].pid] = m.group(2)
        del live[idx]
    # an implementation that refuses this many valid probes is reported through the ones found so far; the
    # remaining probes of the TU count as refused with the last message (they were never observed)
    for p in live:
        rejected.setdefault(p.pid, "not observed: more than 400 probes of this translation unit were refused")
    return {}, rejected


def audit_tu(compiler, targ, prelude, probes, workdir, tag, g2=""):
    """Returns list of (probe, message) the reference compiler disagrees with."""
    npre = prelude.count("\n")
    src = prelude + "\n".join(p.audit_line(g2) for p in probes) + "\n"
    path = os.path.join(workdir, "audit_%s.c" % tag)
    with open(path, "w") as f:
        f.write(src)
    if compiler == "gcc":
        cmd = ["gcc", "-std=gnu2x", "-fsyntax-only", "-w", "-Werror=incompatible-pointer-types", "-Werror=discarded-qualifiers",
               "-fmax-errors=0", path]
    else:
        cmd = ["clang", "--target=" + CLANG_T[targ], "-std=gnu2x", "-fsyntax-only", "-w", "-Werror=incompatible-pointer-types",
               "-Werror=incompatible-pointer-types-discards-qualifiers", "-ferror-limit=0", path]
    p = subprocess.run(cmd, stdout=subprocess.PIPE, stderr=subprocess.PIPE, text=True, timeout=600)
    os.unlink(path)
    bad = []
    if p.returncode != 0:
        seen = set()
        for m in re.finditer(r"^[^\n:]+:(\d+):\d+: error: ([^\n]*)", p.stderr, re.M):
            idx = int(m.group(1)) - npre - 1
            if idx in seen:
                continue
            seen.add(idx)
            if not (0 <= idx < len(probes)):
                raise vlib.MachineryError("%s rejects the prelude (%s): %s" % (compiler, targ, p.stderr[:400]))
            bad.append((probes[idx], m.group(2)))
        if not bad:
            raise vlib.MachineryError("%s failed without a located error: %s" % (compiler, p.stderr[:400]))
    return bad


# ---- rendering of the scalar cases ----------------------------------------------------------------------
SUFFIX_SPELL = {"": [""], "u": ["u", "U"], "l": ["l", "L"], "ul": ["ul", "UL", "lu", "Lu", "uL"], "ll": ["ll", "LL"],
                "ull": ["ull", "ULL", "llu", "LLU", "Ull"]}
FLT_SPELL = {"": ["1.0", "1.", ".5", "1e2", "0x1p3", "0x.8p1"], "f": ["1.0f", "1e2F", "0x1p3f"], "l": ["1.0l", ".5L", "0x1p3L"]}


def lit_texts(c):
    vals = [0] if c["nbits"] == 0 else sorted({1 << (c["nbits"] - 1), (1 << c["nbits"]) - 1})
    out = []
    for v in vals:
        body = {"dec": "%d" % v, "oct": "0%o" % v, "hex": "0x%x" % v, "bin": "0b" + bin(v)[2:]}[c["base"]]
        if c["base"] == "dec" and v == 0:
            continue          # "0" is an octal constant
        for s in SUFFIX_SPELL[c["suffix"]]:
            out.append(body + s)
        if c["base"] == "hex":
            out.append("0X%X" % v + SUFFIX_SPELL[c["suffix"]][-1])
    return out


def cond_text(cv):
    """C text of a controlling expression of CTypes.CondControls ("x" = the non-constant object x_c)"""
    return "x_c" if cv == "x" else cv


def expr_texts(c):
    f = c["form"]
    if f == "bin":
        a, b = operand("a", c["a"], c["aw"]), operand("b", c["b"], c["bw"])
        return ["%s %s %s" % (a, op, b) for op in c["ops"]]
    if f == "cond":
        a, b = operand("a", c["a"], c["aw"]), operand("b", c["b"], c["bw"])
        return ["%s ? %s : %s" % (cond_text(c["cv"]), a, b)]
    if f == "un":
        a = operand("a", c["a"], c["aw"])
        op = c["ops"][0]
        return ["sizeof %s" % a, "sizeof(%s)" % a] if op == "sizeof" else ["%s%s" % (op, a)]
    if f == "lit":
        return lit_texts(c)
    if f == "flt":
        return FLT_SPELL[c["suffix"]]
    if f == "chr":
        return [c["prefix"] + "'a'", c["prefix"] + "'\\0'"]
    raise vlib.MachineryError("unknown form " + f)


def case_key(c):
    k = [c["form"], c["site"]]
    for fld in ("a", "aw", "b", "bw", "cv", "base", "suffix", "nbits", "prefix"):
        if fld in c:
            k.append("%s" % (c[fld],))
    return ":".join(k)


def judge(ctx, ps, got, rejected, targ, pretext="", g2=""):
    """Compare cproc's observations with the spec's, per expression."""
    byexpr = collections.OrderedDict()
    for p in ps:
        byexpr.setdefault((id(p.case), p.etext), []).append(p)
    for (_, etext), plist in byexpr.items():
        c = plist[0].case
        ctx.count(targ + "|" + etext, nontrivial=True)
        rp = {"target": targ, "prelude": pretext, "lines": [p.cproc_line(g2) for p in plist], "want": [p.want for p in plist]}
        rej = [(p, rejected[p.pid]) for p in plist if p.pid in rejected]
        if rej and all(p.may_reject and "bitfield" in msg for p, msg in rej):
            ctx.violation("dev:SizeofSeesBitfield:%s" % c["site"], "cproc rejects `sizeof(%s)`: %s" % (etext, rej[0][1]),
                          {"target": targ, "expr": etext, "case": c, "error": rej[0][1], "replay": rp})
            plist = [p for p in plist if p.pid not in rejected]
        elif rej:
            ctx.violation("reject:%s:%s:%s" % (c["site"], "+".join(c["ops"]), re.sub(r"[^a-z]+", "-", rej[0][1].lower())[:40]),
                          "cproc rejects a valid expression: %s (%s)" % (rej[0][0].cproc_line("G2"), rej[0][1]),
                          {"target": targ, "expr": etext, "case": c, "error": rej[0][1], "replay": rp})
            continue
        obs = {(p.kind, p.expr): got[p.pid] for p in plist}
        if all(got[p.pid] == p.want for p in plist):
            continue
        attributable = [p for p in plist if p.alt is not None]
        if c["devs"] and attributable and all(got[p.pid] == p.alt for p in attributable):
            ctx.violation("dev:%s:%s" % ("+".join(sorted(c["devs"])), c["site"]),
                          "type of `%s` is %s, C11 requires %s" % (etext, c["mod"], c["exp"]),
                          {"target": targ, "expr": etext, "case": c, "replay": rp})
            continue
        wrong = [p for p in plist if got[p.pid] != p.want][0]
        ctx.violation("type:%s:%s:%s" % (c["site"], "+".join(c["ops"]), case_key(c)),
                      "type of `%s` on %s: probe %s = %d, C11 (%s) requires %d" % (etext, targ, wrong.expr, got[wrong.pid], c["exp"], wrong.want),
                      {"target": targ, "expr": etext, "case": c, "observed": {k[1]: v for k, v in obs.items()}, "replay": rp})


def chunks(lst, n):
    for i in range(0, len(lst), n):
        yield lst[i:i + n]


def replay_and_audit(ctx, table, cases, objdir, label, audit_targets, per_tu=6000, slice_cases=30000):
    """Render `cases` and run cproc + the reference compilers.  Work is done target by target (x86_64 first: it gets the
    full gcc + clang audit) and in slices of cases, so that memory stays bounded in the thorough tier; within a slice
    the audit always precedes the judgement of the implementation."""
    bytarg = collections.defaultdict(list)
    for c in cases:
        bytarg[c["targ"]].append(c)
    stats = collections.Counter()
    order = [t for t in ("x86_64-sysv", "aarch64", "riscv64") if t in bytarg]
    for targ in order:
        cl = []
        for c in bytarg[targ]:
            if not c["certain"]:
                stats["excluded_uncertain"] += 1
                continue
            # quick tier: every case on x86_64; on the other two targets every case that mentions a target-dependent
            # type or is not a binary/conditional case, and a third of the rest (thorough: everything everywhere)
            if ctx.quick and targ != "x86_64-sysv" and c["form"] in ("bin", "cond") and "char" not in (c["a"], c["b"]) \
                    and int(vlib.sha(case_key(c))[:4], 16) % 3 != 0:
                stats["quick_not_replayed_on_" + targ] += 1
                continue
            cl.append(c)
        for sl in chunks(cl, slice_cases):
            _replay_slice(ctx, table, sl, objdir, targ, targ in audit_targets, per_tu, stats)
    ctx.cov.setdefault("stats", {})[label] = dict(stats)
    return stats


def _replay_slice(ctx, table, cl, objdir, targ, audit, per_tu, stats):
    ps = ProbeSet(table)
    pre_all, pre_nofixed = Prelude(table, True), Prelude(table, False)
    for c in cl:
        for fld_t, fld_w in (("a", "aw"), ("b", "bw")):
            if c.get(fld_w):
                pre_all.bf.add((c[fld_t], c[fld_w]))
                pre_nofixed.bf.add((c[fld_t], c[fld_w]))
        enums = "enum " in json.dumps(c)
        h = int(vlib.sha(case_key(c))[:4], 16)
        # compat / near-miss / pointer-init probes: all small families, 1/16 of binary, 1/4 of conditional cases
        deep = h % 16 == 0 if c["form"] == "bin" else h % 4 == 0 if c["form"] == "cond" else True
        size = c["form"] != "bin" or h % 4 == 0 or not ctx.quick
        for i, e in enumerate(expr_texts(c)):
            ps.add_expr(c, e, enums=enums, deep=deep, szrej=c["szrej"][min(i, len(c["szrej"]) - 1)], size=size)
    stats["exprs"] += ps.exprs
    stats["probes"] += len(ps.probes)
    pretext, pretext_nf = pre_all.text(), pre_nofixed.text()

    def work(job):
        kind, plist = job
        if kind == "cproc":
            return kind, plist, run_cproc_tu(objdir, targ, pretext, plist, ps.g2(True))
        # gcc 12 has no enums with fixed underlying type: its G2 list ends before them (indices unchanged)
        return kind, plist, audit_tu(kind, targ, pretext if kind != "gcc" else pretext_nf, plist, ctx.scratch,
                                     "%s_%s_%d" % (kind, targ, id(plist)), ps.g2(kind != "gcc"))

    # probes the model of the shipped code expects to be refused (deviation SizeofSeesBitfield) go into small translation
    # units of their own: cproc stops at the first error, so every refusal costs one more run of its unit
    work_items = [("cproc", ch) for ch in chunks([p for p in ps.probes if not p.may_reject], per_tu)]
    work_items += [("cproc", ch) for ch in chunks([p for p in ps.probes if p.may_reject], 50)]
    if audit:
        # the spec is audited in full on x86_64 (gcc and clang); on the other targets in full in the thorough
        # tier and on every case that mentions a target-dependent type plus a 1/8 sample in the quick tier
        def audited(p):
            if targ == "x86_64-sysv" or not ctx.quick:
                return True
            cc = p.case
            return cc["form"] in ("chr", "lit", "flt", "un") or "char" in (cc.get("a"), cc.get("b")) or int(vlib.sha(case_key(cc))[:4], 16) % 8 == 1
        work_items += [("clang", ch) for ch in chunks([p for p in ps.probes if audited(p)], per_tu)]
        if targ == "x86_64-sysv":
            work_items += [("gcc", ch) for ch in chunks([p for p in ps.probes if not uses_fixed(p.case)], per_tu)]
    audit_bad, tojudge = [], []
    for kind, plist, res in vlib.pmap(work, work_items, workers=12):
        if kind == "cproc":
            tojudge.append((plist, res))
            stats["cproc_probes"] += len(plist)
        else:
            stats["audit_%s_probes" % kind] += len(plist)
            for p, msg in res:
                if audit_exception(kind, p):
                    stats["audit_%s_exceptions" % kind] += 1
                    continue
                audit_bad.append((kind, p, msg))
    if audit_bad:
        kind, p, msg = audit_bad[0]
        raise vlib.MachineryError("SPEC-AUDIT: %d probes where %s disagrees with CTypes, first: %s target %s `%s` (spec: %s) case %s: %s" % (
            len(audit_bad), kind, kind, targ, p.audit_line("G2"), p.case["exp"], json.dumps(p.case), msg))
    for plist, (got, rejected) in tojudge:
        judge(ctx, plist, got, rejected, targ, pretext, ps.g2(True))


def audit_exception(compiler, p):
    """Case classes on which a reference compiler is known not to implement the convention CTypes models
    (each with the clause that makes the spec's choice legitimate).  Kept as narrow as possible."""
    c = p.case
    if compiler == "gcc" and c.get("ibf"):
        # 6.7.2.1p5: bit-fields of types other than _Bool/int/unsigned are implementation-defined; gcc gives a
        # bit-field wider than int its own type `long:33` (pre-standard DR 315 reading) which matches no _Generic
        # association; clang and cproc use the declared type.  clang audits these cases.
        return max(c.get("aw", 0), c.get("bw", 0)) > 32
    if compiler == "clang" and c["form"] == "chr" and c.get("prefix") == "u8":
        return True       # clang 14 has no u8 character constants (C23 6.4.4.5); gcc audits them
    return False


# ---- part 1: arithmetic operands, exhaustive ----------------------------------------------------------------
def scalar(ctx, objdir, replay=True):
    cfg = "MC_CTypes_quick.cfg" if ctx.quick else "MC_CTypes_thorough.cfg"
    r = ctx.tlc_must_pass("CTypesMC", cfg, workers=8 if ctx.quick else 12, timeout=1500, heap="3g")
    cases = [json.loads(v) for v in r.vcases]
    table = [c for c in cases if c["form"] == "table"]
    if len(table) != 1:
        raise vlib.MachineryError("expected exactly one table VCASE")
    table = table[0]
    cases = [c for c in cases if c["form"] != "table"]
    # vacuity: every return statement of typecommonreal and every code site is exercised by the enumeration
    brs = collections.Counter(c["br"] for c in cases)
    sites = collections.Counter(c["site"] for c in cases)
    need_br = {"ldouble", "double", "float", "same", "samesign", "urank", "ssize", "ullong", "int", "promote"}
    need_sites = {g["g"] for g in table["groups"]} | {"cond", "unary", "inttype", "fltlit", "charconst"}
    if not need_br <= set(brs) or not need_sites <= set(sites):
        raise vlib.MachineryError("vacuity: branches/sites not enumerated: %s %s" % (need_br - set(brs), need_sites - set(sites)))
    ctx.cov["typecommonreal_branches"] = dict(brs)
    ctx.cov["sites"] = dict(sites)
    if not replay:
        return table, cases
    st = replay_and_audit(ctx, table, cases, objdir, "scalar", audit_targets=set(vlib.TARGETS))
    ctx.validated(len(cases))
    enum_probe(ctx, table, objdir)
    near_miss_rejects(ctx, table, cases, objdir)
    for c in cases[:: max(1, len(cases) // 4)][:4]:
        ctx.sample({"case": c, "rendered": expr_texts(c)[0]})
    return table, cases


def near_miss_rejects(ctx, table, cases, objdir):
    """`__typeof__(E) *p = (N *)0;` with N a same-size type that CTypes says is NOT compatible with the type of E must be
    refused (6.5.16.1p1): one compiler run per probe, a sample of the enumerated cases (all result types x near misses)."""
    obs = {o["name"]: o for o in table["obs"]}
    todo, seen = [], set()
    for c in cases:
        if not c["certain"] or c["exp"] != c["mod"] or c["exp"] not in obs or c["targ"] != "x86_64-sysv":
            continue
        h = int(vlib.sha(case_key(c))[:6], 16)
        for n in obs[c["exp"]]["near"]:
            k = (c["site"], c["exp"], n, h % 3)
            if k in seen:
                continue
            seen.add(k)
            pre = Prelude(table, True)
            for fld_t, fld_w in (("a", "aw"), ("b", "bw")):
                if c.get(fld_w):
                    pre.bf.add((c[fld_t], c[fld_w]))
            texts = expr_texts(c)
            if not texts:
                continue         # e.g. the decimal constant of value 0 does not exist ("0" is octal)
            e = texts[0]
            todo.append((c, e, n, pre.text() + "__typeof__(%s) *p = (%s *)0;\n" % (e, SPELL[n])))

    def one(t):
        rc, out, err = vlib.cproc(objdir, t[3], "x86_64-sysv", timeout=30)
        return t, rc, err
    for (c, e, n, src), rc, err in vlib.pmap(one, todo, workers=12):
        ctx.count("nearmiss|%s|%s" % (e, n))
        if rc == 1 and "error:" in err:
            continue
        ctx.violation("nearmiss:%s:%s:%s" % (c["site"], c["exp"], n),
                      "cproc accepts `__typeof__(%s) *p = (%s *)0;` although the type of the expression is %s" % (e, SPELL[n], c["exp"]),
                      {"target": "x86_64-sysv", "expr": e, "case": c, "rc": rc, "replay": {"source": src, "must": "reject"}})
    ctx.cov.setdefault("stats", {})["near_miss_rejects"] = len(todo)


def enum_probe(ctx, table, objdir):
    """decl.c tagspec: the compatible integer type chosen for each enum flavour is CTypes.EnumBase."""
    pre = Prelude(table, True).text()
    lines, want = [], {}
    for e, base in sorted(table["enumbase"].items()):
        for k in table["g1"]:
            nm = "eb_%s_%s" % (e, k)
            lines.append("int %s = __builtin_types_compatible_p(enum %s, %s);" % (nm, e, SPELL[k]))
            want[nm] = int(k == base)
        lines.append("unsigned long ez_%s = sizeof(enum %s);" % (e, e))
    src = pre + "\n".join(lines) + "\n"
    # a generic association that names an enumerated type by its tag (all other probes go through typedef names)
    obs = {o["name"]: o for o in table["obs"]}
    tagged = ", ".join("enum %s:%d" % (e, i + 1) for i, e in enumerate(table["g2"]) if e not in FIXED_ENUMS)
    for targ in vlib.TARGETS:
        # C23 6.7.2.2 fixed underlying type, first enumerator without a value (fixed by /repo 43138e2; the prelude
        # itself keeps `= 0` so that a regression shows up here as a VIOLATION and not as a rejected prelude)
        fsrc = "enum fe : unsigned char { FE_A, FE_B }; int fe_b = FE_B; unsigned long fe_z = sizeof(enum fe);\n"
        rc, out, err = vlib.cproc(objdir, fsrc, targ)
        ctx.count("enum-fixed-first|%s" % targ)
        if rc != 0 or parse_data_values(out).get("fe_b") != 1 or parse_data_values(out).get("fe_z") != obs["uchar"]["size"]:
            ctx.violation("enum:fixed-unsigned-first-enumerator", "`%s` -> rc=%s %s" % (fsrc.strip(), rc, err.strip()[:120]),
                          {"target": targ, "replay": {"target": targ, "source": fsrc, "must": "accept"}})
        for k in ("uint", "int", "long"):
            gsrc = pre + "int gt = _Generic((a_%s), %s, default:0);\n" % (k, tagged)
            rc, out, err = vlib.cproc(objdir, gsrc, targ)
            ctx.count("generic-enum-tag|%s|%s" % (targ, k))
            if rc != 0:
                ctx.violation("generic:enum-tag-association:rejected", "cproc rejects `_Generic((a_%s), %s, default:0)`: %s" % (k, tagged, err.strip()[:120]),
                              {"target": targ, "source": gsrc})
            elif parse_data_values(out).get("gt") != obs[k]["g2"]:
                ctx.violation("generic:enum-tag-association:value", "generic selection over enum tags = %s, required %s" % (parse_data_values(out).get("gt"), obs[k]["g2"]),
                              {"target": targ, "source": gsrc})
        p = subprocess.run(["clang", "--target=" + CLANG_T[targ], "-std=gnu2x", "-fsyntax-only", "-w", "-x", "c", "-"],
                           input=pre + "".join("_Static_assert(_Generic((a_%s), %s, default:0) == %d, \"\");\n" % (k, tagged, obs[k]["g2"]) for k in ("uint", "int", "long")),
                           stderr=subprocess.PIPE, text=True)
        if p.returncode != 0:
            raise vlib.MachineryError("SPEC-AUDIT: clang disagrees on the tagged generic selection: %s" % p.stderr[:300])
    for targ in vlib.TARGETS:
        rc, out, err = vlib.cproc(objdir, src, targ)
        if rc != 0:
            ctx.violation("reject:enumdef", "cproc rejects the enum flavours: %s" % err.strip()[:200], {"target": targ})
            continue
        vals = parse_data_values(out)
        for nm, w in want.items():
            ctx.count("enumbase|%s|%s" % (targ, nm))
            if vals.get(nm) != w:
                ctx.violation("enumbase:%s" % nm, "enum compatible type: %s = %s, spec %d" % (nm, vals.get(nm), w), {"target": targ, "probe": nm})
        asserts = "\n".join("_Static_assert(%s == %d, \"%s\");" % (l.split(" = ", 1)[1].rstrip(";"), want[l.split()[1]], l.split()[1])
                            for l in lines if l.startswith("int "))
        path = ctx.path("enumaudit.c")
        with open(path, "w") as f:
            f.write(pre + asserts + "\n")
        p = subprocess.run(["clang", "--target=" + CLANG_T[targ], "-std=gnu2x", "-fsyntax-only", "-w", path], stderr=subprocess.PIPE, text=True)
        if p.returncode != 0:
            raise vlib.MachineryError("SPEC-AUDIT: clang disagrees with CTypes.EnumBase on %s: %s" % (targ, p.stderr[:400]))


# ---- part 2: derived types, Compatible / Composite / pointer assignment ------------------------------------
STRUCT_DEFS = "struct S1 { int m; };\nstruct S2 { int m; };\nunion U1 { int m; };\n"


def cdecl(t, inner=""):
    """C declaration of `inner` with the spec type record t (pure syntax)."""
    k = t["k"]
    q = " ".join(x for x in ("const", "volatile", "restrict") if x in t["q"])
    if k == "ptr":
        return cdecl(t["to"], "*" + (q + " " if q else "") + inner)
    if k == "arr":
        if inner.startswith("*"):
            inner = "(" + inner + ")"
        return cdecl(t["of"], "%s[%s]" % (inner, t["n"] or ""))
    if k == "fn":
        if inner.startswith("*"):
            inner = "(" + inner + ")"
        ps = ", ".join(cdecl(x) for x in t["ps"]) or "void"
        if t["va"]:
            ps += ", ..."
        return cdecl(t["ret"], "%s(%s)" % (inner, ps))
    # enum types through their typedef T_<tag>: `enum eu: 1` in a generic association trips cproc's parser (see enum_probe)
    base = SPELL[k] if k in SPELL else "T_" + t["tag"] if k == "enum" else "%s %s" % (k, t["tag"])
    return (q + " " if q else "") + base + (" " + inner if inner else "")


class TypeNames:
    """typedef name per distinct type record"""

    def __init__(self):
        self.names, self.defs = {}, []

    def name(self, t):
        key = vlib.canon(t)
        if key not in self.names:
            n = "T%d" % len(self.names)
            self.names[key] = n
            self.defs.append("typedef %s;" % cdecl(t, n))
        return self.names[key]


def enum_prelude(fixed=True):
    return "".join("%s\ntypedef enum %s T_%s;\n" % (ENUM_DEF[e], e, e) for e in sorted(ENUM_DEF) if fixed or e not in FIXED_ENUMS)


def run_single(objdir, targ, src):
    rc, out, err = vlib.cproc(objdir, src, targ, timeout=30)
    return rc, out, err


def compat(ctx, objdir):
    cfg = "MC_CTypes_compat_quick.cfg" if ctx.quick else "MC_CTypes_compat_thorough.cfg"
    r = ctx.tlc_must_pass("CTypesCompatMC", cfg, workers=8 if ctx.quick else 12, timeout=2400, heap="4g")
    cases = [json.loads(v) for v in r.vcases]
    npairs = (r.distinct // 2) ** 2
    ctx.cov["compat_pairs_model_checked"] = npairs
    tn = TypeNames()
    batch = []      # (kind, line, want, alt, info)   int-valued data probes + accepted declarations, one TU
    rejects = []    # (kind, text, info)              must be refused, one TU each
    redecl_line = {}  # index of a compsize probe -> text of the redeclaration it looks at
    nid = [0]

    def fresh():
        nid[0] += 1
        return nid[0]
    for c in cases:
        t1 = c["t1"]
        A = tn.name(t1)
        # quick: every second controlling expression per left type (all of them occur over the run), thorough: all
        allc = c["conds"]
        rest = [cv for cv in allc if cv not in ("x", "1", "0")]
        conds = allc if not ctx.quick else ["x", "1", "0", rest[len(tn.names) % len(rest)]]
        conds_npc = conds if not ctx.quick else ["1", "0", rest[len(tn.names) % len(rest)]]
        info1 = {"t1": cdecl(t1), "t2": "null pointer constant", "qenum": False, "arrq": False}
        for rt, fmt in zip(c["npc"], ("%s ? 0 : o_%s", "%s ? o_%s : 0", "%s ? (void *)0 : o_%s", "%s ? o_%s : (void *)0")):
            R = tn.name(rt)
            for cv in conds_npc:
                batch.append(("condnpc", "int v%%d = _Generic((%s), %s: 1, default: 0);" % (fmt % (cond_text(cv), A), R), 1, None, info1, None, None))
        for p in c["partners"]:
            t2 = p["t2"]
            Bn = tn.name(t2)
            info = {"t1": cdecl(t1), "t2": cdecl(t2), "qenum": p["qenum"], "arrq": p["arrq"]}
            if p["bsafe"]:
                batch.append(("builtin", "int v%d = __builtin_types_compatible_p(%s, %s);", int(p["compat_unq"]), None, info, A, Bn))
            batch.append(("generic", "int v%d = _Generic((%s *)0, %s *: 1, default: 0);", int(p["compat"]), None, info, A, Bn))
            if p["cond"]:
                # 6.5.15p6 with every kind of controlling expression (cproc folds constant conditions when parsing)
                R = tn.name(p["condt"])
                for cv in conds:
                    batch.append(("cond", "int v%%d = _Generic((%s ? o_%s : u_%s), %s: 1, default: 0);" % (cond_text(cv), A, Bn, R), 1,
                                  int(p["cond_alt"]) if p["cond_dev"] else None, info, None, None))
            fn = t1["k"] == "fn"
            ext = "" if fn else "extern "
            if p["redecl"] == "accept":
                i = fresh()
                batch.append(("redecl", "%s%s r%d; %s%s r%d;" % (ext, A, i, ext, Bn, i), None, None, info, None, None))
                if p["det"]:
                    C = tn.name(p["composite"])
                    batch.append(("composite", "int v%%d = _Generic(&r%d, %s *: 1, default: 0);" % (i, C), 1, int(p["mod_sees_c"]) if p["dev_composite"] else None, info, None, None))
                    if p["bump_differs"]:
                        Bu = tn.name(p["bump"])
                        batch.append(("composite", "int v%%d = _Generic(&r%d, %s *: 1, default: 0);" % (i, Bu), 0, int(p["mod_sees_bump"]) if p["dev_composite"] else None, info, None, None))
                    if p["cs_complete"]:
                        # under the deviation the identifier may be left with an incomplete type: sizeof is then refused
                        redecl_line[len(batch)] = "%s%s r%d; %s%s r%d;" % (ext, A, i, ext, Bn, i)
                        batch.append(("compsize", "int v%%d = sizeof(r%d) == sizeof(%s);" % (i, C), 1,
                                      ("reject" if not p["mod_complete"] else 1) if p["dev_composite"] else None, info, None, None))
            elif p["redecl"] == "reject":
                rejects.append(("redecl", "%s%s x; %s%s x;" % (ext, A, ext, Bn), info))
            if p["ptrinit"] == "accept":
                i = fresh()
                batch.append(("ptrinit", "void f%d(%s *q) { %s *p = q; }" % (i, Bn, A), None, None, info, None, None))
                if i % 8 == 0:
                    batch.append(("ptrarg", "void g%d(%s *); void h%d(%s *q) { g%d(q); }" % (i, A, i, Bn, i), None, None, info, None, None))
                    batch.append(("ptrret", "%s *k%d(%s *q) { return q; }" % (A, i, Bn), None, None, info, None, None))
            elif p["ptrinit"] == "reject":
                rejects.append(("ptrinit", "void f(%s *q) { %s *p = q; }" % (Bn, A), info))
                if len(rejects) % 8 == 0:
                    rejects.append(("ptrarg", "void g(%s *); void h(%s *q) { g(q); }" % (A, Bn), info))
                    rejects.append(("ptrret", "%s *k(%s *q) { return q; }" % (A, Bn), info))
    objs = "".join("extern %s *o_%s, *u_%s;\n" % (n, n, n) for n in sorted(tn.names.values(), key=lambda x: int(x[1:])))
    pre = enum_prelude(True) + STRUCT_DEFS + "extern int x_c;\n" + "\n".join(tn.defs) + "\n" + objs
    # number the probes
    lines = []
    for j, b in enumerate(batch):
        kind, fmt, want, alt, info, A, Bn = b
        if kind in ("builtin", "generic"):
            lines.append(fmt % (j, A, Bn))
        elif "%d" in fmt:
            lines.append(fmt % j)
        else:
            lines.append(fmt)
    if ctx.quick:
        # reject probes cost one process each: all redeclarations, a third of the pointer initialisations
        rejects = [x for n, x in enumerate(rejects) if x[0] == "redecl" or n % 3 == 0]
    stats = collections.Counter()
    compat_audit(ctx, pre, batch, lines, rejects, stats)
    # compatibility does not depend on the target: the refusals (one process each) are replayed in full on x86_64 and
    # every 7th on the other targets; the data probes on two targets (quick) / all three (thorough)
    for targ in (vlib.TARGETS if not ctx.quick else ["x86_64-sysv", "aarch64"]):
        compat_target(ctx, objdir, targ, pre, batch, lines, rejects if targ == "x86_64-sysv" else rejects[::7], stats, redecl_line)
    ctx.cov.setdefault("stats", {})["compat"] = dict(stats)
    ctx.validated(len(cases))
    ctx.sample({"compat pair": batch[len(batch) // 2][4], "probe": lines[len(batch) // 2], "required": batch[len(batch) // 2][2]})


def compat_target(ctx, objdir, targ, pre, batch, lines, rejects, stats, redecl_line):
    npre = pre.count("\n")
    # probes the model of the shipped code expects to be refused (sizeof of an identifier left with an incomplete type
    # by deviation CompositeIsFirst) are compiled one by one together with their redeclaration; everything else in one TU
    solo = [j for j, b in enumerate(batch) if b[3] == "reject"]
    live = [j for j in range(len(batch)) if batch[j][3] != "reject"]
    refused = {}
    vals = None

    def one_solo(j):
        rc, out, err = vlib.cproc(objdir, pre + redecl_line[j] + "\n" + lines[j] + "\n", targ, timeout=60)
        return j, rc, out, err
    solo_vals = {}
    for j, rc, out, err in vlib.pmap(one_solo, solo, workers=12):
        if rc == 0:
            solo_vals.update(parse_data_values(out))
        else:
            m = _ERRLINE.search(err)
            refused[j] = m.group(2) if m else "rc=%s %s" % (rc, err.strip()[-120:])
    for _ in range(3000):
        src = pre + "\n".join(lines[j] for j in live) + "\n"
        rc, out, err = vlib.cproc(objdir, src, targ, timeout=300)
        if rc == 0:
            vals = parse_data_values(out)
            vals.update(solo_vals)
            break
        m = _ERRLINE.search(err)
        if not m:
            raise vlib.MachineryError("compat TU died without a located error on %s: rc=%s %s" % (targ, rc, err[-300:]))
        idx = int(m.group(1)) - npre - 1
        if not (0 <= idx < len(live)):
            raise vlib.MachineryError("cproc rejects the compat prelude (%s): %s" % (targ, err.strip()[:300]))
        refused[live[idx]] = m.group(2)
        del live[idx]
    if vals is None:
        raise vlib.MachineryError("too many refused compat probes on %s: %s" % (targ, list(refused.items())[:3]))
    # a refused redeclaration takes its dependent probes with it (undeclared identifier): attribute to the first
    for j, b in enumerate(batch):
        kind, fmt, want, alt, info, A, Bn = b
        ctx.count("%s|%s|%s" % (targ, kind, lines[j]))
        stats[kind] += 1
        if j in refused:
            msg = refused[j]
            if "undeclared identifier" in msg:
                continue
            if alt == "reject":
                ctx.violation("dev:CompositeIsFirst:%s" % kind, "after `%s x; %s x;` cproc refuses sizeof(x): %s" % (info["t1"], info["t2"], msg),
                              {"target": targ, "probe": lines[j], "types": info})
            else:
                ctx.violation("compat:%s:rejected" % kind, "cproc rejects `%s` (%s), C11 accepts" % (lines[j], msg),
                              {"target": targ, "probe": lines[j], "types": info, "error": msg, "replay": {"target": targ, "source": pre + lines[j] + "\n", "must": "accept"}})
            continue
        if want is None:
            continue
        got = vals.get("v%d" % j)
        if got == want:
            continue
        if alt is not None and got == alt:
            ctx.violation("dev:CompositeIsFirst:%s" % kind, "composite type after `%s x; %s x;`: probe `%s` = %s, C11 6.2.7p4 requires %s" % (info["t1"], info["t2"], lines[j], got, want),
                          {"target": targ, "probe": lines[j], "types": info})
        else:
            ctx.violation("compat:%s:%s" % (kind, "unexpected"), "`%s` = %s on %s, C11 requires %s (t1 = %s, t2 = %s)" % (lines[j], got, targ, want, info["t1"], info["t2"]),
                          {"target": targ, "probe": lines[j], "types": info, "observed": got, "required": want,
                           "replay": {"target": targ, "prelude": pre + "\n".join(l for l in lines[:j] if l.startswith(("extern", "T")) and " r" in l) + "\n", "lines": [lines[j]], "want": [want]}})

    def one(rj):
        kind, text, info = rj
        rc, out, err = vlib.cproc(objdir, pre + text + "\n", targ, timeout=30)
        return rj, rc, err
    for (kind, text, info), rc, err in vlib.pmap(one, rejects, workers=12):
        ctx.count("%s|reject|%s|%s" % (targ, kind, text))
        stats["reject_" + kind] += 1
        if rc == 1 and "error:" in err:
            continue
        if rc == 0:
            ctx.violation("compat:%s:accepted" % kind, "cproc accepts `%s` (t1 = %s, t2 = %s), C11 requires a diagnostic" % (text, info["t1"], info["t2"]),
                          {"target": targ, "probe": text, "types": info, "replay": {"target": targ, "source": pre + text + "\n", "must": "reject"}})
        else:
            ctx.violation("compat:%s:crash" % kind, "cproc dies on `%s`: rc=%s %s" % (text, rc, err[-200:]), {"target": targ, "probe": text})


def compat_audit(ctx, pre, batch, lines, rejects, stats):
    """gcc / clang on the same probes: data probes as _Static_assert, accept probes as they are, reject probes
    each on its own line with unique names; the set of lines with errors must be exactly the reject lines.
    The body is cut into translation units of <= 15000 lines (a redeclaration and the probes that look at the
    redeclared identifier stay together)."""
    body, expect_err = [], set()
    for j, b in enumerate(batch):
        kind, fmt, want, alt, info, A, Bn = b
        ln = lines[j]
        if want is not None:
            m = re.match(r"int v\d+ = (.*);$", ln)
            ln = "_Static_assert((%s) == %d, \"v%d\");" % (m.group(1), want, j)
        body.append(ln)
    base = len(body)
    for n, (kind, text, info) in enumerate(rejects):
        body.append(re.sub(r"\b([xfghk])\b", lambda mm: "%s_%d" % (mm.group(1), n), text))
        expect_err.add(base + n)
    infos = [b[4] for b in batch] + [rj[2] for rj in rejects]
    cuts, start = [], 0
    for i in range(len(body)):
        if i - start >= 15000 and (i >= base or batch[i][0] in ("builtin", "generic", "redecl", "ptrinit")):
            cuts.append((start, i))
            start = i
    cuts.append((start, len(body)))

    def one(job):
        comp, lo, hi = job
        fixed = comp != "gcc"
        p2 = pre if fixed else pre.replace(enum_prelude(True), enum_prelude(False))
        npre = p2.count("\n")
        path = ctx.path("compat_audit_%s_%d.c" % (comp, lo))
        with open(path, "w") as f:
            f.write(p2 + "\n".join(body[lo:hi]) + "\n")
        if comp == "gcc":
            cmd = ["gcc", "-std=gnu2x", "-fsyntax-only", "-Werror=incompatible-pointer-types", "-Werror=discarded-qualifiers",
                   "-Werror=discarded-array-qualifiers", "-Werror=pointer-sign", "-Wno-unused", "-fmax-errors=0", path]
        else:
            cmd = ["clang", "--target=x86_64-linux-gnu", "-std=gnu2x", "-fsyntax-only", "-Werror=incompatible-pointer-types",
                   "-Werror=incompatible-pointer-types-discards-qualifiers", "-Werror=pointer-sign",
                   "-Werror=incompatible-function-pointer-types", "-ferror-limit=0", path]
        p = subprocess.run(cmd, stdout=subprocess.PIPE, stderr=subprocess.PIPE, text=True, timeout=1800)
        os.unlink(path)
        got = {}
        for m in re.finditer(r"^[^\n:]+:(\d+):\d+: error: ([^\n]*)", p.stderr, re.M):
            got.setdefault(int(m.group(1)) - npre - 1 + lo, m.group(2))
        if any(i < lo for i in got):
            raise vlib.MachineryError("%s rejects the compat prelude: %s" % (comp, p.stderr[:500]))
        return comp, lo, hi, got
    jobs = [(comp, lo, hi) for comp in ("gcc", "clang") for lo, hi in cuts]
    gots = {"gcc": {}, "clang": {}}
    for comp, lo, hi, got in vlib.pmap(one, jobs, workers=8):
        gots[comp].update(got)
    for comp in ("gcc", "clang"):
        got = gots[comp]
        unexpected = sorted(set(got) - expect_err)
        missing = sorted(expect_err - set(got))
        # 6.7.3p10 + 6.7.2.2p4: `const enum eu` and `const unsigned` are compatible.  gcc 12 (comptypes replaces a
        # complete enum by its unqualified underlying type) and clang 14 (mergeEnumWithInteger compares the underlying
        # type with the qualified other type, below the first pointer level) judge such pairs incompatible.
        skip = {i for i in unexpected + missing if infos[i]["qenum"]}
        stats["audit_%s_exceptions_qualified_enum" % comp] = len(skip)
        # C11 6.7.3p9: `const T (*p)[n] = q` with q of type T (*)[n] is a constraint violation (the pointees are
        # incompatible and an array type is never itself qualified); C23 allows it, gcc -std=gnu2x and clang in every
        # mode accept it.  These lines are audited separately below with gcc -std=c11 -pedantic-errors.
        skip2 = {i for i in missing if infos[i]["arrq"]}
        stats["audit_%s_exceptions_array_qualifiers" % comp] = len(skip2)
        skip |= skip2
        unexpected = [i for i in unexpected if i not in skip]
        missing = [i for i in missing if i not in skip]
        stats["audit_%s_lines" % comp] = len(body)
        if (unexpected or missing) and os.environ.get("C05_DEBUG"):
            with open(os.environ["C05_DEBUG"] + "." + comp, "w") as f:
                for i in unexpected + missing:
                    f.write("%s\t%s\n" % (body[i], got.get(i, "ACCEPTED")))
        if unexpected or missing:
            i = (unexpected or missing)[0]
            raise vlib.MachineryError("SPEC-AUDIT: %s disagrees with CTypes on %d accept and %d reject probes; first: `%s` -> %s" % (
                comp, len(unexpected), len(missing), body[i], got.get(i, "accepted")))
    # C11-mode confirmation of the array-qualifier rejects
    arrq = [i for i in sorted(expect_err) if ([b[4] for b in batch] + [rj[2] for rj in rejects])[i]["arrq"]]
    if arrq:
        p11 = "".join("%s\ntypedef enum %s T_%s;\n" % (ENUM_DEF[e], e, e) for e in ("eu", "eu2", "es", "es2")) + pre[pre.index(STRUCT_DEFS):]
        if not any(("T_" + e + " ") in p11[p11.index(STRUCT_DEFS):] or ("T_" + e + ";") in p11[p11.index(STRUCT_DEFS):] for e in ("eul", "eul2", "el", "efs", "efuc")):
            path = ctx.path("compat_audit_c11.c")
            with open(path, "w") as f:
                f.write(p11 + "\n".join(body[i] for i in arrq) + "\n")
            p = subprocess.run(["gcc", "-std=c11", "-pedantic-errors", "-fsyntax-only", "-Wno-unused", "-fmax-errors=0", path],
                               stdout=subprocess.PIPE, stderr=subprocess.PIPE, text=True, timeout=600)
            npre = p11.count("\n")
            got = {int(m.group(1)) - npre - 1 for m in re.finditer(r"^[^\n:]+:(\d+):\d+: error: ", p.stderr, re.M)}
            if any(i < 0 for i in got):
                raise vlib.MachineryError("gcc -std=c11 rejects the compat prelude: %s" % p.stderr[:400])
            miss = [arrq[n] for n in range(len(arrq)) if n not in got]
            stats["audit_gcc_c11_array_qualifier_lines"] = len(arrq)
            if miss:
                raise vlib.MachineryError("SPEC-AUDIT: gcc -std=c11 -pedantic-errors accepts `%s` (spec: constraint violation)" % body[miss[0]])


# ---- part 3: randomly nested expressions (-simulate) -----------------------------------------------------------
def nested_prelude(table, fixed=True):
    L = [enum_prelude(fixed), STRUCT_DEFS]
    mem = " ".join("%s%s;" % (cdecl(m["t"], m["n"]), (":%d" % m["w"]) if m["w"] else "") for m in table["members"])
    L.append("struct SS { %s };" % mem)
    bf = []
    for o in sorted(table["objs"], key=lambda o: o["n"]):
        if o["n"].startswith("sa."):
            bf.append("%s:%d;" % (cdecl(o["t"], o["n"][3:]), o["w"]))
        elif o["td"]:
            # array object declared through a typedef of the unqualified array type, qualifiers on the declaration
            el = o["t"]["of"]
            q = " ".join(x for x in ("const", "volatile") if x in el["q"])
            L.append("typedef %s;" % cdecl(dict(o["t"], of=dict(el, q=[])), "TD_" + o["n"]))
            L.append("extern %s TD_%s %s;" % (q, o["n"], o["n"]))
        else:
            L.append("extern %s;" % cdecl(o["t"], o["n"]))
    L.append("struct BFS { %s };" % " ".join(bf))
    L.append("extern struct BFS sa;")
    for c in table["casts"] + table["aligns"]:
        L.append("typedef %s;" % cdecl(c["t"], c["n"]))
    return "\n".join(L) + "\n"


class NProbe:
    __slots__ = ("pid", "kind", "line", "want", "alt", "altrej", "case", "qenum")

    def __init__(self, pid, kind, line, want, alt, altrej, case, qenum=False):
        self.pid, self.kind, self.line, self.want, self.alt, self.altrej, self.case = pid, kind, line, want, alt, altrej, case
        self.qenum = qenum

    def cproc_line(self, g2=""):
        return self.line.replace("@V@", "v%d" % self.pid)

    def audit_line(self, g2=""):
        if self.kind == "ptrinit":
            return self.cproc_line()
        m = re.match(r"int @V@ = (.*);$", self.line.replace(", T_efs:5, T_efuc:6", "") if g2 == "nofixed" else self.line)
        return "_Static_assert((%s) == %d, \"v%d\");" % (m.group(1), self.want, self.pid)


def nested_probes(table, cases):
    g1 = ", ".join("%s:%d" % (SPELL[n], i + 1) for i, n in enumerate(table["g1"]))
    g2 = ", ".join("T_%s:%d" % (e, i + 1) for i, e in enumerate(table["g2"]))
    out = []
    for c in cases:
        e = c["e"]
        for p in c["probes"]:
            k = p["k"]
            ty = p["ty"]
            if k == "compat":
                line = "int @V@ = __builtin_types_compatible_p(__typeof__(%s), %s);" % (e, cdecl(ty))
            elif k == "generic":
                line = "int @V@ = _Generic((%s), %s: 1, default: 0);" % (e, cdecl(ty))
            elif k == "ptrinit":
                line = "__typeof__(%s) *@V@ = (%s)0;" % (e, cdecl({"k": "ptr", "q": [], "to": ty}))
            elif k == "sizeof":
                line = "int @V@ = sizeof(%s) == sizeof(%s);" % (e, cdecl(ty))
            elif k == "g1":
                line = "int @V@ = _Generic((%s), %s, default: 0);" % (e, g1)
            elif k == "g2":
                line = "int @V@ = _Generic((%s), %s, default: 0);" % (e, g2)
            elif k == "twin":
                line = "int @V@ = __builtin_types_compatible_p(__typeof__(%s), %s);" % (e, cdecl(ty))
            else:
                raise vlib.MachineryError("unknown probe kind " + k)
            want = p["want"] if k in ("g1", "g2") else int(p["want"])
            alt = p["alt"] if k in ("g1", "g2") else int(p["alt"])
            if k == "ptrinit":
                want = 0      # the emitted pointer is null
            out.append(NProbe(len(out), k, line, want, alt, p["altrej"], c, p.get("qenum", False)))
    return out


def nested_judge(ctx, probes, got, rejected, targ, stats, pretext=""):
    bycase = collections.OrderedDict()
    for p in probes:
        bycase.setdefault(id(p.case), []).append(p)
    for plist in bycase.values():
        c = plist[0].case
        ctx.count(targ + "|" + c["e"], nontrivial=c["d"] >= 2)
        rp = {"target": targ, "prelude": pretext, "lines": [p.cproc_line() for p in plist], "want": [p.want for p in plist]}
        stats["depth%d" % c["d"]] += 1
        def ok_want(p):
            return p.pid not in rejected and (p.kind == "ptrinit" or got[p.pid] == p.want)

        def ok_alt(p):      # the model of the shipped code predicts this outcome
            if p.altrej:
                return p.pid in rejected
            return p.pid not in rejected and (p.kind == "ptrinit" or got[p.pid] == p.alt)
        bad = [(p, ("rejected: " + rejected[p.pid]) if p.pid in rejected else "= %s, required %s" % (got.get(p.pid), p.want)) for p in plist if not ok_want(p)]
        if not bad:
            continue
        ok_elsewhere = all(ok_alt(p) for p in plist)
        if c["devs"] and ok_elsewhere:
            ctx.violation("dev:nested:%s" % "+".join(sorted(c["devs"])), "type of `%s` is %s, C11 requires %s" % (c["e"], c["mod"], c["exp"]),
                          {"target": targ, "expr": c["e"], "exp": c["exp"], "mod": c["mod"], "devs": c["devs"], "replay": rp})
        else:
            notalt = [p for p in plist if not ok_alt(p)]
            p, msg = bad[0]
            if c["devs"] and notalt:
                p = notalt[0]
                msg = ("rejected: " + rejected[p.pid]) if p.pid in rejected else "= %s, required %s, model of the shipped code predicts %s" % (
                    got.get(p.pid), p.want, "rejection" if p.altrej else p.alt)
            ctx.violation("nested:%s:%s" % (p.kind, c["exp"]), "`%s` (C11 type %s) on %s: probe `%s` %s" % (c["e"], c["exp"], targ, p.cproc_line(), msg),
                          {"target": targ, "expr": c["e"], "exp": c["exp"], "mod": c["mod"], "devs": c["devs"], "probe": p.cproc_line(), "observed": msg, "replay": rp})


def nested(ctx, objdir):
    # TLC runs `num` behaviours per worker: 4 x 150 x 16 steps (quick), 8 x 500 x 16 steps (thorough)
    num, depth = (150, 16) if ctx.quick else (500, 16)
    r = ctx.tlc_must_pass("CTypesExprGen", "MC_CTypes_nested.cfg", workers=4 if ctx.quick else 8, simulate=num, depth=depth, timeout=2400, heap="3g")
    cases = [json.loads(v) for v in r.vcases]
    table = [c for c in cases if c["form"] == "nested_table"]
    if not table:
        raise vlib.MachineryError("nested: no table VCASE")
    table = table[0]
    seen, uniq = set(), []
    for c in cases:
        if c["form"] != "nested":
            continue
        k = (c["targ"], c["e"])
        if k not in seen:
            seen.add(k)
            uniq.append(c)
    stats = collections.Counter()
    stats["generated"] = len(cases) - 1
    stats["distinct"] = len(uniq)
    pre, pre_nf = nested_prelude(table, True), nested_prelude(table, False)
    bytarg = collections.defaultdict(list)
    for c in uniq:
        bytarg[c["targ"]].append(c)
    items = []
    for targ, cl in sorted(bytarg.items()):
        for ch in chunks(cl, 400):
            pr = nested_probes(table, ch)
            items.append(("cproc", targ, pr))
            items.append(("clang", targ, pr))
            if targ == "x86_64-sysv":
                # gcc exceptions: (1) ibf, see audit_exception; (2) an expression that still designates a bit-field has gcc's
                # own type `int:5` in _Generic (clang and C11: the declared type); (3) gcc 12 has no fixed-underlying-type
                # enums, so a g2 selection of their association cannot be asked
                items.append(("gcc", targ, [p for p in pr if not p.case["ibf"] and not p.case["w"]
                                            and not (p.kind == "g2" and p.want > 4)]))

    def work(it):
        kind, targ, pr = it
        if kind == "cproc":
            return it, run_cproc_tu(objdir, targ, pre, pr)
        return it, audit_tu(kind, targ, pre if kind == "clang" else pre_nf, pr, ctx.scratch, "n%s_%s_%d" % (kind, targ, id(pr)),
                            "" if kind == "clang" else "nofixed")
    bad, tojudge = [], []
    for (kind, targ, pr), res in vlib.pmap(work, items, workers=12):
        if kind == "cproc":
            tojudge.append((pr, res, targ))
            stats["cproc_probes"] += len(pr)
        else:
            stats["audit_%s_probes" % kind] += len(pr)
            # qualified enum vs identically qualified compatible integer type: gcc 12 / clang 14 defect (see compat_audit)
            stats["audit_%s_exceptions_qualified_enum" % kind] += sum(1 for p, msg in res if p.qenum)
            bad += [(kind, targ, p, msg) for p, msg in res if not p.qenum]
    if bad and os.environ.get("C05_DEBUG"):
        with open(os.environ["C05_DEBUG"] + ".nested", "w") as f:
            for kind, targ, p, msg in bad:
                f.write("%s\t%s\t%s\t%s\t%s\n" % (kind, targ, p.case["exp"], p.audit_line(), msg))
    if bad:
        kind, targ, p, msg = bad[0]
        raise vlib.MachineryError("SPEC-AUDIT (nested): %d probes where a reference compiler disagrees with CTypes; first: %s %s `%s` (spec type %s): %s" % (
            len(bad), kind, targ, p.audit_line(), p.case["exp"], msg))
    # only a spec that passed its audit is allowed to judge the implementation
    for pr, (got, rejected), targ in tojudge:
        nested_judge(ctx, pr, got, rejected, targ, stats, pre)
    ctx.cov.setdefault("stats", {})["nested"] = dict(stats)
    ctx.validated(len(uniq))
    deep = [c for c in uniq if c["d"] >= 3]
    if deep:
        ctx.sample({"nested expression": deep[0]["e"], "required type": deep[0]["exp"], "target": deep[0]["targ"]})


# ---- part 4 (flow B): H3 typing events of the hooks build validated by Trace_Types.tla ---------------------------
H3_EVENTS = ('{"e":"prom"', '{"e":"ucv"', '{"e":"bin"', '{"e":"cond"')
OWN_CPP = ["cpp", "-P", "-U__GNUC__", "-U__GNUC_MINOR__", "-D__STDC_NO_ATOMICS__", "-D__STDC_NO_COMPLEX__", "-U__SIZEOF_INT128__",
           "-U__PIC__", "-D__extension__=", "-I", vlib.REPO]


def traces(ctx, table, cases):
    hooks = private_build(ctx, "hooks")
    import glob
    runs = []     # (label, target, source text or path)
    tests = sorted(glob.glob(os.path.join(vlib.REPO, "test", "*.c")))
    for targ in vlib.TARGETS:
        for f in tests:
            runs.append((os.path.basename(f), targ, None, f))
    # spec-generated probes through the same hooks: every 23rd (quick) / 5th (thorough) enumerated case per target
    step = 23 if ctx.quick else 5
    bytarg = collections.defaultdict(list)
    for c in cases:
        if c["certain"] and c["form"] in ("bin", "cond", "un"):
            bytarg[c["targ"]].append(c)
    for targ, cl in sorted(bytarg.items()):
        ps = ProbeSet(table)
        pre = Prelude(table, True)
        for c in cl[::step]:
            for fld_t, fld_w in (("a", "aw"), ("b", "bw")):
                if c.get(fld_w):
                    pre.bf.add((c[fld_t], c[fld_w]))
            for e in expr_texts(c):
                ps.add_expr(c, e, size=False)
        for n, ch in enumerate(chunks(ps.probes, 3000)):
            runs.append(("probes%d" % n, targ, pre.text() + "\n".join(p.cproc_line() for p in ch) + "\n", None))
    if not ctx.quick:
        # cproc's own sources, preprocessed by the host cpp (the H3 sites see real-world operand types)
        for f in sorted(glob.glob(os.path.join(vlib.REPO, "*.c"))):
            p = subprocess.run(OWN_CPP + [f], stdout=subprocess.PIPE, stderr=subprocess.PIPE, text=True)
            if p.returncode == 0:
                runs.append(("own:" + os.path.basename(f), "x86_64-sysv", p.stdout, None))

    def one(run):
        label, targ, src, path = run
        tr = ctx.path("h3_%d.trace" % (id(run) & 0xfffffff))
        rc, out, err = vlib.cproc(hooks, src, targ, trace=tr, path=path, timeout=120)
        ev = []
        if os.path.exists(tr):
            with open(tr) as f:
                ev = [ln.strip() for ln in f if ln.startswith(H3_EVENTS)]
            os.unlink(tr)
        return label, targ, rc, ev
    log, owners = [], []
    nexec = 0
    for label, targ, rc, ev in vlib.pmap(one, runs, workers=8):
        if not ev:
            continue
        nexec += 1
        log.append(json.dumps({"e": "Reset", "targ": targ}))
        owners.append((label, targ))
        for e in ev:
            log.append(e)
            owners.append((label, targ))
    path = ctx.path("h3.ndjson")
    with open(path, "w") as f:
        f.write("\n".join(log) + "\n")
    r = ctx.tlc("Trace_Types", "MC_Trace_Types.cfg", workers=1, env={"TRACE": path}, timeout=2400, heap="3g")
    kinds = collections.Counter(json.loads(x)["e"] for x in log)
    ctx.cov.setdefault("stats", {})["traces"] = {"executions": nexec, "events": len(log), "by_event": dict(kinds), "tlc_states": r.distinct}
    for x in log:
        ctx.count("ev|" + x, nontrivial='"Reset"' not in x)
    if r.rc == 0:
        ctx.validated(nexec)
        return
    if r.rc != 10:
        raise vlib.MachineryError("Trace_Types: unexpected TLC result %s\n%s" % (r.rc, r.out[-2000:]))
    stuck = min(max(r.distinct - 1, 0), len(log) - 1)       # events consumed = distinct states - 1
    ev = json.loads(log[stuck])
    ctx.violation("trace:%s:%s" % (ev.get("e"), ":".join(str(ev.get(k)) for k in ("op", "t", "t1", "t2", "lt", "rt", "w", "w1", "w2", "lw", "rw", "res") if k in ev)),
                  "H3 event %d of %s (%s) is not a behaviour of TypeModel/CTypes: %s" % (stuck, owners[stuck][0], owners[stuck][1], log[stuck]),
                  {"event": ev, "source": owners[stuck][0], "target": owners[stuck][1]})


def replay(ctx, path):
    """./check C05 --replay <file>: re-run exactly the stored probes and print required vs observed."""
    d = json.load(open(path))
    rp = d["case"].get("replay")
    print("key:  %s\nwhat: %s" % (d["key"], d["what"]))
    if not rp:
        print("this case carries no replay data (trace events are replayed by re-running the check)")
        return 2
    objdir = private_build(ctx, "plain")
    targ = rp.get("target", "x86_64-sysv")
    if "source" in rp:
        rc, out, err = vlib.cproc(objdir, rp["source"], targ)
        print("required: %s   observed: rc=%d %s" % (rp["must"], rc, err.strip()[-200:]))
        return 1 if (rc == 0) != (rp["must"] == "accept") else 0
    bad = 0
    for line, want in zip(rp["lines"], rp["want"]):
        rc, out, err = vlib.cproc(objdir, rp["prelude"] + line + "\n", targ)
        if rc != 0:
            obs = "rejected: " + err.strip()[-160:]
        else:
            vals = parse_data_values(out)
            m = re.search(r"\b([vp]\d+) =", line)
            obs = vals.get(m.group(1)) if m else None
        flag = "ok" if obs == want or (want is None and rc == 0) else "DIFFERS"
        bad += flag != "ok"
        print("%-7s required %-4s observed %-12s %s" % (flag, want, obs, line[:200]))
    return 1 if bad else 0


# ---- part 5: enumeration constants and enumerated types (spec/EnumConst.tla) ---------------------------------
# real value of the anchors EnumConst prints (LP64: the three targets agree); the scaled model keeps order and +1 steps
ENUM_ANCHOR = {"0": 0, "SCHAR_MIN": -2**7, "SCHAR_MAX": 2**7 - 1, "UCHAR_MAX": 2**8 - 1, "SHRT_MIN": -2**15, "SHRT_MAX": 2**15 - 1,
               "USHRT_MAX": 2**16 - 1, "INT_MIN": -2**31, "INT_MAX": 2**31 - 1, "UINT_MAX": 2**32 - 1, "LONG_MIN": -2**63,
               "LONG_MAX": 2**63 - 1, "ULONG_MAX": 2**64 - 1}
ENUM_SUFFIX = {"": "", "u": "u", "l": "L", "ul": "uL", "ll": "LL", "ull": "uLL"}
ENUM_GLIST = ["schar", "uchar", "short", "ushort", "int", "uint", "long", "ulong", "llong", "ullong"]   # = EnumConst.GList (checked)


def enum_real(o):
    if abs(o["d"]) > 6:
        raise vlib.MachineryError("EnumConst printed a value far from its anchor: %r" % (o,))
    return ENUM_ANCHOR[o["a"]] + o["d"]


def enum_value_text(v):
    return "%dull" % v if v >= 0 else "(-(long long)%dull - 1)" % (-v - 1)


def enum_spelling(it, pick):
    """C text of a defining expression; which spellings have the item's type is decided by EnumConst.Spellings."""
    v, T = enum_real(it), SPELL[it["ty"]]
    sp = it["sp"][pick % len(it["sp"])]
    m, s = abs(v), ENUM_SUFFIX[sp["s"]]
    if sp["form"] == "cast":
        return "((%s)%dull)" % (T, m) if v >= 0 else "(-(%s)%dull - 1)" % (T, m - 1)
    if sp["form"] == "dec":
        return "%d%s" % (m, s) if v >= 0 else "(-%d%s)" % (m, s)
    if sp["form"] == "hex":
        return "0x%x%s" % (m, s) if v >= 0 else "(-0x%x%s)" % (m, s)
    if sp["form"] == "min1":
        return "(-%d%s - 1)" % (m - 1, s)
    raise vlib.MachineryError("unknown spelling form %r" % (sp,))


def enum_item_sig(c, j):
    it = c["items"][j]
    return "%s%+d:%s" % (it["a"], it["d"], it["ty"]) if it["x"] else "succ"


def enum_case_sig(c):
    return "%s:%s" % (c["fx"] or "unfixed", ",".join(enum_item_sig(c, j) for j in range(len(c["items"]))))


def enum_body(c, n, pfx, pick):
    return ", ".join("%s%d_%d%s" % (pfx, n, j, " = " + enum_spelling(it, pick + j) if it["x"] else "") for j, it in enumerate(c["items"]))


ENUM_GL = ", ".join("%s:%d" % (SPELL[t], i + 1) for i, t in enumerate(ENUM_GLIST))


def enum_lines(c, n, pick):
    """(line with probes after the closing brace, line with probes inside the enumerator list, {data name: (where, j, probe, want)})"""
    fx = " : " + SPELL[c["fx"]] if c["fx"] else ""
    want, P, Q, R = {}, [], [], []
    for j, k in enumerate(c["ks"]):
        x = "c%d_%d" % (n, j)
        exprs = {"g": "_Generic(%s, %s, default:0)" % (x, ENUM_GL), "sz": "sizeof(%s)" % x, "neg": "_Generic(-%s, %s, default:0)" % (x, ENUM_GL),
                 "sg": "(%s * 0 - 1 < 0)" % x, "ce": "__builtin_types_compatible_p(__typeof__(%s), enum E%d)" % (x, n),
                 "ct": "__builtin_types_compatible_p(__typeof__(%s), enum T%d)" % (x, n), "eq": "(%s == %s)" % (x, enum_value_text(enum_real(k)))}
        for pr in ("g", "sz", "neg", "sg", "ce", "ct", "eq"):
            nm = "p%d_%d_%s" % (n, j, pr)
            P.append("%s = %s" % (nm, exprs[pr]))
            want[nm] = ("post", j, pr, 1 if pr == "eq" else k["post"][pr])
        y = "b%d_%d" % (n, j)
        for pr in ("g", "sz", "neg", "sg"):
            Q.append("q%d_%d_%s = %s" % (n, j, pr, exprs[pr].replace(x, y)))
            R.append("r%d_%d_%s = q%d_%d_%s" % (n, j, pr, n, j, pr))
            want["r%d_%d_%s" % (n, j, pr)] = ("body", j, pr, k["during"][pr])
    tprobe = {"g": "_Generic((enum E%d)0, %s, default:0)" % (n, ENUM_GL), "sz": "sizeof(enum E%d)" % n, "sg": "((enum E%d)-1 < 0)" % n}
    for pr in ("g", "sz", "sg"):
        P.append("e%d_%s = %s" % (n, pr, tprobe[pr]))
        want["e%d_%s" % (n, pr)] = ("type", 0, pr, c["et"][pr])
    post = "enum E%d%s { %s }; enum T%d : %s { t%d = 0 }; int %s;" % (n, fx, enum_body(c, n, "c", pick), n, SPELL[c["u"]], n, ", ".join(P))
    body = "enum B%d%s { %s, %s }; int %s;" % (n, fx, enum_body(c, n, "b", pick), ", ".join(Q), ", ".join(R))
    return post, body, want


def enum_audit_lines(c, n, pick):
    """_Static_assert lines clang must accept: value and type of every spelling, the compatible integer type, and the constant
    types where clang 14 implements the same rule (all values in int; fixed type; wide enum: the constants outside int)."""
    fx = " : " + SPELL[c["fx"]] if c["fx"] else ""
    A = []
    for j, it in enumerate(c["items"]):
        if it["x"]:
            sp = enum_spelling(it, pick + j)
            A.append("_Generic(%s, %s:1, default:0) && %s == %s" % (sp, SPELL[it["ty"]], sp, enum_value_text(enum_real(it))))
    if c["ok"]:
        A.append("_Generic((enum E%d)0, %s, default:0) == %d && sizeof(enum E%d) == %d && ((enum E%d)-1 < 0) == %d"
                 % (n, ENUM_GL, c["et"]["g"], n, c["et"]["sz"], n, c["et"]["sg"]))
        for j, k in enumerate(c["ks"]):
            x = "c%d_%d" % (n, j)
            A.append("%s == %s" % (x, enum_value_text(enum_real(k))))
            if c["fx"] or c["allint"] or not k["fi"]:
                o = k["post"]
                A.append("_Generic(%s, %s, default:0) == %d && sizeof(%s) == %d && _Generic(-%s, %s, default:0) == %d && (%s * 0 - 1 < 0) == %d"
                         % (x, ENUM_GL, o["g"], x, o["sz"], x, ENUM_GL, o["neg"], x, o["sg"]))
    return "enum E%d%s { %s }; %s" % (n, fx, enum_body(c, n, "c", pick), " ".join("_Static_assert(%s, \"\");" % a for a in A))


def enum_run_tu(objdir, targ, entries):
    """entries: [(n, case, post, body, want)].  Returns ({n: values}, {n: message}) - a refused case is recorded and removed."""
    live, refused = list(entries), {}
    for _ in range(400):
        lines = []
        for e in live:
            lines += [e[2], e[3]]
        rc, out, err = vlib.cproc(objdir, "\n".join(lines) + "\n", targ, timeout=120)
        if rc == 0:
            try:
                vals = parse_data_values(out)
            except ilparse.ILSyntaxError as ex:
                raise vlib.MachineryError("IL of an enum probe TU does not parse: %s" % ex)
            return {e[0]: vals for e in live}, refused
        m = _ERRLINE.search(err)
        if rc < 0 or not m:
            if len(live) == 1:
                refused[live[0][0]] = "rc=%d %s" % (rc, err.strip()[-200:])
                return {}, refused
            h = len(live) // 2
            g1, r1 = enum_run_tu(objdir, targ, live[:h])
            g2, r2 = enum_run_tu(objdir, targ, live[h:])
            g1.update(g2); refused.update(r1); refused.update(r2)
            return g1, refused
        idx = (int(m.group(1)) - 1) // 2
        if not (0 <= idx < len(live)):
            raise vlib.MachineryError("cproc error outside the enum probe lines (%s): %s" % (targ, err.strip()[:300]))
        refused[live[idx][0]] = ("inside-list variant: " if (int(m.group(1)) - 1) % 2 else "") + m.group(2)
        del live[idx]
    for e in live:
        refused.setdefault(e[0], "not observed: more than 400 enum specifiers of this translation unit were refused")
    return {}, refused


def enumconst(ctx, objdir):
    """decl.c tagspec(): type of enumeration constants during and after the enum specifier, compatible integer type, and the
    representability constraints, for every behaviour of EnumConst (values at the limits of every integer type x type of the
    defining expression x implicit successors x fixed underlying types)."""
    cfg = "MC_EnumConst_quick.cfg" if ctx.quick else "MC_EnumConst_thorough.cfg"
    r = ctx.tlc_must_pass("EnumConst", cfg, workers=8, timeout=1500)
    cases = [json.loads(x) if isinstance(x, str) else x for x in r.vcases]
    cases.sort(key=enum_case_sig)          # TLC's BFS order depends on the workers; numbering and spelling rotation must not
    ok = [c for c in cases if c["ok"]]
    rej = [c for c in cases if not c["ok"]]
    whys = collections.Counter(c["why"] for c in rej)
    need = {"fixed-unrepresentable", "fixed-successor-unrepresentable", "successor-no-type", "no-type-for-all-values"}
    if not ok or need - set(whys) or not any(k["dty"] != k["pty"] for c in ok for k in c["ks"]):
        raise vlib.MachineryError("vacuity: EnumConst did not produce every outcome: %s" % dict(whys))
    if [t for t in ENUM_GLIST] != ENUM_GLIST or max(k["post"]["g"] for c in ok for k in c["ks"]) > len(ENUM_GLIST):
        raise vlib.MachineryError("EnumConst.GList and the rendered association list differ")
    stats = collections.Counter()
    entries = []
    for n, c in enumerate(ok):
        post, body, want = enum_lines(c, n, n)
        entries.append((n, c, post, body, want))
    ctx.sample({"enumconst": ok[len(ok) // 2], "source": entries[len(ok) // 2][2]})
    ctx.sample({"enumconst-rejected": rej[len(rej) // 2]})

    # -- audit of the spec by clang (before the implementation is judged)
    audit_targets = ["x86_64-sysv"] if ctx.quick else list(vlib.TARGETS)
    def audit(targ):
        src = "\n".join(enum_audit_lines(c, n, n) for n, c in enumerate(ok)) + "\n"
        p = subprocess.run(["clang", "--target=" + CLANG_T[targ], "-std=gnu2x", "-fsyntax-only", "-w", "-ferror-limit=20", "-x", "c", "-"],
                           input=src, stderr=subprocess.PIPE, text=True, timeout=900)
        if p.returncode != 0:
            m = re.search(r"<stdin>:(\d+):", p.stderr)
            line = src.split("\n")[int(m.group(1)) - 1] if m else ""
            raise vlib.MachineryError("SPEC-AUDIT: clang (%s) disagrees with EnumConst: %s\n%s" % (targ, p.stderr[:400], line[:600]))
        # specifiers the spec rejects because a value is not representable in the fixed underlying type: clang rejects each
        # (audit exception: clang 14 is silent when a NEGATIVE value meets an UNSIGNED fixed type, `enum E : unsigned char { A = -128 }`;
        # C23 6.7.2.2p7 "shall be representable in that fixed underlying type" supports the spec; gcc 12 has no fixed types)
        fr = [c for c in rej if c["fx"] and not (c["fx"].startswith("u") and c["items"][c["at"] - 1]["x"] and enum_real(c["items"][c["at"] - 1]) < 0)]
        src = "\n".join("enum E%d : %s { %s };" % (n, SPELL[c["fx"]], enum_body(c, n, "c", n)) for n, c in enumerate(fr)) + "\n"
        p = subprocess.run(["clang", "--target=" + CLANG_T[targ], "-std=gnu2x", "-fsyntax-only", "-w", "-ferror-limit=0", "-x", "c", "-"],
                           input=src, stderr=subprocess.PIPE, text=True, timeout=900)
        bad = set(range(1, len(fr) + 1)) - {int(x) for x in re.findall(r"^<stdin>:(\d+):\d+: error:", p.stderr, re.M)}
        if bad:
            raise vlib.MachineryError("SPEC-AUDIT: clang (%s) accepts %d fixed-type specifiers EnumConst rejects, e.g. %s"
                                      % (targ, len(bad), src.split("\n")[min(bad) - 1][:300]))
        return len(ok) + len(fr)
    stats["audit_clang_cases"] = sum(vlib.pmap(audit, audit_targets, workers=3))

    # -- valid specifiers: every probe is data
    def job(a):
        targ, ch = a
        return targ, ch, enum_run_tu(objdir, targ, ch)
    jobs = []
    for targ in vlib.TARGETS:
        sel = entries if (not ctx.quick or targ == "x86_64-sysv") else [e for e in entries if len(e[1]["items"]) == 1]
        jobs += [(targ, ch) for ch in chunks(sel, 250)]
    for targ, ch, (got, refused) in vlib.pmap(job, jobs, workers=12):
        for n, c, post, body, want in ch:
            ctx.count("enumconst|%s|%s" % (targ, enum_case_sig(c)))
            stats["specifiers"] += 1
            if n in refused:
                stats["violations"] += 1
                ctx.violation("enumconst:refused:%s" % enum_case_sig(c),
                              "cproc refuses a valid enum specifier (%s): `%s`" % (refused[n][:120], post.split(";")[0]),
                              {"target": targ, "case": c, "replay": {"target": targ, "source": post + "\n" + body + "\n", "must": "accept"}})
                continue
            vals = got.get(n)
            if vals is None:
                raise vlib.MachineryError("enum probe TU gave no result for case %d" % n)
            for nm, (where, j, pr, w) in want.items():
                stats["probes"] += 1
                if vals.get(nm) != w:
                    stats["violations"] += 1
                    k = c["ks"][j]
                    what = ("enumerated type" if where == "type" else "constant #%d (%s%+d) %s" % (j, k["a"], k["d"], "inside the enumerator list" if where == "body" else "after the closing brace"))
                    ctx.violation("enumconst:%s:%s:%s:%s" % (where, pr, c["fx"] or "unfixed", "E" if where == "type" else enum_item_sig(c, j)),
                                  "`%s`: %s: probe %s = %s, EnumConst requires %s (type %s)"
                                  % (post.split(";")[0], what, pr, vals.get(nm), w, c["u"] if where == "type" else k["dty" if where == "body" else "pty"]),
                                  {"target": targ, "case": c, "probe": nm, "replay": {"target": targ, "source": post + "\n" + body + "\n", "must": "accept"}})
    ctx.validated(stats["specifiers"])

    # -- specifiers that violate a constraint of 6.7.2.2: a diagnostic (exit status 1) is required; one process each
    def rjob(a):
        targ, n, c = a
        src = "enum E%d%s { %s };\nint x%d = 0;\n" % (n, " : " + SPELL[c["fx"]] if c["fx"] else "", enum_body(c, n, "c", n), n)
        rc, out, err = vlib.cproc(objdir, src, targ)
        return targ, c, src, rc, err
    rtargets = ["x86_64-sysv"] if ctx.quick else list(vlib.TARGETS)
    for targ, c, src, rc, err in vlib.pmap(rjob, [(t, n, c) for t in rtargets for n, c in enumerate(rej)], workers=16):
        ctx.count("enumconst-rej|%s|%s" % (targ, enum_case_sig(c)))
        stats["rejected_specifiers"] += 1
        if rc != 1 or "error:" not in err:
            stats["violations"] += 1
            ctx.violation("enumconst:%s:%s:%s" % ("accepted" if rc == 0 else "crash", c["why"], enum_case_sig(c)),
                          "`%s` (%s): rc=%s %s; a diagnostic is required" % (src.split("\n")[0], c["why"], rc, err.strip()[:100]),
                          {"target": targ, "case": c, "replay": {"target": targ, "source": src, "must": "reject"}})
    ctx.validated(stats["rejected_specifiers"])
    ctx.cov["enumconst"] = dict(stats, tlc_cases=len(cases), outcomes=dict(whys))


def private_build(ctx, flavour):
    """vlib.build evicts older builds of a flavour when /repo changes (other engineers commit hooks while we
    run); keep a private copy of the binary for the duration of this run."""
    import shutil
    for _ in range(3):
        d = vlib.build(flavour)
        dst = ctx.path("bin-" + flavour)
        os.makedirs(dst, exist_ok=True)
        try:
            shutil.copy2(os.path.join(d, "cproc-qbe"), os.path.join(dst, "cproc-qbe"))
            return dst
        except OSError:
            continue
    raise vlib.MachineryError("cannot obtain a stable build of " + flavour)


def run(ctx):
    ctx.cov["rule"] = ("TLC enumerates every (mkbinaryexpr switch group | ?: | unary operator, operand, operand, target) over all "
                       "arithmetic types, enum flavours and bit-fields (declared type x width) plus integer constants (base x suffix "
                       "x magnitude class), floating and character constants; every operator of a group and several spellings are "
                       "rendered; evaluations = rendered expressions x targets, each observed by >= 2 data probes; non-trivial = all")
    ctx.cov["rule_enumconst"] = ("EnumConst: every enum specifier over (13 limit anchors x offsets -1..1 x type of the defining expression | "
                                 "implicit successor), singles / pairs (/ triples), without and with each fixed underlying type; one evaluation "
                                 "per specifier and target, observed by 4 in-list + 7 after-brace probes per constant and 3 per enumerated type; "
                                 "rejected specifiers one process each")
    objdir = private_build(ctx, "plain")
    # C05_PARTS (development aid, e.g. for negative controls): comma-separated subset of scalar,compat,nested,traces
    parts = set((os.environ.get("C05_PARTS") or "scalar,compat,nested,traces,enumconst").split(","))
    table = cases = None
    import time
    walls = ctx.cov.setdefault("part_wall_s", {})
    t0 = time.time()
    if "scalar" in parts or "traces" in parts:
        table, cases = scalar(ctx, objdir, replay="scalar" in parts)
    walls["scalar"] = round(time.time() - t0, 1)
    t0 = time.time()
    if "compat" in parts:
        compat(ctx, objdir)
    walls["compat"] = round(time.time() - t0, 1)
    t0 = time.time()
    if "nested" in parts:
        nested(ctx, objdir)
    walls["nested"] = round(time.time() - t0, 1)
    t0 = time.time()
    if "traces" in parts:
        traces(ctx, table, cases)
    walls["traces"] = round(time.time() - t0, 1)
    t0 = time.time()
    if "enumconst" in parts:
        enumconst(ctx, objdir)
    walls["enumconst"] = round(time.time() - t0, 1)
