"""C05 - every expression is given the type C11 assigns it; compatibility judgements agree with 6.2.7.

Oracle: spec/CTypes.tla (declarative C11 typing for the three LP64 targets) and spec/TypeModel.tla
(transcription of type.c / expr.c).  TLC (CTypesMC, CTypesCompatMC, CTypesExprGen) checks that the
repaired model refines the declarative rules and prints every enumerated case as a VCASE line with the
type C11 requires (`exp`), the type the model of the shipped code yields (`mod`) and the deviations
that fire.  This file only renders the cases to C probes whose answer is *data* in the emitted IL
(`int g = _Generic((E), T1:1, ...)`, sizeof, __builtin_types_compatible_p, pointer initialisation,
redeclaration), runs cproc-qbe, decodes with ilparse and compares with the observations TLC printed
for `exp`.  gcc (host) and clang --target (3 targets) audit the spec on the same probes through
_Static_assert; a disagreement there is a MachineryError, never a VIOLATION.
Flow B: H3 events of the hooks build on /repo/test/*.c validated by Trace_Types.tla.
"""
import collections, json, os, re, subprocess
import vlib, ilparse

CLANG_T = {"x86_64-sysv": "x86_64-linux-gnu", "aarch64": "aarch64-linux-gnu", "riscv64": "riscv64-linux-gnu"}

# ---- C spelling of the spec's type names (syntax only) ---------------------------------------------
SPELL = {"bool": "_Bool", "char": "char", "schar": "signed char", "uchar": "unsigned char", "short": "short",
         "ushort": "unsigned short", "int": "int", "uint": "unsigned", "long": "long", "ulong": "unsigned long",
         "llong": "long long", "ullong": "unsigned long long", "float": "float", "double": "double",
         "ldouble": "long double", "void": "void"}
# realisations of CTypes.EnumTags; that each has the compatible type CTypes.EnumBase says is itself probed/audited
ENUM_DEF = {
    "eu": "enum eu { EU_A, EU_B };", "eu2": "enum eu2 { EU2_A, EU2_B };",
    "es": "enum es { ES_A = -1, ES_B };", "es2": "enum es2 { ES2_A = -1, ES2_B };",
    "eul": "enum eul { EUL_A, EUL_B = 0x100000000 };", "eul2": "enum eul2 { EUL2_A, EUL2_B = 0x100000000 };",
    "el": "enum el { EL_A = -1, EL_B = 0x100000000 };",
    "efs": "enum efs : short { EFS_A = 0 };", "efuc": "enum efuc : unsigned char { EFUC_A = 0 };",
}
FIXED_ENUMS = ("efs", "efuc")


def spell(name):
    """C type name for a scalar type name of the spec ('uint', 'enum eu'); enums through their typedef."""
    if name.startswith("enum "):
        return "T_" + name[5:]
    return SPELL[name]


def ident(name):
    return name[5:] if name.startswith("enum ") else name


def operand(side, name, w):
    return "%s_%s" % (side, ident(name)) if not w else "s%s.%s_%d" % (side, ident(name), w)


class Prelude:
    """Declarations shared by all probes of a translation unit."""

    def __init__(self, table, fixed=True):
        self.table = table
        self.fixed = fixed
        self.bf = set()

    def text(self):
        L = []
        tags = sorted(self.table["enumbase"])
        for e in tags:
            if e in FIXED_ENUMS and not self.fixed:
                continue
            L.append(ENUM_DEF[e])
            L.append("typedef enum %s T_%s;" % (e, e))
        names = list(self.table["g1"]) + ["enum " + e for e in tags if self.fixed or e not in FIXED_ENUMS]
        for n in names:
            L.append("extern %s a_%s, b_%s;" % (spell(n), ident(n), ident(n)))
        L.append("extern int x_c;")
        mem = []
        for (n, w) in sorted(self.bf):
            if n.startswith("enum ") and n[5:] in FIXED_ENUMS and not self.fixed:
                continue
            mem.append("%s %s_%d:%d;" % (spell(n), ident(n), w, w))
        if mem:
            L.append("struct BFS { %s };" % " ".join(mem))
            L.append("extern struct BFS sa, sb;")
        return "\n".join(L) + "\n"


def uses_fixed(c):
    s = json.dumps(c)
    return any(("enum " + e) in s for e in FIXED_ENUMS)


# ---- probes ---------------------------------------------------------------------------------------------
class Probe:
    __slots__ = ("pid", "kind", "ctype", "expr", "want", "alt", "case", "etext", "may_reject")

    def __init__(self, pid, kind, ctype, expr, want, alt, case, etext, may_reject=False):
        self.pid, self.kind, self.ctype, self.expr, self.want, self.alt, self.case, self.etext = pid, kind, ctype, expr, want, alt, case, etext
        self.may_reject = may_reject

    def cproc_line(self, g2=""):
        if self.kind == "p":
            return self.expr.replace("@NAME@", "p%d" % self.pid)
        return "%s v%d = %s;" % (self.ctype, self.pid, self.expr.replace("@G2@", g2))

    def audit_line(self, g2=""):
        if self.kind == "p":
            return self.expr.replace("@NAME@", "p%d" % self.pid)
        return "_Static_assert((%s) == %d, \"v%d\");" % (self.expr.replace("@G2@", g2), self.want, self.pid)


class ProbeSet:
    def __init__(self, table):
        self.table = table
        self.obs = {o["name"]: o for o in table["obs"]}
        self.g1 = ", ".join("%s:%d" % (SPELL[n], i + 1) for i, n in enumerate(table["g1"]))
        self.probes = []
        self.exprs = 0

    def g2(self, fixed):
        return ", ".join("T_%s:%d" % (e, i + 1) for i, e in enumerate(self.table["g2"]) if fixed or e not in FIXED_ENUMS)

    def add_expr(self, case, etext, enums=False, deep=False, szrej=False, size=True):
        """All observations of the type of expression `etext` whose required type is case['exp']."""
        exp, mod = self.obs[case["exp"]], self.obs.get(case["mod"])
        self.exprs += 1

        def add(kind, ctype, expr, want, alt):
            self.probes.append(Probe(len(self.probes), kind, ctype, expr, want, alt, case, etext))
        add("g", "int", "_Generic((%s), %s, default:0)" % (etext, self.g1), exp["g1"], mod and mod["g1"])
        if size:
            add("z", "unsigned long", "sizeof(%s)" % etext, exp["size"], mod and mod["size"])
            self.probes[-1].may_reject = szrej      # model: shipped code refuses this operand (deviation SizeofSeesBitfield)
        if enums:
            add("h", "int", "_Generic((%s), @G2@, default:0)" % etext, exp["g2"], mod and mod["g2"])
            # one probe for all twin enums: sum of 2^i * compatible(typeof(E), twin_i)
            wexpr = " + ".join("%d * __builtin_types_compatible_p(__typeof__(%s), T_%s)" % (1 << i, etext, tw)
                               for i, tw in enumerate(self.table["twins"]))
            enc = lambda o: sum((1 << i) * int(b) for i, b in enumerate(o["tw"]))
            add("w", "int", wexpr, enc(exp), mod and enc(mod))
        if deep and case["exp"] == case["mod"]:
            add("c", "int", "__builtin_types_compatible_p(__typeof__(%s), %s)" % (etext, spell(case["exp"])), 1, 1)
            for n in exp["near"]:
                add("n", "int", "__builtin_types_compatible_p(__typeof__(%s), %s)" % (etext, SPELL[n]), 0, 0)
            add("p", None, "__typeof__(%s) *@NAME@ = (%s *)0;" % (etext, spell(case["exp"])), 0, 0)


def parse_data_values(il):
    """name -> little-endian integer value of every data definition of the module."""
    m = ilparse.parse(il)
    out = {}
    for d in m["data"]:
        b, rel = ilparse.data_image(d)
        out[d["name"]] = int.from_bytes(bytes(b), "little")
    return out


_ERRLINE = re.compile(r"^<stdin>:(\d+):\d+: error: (.*)$", re.M)


def run_cproc_tu(objdir, targ, prelude, probes, g2=""):
    """Compile one TU of probes; returns ({pid: value}, {pid: error message}).  A probe cproc rejects is
    recorded and removed, the rest is retried (the required outcome of every rendered probe is acceptance)."""
    npre = prelude.count("\n")
    live = list(probes)
    rejected = {}
    for _ in range(400):
        src = prelude + "\n".join(p.cproc_line(g2) for p in live) + "\n"
        rc, out, err = vlib.cproc(objdir, src, targ, timeout=120)
        if rc == 0:
            try:
                vals = parse_data_values(out)
            except ilparse.ILSyntaxError as ex:
                raise vlib.MachineryError("IL of a probe TU does not parse: %s" % ex)
            got = {}
            for p in live:
                nm = ("p%d" if p.kind == "p" else "v%d") % p.pid
                if nm in vals:
                    got[p.pid] = vals[nm]
                else:
                    rejected[p.pid] = "no data emitted"
            return got, rejected
        m = _ERRLINE.search(err)
        if rc < 0 or not m:
            # crash / assertion: bisect by halves is overkill here; attribute to the TU
            if len(live) == 1:
                rejected[live[0].pid] = "rc=%d %s" % (rc, err.strip()[-200:])
                return {}, rejected
            h = len(live) // 2
            g1, r1 = run_cproc_tu(objdir, targ, prelude, live[:h], g2)
            gb, r2 = run_cproc_tu(objdir, targ, prelude, live[h:], g2)
            g1.update(gb)
            rejected.update(r1)
            rejected.update(r2)
            return g1, rejected
        idx = int(m.group(1)) - npre - 1
        if not (0 <= idx < len(live)):
            raise vlib.MachineryError("cproc rejects the probe prelude for %s: %s" % (targ, err.strip()[:300]))
        rejected[live[idx].pid] = m.group(2)
        del live[idx]
    raise vlib.MachineryError("more than 400 rejected probes in one TU (%s): %s" % (targ, list(rejected.items())[:3]))


def audit_tu(compiler, targ, prelude, probes, workdir, tag, g2=""):
    """Returns list of (probe, message) the reference compiler disagrees with."""
    npre = prelude.count("\n")
    src = prelude + "\n".join(p.audit_line(g2) for p in probes) + "\n"
    path = os.path.join(workdir, "audit_%s.c" % tag)
    with open(path, "w") as f:
        f.write(src)
    if compiler == "gcc":
        cmd = ["gcc", "-std=gnu2x", "-fsyntax-only", "-w", "-Werror=incompatible-pointer-types", "-Werror=discarded-qualifiers",
               "-fmax-errors=0", path]
    else:
        cmd = ["clang", "--target=" + CLANG_T[targ], "-std=gnu2x", "-fsyntax-only", "-w", "-Werror=incompatible-pointer-types",
               "-Werror=incompatible-pointer-types-discards-qualifiers", "-ferror-limit=0", path]
    p = subprocess.run(cmd, stdout=subprocess.PIPE, stderr=subprocess.PIPE, text=True, timeout=600)
    os.unlink(path)
    bad = []
    if p.returncode != 0:
        seen = set()
        for m in re.finditer(r"^[^\n:]+:(\d+):\d+: error: ([^\n]*)", p.stderr, re.M):
            idx = int(m.group(1)) - npre - 1
            if idx in seen:
                continue
            seen.add(idx)
            if not (0 <= idx < len(probes)):
                raise vlib.MachineryError("%s rejects the prelude (%s): %s" % (compiler, targ, p.stderr[:400]))
            bad.append((probes[idx], m.group(2)))
        if not bad:
            raise vlib.MachineryError("%s failed without a located error: %s" % (compiler, p.stderr[:400]))
    return bad


# ---- rendering of the scalar cases ----------------------------------------------------------------------
SUFFIX_SPELL = {"": [""], "u": ["u", "U"], "l": ["l", "L"], "ul": ["ul", "UL", "lu", "Lu", "uL"], "ll": ["ll", "LL"],
                "ull": ["ull", "ULL", "llu", "LLU", "Ull"]}
FLT_SPELL = {"": ["1.0", "1.", ".5", "1e2", "0x1p3", "0x.8p1"], "f": ["1.0f", "1e2F", "0x1p3f"], "l": ["1.0l", ".5L", "0x1p3L"]}


def lit_texts(c):
    vals = [0] if c["nbits"] == 0 else sorted({1 << (c["nbits"] - 1), (1 << c["nbits"]) - 1})
    out = []
    for v in vals:
        body = {"dec": "%d" % v, "oct": "0%o" % v, "hex": "0x%x" % v, "bin": "0b" + bin(v)[2:]}[c["base"]]
        if c["base"] == "dec" and v == 0:
            continue          # "0" is an octal constant
        for s in SUFFIX_SPELL[c["suffix"]]:
            out.append(body + s)
        if c["base"] == "hex":
            out.append("0X%X" % v + SUFFIX_SPELL[c["suffix"]][-1])
    return out


def expr_texts(c):
    f = c["form"]
    if f == "bin":
        a, b = operand("a", c["a"], c["aw"]), operand("b", c["b"], c["bw"])
        return ["%s %s %s" % (a, op, b) for op in c["ops"]]
    if f == "cond":
        a, b = operand("a", c["a"], c["aw"]), operand("b", c["b"], c["bw"])
        return ["%s ? %s : %s" % ({"x": "x_c", "1": "1", "0": "0"}[c["cv"]], a, b)]
    if f == "un":
        a = operand("a", c["a"], c["aw"])
        op = c["ops"][0]
        return ["sizeof %s" % a, "sizeof(%s)" % a] if op == "sizeof" else ["%s%s" % (op, a)]
    if f == "lit":
        return lit_texts(c)
    if f == "flt":
        return FLT_SPELL[c["suffix"]]
    if f == "chr":
        return [c["prefix"] + "'a'", c["prefix"] + "'\\0'"]
    raise vlib.MachineryError("unknown form " + f)


def case_key(c):
    k = [c["form"], c["site"]]
    for fld in ("a", "aw", "b", "bw", "cv", "base", "suffix", "nbits", "prefix"):
        if fld in c:
            k.append("%s" % (c[fld],))
    return ":".join(k)


def judge(ctx, ps, got, rejected, targ):
    """Compare cproc's observations with the spec's, per expression."""
    byexpr = collections.OrderedDict()
    for p in ps:
        byexpr.setdefault((id(p.case), p.etext), []).append(p)
    for (_, etext), plist in byexpr.items():
        c = plist[0].case
        ctx.count(targ + "|" + etext, nontrivial=True)
        rej = [(p, rejected[p.pid]) for p in plist if p.pid in rejected]
        if rej and all(p.may_reject and "bitfield" in msg for p, msg in rej):
            ctx.violation("dev:SizeofSeesBitfield:%s" % c["site"], "cproc rejects `sizeof(%s)`: %s" % (etext, rej[0][1]),
                          {"target": targ, "expr": etext, "case": c, "error": rej[0][1]})
            plist = [p for p in plist if p.pid not in rejected]
        elif rej:
            ctx.violation("reject:%s:%s:%s" % (c["site"], "+".join(c["ops"]), re.sub(r"[^a-z]+", "-", rej[0][1].lower())[:40]),
                          "cproc rejects a valid expression: %s (%s)" % (rej[0][0].cproc_line("G2"), rej[0][1]),
                          {"target": targ, "expr": etext, "case": c, "error": rej[0][1]})
            continue
        obs = {(p.kind, p.expr): got[p.pid] for p in plist}
        if all(got[p.pid] == p.want for p in plist):
            continue
        attributable = [p for p in plist if p.alt is not None]
        if c["devs"] and attributable and all(got[p.pid] == p.alt for p in attributable):
            ctx.violation("dev:%s:%s" % ("+".join(sorted(c["devs"])), c["site"]),
                          "type of `%s` is %s, C11 requires %s" % (etext, c["mod"], c["exp"]),
                          {"target": targ, "expr": etext, "case": c})
            continue
        wrong = [p for p in plist if got[p.pid] != p.want][0]
        ctx.violation("type:%s:%s:%s" % (c["site"], "+".join(c["ops"]), case_key(c)),
                      "type of `%s` on %s: probe %s = %d, C11 (%s) requires %d" % (etext, targ, wrong.expr, got[wrong.pid], c["exp"], wrong.want),
                      {"target": targ, "expr": etext, "case": c, "observed": {k[1]: v for k, v in obs.items()}})


def chunks(lst, n):
    for i in range(0, len(lst), n):
        yield lst[i:i + n]


def replay_and_audit(ctx, table, cases, objdir, label, audit_targets, per_tu=6000):
    """Render `cases` (all of one target each) and run cproc + the reference compilers."""
    bytarg = collections.defaultdict(list)
    for c in cases:
        bytarg[c["targ"]].append(c)
    stats = collections.Counter()
    jobs = []
    for targ, cl in sorted(bytarg.items()):
        ps = ProbeSet(table)
        pre_all, pre_nofixed = Prelude(table, True), Prelude(table, False)
        for c in cl:
            if not c["certain"]:
                stats["excluded_uncertain"] += 1
                continue
            for fld_t, fld_w in (("a", "aw"), ("b", "bw")):
                if c.get(fld_w):
                    pre_all.bf.add((c[fld_t], c[fld_w]))
                    pre_nofixed.bf.add((c[fld_t], c[fld_w]))
            enums = "enum " in json.dumps(c)
            h = int(vlib.sha(case_key(c))[:4], 16)
            # compat / near-miss / pointer-init probes: all small families, 1/16 of binary, 1/4 of conditional cases
            deep = h % 16 == 0 if c["form"] == "bin" else h % 4 == 0 if c["form"] == "cond" else True
            size = c["form"] != "bin" or h % 4 == 0 or not ctx.quick
            for i, e in enumerate(expr_texts(c)):
                ps.add_expr(c, e, enums=enums, deep=deep, szrej=c["szrej"][min(i, len(c["szrej"]) - 1)], size=size)
        stats["exprs"] += ps.exprs
        stats["probes"] += len(ps.probes)
        jobs.append((targ, ps, pre_all, pre_nofixed))

    def work(job):
        kind, targ, ps, plist, pre = job
        if kind == "cproc":
            return kind, targ, ps, plist, run_cproc_tu(objdir, targ, pre.text(), plist, ps.g2(True))
        # gcc 12 has no enums with fixed underlying type: its G2 list ends before them (indices unchanged)
        return kind, targ, ps, plist, audit_tu(kind, targ, pre.text(), plist, ctx.scratch, "%s_%s_%d" % (kind, targ, id(plist)),
                                               ps.g2(kind != "gcc"))

    work_items = []
    for targ, ps, pre_all, pre_nofixed in jobs:
        for ch in chunks(ps.probes, per_tu):
            work_items.append(("cproc", targ, ps, ch, pre_all))
        if targ in audit_targets:
            # the spec is audited in full on x86_64 (gcc and clang); on the other targets in full in the thorough
            # tier and on every case that mentions a target-dependent type plus a 1/8 sample in the quick tier
            def audited(p):
                if targ == "x86_64-sysv" or not ctx.quick:
                    return True
                cc = p.case
                return cc["form"] in ("chr", "lit", "flt", "un") or "char" in (cc.get("a"), cc.get("b")) or int(vlib.sha(case_key(cc))[:4], 16) % 8 == 1
            for ch in chunks([p for p in ps.probes if audited(p)], per_tu):
                work_items.append(("clang", targ, ps, ch, pre_all))
            if targ == "x86_64-sysv":
                nof = [p for p in ps.probes if not uses_fixed(p.case)]
                for ch in chunks(nof, per_tu):
                    work_items.append(("gcc", targ, ps, ch, pre_nofixed))
    results = vlib.pmap(work, work_items, workers=12)
    audit_bad = []
    for kind, targ, ps, plist, res in results:
        if kind == "cproc":
            got, rejected = res
            judge(ctx, plist, got, rejected, targ)
            stats["cproc_probes"] += len(plist)
        else:
            stats["audit_%s_probes" % kind] += len(plist)
            for p, msg in res:
                if audit_exception(kind, p):
                    stats["audit_%s_exceptions" % kind] += 1
                    continue
                audit_bad.append((kind, targ, p, msg))
    if audit_bad:
        kind, targ, p, msg = audit_bad[0]
        raise vlib.MachineryError("SPEC-AUDIT: %d probes where %s disagrees with CTypes, first: %s target %s `%s` (spec: %s) case %s: %s" % (
            len(audit_bad), kind, kind, targ, p.audit_line("G2"), p.case["exp"], json.dumps(p.case), msg))
    ctx.cov.setdefault("stats", {})[label] = dict(stats)
    return stats


def audit_exception(compiler, p):
    """Case classes on which a reference compiler is known not to implement the convention CTypes models
    (each with the clause that makes the spec's choice legitimate).  Kept as narrow as possible."""
    c = p.case
    if compiler == "gcc" and c.get("ibf"):
        # 6.7.2.1p5: bit-fields of types other than _Bool/int/unsigned are implementation-defined; gcc gives a
        # bit-field wider than int its own type `long:33` (pre-standard DR 315 reading) which matches no _Generic
        # association; clang and cproc use the declared type.  clang audits these cases.
        return max(c.get("aw", 0), c.get("bw", 0)) > 32
    if compiler == "clang" and c["form"] == "chr" and c.get("prefix") == "u8":
        return True       # clang 14 has no u8 character constants (C23 6.4.4.5); gcc audits them
    return False


# ---- part 1: arithmetic operands, exhaustive ----------------------------------------------------------------
def scalar(ctx, objdir):
    cfg = "MC_CTypes_quick.cfg" if ctx.quick else "MC_CTypes_thorough.cfg"
    r = ctx.tlc_must_pass("CTypesMC", cfg, workers=8 if ctx.quick else 12, timeout=1500, heap="3g")
    cases = [json.loads(v) for v in r.vcases]
    table = [c for c in cases if c["form"] == "table"]
    if len(table) != 1:
        raise vlib.MachineryError("expected exactly one table VCASE")
    table = table[0]
    cases = [c for c in cases if c["form"] != "table"]
    # vacuity: every return statement of typecommonreal and every code site is exercised by the enumeration
    brs = collections.Counter(c["br"] for c in cases)
    sites = collections.Counter(c["site"] for c in cases)
    need_br = {"ldouble", "double", "float", "same", "samesign", "urank", "ssize", "ullong", "int", "promote"}
    need_sites = {g["g"] for g in table["groups"]} | {"cond", "unary", "inttype", "fltlit", "charconst"}
    if not need_br <= set(brs) or not need_sites <= set(sites):
        raise vlib.MachineryError("vacuity: branches/sites not enumerated: %s %s" % (need_br - set(brs), need_sites - set(sites)))
    ctx.cov["typecommonreal_branches"] = dict(brs)
    ctx.cov["sites"] = dict(sites)
    st = replay_and_audit(ctx, table, cases, objdir, "scalar", audit_targets=set(vlib.TARGETS))
    ctx.validated(len(cases))
    enum_probe(ctx, table, objdir)
    for c in cases[:: max(1, len(cases) // 4)][:4]:
        ctx.sample({"case": c, "rendered": expr_texts(c)[0]})
    return table


def enum_probe(ctx, table, objdir):
    """decl.c tagspec: the compatible integer type chosen for each enum flavour is CTypes.EnumBase."""
    pre = Prelude(table, True).text()
    lines, want = [], {}
    for e, base in sorted(table["enumbase"].items()):
        for k in table["g1"]:
            nm = "eb_%s_%s" % (e, k)
            lines.append("int %s = __builtin_types_compatible_p(enum %s, %s);" % (nm, e, SPELL[k]))
            want[nm] = int(k == base)
        lines.append("unsigned long ez_%s = sizeof(enum %s);" % (e, e))
    src = pre + "\n".join(lines) + "\n"
    for targ in vlib.TARGETS:
        rc, out, err = vlib.cproc(objdir, src, targ)
        if rc != 0:
            ctx.violation("reject:enumdef", "cproc rejects the enum flavours: %s" % err.strip()[:200], {"target": targ})
            continue
        vals = parse_data_values(out)
        for nm, w in want.items():
            ctx.count("enumbase|%s|%s" % (targ, nm))
            if vals.get(nm) != w:
                ctx.violation("enumbase:%s" % nm, "enum compatible type: %s = %s, spec %d" % (nm, vals.get(nm), w), {"target": targ, "probe": nm})
        asserts = "\n".join("_Static_assert(%s == %d, \"%s\");" % (l.split(" = ", 1)[1].rstrip(";"), want[l.split()[1]], l.split()[1])
                            for l in lines if l.startswith("int "))
        path = ctx.path("enumaudit.c")
        with open(path, "w") as f:
            f.write(pre + asserts + "\n")
        p = subprocess.run(["clang", "--target=" + CLANG_T[targ], "-std=gnu2x", "-fsyntax-only", "-w", path], stderr=subprocess.PIPE, text=True)
        if p.returncode != 0:
            raise vlib.MachineryError("SPEC-AUDIT: clang disagrees with CTypes.EnumBase on %s: %s" % (targ, p.stderr[:400]))


def private_build(ctx, flavour):
    """vlib.build evicts older builds of a flavour when /repo changes (other engineers commit hooks while we
    run); keep a private copy of the binary for the duration of this run."""
    import shutil
    for _ in range(3):
        d = vlib.build(flavour)
        dst = ctx.path("bin-" + flavour)
        os.makedirs(dst, exist_ok=True)
        try:
            shutil.copy2(os.path.join(d, "cproc-qbe"), os.path.join(dst, "cproc-qbe"))
            return dst
        except OSError:
            continue
    raise vlib.MachineryError("cannot obtain a stable build of " + flavour)


def run(ctx):
    ctx.cov["rule"] = ("TLC enumerates every (mkbinaryexpr switch group | ?: | unary operator, operand, operand, target) over all "
                       "arithmetic types, enum flavours and bit-fields (declared type x width) plus integer constants (base x suffix "
                       "x magnitude class), floating and character constants; every operator of a group and several spellings are "
                       "rendered; evaluations = rendered expressions x targets, each observed by >= 2 data probes; non-trivial = all")
    objdir = private_build(ctx, "plain")
    scalar(ctx, objdir)
